(* Types of the rule table that harness/translate/rule_table.py fills in (Gen/RuleTable.v). *)
From Coq Require Import List ZArith NArith Bool.
Require Import PV.Base.Str.
Import ListNotations.

Inductive value : Set := VBool (b : bool) | VInt (z : Z) | VStr (s : str) | VOther.
Inductive cty : Set := TBool | TInt | TStr.
(* what a rule's valid_value_fn accepts *)
Inductive validator : Set :=
| VNone                              (* no validator *)
| VRange (lo hi : option Z)          (* lo <= v <= hi *)
| VIn (l : list str)                 (* membership in a list of strings *)
| VOpaque.                           (* anything else: not modelled (correspondence only) *)
Record citem : Set := mkItem { ci_name : str; ci_ty : cty; ci_default : value; ci_valid : validator }.
Record rule : Set := mkRule {
  r_id : str; r_names : list str; r_default : bool; r_fix : bool; r_level : Z;
  r_cb_start : bool; r_cb_token : bool; r_cb_line : bool; r_cb_complete : bool;
  r_items : list citem }.
Definition r_idents (r : rule) : list str := r_id r :: r_names r.
