(* Stable insertion sort driven by a boolean "less than" only - the model of Python's
   sorted(), which is stable and calls nothing but __lt__.  Generic lemmas: the result is a
   permutation, it is sorted, and (when any two distinct elements are comparable) it does not
   depend on the order of the input. *)
From Coq Require Import List Bool Permutation Sorted Lia.
Import ListNotations.

Section Sort.
Context {A : Type} (lt : A -> A -> bool).

(* place x before the first element that is not smaller than x: stable when folding from the right *)
Fixpoint insert (x : A) (l : list A) : list A :=
  match l with
  | [] => [x]
  | y :: r => if lt y x then y :: insert x r else x :: y :: r
  end.
Definition sort (l : list A) : list A := fold_right insert [] l.

Definition le_rel (a b : A) : Prop := lt b a = false.
Definition lt_rel (a b : A) : Prop := lt a b = true.

Lemma insert_perm x l : Permutation (insert x l) (x :: l).
Proof.
  induction l as [|y r IH]; cbn [insert]; [reflexivity|].
  destruct (lt y x); [|reflexivity].
  rewrite IH. apply perm_swap.
Qed.

Lemma sort_perm l : Permutation (sort l) l.
Proof.
  induction l as [|x r IH]; cbn [sort fold_right]; [reflexivity|].
  fold (sort r). rewrite insert_perm. now constructor.
Qed.

Lemma insert_In x y l : In y (insert x l) <-> y = x \/ In y l.
Proof.
  split; intro H.
  - apply (Permutation_in _ (insert_perm x l)) in H. destruct H; auto.
  - apply (Permutation_in _ (Permutation_sym (insert_perm x l))). destruct H; [left|right]; auto.
Qed.

Lemma sort_In y l : In y (sort l) <-> In y l.
Proof. split; apply Permutation_in; [apply sort_perm | apply Permutation_sym, sort_perm]. Qed.

Hypothesis lt_asym : forall a b, lt a b = true -> lt b a = false.
(* negative transitivity: "not smaller" is transitive *)
Hypothesis le_trans : forall a b c, lt b a = false -> lt c b = false -> lt c a = false.

Lemma insert_sorted x l : StronglySorted le_rel l -> StronglySorted le_rel (insert x l).
Proof.
  induction l as [|y r IH]; intros S; cbn [insert].
  - repeat constructor.
  - inversion S as [|? ? Sr Hy]; subst. destruct (lt y x) eqn:E.
    + constructor; [apply IH; exact Sr|].
      apply Forall_forall. intros z Hz. apply insert_In in Hz as [->|Hz].
      * unfold le_rel. now apply lt_asym.
      * rewrite Forall_forall in Hy. now apply Hy.
    + constructor; [exact S|]. constructor; [exact E|].
      rewrite Forall_forall in *. intros z Hz. unfold le_rel in *.
      apply (le_trans x y z); [exact E | now apply Hy].
Qed.

Lemma sort_sorted l : StronglySorted le_rel (sort l).
Proof.
  induction l as [|x r IH]; cbn [sort fold_right]; [constructor|].
  now apply insert_sorted.
Qed.

(* two strictly sorted lists with the same elements are equal *)
Lemma strict_sorted_perm_eq : forall l1 l2,
  StronglySorted lt_rel l1 -> StronglySorted lt_rel l2 -> Permutation l1 l2 -> l1 = l2.
Proof.
  induction l1 as [|a r1 IH]; intros l2 S1 S2 P.
  - apply Permutation_nil in P. now subst.
  - destruct l2 as [|b r2]; [apply Permutation_sym, Permutation_nil in P; discriminate|].
    inversion S1 as [|? ? S1r H1]; inversion S2 as [|? ? S2r H2]; subst.
    assert (a = b) as ->.
    { assert (Ia : In a (b :: r2)) by (apply (Permutation_in _ P); now left).
      assert (Ib : In b (a :: r1)) by (apply (Permutation_in _ (Permutation_sym P)); now left).
      destruct Ia as [->|Ia]; [reflexivity|]. destruct Ib as [->|Ib]; [reflexivity|].
      rewrite Forall_forall in H1, H2. specialize (H1 _ Ib). specialize (H2 _ Ia).
      unfold lt_rel in *. rewrite (lt_asym _ _ H1) in H2. discriminate. }
    f_equal. apply IH; auto. now apply Permutation_cons_inv in P.
Qed.

Definition total_on (l : list A) : Prop :=
  forall a b, In a l -> In b l -> a = b \/ lt a b = true \/ lt b a = true.

Lemma sorted_strict l : NoDup l -> total_on l -> StronglySorted le_rel l -> StronglySorted lt_rel l.
Proof.
  induction l as [|a r IH]; intros N T S; [constructor|].
  inversion N as [|? ? Na Nr]; inversion S as [|? ? Sr Ha]; subst.
  constructor.
  - apply IH; auto. intros x y Hx Hy. apply T; now right.
  - rewrite Forall_forall in *. intros z Hz. specialize (Ha z Hz). unfold le_rel, lt_rel in *.
    destruct (T a z) as [->|[H|H]]; [now left|now right|contradiction|exact H|congruence].
Qed.

Theorem sort_perm_invariant l l' :
  NoDup l -> total_on l -> Permutation l l' -> sort l = sort l'.
Proof.
  intros N T P.
  assert (N' : NoDup l') by (eapply Permutation_NoDup; eauto).
  assert (T' : total_on l').
  { intros a b Ha Hb. apply T; eapply Permutation_in; try apply Permutation_sym; eauto. }
  apply strict_sorted_perm_eq.
  - apply sorted_strict; [eapply Permutation_NoDup; [apply Permutation_sym, sort_perm|exact N] | | apply sort_sorted].
    intros a b Ha Hb. apply T; now apply sort_In.
  - apply sorted_strict; [eapply Permutation_NoDup; [apply Permutation_sym, sort_perm|exact N'] | | apply sort_sorted].
    intros a b Ha Hb. apply T'; now apply sort_In.
  - rewrite sort_perm, sort_perm. exact P.
Qed.

Lemma sort_length l : length (sort l) = length l.
Proof. apply Permutation_length, sort_perm. Qed.

End Sort.

(* removing adjacent duplicates of a sorted list (the model of a Python set handed to sorted()) *)
Section Dedup.
Context {A : Type} (eqb : A -> A -> bool).
Fixpoint dedup_adj (l : list A) : list A :=
  match l with
  | [] => []
  | x :: r => match r with
              | y :: _ => if eqb x y then dedup_adj r else x :: dedup_adj r
              | [] => [x]
              end
  end.
End Dedup.
