(* Strings as lists of Unicode code points, and the few list utilities every model shares.
   Definitions only (lemmas live in Base/StrLemmas.v). *)
From Coq Require Import List NArith Bool Arith.
Import ListNotations.

Definition chr := N.
Definition str := list N.

Definition c_nl : N := 10.  Definition c_cr : N := 13.  Definition c_tab : N := 9.
Definition c_sp : N := 32.  Definition c_hash : N := 35. Definition c_bt : N := 96.
Definition c_tilde : N := 126. Definition c_eq : N := 61. Definition c_dash : N := 45.
Definition c_star : N := 42. Definition c_us : N := 95. Definition c_gt : N := 62.
Definition c_lt : N := 60. Definition c_plus : N := 43. Definition c_dot : N := 46.
Definition c_rpar : N := 41. Definition c_bslash : N := 92. Definition c_amp : N := 38.
Definition c_quot : N := 34. Definition c_lbr : N := 91. Definition c_rbr : N := 93.
Definition c_bang : N := 33. Definition c_colon : N := 58. Definition c_comma : N := 44.

Fixpoint str_eqb (a b : str) : bool :=
  match a, b with
  | [], [] => true
  | x :: a', y :: b' => N.eqb x y && str_eqb a' b'
  | _, _ => false
  end.

Fixpoint list_eqb {A} (e : A -> A -> bool) (x y : list A) : bool :=
  match x, y with
  | [], [] => true
  | a :: x', b :: y' => e a b && list_eqb e x' y'
  | _, _ => false
  end.

Definition is_sp (c : N) : bool := N.eqb c c_sp.
(* number of leading occurrences of c *)
Fixpoint lead (c : N) (s : str) : nat :=
  match s with x :: r => if N.eqb x c then S (lead c r) else 0 | [] => 0 end.
Fixpoint dropn (n : nat) (s : str) : str :=
  match n, s with S m, _ :: r => dropn m r | _, _ => s end.
Fixpoint taken (n : nat) (s : str) : str :=
  match n, s with S m, x :: r => x :: taken m r | _, _ => [] end.
Definition rstrip_c (c : N) (s : str) : str := rev (dropn (lead c (rev s)) (rev s)).
Definition rstrip (s : str) : str := rstrip_c c_sp s.
Definition lstrip (s : str) : str := dropn (lead c_sp s) s.
Definition strip (s : str) : str := lstrip (rstrip s).
Definition is_blank (s : str) : bool := forallb is_sp s.
Definition all_in (cs : list N) (s : str) : bool := forallb (fun x => existsb (N.eqb x) cs) s.
Fixpoint count_c (c : N) (s : str) : nat :=
  match s with [] => 0 | x :: r => (if N.eqb x c then 1 else 0) + count_c c r end.
Definition starts_c (c : N) (s : str) : bool := match s with x :: _ => N.eqb x c | [] => false end.
Fixpoint prefix_b (p s : str) : bool :=
  match p, s with
  | [], _ => true
  | x :: p', y :: s' => N.eqb x y && prefix_b p' s'
  | _, [] => false
  end.
Definition suffix_b (p s : str) : bool := prefix_b (rev p) (rev s).
Definition is_nil {A} (l : list A) : bool := match l with [] => true | _ => false end.

(* Python's s.split(sep) for a one-character separator: always at least one piece *)
Fixpoint split_acc (sep : N) (s cur : str) : list str :=
  match s with
  | [] => [rev cur]
  | x :: r => if N.eqb x sep then rev cur :: split_acc sep r [] else split_acc sep r (x :: cur)
  end.
Definition split_c (sep : N) (s : str) : list str := split_acc sep s [].
Definition split_nl (s : str) : list str := split_c c_nl s.
Fixpoint join_c (sep : N) (ls : list str) : str :=
  match ls with [] => [] | [l] => l | l :: r => l ++ sep :: join_c sep r end.
Definition join_nl (ls : list str) : str := join_c c_nl ls.
(* the CommonMark notion of the lines of a text: no empty piece after a final newline *)
Definition lines_of_text (s : str) : list str :=
  match s with [] => [] | _ =>
    let ps := split_nl s in
    match rev ps with [] :: r => rev r | _ => ps end
  end.

Definition is_digit (c : N) : bool := N.leb 48 c && N.leb c 57.
Fixpoint take_digits (s : str) : str :=
  match s with c :: r => if is_digit c then c :: take_digits r else [] | [] => [] end.
Fixpoint num_of (acc : N) (s : str) : N :=
  match s with c :: r => num_of (acc * 10 + (c - 48)) r | [] => acc end.

Fixpoint number_from {A} (n : nat) (l : list A) : list (nat * A) :=
  match l with [] => [] | x :: r => (n, x) :: number_from (S n) r end.
