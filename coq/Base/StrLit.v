(* String literals for hand-written statements: "abc" as a list of code points (ASCII only). *)
From Coq Require Import List NArith String Ascii.
Require Import PV.Base.Str.
Definition lit (s : string) : str := map N_of_ascii (list_ascii_of_string s).
