(* Lexicographic order on strings by code point = Python's str.__lt__. *)
From Coq Require Import List NArith Bool Lia.
Require Import PV.Base.Str.
Import ListNotations.

Fixpoint str_ltb (a b : str) : bool :=
  match a, b with
  | _, [] => false
  | [], _ :: _ => true
  | x :: a', y :: b' => if N.ltb x y then true else if N.eqb x y then str_ltb a' b' else false
  end.

Lemma str_eqb_spec : forall a b, reflect (a = b) (str_eqb a b).
Proof.
  induction a as [|x a IH]; destruct b as [|y b]; cbn [str_eqb]; try (constructor; congruence).
  destruct (N.eqb_spec x y); cbn [andb].
  - destruct (IH b); constructor; congruence.
  - constructor; congruence.
Qed.

Lemma str_eqb_refl a : str_eqb a a = true.
Proof. now destruct (str_eqb_spec a a). Qed.

Lemma str_ltb_irrefl a : str_ltb a a = false.
Proof. induction a as [|x a IH]; cbn [str_ltb]; [reflexivity|]. now rewrite N.ltb_irrefl, N.eqb_refl. Qed.

Lemma str_ltb_asym : forall a b, str_ltb a b = true -> str_ltb b a = false.
Proof.
  induction a as [|x a IH]; destruct b as [|y b]; cbn [str_ltb]; try congruence.
  destruct (N.ltb_spec x y) as [L1|L1], (N.ltb_spec y x) as [L2|L2], (N.eqb_spec x y) as [E1|E1], (N.eqb_spec y x) as [E2|E2]; try lia; try congruence; auto.
Qed.

Lemma str_ltb_total : forall a b, a = b \/ str_ltb a b = true \/ str_ltb b a = true.
Proof.
  induction a as [|x a IH]; destruct b as [|y b]; cbn [str_ltb]; auto.
  destruct (N.ltb_spec x y) as [L1|L1], (N.ltb_spec y x) as [L2|L2], (N.eqb_spec x y) as [E1|E1], (N.eqb_spec y x) as [E2|E2]; try lia; auto.
  subst. destruct (IH b) as [->|[H|H]]; auto.
Qed.

Lemma str_ltb_trans : forall a b c, str_ltb a b = true -> str_ltb b c = true -> str_ltb a c = true.
Proof.
  induction a as [|x a IH]; destruct b as [|y b]; destruct c as [|z c]; cbn [str_ltb]; try congruence.
  destruct (N.ltb_spec x y) as [L1|L1], (N.ltb_spec y z) as [L2|L2], (N.ltb_spec x z) as [L3|L3],
    (N.eqb_spec x y) as [E1|E1], (N.eqb_spec y z) as [E2|E2], (N.eqb_spec x z) as [E3|E3];
    try lia; try congruence; auto. apply IH.
Qed.

(* "not smaller" is transitive (needed by the sort lemmas) *)
Lemma str_le_trans : forall a b c, str_ltb b a = false -> str_ltb c b = false -> str_ltb c a = false.
Proof.
  intros a b c H1 H2. destruct (str_ltb c a) eqn:E; [|reflexivity].
  destruct (str_ltb_total a b) as [->|[H|H]]; [congruence| |congruence].
  rewrite (str_ltb_trans c a b E H) in H2. discriminate.
Qed.
