(* Extraction of the executable oracles and models to OCaml (ExtrOcamlBasic only: bool, option, unit, list, prod, sumbool map
   to the OCaml built-ins; nat, N, Z, positive stay as extracted inductives). *)
Require Extraction.
Require Import ExtrOcamlBasic.
Require Import PV.Base.Str PV.Model.WF PV.Model.Pos PV.Spec.CMBlock PV.Spec.RuleSpec.
Extraction Language OCaml.
Extraction "pvmodel.ml" stream_ok doc_pos_ok doc_monotone CMBlock.html CMBlock.in_F RuleSpec.run_rules RuleSpec.leaf_positions.
