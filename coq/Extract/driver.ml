(* Line protocol between the Python harness and the extracted Coq functions.
   One request per line: COMMAND followed by decimal integers.  One answer per line. *)
open Pvmodel

let rec nat_of_int i = if i <= 0 then O else S (nat_of_int (i - 1))
let rec pos_of_int i = if i = 1 then XH else if i land 1 = 1 then XI (pos_of_int (i lsr 1)) else XO (pos_of_int (i lsr 1))
let n_of_int i = if i = 0 then N0 else Npos (pos_of_int i)
let rec int_of_pos = function XH -> 1 | XO p -> 2 * int_of_pos p | XI p -> 2 * int_of_pos p + 1
let int_of_n = function N0 -> 0 | Npos p -> int_of_pos p
let rec int_of_nat = function O -> 0 | S n -> 1 + int_of_nat n

let ints_of_line l =
  List.filter_map (fun s -> if s = "" then None else Some (int_of_string s)) (String.split_on_char ' ' l)

(* a string: length then code points *)
let take_str = function
  | n :: rest ->
    let rec go k acc r = if k = 0 then (List.rev acc, r) else (match r with x :: r' -> go (k - 1) (n_of_int x :: acc) r' | [] -> failwith "short") in
    go n [] rest
  | [] -> failwith "short"

let z_of_int i = if i = 0 then Z0 else if i > 0 then Zpos (pos_of_int i) else Zneg (pos_of_int (- i))

(* n strings *)
let rec take_strs n l = if n = 0 then ([], l) else let (s, r) = take_str l in let (ss, r') = take_strs (n - 1) r in (s :: ss, r')

(* POS: nlines, the lines, then tokens: opening-code [args] line col isblock *)
let rec pos_tokens = function
  | [] -> []
  | code :: rest ->
    let (o, rest') = (match code with
      | 0 -> let (cs, r) = take_str rest in (OChars cs, r)
      | 1 -> (ODigit, rest) | 2 -> (ONonBlank, rest) | 3 -> (OAny, rest) | 4 -> (OLineStart, rest)
      | _ -> let (cs, r) = take_str rest in (OAfterSpaces cs, r)) in
    (match rest' with
     | l :: c :: b :: r -> (((o, z_of_int l), z_of_int c), b = 1) :: pos_tokens r
     | _ -> failwith "bad pos token")

let cls_of_int = function 0 -> CCont | 1 -> CLeaf | 2 -> CInl | _ -> CSpecial

(* WF: tokens, each: shape(0 start,1 end,2 atom) class ref namelen cps... *)
let rec wf_tokens = function
  | [] -> []
  | shape :: c :: r :: rest ->
    let (name, rest') = take_str rest in
    let k = { k_name = name; k_cls = cls_of_int c } in
    let t = (match shape with 0 -> TStart k | 1 -> TEnd (k, nat_of_int r) | _ -> TAtom k) in
    t :: wf_tokens rest'
  | _ -> failwith "bad token"

let () =
  try
    while true do
      let line = input_line stdin in
      let sp = (try String.index line ' ' with Not_found -> String.length line) in
      let cmd = String.sub line 0 sp in
      let args = ints_of_line (String.sub line sp (String.length line - sp)) in
      let out =
        (try
          (match cmd with
           | "WF" -> if stream_ok (wf_tokens args) then "1" else "0"
           | "CM" ->
             (match args with
              | n :: rest ->
                let (lines, _) = take_strs n rest in
                (if in_F lines then "1" else "0") ^ " " ^ String.concat " " (List.map (fun c -> string_of_int (int_of_n c)) (html lines))
              | [] -> "ERR empty")
           | "RULES" ->
             (* 19 numbers, punctuation string, hr style string, npieces, pieces *)
             let rec take k l = if k = 0 then ([], l) else (match l with x :: r -> let (a, b) = take (k - 1) r in (x :: a, b) | [] -> failwith "short") in
             let (ps, rest) = take 19 args in
             let (punct, rest) = take_str rest in
             let (hr, rest) = take_str rest in
             (match rest with
              | n :: rest ->
                let (pieces, _) = take_strs n rest in
                let res = run_rules (List.map nat_of_int ps) punct hr pieces in
                let nums l = String.concat "," (List.map (fun x -> string_of_int (int_of_nat x)) l) in
                (if in_F (lines_of_pieces pieces) then "1" else "0") ^ " " ^
                String.concat ";" (List.map (fun (id, v) -> string_of_int (int_of_nat id) ^ ":" ^ nums v.must ^ "|" ^ nums v.open_) res)
              | [] -> "ERR empty")
           | "LEAFPOS" ->
             (match args with
              | n :: rest ->
                let (pieces, _) = take_strs n rest in
                (if in_F (lines_of_pieces pieces) then "1" else "0") ^ " " ^
                String.concat ";" (List.map (fun ((k, l), c) -> string_of_int (int_of_nat k) ^ "," ^ string_of_int (int_of_nat l) ^ "," ^ string_of_int (int_of_nat c)) (leaf_positions pieces))
              | [] -> "ERR empty")
           | "POS" ->
             (match args with
              | n :: rest ->
                let (lines, rest') = take_strs n rest in
                let toks = pos_tokens rest' in
                String.concat "" (List.map (fun b -> if b then "1" else "0") (doc_pos_ok lines toks)) ^ " " ^ (if doc_monotone toks then "1" else "0")
              | [] -> "ERR empty")
           | _ -> "ERR unknown command")
        with e -> "ERR " ^ Printexc.to_string e) in
      print_string out; print_newline ()
    done
  with End_of_file -> ()
