(* C03 - inline/inline_helper.py::InlineHelper.append_text: the HTML escaping of text on its way into a token.  With
   add_text_signature (the parser's use) every escaped character is written as a replacement marker of the in-band codec
   (C02, Model/Codec.v): AL original AL entity AL - so that the source can be recovered from the token and the entity is what
   the renderer shows; without it the entity is written directly.  `append_impl` follows the Python loop (index_any_of to the
   next of the four characters < > & and the double quote, the text in front of it, the replacement, on from the character behind it; the string index is rendered as
   the remaining suffix, the loop runs on fuel). *)
From Coq Require Import List NArith Bool Arith.
Require Import PV.Base.Str PV.Model.Codec.
Import ListNotations.
Local Open Scope N_scope.

(* InlineHelper.__html_character_escape_map *)
Definition ent (c : N) : option str :=
  if N.eqb c 60 then Some [38; 108; 116; 59]                 (* <  &lt;   *)
  else if N.eqb c 62 then Some [38; 103; 116; 59]            (* >  &gt;   *)
  else if N.eqb c 38 then Some [38; 97; 109; 112; 59]        (* &  &amp;  *)
  else if N.eqb c 34 then Some [38; 113; 117; 111; 116; 59]  (* the double quote  &quot; *)
  else None.
Definition is_key (c : N) : bool := match ent c with Some _ => true | None => false end.

(* text[start:index_any_of(text, keys, start)] and the rest, which starts at a key character or is empty *)
Fixpoint span_key (s : str) : str * str :=
  match s with [] => ([], []) | c :: r => if is_key c then ([], s) else let (a, b) := span_key r in (c :: a, b) end.

Fixpoint loop (fuel : nat) (sig : bool) (rest : str) : option str :=
  match span_key rest with
  | (before, []) => Some before
  | (before, c :: r) =>
    match fuel, ent c with
    | S f, Some e => option_map (fun t => before ++ (if sig then c_al :: c :: c_al :: e ++ [c_al] else e) ++ t) (loop f sig r)
    | _, _ => None
    end
  end.
Definition append_impl (prefix text : str) (sig : bool) : option str := option_map (app prefix) (loop (length text) sig text).

(* ---- what it computes ---- *)
Definition esc_t (s : str) : str := flat_map (fun c => match ent c with Some e => e | None => [c] end) s.
Definition pieces (s : str) : list piece := map (fun c => match ent c with Some e => PReplace [c] e | None => PText [c] end) s.
