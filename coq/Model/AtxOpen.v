(* C03 - leaf_blocks/atx_leaf_block_processor.py::is_atx_heading.  CommonMark 4.2: an ATX heading starts, after up to three
   columns of indentation, with an opening sequence of one to six `#` characters that is followed by a space, a tab or the end
   of the line.  `atx_impl` follows the Python function (collect the `#`, collect the spaces and tabs behind them, the final
   test) and returns what it returns: the index of the first character of the heading text, the number of `#`, the white
   space between them; `atx_spec` is the sentence of the specification on the indentation and the rest of the line. *)
From Coq Require Import List NArith Bool Arith.
Require Import PV.Base.Str PV.Model.Tabs.
Import ListNotations.
Local Open Scope N_scope.

(* ParserHelper.collect_while_character / collect_while_spaces on the suffix that starts at the index *)
Fixpoint run_of (p : N -> bool) (s : str) : str := match s with c :: r => if p c then c :: run_of p r else [] | [] => [] end.
Definition is_hash (c : N) : bool := N.eqb c c_hash.

Definition atx_impl (line : str) (start : nat) (ws : str) (skip_ws_check : bool) : option (nat * nat * str) :=
  if ((calc_length ws 0 <=? 3) || skip_ws_check) && match nth_error line start with Some c => is_hash c | None => false end then
    let hashes := run_of is_hash (dropn start line) in
    let new_index := (start + length hashes)%nat in
    let wsa := run_of is_blank_c (dropn new_index line) in
    let non_ws_index := (new_index + length wsa)%nat in
    if (length hashes <=? 6)%nat && (negb (is_nil wsa) || Nat.eqb non_ws_index (length line)) then Some (non_ws_index, length hashes, wsa)
    else None
  else None.

Definition atx_spec (ws body : str) : bool :=
  let h := run_of is_hash body in
  let rest := dropn (length h) body in
  (calc_length ws 0 <=? 3) && (1 <=? length h)%nat && (length h <=? 6)%nat &&
  match rest with [] => true | c :: _ => is_blank_c c end.
