(* C02 - the in-band marker codec of general/parser_helper.py.  Token text carries, next to the characters of the
   document, five control characters: BS (a backslash escape: backslash, BS, character), AL (a replacement: AL original AL
   replacement AL), NOOP (an empty replacement), WS, and ESC in front of any of the five that occurs literally in the
   document.  `remove_all` gives back the source text, `resolve_all` the rendered text.  The Python loops work on indices
   and rebuild the string; the functions here walk the text once and are structurally recursive - that they compute the
   same is checked by the correspondence run (every string over the marker alphabet up to a length), not proved.
   The replacement pass is written as a three-state machine instead of index arithmetic.
   A result None stands for a ValueError of `str.index` (an unterminated replacement) or for a case left out of the
   model (a BS at the very start of the text, where the Python slice text[:-1] wraps around; an empty replacement, which
   the code reads as the start of a nested one). *)
From Coq Require Import List NArith Bool Arith.
Require Import PV.Base.Str.
Import ListNotations.

Definition c_bs : N := 8.  Definition c_al : N := 7.  Definition c_ws : N := 2.  Definition c_noop : N := 3.  Definition c_esc : N := 5.
Definition special (c : N) : bool := existsb (N.eqb c) [c_bs; c_al; c_ws; c_noop; c_esc].
Definition is_esc (o : option N) : bool := match o with Some c => N.eqb c c_esc | None => false end.

(* ParserHelper.escape_special_characters *)
Definition escape (s : str) : str := flat_map (fun c => if special c then [c_esc; c] else [c]) s.

(* __remove_backspaces_from_text / resolve_noops_from_text: delete every `t` that is not behind an ESC *)
Fixpoint remove_char (t : N) (last : option N) (s : str) : str :=
  match s with
  | [] => []
  | c :: r => if N.eqb c t && negb (is_esc last) then remove_char t last r else c :: remove_char t (Some c) r
  end.

(* __resolve_escapes_from_text: delete every ESC that is not behind an ESC, and do not look at the character after it *)
Fixpoint resolve_escapes (last : option N) (s : str) : str :=
  match s with
  | [] => []
  | c :: r =>
    if N.eqb c c_esc && negb (is_esc last) then
      match r with [] => [] | x :: r' => x :: resolve_escapes (Some x) r' end
    else c :: resolve_escapes (Some c) r
  end.

(* resolve_backspaces_from_text: delete every BS that is not behind an ESC together with the character in front of it,
   and do not look at the character after it.  `acc` is the text so far, reversed. *)
Fixpoint resolve_bs (acc : str) (s : str) : option str :=
  match s with
  | [] => Some (rev acc)
  | c :: r =>
    if N.eqb c c_bs && negb (is_esc (hd_error acc)) then
      match acc with
      | [] => None
      | _ :: acc' => match r with [] => Some (rev acc') | x :: r' => resolve_bs (x :: acc') r' end
      end
    else resolve_bs (c :: acc) r
  end.

(* __resolve_replacement_markers_from_text (pick = false: the original) and __resolve_references_from_text (pick = true:
   the replacement): AL original AL replacement AL, the opening AL not behind an ESC, the two others wherever they are. *)
Definition lastc (last : option N) (t : str) : option N := match rev t with x :: _ => Some x | [] => last end.
Inductive mode := MNormal | MOrig (acc : str) | MRepl (orig acc : str).
Fixpoint replace_markers (pick : bool) (m : mode) (last : option N) (s : str) : option str :=
  match s with
  | [] => match m with MNormal => Some [] | _ => None end
  | c :: r =>
    match m with
    | MNormal => if N.eqb c c_al && negb (is_esc last) then replace_markers pick (MOrig []) last r
                 else option_map (cons c) (replace_markers pick MNormal (Some c) r)
    | MOrig acc => if N.eqb c c_al then replace_markers pick (MRepl (rev acc) []) last r else replace_markers pick (MOrig (c :: acc)) last r
    | MRepl orig acc =>
        if N.eqb c c_al then
          if is_nil acc then None
          else let t := if pick then rev acc else orig in
               option_map (app t) (replace_markers pick MNormal (lastc last t) r)
        else replace_markers pick (MRepl orig (c :: acc)) last r
    end
  end.

(* ParserHelper.remove_all_from_text (include_noops = False) and resolve_all_from_text *)
Definition remove_all (s : str) : option str :=
  match replace_markers false MNormal None (remove_char c_bs None s) with
  | Some t => Some (resolve_escapes None t)
  | None => None
  end.
Definition resolve_all (s : str) : option str :=
  match resolve_bs [] s with
  | None => None
  | Some t1 =>
    match replace_markers true MNormal None t1 with
    | Some t2 => Some (resolve_escapes None (remove_char c_noop None t2))
    | None => None
    end
  end.

(* ---- what the parser writes into token text ---- *)
Inductive piece :=
| PText (s : str)                 (* characters of the document; the five control characters among them escaped *)
| PBackslash (c : N)              (* a backslash escape of c *)
| PReplace (orig repl : str)      (* a character reference: `orig` in the source, `repl` rendered *)
| PNothing (orig : str).          (* replaced by nothing *)

Definition enc1 (p : piece) : str :=
  match p with
  | PText s => escape s
  | PBackslash c => [c_bslash; c_bs; c]
  | PReplace o r => c_al :: o ++ c_al :: r ++ [c_al]
  | PNothing o => c_al :: o ++ [c_al; c_noop; c_al]
  end.
Definition src1 (p : piece) : str :=
  match p with PText s => s | PBackslash c => [c_bslash; c] | PReplace o _ => o | PNothing o => o end.
Definition out1 (p : piece) : str :=
  match p with PText s => s | PBackslash c => [c] | PReplace _ r => r | PNothing _ => [] end.
Definition enc (ps : list piece) : str := flat_map enc1 ps.
Definition src (ps : list piece) : str := flat_map src1 ps.
Definition out (ps : list piece) : str := flat_map out1 ps.

Definition clean (s : str) : bool := negb (existsb special s).
(* a piece the parser can write: literal text without ESC (the other four are escaped), clean arguments elsewhere *)
Definition piece_ok (p : piece) : bool :=
  match p with
  | PText s => negb (existsb (N.eqb c_esc) s)
  | PBackslash c => negb (special c)
  | PReplace o r => clean o && clean r && negb (is_nil o) && negb (is_nil r)
  | PNothing o => clean o && negb (is_nil o)
  end.
