(* Configuration layering, rule enabling and typed getters, after
   application_configuration_helper.py::apply_configuration_layers, application_properties (flat map,
   set_manual_property, get_property) and plugin_manager.py::__determine_if_plugin_enabled /
   __handle_command_line_settings / __find_configuration_for_plugin.  Definitions only.
   Keys of the flat map under `plugins.` are kept structured as (identifier, item). *)
From Coq Require Import List ZArith NArith Bool.
Require Import PV.Base.Str PV.Base.RuleTypes.
Import ListNotations.

Definition key : Set := (str * str)%type.                 (* plugins.<identifier>.<item>, lower-cased *)
Definition key_eqb (a b : key) : bool := str_eqb (fst a) (fst b) && str_eqb (snd a) (snd b).
Definition layer : Set := list (key * value).             (* assignments in the order the loader makes them *)

(* The flat property map after loading the layers in the order the code loads them - lowest precedence first:
   pyproject.toml, default file (.pymarkdown / .yaml / .yml), --config file, --set arguments.
   Every assignment overwrites: the map is the concatenation read from the end. *)
Definition flat (ls : list layer) : layer := concat ls.
Fixpoint lookup_first (k : key) (es : layer) : option value :=
  match es with [] => None | (k', v) :: r => if key_eqb k k' then Some v else lookup_first k r end.
Definition lookup (k : key) (es : layer) : option value := lookup_first k (rev es).

(* --set values: a string unless typed with $! (bool), $# (int), $$ (string); this is how the harness
   builds the --set layer, kept here so that the typing rule is part of the model *)
Definition c_dollar : N := 36.
Definition lower_c (c : N) : N := if (N.leb 65 c && N.leb c 90)%bool then (c + 32)%N else c.
Definition str_true : str := [116;114;117;101]%N.
Fixpoint parse_nat_digits (s : str) : option N :=
  match s with [] => None | _ => if forallb is_digit s then Some (num_of 0 s) else None end.
Definition parse_int (s : str) : option Z :=
  match s with
  | c :: r => if N.eqb c c_dash then option_map (fun n => (- Z.of_N n)%Z) (parse_nat_digits r)
              else if N.eqb c c_plus then option_map Z.of_N (parse_nat_digits r)
              else option_map Z.of_N (parse_nat_digits s)
  | [] => None
  end.
(* None = set_manual_property raises ValueError (untranslatable integer) *)
Definition manual_value (s : str) : option value :=
  match s with
  | d :: t :: r =>
      if N.eqb d c_dollar then
        if N.eqb t c_bang then Some (VBool (str_eqb (map lower_c r) str_true))
        else if N.eqb t c_hash then option_map VInt (parse_int r)
        else if N.eqb t c_dollar then Some (VStr r)
        else Some (VStr (t :: r))
      else Some (VStr s)
  | _ => Some (VStr s)
  end.

(* ---- command line -e / -d ---- *)
Record cli : Set := mkCli { cli_disable : list str; cli_enable : list str }.
Definition star : str := [c_star].
Definition mem (x : str) (l : list str) : bool := existsb (str_eqb x) l.
Definition cli_setting (c : cli) (idents : list str) : option bool :=
  if negb (is_nil (cli_disable c)) && (mem star (cli_disable c) || existsb (fun i => mem i (cli_disable c)) idents) then Some false
  else if negb (is_nil (cli_enable c)) && existsb (fun i => mem i (cli_enable c)) idents then Some true
  else None.

(* ---- __find_configuration_for_plugin: the first identifier that has any key under it ---- *)
Definition has_section (es : layer) (i : str) : bool := existsb (fun e => str_eqb (fst (fst e)) i) es.
Definition find_section (es : layer) (idents : list str) : option str := find (has_section es) idents.
Definition section_ident (es : layer) (idents : list str) : str :=
  match find_section es idents with Some i => i | None => hd [] idents end.

(* ---- typed getter (application_properties.get_property) ---- *)
Inductive res (A : Type) : Type := Ok (a : A) | ConfigError.
Arguments Ok {A}. Arguments ConfigError {A}.
Definition has_ty (t : cty) (v : value) : bool :=
  match t, v with TBool, VBool _ | TInt, VInt _ | TStr, VStr _ => true | _, _ => false end.
Definition opt_le (lo : option Z) (z : Z) : bool := match lo with Some l => Z.leb l z | None => true end.
Definition opt_ge (hi : option Z) (z : Z) : bool := match hi with Some h => Z.leb z h | None => true end.
(* Some b = the validator's verdict; None = opaque validator (outside the model) *)
Definition valid_value (vd : validator) (v : value) : option bool :=
  match vd, v with
  | VNone, _ => Some true
  | VRange lo hi, VInt z => Some (opt_le lo z && opt_ge hi z)
  | VIn l, VStr s => Some (mem s l)
  | VOpaque, _ => None
  | _, _ => Some true
  end.
Definition get_typed (strict : bool) (t : cty) (vd : validator) (default : value) (found : option value) : option (res value) :=
  match found with
  | None => Some (Ok default)
  | Some v =>
      if has_ty t v then
        match valid_value vd v with
        | None => None
        | Some true => Some (Ok v)
        | Some false => Some (if strict then ConfigError else Ok default)
        end
      else Some (if strict then ConfigError else Ok default)
  end.

(* ---- __determine_if_plugin_enabled ---- *)
Definition enabled_key : str := [101;110;97;98;108;101;100]%N.
Definition rule_enabled (strict : bool) (c : cli) (es : layer) (r : rule) : res bool :=
  match cli_setting c (r_idents r) with
  | Some b => Ok b
  | None =>
      match find_section es (r_idents r) with
      | None => Ok (r_default r)
      | Some i =>
          match lookup (i, enabled_key) es with
          | None => Ok (r_default r)
          | Some (VBool b) => Ok b
          | Some _ => if strict then ConfigError else Ok (r_default r)
          end
      end
  end.
(* the value a rule's configuration item ends up with (initialize_from_config through the facade of the section found) *)
Definition item_value (strict : bool) (es : layer) (r : rule) (it : citem) : option (res value) :=
  get_typed strict (ci_ty it) (ci_valid it) (ci_default it) (lookup (section_ident es (r_idents r), ci_name it) es).

(* ---- specification vocabulary ---- *)
Fixpoint first_some {A} (l : list (option A)) : option A :=
  match l with [] => None | Some a :: _ => Some a | None :: r => first_some r end.
(* the layers, most specific first *)
Definition most_specific_first (ls : list layer) : list layer := rev ls.
(* a configuration addresses rule r only through identifier i *)
Definition only_ident (r : rule) (i : str) (es : layer) : Prop :=
  In i (r_idents r) /\ forall e, In e es -> In (fst (fst e)) (r_idents r) -> fst (fst e) = i.
Definition rename_ident (i j : str) (es : layer) : layer :=
  map (fun e => if str_eqb (fst (fst e)) i then ((j, snd (fst e)), snd e) else e) es.
