(* File discovery, after application_file_scanner.py::determine_files_to_scan / __process_next_path /
   __process_next_path_directory / __is_file_eligible_to_scan, with the parts of os.path, os.walk and glob.glob
   (CPython 3.12 glob._iglob/_glob0/_glob1, fnmatch for * and ?) that it relies on, over an abstract directory tree.
   Definitions only. *)
From Coq Require Import List NArith Bool Arith.
Require Import PV.Base.Str PV.Base.StrOrder PV.Base.Sort.
Import ListNotations.

Definition c_slash : N := 47.  Definition c_qm : N := 63.

Inductive node : Type := File (name : str) | Dir (name : str) (kids : list node).
Definition tree := list node.                    (* the entries of the current directory *)
Definition node_name (n : node) : str := match n with File s | Dir s _ => s end.
Definition is_dir_node (n : node) : bool := match n with Dir _ _ => true | _ => false end.

Fixpoint find_node (nm : str) (ns : list node) : option node :=
  match ns with [] => None | n :: r => if str_eqb (node_name n) nm then Some n else find_node nm r end.

(* ---- os.path.exists / isdir / isfile on relative paths without ".." ---- *)
Definition dot : str := [c_dot].
Fixpoint resolve_segs (cur : node) (segs : list str) : option node :=
  match segs with
  | [] => Some cur
  | s :: r =>
      match cur with
      | File _ => None
      | Dir _ kids =>
          if is_nil s || str_eqb s dot then resolve_segs cur r
          else match find_node s kids with Some n => resolve_segs n r | None => None end
      end
  end.
Definition resolve (t : tree) (p : str) : option node :=
  match p with [] => None | _ => resolve_segs (Dir [] t) (split_c c_slash p) end.
Definition p_exists (t : tree) (p : str) : bool := match resolve t p with Some _ => true | None => false end.
Definition is_dir (t : tree) (p : str) : bool := match resolve t p with Some (Dir _ _) => true | _ => false end.
Definition is_file (t : tree) (p : str) : bool := match resolve t p with Some (File _) => true | _ => false end.

(* ---- os.path.join (second part relative), os.path.split ---- *)
Definition ends_slash (s : str) : bool := match rev s with c :: _ => N.eqb c c_slash | [] => false end.
Definition pjoin (a b : str) : str :=
  if is_nil a then b else if ends_slash a then a ++ b else a ++ c_slash :: b.
Definition strip1_slash (s : str) : str := if ends_slash s then removelast s else s.
(* posixpath.split: cut after the last '/', strip trailing slashes of the head unless it is all slashes *)
Fixpoint split_last (s cur : str) (head : str) : str * str :=
  (* head = everything up to and including the last '/', cur = what follows it (reversed) *)
  match s with
  | [] => (head, rev cur)
  | c :: r => if N.eqb c c_slash then split_last r [] (head ++ rev cur ++ [c]) else split_last r (c :: cur) head
  end.
Definition path_split (p : str) : str * str :=
  let '(h, b) := split_last p [] [] in
  let h' := if is_nil h || forallb (N.eqb c_slash) h then h else rstrip_c c_slash h in (h', b).

(* ---- __is_file_eligible_to_scan ---- *)
Definition eligible (t : tree) (exts : list str) (p : str) : bool :=
  is_file t p && existsb (fun e => suffix_b e p) exts.

(* ---- __process_next_path_directory: os.walk + filter.  root is the spelling os.walk gives the directory. ---- *)
Fixpoint walk_node (t : tree) (recurse : bool) (exts : list str) (root : str) (n : node) {struct n} : list str :=
  match n with
  | File nm => let p := strip1_slash root ++ c_slash :: nm in if eligible t exts p then [p] else []
  | Dir nm k => if recurse then flat_map (walk_node t recurse exts (pjoin root nm)) k else []
  end.
Definition walk_dir (t : tree) (recurse : bool) (exts : list str) (top : str) (kids : list node) : list str :=
  flat_map (walk_node t recurse exts top) kids.

(* ---- __process_next_path: None = the argument is in error ---- *)
Definition process_path (t : tree) (recurse : bool) (exts : list str) (p : str) : option (list str) :=
  match resolve t p with
  | None => None                                            (* "does not exist" *)
  | Some (Dir _ kids) => Some (walk_dir t recurse exts p kids)
  | Some (File _) => if eligible t exts p then Some [p] else None   (* "is not a valid file" *)
  end.
Definition select_path t recurse exts p : list str :=
  match process_path t recurse exts p with Some l => l | None => [] end.

(* ---- glob.glob (non-recursive), patterns whose only magic characters are * and ? ---- *)
Definition is_magic_char (c : N) : bool := N.eqb c c_star || N.eqb c c_qm || N.eqb c c_lbr.
Definition has_magic (p : str) : bool := existsb is_magic_char p.                       (* glob.has_magic *)
Definition is_glob_arg (p : str) : bool := existsb (fun c => N.eqb c c_star || N.eqb c c_qm) p.  (* the scanner's own test *)
(* the model's glob is exact only for patterns without '[' *)
Definition glob_in_domain (p : str) : bool := negb (existsb (N.eqb c_lbr) p).

Fixpoint fnmatch (pat name : str) {struct pat} : bool :=
  match pat with
  | [] => is_nil name
  | c :: pat' =>
      if N.eqb c c_star then
        (fix star (n : str) : bool :=
           fnmatch pat' n || match n with [] => false | _ :: n' => star n' end) name
      else match name with
           | [] => false
           | x :: name' => (N.eqb c c_qm || N.eqb c x) && fnmatch pat' name'
           end
  end.
Definition is_hidden (s : str) : bool := starts_c c_dot s.
Definition listdir (t : tree) (d : str) (dironly : bool) : list str :=
  match resolve t (if is_nil d then dot else d) with
  | Some (Dir _ kids) => map node_name (if dironly then filter is_dir_node kids else kids)
  | _ => []
  end.
Definition glob1 (t : tree) (dirname pat : str) (dironly : bool) : list str :=
  let names := listdir t dirname dironly in
  let names := if is_hidden pat then names else filter (fun x => negb (is_hidden x)) names in
  filter (fnmatch pat) names.
Definition glob0 (t : tree) (dirname base : str) : list str :=
  if is_nil base then (if is_dir t dirname then [[]] else [])
  else if p_exists t (pjoin dirname base) then [base] else [].
Fixpoint iglob (fuel : nat) (t : tree) (pathname : str) (dironly : bool) : list str :=
  match fuel with
  | O => []
  | S fuel' =>
    let '(dirname, base) := path_split pathname in
    if negb (has_magic pathname) then
      (if is_nil base then (if is_dir t dirname then [pathname] else [])
       else if p_exists t pathname then [pathname] else [])
    else if is_nil dirname then glob1 t [] base dironly
    else
      let dirs := if negb (str_eqb dirname pathname) && has_magic dirname then iglob fuel' t dirname true else [dirname] in
      flat_map (fun d => map (pjoin d) (if has_magic base then glob1 t d base dironly else glob0 t d base)) dirs
  end.
Definition glob (t : tree) (p : str) : list str := iglob (S (length p)) t p false.

(* ---- determine_files_to_scan ---- *)
(* what one argument contributes; None = the argument is in error and the whole run stops *)
Definition arg_select (t : tree) (recurse : bool) (exts : list str) (a : str) : option (list str) :=
  if is_glob_arg a then
    match glob t a with
    | [] => None                                                       (* "did not match any files" *)
    | g => Some (flat_map (select_path t recurse exts) g)              (* per-path errors are printed but ignored *)
    end
  else process_path t recurse exts a.

Fixpoint det_loop (t : tree) (recurse : bool) (exts : list str) (args : list str) (acc : list str) : option (list str) :=
  match args with
  | [] => Some acc
  | a :: r => match arg_select t recurse exts a with
              | None => None
              | Some l => det_loop t recurse exts r (acc ++ l)
              end
  end.
(* sorted(set(...)) *)
Definition sorted_set (l : list str) : list str := dedup_adj str_eqb (sort str_ltb l).
Definition discover (t : tree) (recurse : bool) (exts : list str) (args : list str) : list str * bool :=
  match det_loop t recurse exts args [] with
  | None => ([], true)
  | Some acc => (sorted_set acc, false)
  end.
Definition files t recurse exts args := fst (discover t recurse exts args).
Definition error t recurse exts args := snd (discover t recurse exts args).

(* ---- specification vocabulary ---- *)
Definition arg_fails t recurse exts a : bool := match arg_select t recurse exts a with None => true | Some _ => false end.
Definition arg_files t recurse exts a : list str := match arg_select t recurse exts a with None => [] | Some l => l end.
(* the location a spelling denotes: its segments without "" and "." *)
Definition canon (p : str) : list str := filter (fun s => negb (is_nil s || str_eqb s dot)) (split_c c_slash p).
Definition md_ext : list str := [[c_dot; 109; 100]%N].
