(* The rule engine as a product of private state machines, after plugin_manager.py::next_token / next_line /
   completed_file / starting_new_file in scan mode: every callback is offered to each enabled plug-in in turn, each
   plug-in is one instance with its own fields, the payload (token, line) is not modified, and what a plug-in
   reports goes into one list (PluginScanContext.__reported).  Plug-ins are arbitrary: state, step function and
   reports are abstract. *)
From Coq Require Import List Bool.
Require Import PV.Base.Str.
Import ListNotations.

Section Engine.
Variables (state event report : Type).
Record plugin : Type := mkPlugin { p_id : str; p_step : state -> event -> state * list report }.

(* one plug-in alone *)
Fixpoint run_one (p : plugin) (s : state) (evs : list event) : list report :=
  match evs with
  | [] => []
  | e :: r => let '(s', out) := p_step p s e in out ++ run_one p s' r
  end.

(* the engine: for each event, each enabled plug-in in dispatch order *)
Definition step_all (e : event) (ps : list (plugin * state)) : list (plugin * state) * list (str * report) :=
  (map (fun q => (fst q, fst (p_step (fst q) (snd q) e))) ps,
   flat_map (fun q => map (pair (p_id (fst q))) (snd (p_step (fst q) (snd q) e))) ps).
Fixpoint engine (ps : list (plugin * state)) (evs : list event) : list (str * report) :=
  match evs with
  | [] => []
  | e :: r => let '(ps', out) := step_all e ps in out ++ engine ps' r
  end.

Definition reports_of (pid : str) (l : list (str * report)) : list report :=
  map snd (filter (fun x => str_eqb (fst x) pid) l).
End Engine.
Arguments mkPlugin {state event report}.
Arguments p_id {state event report}.
Arguments p_step {state event report}.
Arguments run_one {state event report}.
Arguments engine {state event report}.
Arguments reports_of {report}.
