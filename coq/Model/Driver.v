(* The main loop of the block pass, after tokenized_markdown.py::__parse_blocks_pass / __parse_blocks_pass_next_line /
   __main_pass_keep_on_going / __handle_parse_increment_line / __determine_next_line_to_process.
   The per-line handler (ContainerBlockProcessor.parse_line_for_container_blocks, thirty thousand lines behind it) and the
   final close are ORACLES here: all the loop sees of them is whether they ask for lines to be delivered again
   (an abandoned link reference definition).  Definitions only. *)
From Coq Require Import List ZArith NArith Bool Arith.
Require Import PV.Base.Str.
Import ListNotations.

(* what the handler answers for one delivered line *)
Inductive resp : Set :=
| Normal                                       (* requeue_line_info is None / has no lines *)
| Requeue (lines : list str) (force : bool).   (* lines_to_requeue in the order they are to be delivered again; force_ignore_first_as_lrd *)

(* ---- (1) the deterministic bookkeeping, driven by a script of handler answers ---- *)
Record dstate : Set := mkD { d_src : list str; d_rq : list str; d_line : Z; d_ignore : bool }.
Definition next_line (s : dstate) : option (str * dstate) :=
  match d_rq s with
  | l :: r => Some (l, mkD (d_src s) r (d_line s) (d_ignore s))
  | [] => match d_src s with
          | l :: r => Some (l, mkD r [] (d_line s) (d_ignore s))
          | [] => None
          end
  end.
(* __handle_parse_increment_line *)
Definition after (s : dstate) (r : resp) : dstate :=
  match r with
  | Normal => mkD (d_src s) (d_rq s) (d_line s + 1) false
  | Requeue ls f => mkD (d_src s) (ls ++ d_rq s) (d_line s - (Z.of_nat (length ls) - 1)) f
  end.
(* the deliveries (line number handed to the handler, text, ignore flag) of a run with the given answers *)
Fixpoint deliveries (script : list resp) (s : dstate) : list (Z * str * bool) :=
  match script with
  | [] => []
  | r :: rest =>
      match next_line s with
      | None =>
          (* no line left: the closing step (__main_pass_did_start_close).  An abandoned definition that is still pending
             hands its lines back here too: line_number -= 1, then the usual arithmetic *)
          match r with
          | Normal => []
          | Requeue ls f => deliveries rest (mkD [] ls (d_line s - 1 - (Z.of_nat (length ls) - 1)) f)
          end
      | Some (l, s1) => (d_line s1, l, d_ignore s1) :: deliveries rest (after s1 r)
      end
  end.
Definition start (src : list str) : dstate := mkD src [] 1 false.
(* the contract on the TEXT of a requeue: the lines that come back are the source lines that end at the current line *)
Definition good_resp (all : list str) (line : Z) (r : resp) : Prop :=
  match r with
  | Normal => True
  | Requeue ls f => (1 <= Z.of_nat (length ls) <= line)%Z /\
                    ls = firstn (length ls) (skipn (Z.to_nat (line - Z.of_nat (length ls))) all)
  end.
Fixpoint script_ok (all : list str) (sc : list resp) (st : dstate) : Prop :=
  match sc with
  | [] => True
  | r :: rest => match next_line st with
                 | None => match r with
                           | Normal => True
                           | Requeue ls f => good_resp all (d_line st - 1) r /\ d_line st = (Z.of_nat (length all) + 1)%Z /\
                                             script_ok all rest (mkD [] ls (d_line st - 1 - (Z.of_nat (length ls) - 1)) f)
                           end
                 | Some (l, s1) => good_resp all (d_line st) r /\ script_ok all rest (after s1 r)
                 end
  end.

(* ---- (2) termination: the loop as a transition system over positions, for EVERY handler that keeps the contract ---- *)
(* position of the next line to deliver (1-based; N+1 = the closing step), and the last request to go back: (target, force) *)
Record tstate : Set := mkT { t_pos : nat; t_last : nat }.        (* t_last = rank of the last requeue, 0 = none yet *)
Definition rank (target : nat) (force : bool) : nat := 2 * target + (if force then 1 else 0).
(* one step of the loop on a document of N lines.  A requeue goes back to `target` (<= the current position) and must
   outrank the previous one: a later line, or the same line now with force_ignore_first_as_lrd - the contract the code
   relies on (an abandoned definition either gives back all its lines with the flag set, so that its first line is
   consumed for good the next time, or completes a shorter definition, so that the lines before the target are). *)
Inductive tstep (N : nat) : tstate -> tstate -> Prop :=
| TNormal : forall p last, 1 <= p <= N -> tstep N (mkT p last) (mkT (S p) last)
| TRequeue : forall p last target force,
    1 <= p <= S N -> 1 <= target <= p -> target <= N -> last < rank target force ->
    tstep N (mkT p last) (mkT target (rank target force)).
Definition measure (N : nat) (s : tstate) : nat := (2 * N + 2 - t_last s) * (N + 2) + (N + 2 - t_pos s).
Definition tinit : tstate := mkT 1 0.
