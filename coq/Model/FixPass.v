(* Bookkeeping of fix mode, after file_scan_helper.py::__process_file_fix_pass / __process_file_fix /
   process_files_to_scan and api.py::_ApiPresentation / __handle_fix_results: which passes write the file back, the
   per-file "did fix" flag, the 'Fixed:' announcements and the category of the run.  What a pass computes (its new
   content, whether tokens were fixed, how many line-fix records it collected) is an input.  Definitions only. *)
From Coq Require Import List NArith Bool ZArith.
Require Import PV.Base.Str PV.Gen.ReturnCodes PV.Gen.FinalCategory PV.Model.Runner.
Import ListNotations.

Record pass : Set := mkPass {
  p_tokens_fixed : bool;     (* did_any_tokens_get_fixed *)
  p_line_records : nat;      (* len(fix_context.fix_line_records) *)
  p_out : str }.             (* content of the temporary line file at the end of the pass *)
Definition pass_writes (p : pass) : bool := p_tokens_fixed p || negb (Nat.eqb (p_line_records p) 0).
(* shutil copy of the temporary file over the original iff anything was fixed in this pass *)
Definition apply_pass (content : str) (p : pass) : str := if pass_writes p then p_out p else content.
Definition fix_content (orig : str) (ps : list pass) : str := fold_left apply_pass ps orig.
Definition did_fix (ps : list pass) : bool := existsb pass_writes ps.

(* one fix run over files (index, original content, passes): final contents, announcements, category *)
Definition file_in : Set := (N * str * list pass)%type.
Definition final_contents (fs : list file_in) : list (N * str) := map (fun f => (fst (fst f), fix_content (snd (fst f)) (snd f))) fs.
Definition announced (fs : list file_in) : list N := map (fun f => fst (fst f)) (filter (fun f => did_fix (snd f)) fs).
Definition as_outcomes (fs : list file_in) : list (N * outcome) := map (fun f => (fst (fst f), Done 0 (did_fix (snd f)))) fs.
Definition fix_category (fs : list file_in) : app_result := category Fix false (as_outcomes fs).
(* the API: PyMarkdownFixResult.files_fixed is the list collected by the presentation, whatever the exit code scheme *)
Definition api_files_fixed (fs : list file_in) : list N := announced fs.
