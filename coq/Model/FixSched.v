(* The fix-pass scheduler, after file_scan_helper.py::__process_file_fix / __process_file_fix_next_level:
   fix-capable enabled rules are grouped by plugin_fix_level; a pass runs the fixes of the current level while the rules
   of higher levels only collect triggers; the next pass runs the lowest level that was triggered; the loop ends when no
   higher level was triggered.  Lower or equal levels are never run again.  The documents, what a pass of a level does
   to a document and which levels its collectors report are abstract (Section variables).  Definitions only. *)
From Coq Require Import List ZArith Bool Arith.
Import ListNotations.
Local Open Scope Z_scope.

Section Sched.
Variable doc : Type.
Variable fix_at : Z -> doc -> doc.          (* the whole pass of one level: token fixes, line fixes, write-back *)
Variable collected : Z -> doc -> list Z.    (* the levels of the rules that triggered while collecting during the pass of level L on d *)

Fixpoint zmin (l : list Z) (d : Z) : Z := match l with [] => d | x :: r => Z.min x (zmin r x) end.
Definition next_level (L : Z) (ts : list Z) : option Z :=
  match filter (fun l => L <? l) ts with [] => None | x :: r => Some (zmin (x :: r) x) end.

(* None = out of fuel *)
Fixpoint run (fuel : nat) (L : Z) (d : doc) : option (doc * list Z) :=
  match fuel with
  | O => None
  | S f =>
      let d' := fix_at L d in
      match next_level L (collected L d) with
      | None => Some (d', [L])
      | Some L' => match run f L' d' with Some (d'', ls) => Some (d'', L :: ls) | None => None end
      end
  end.
End Sched.
Arguments run {doc}.
