(* C20 - the front-matter header: extensions/front_matter_extension.py::process_header_if_present and
   __handle_document_front_matter, over the lines of the document.  Whether the collected lines are acceptable YAML is
   decided by PyYAML in the implementation; here it is the parameter yaml_ok. *)
From Coq Require Import List NArith ZArith Bool Arith.
Require Import PV.Base.Str.
Import ListNotations.

Definition ascii_ws : list N := [32; 9; 10; 11; 12; 13]%N.
Definition is_ws (c : N) : bool := existsb (N.eqb c) ascii_ws.
Fixpoint lead_ws (s : str) : nat := match s with c :: r => if is_ws c then S (lead_ws r) else 0 | [] => 0 end.
Definition rstrip_ws (s : str) : str := rev (dropn (lead_ws (rev s)) (rev s)).
Definition dashes : str := [c_dash; c_dash; c_dash].
(* the first line opens a header, a later line closes it: "---" and nothing else but trailing white space *)
Definition boundary (l : str) : bool := str_eqb (rstrip_ws l) dashes.
Definition blank_ws (l : str) : bool := is_nil (rstrip_ws l).

Section FM.
Variable yaml_ok : list str -> bool.
Variable allow_blank : bool.

(* the while loop: the lines collected, the closing line if one was found, and the lines not read *)
Fixpoint collect (ls : list str) : list str * option str * list str :=
  match ls with
  | [] => ([], None, [])                                         (* end of the document *)
  | l :: r =>
    if blank_ws l then
      if allow_blank then let '(c, cl, rest) := collect r in (l :: c, cl, rest)
      else ([l], None, r)                                        (* a blank line ends the search; it is collected *)
    else if boundary l then ([], Some l, r)
    else let '(c, cl, rest) := collect r in (l :: c, cl, rest)
  end.

Inductive fm_result :=
| FMNone                                                          (* the first line does not open a header *)
| FMToken (start closing : str) (collected rest : list str) (next_line : Z)
| FMAbandon (requeue rest : list str).                            (* re-parsed as ordinary Markdown from line 1 *)

Definition header (ls : list str) : fm_result :=
  match ls with
  | [] => FMNone
  | first :: r =>
    if boundary first then
      match collect r with
      | (c, Some cl, rest) =>
          if yaml_ok c then FMToken first cl c rest (Z.of_nat (3 + length c))
          else FMAbandon (first :: c ++ [cl]) rest
      | (c, None, rest) => FMAbandon (first :: c) rest
      end
    else FMNone
  end.

(* the lines the block pass then sees, and the number of the first of them *)
Definition after_header (ls : list str) : list str * Z :=
  match header ls with
  | FMNone => (ls, 1%Z)
  | FMToken _ _ _ rest n => (rest, n)
  | FMAbandon rq rest => (rq ++ rest, 1%Z)
  end.
End FM.
