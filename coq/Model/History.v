(* Per-file state of a rule instance across the files of one run: starting_new_file re-initialises some fields, the
   callbacks write some fields, configuration fields are never written after start-up.  Abstract in the values, the
   events and the step function.  Definitions only. *)
From Coq Require Import List Bool Arith.
Import ListNotations.

Section H.
Variables (value event out : Type).
Definition field := nat.
Definition state := field -> value.
Variable reset_fields : list field.
Variable init : field -> value.
Definition memf (f : field) (l : list field) : bool := existsb (Nat.eqb f) l.
Definition reset (s : state) : state := fun f => if memf f reset_fields then init f else s f.
Variable step : state -> event -> state * list out.

Fixpoint run_file (s : state) (evs : list event) : state * list out :=
  match evs with
  | [] => (s, [])
  | e :: r => let '(s1, o1) := step s e in let '(s2, o2) := run_file s1 r in (s2, o1 ++ o2)
  end.
(* one run over several files: reset, then the file's events; outputs per file *)
Fixpoint run_files (s : state) (files : list (list event)) : state * list (list out) :=
  match files with
  | [] => (s, [])
  | f :: r => let '(s1, o) := run_file (reset s) f in let '(s2, os) := run_files s1 r in (s2, o :: os)
  end.
Definition eqs (a b : state) : Prop := forall f, a f = b f.
End H.
