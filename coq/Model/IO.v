(* How the text of a document reaches the parser and the rules, after general/source_providers.py
   (FileSourceProvider, InMemorySourceProvider), Python's universal-newline text mode, and the spooling of
   scan-stdin / scan_string / fix_string input through a temporary file (file_scan_helper.py::__scan_from_stdin, api.py).
   Definitions only. *)
From Coq Require Import List NArith Bool.
Require Import PV.Base.Str.
Import ListNotations.

(* open(..., encoding="utf-8") in text mode, newline=None: "\r\n" and a lone "\r" are read as "\n" *)
Fixpoint universal (s : str) : str :=
  match s with
  | [] => []
  | c :: r =>
      if N.eqb c c_cr then
        c_nl :: match r with
                | d :: r' => if N.eqb d c_nl then universal r' else universal r
                | [] => []
                end
      else c :: universal r
  end.

(* file.readlines() on the translated text: each line with a flag "was terminated by \n" (the line itself then ends in "\n") *)
Fixpoint readlines (s cur : str) : list (str * bool) :=
  match s with
  | [] => if is_nil cur then [] else [(rev cur, false)]
  | c :: r => if N.eqb c c_nl then (rev cur, true) :: readlines r [] else readlines r (c :: cur)
  end.
(* FileSourceProvider.__init__: strip the terminator of every line; did_line_end_in_newline starts as True and is
   overwritten per line; a final "" is appended iff it is True after the loop *)
Definition last_flag (ls : list (str * bool)) : bool := match rev ls with (_, b) :: _ => b | [] => true end.
Definition file_lines (t : str) : list str :=
  let ls := readlines t [] in
  map fst ls ++ (if last_flag ls then [[]] else []).
Definition did_final_line_end_with_newline (t : str) : bool := last_flag (readlines t []).

(* InMemorySourceProvider: repeated split("\n", 1) *)
Fixpoint split_first (s cur : str) {struct s} : str * option str :=
  match s with
  | [] => (rev cur, None)
  | c :: r => if N.eqb c c_nl then (rev cur, Some r) else split_first r (c :: cur)
  end.
Fixpoint mem_lines_aux (fuel : nat) (s : str) : list str :=
  match fuel with
  | O => [s]
  | S n => match split_first s [] with
           | (a, None) => [a]
           | (a, Some b) => a :: mem_lines_aux n b
           end
  end.
Definition mem_lines (s : str) : list str := mem_lines_aux (S (length s)) s.

(* the lines a scan sees, by entry point.  Files hold bytes; the text is what text-mode reading gives. *)
Definition lines_from_file (text_as_stored : str) : list str := file_lines (universal text_as_stored).
(* scan_string / fix_string: the string is written to a temporary file in text mode ("\n" stays "\n", "\r" stays "\r") and scanned as a file *)
Definition lines_from_string (s : str) : list str := lines_from_file s.
(* scan-stdin: sys.stdin is read in text mode (universal newlines), written to the temporary file, scanned as a file *)
Definition lines_from_stdin (bytes_on_stdin : str) : list str := lines_from_file (universal bytes_on_stdin).
