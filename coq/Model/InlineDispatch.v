(* C20 - the dispatch layer of the inline pass.

   inline_handler_helper.py::initialize fills a dictionary character -> handler (later registrations replace earlier ones)
   and the string of characters at which the scan stops; inline_text_block_helper.py's loop looks for the next such
   character, calls the handler registered for it and continues where the handler says.  What a handler does is a
   parameter here: the statements are about which handler is called where, for arbitrary handlers. *)
From Coq Require Import List NArith Bool Arith.
Require Import PV.Base.Str.
Import ListNotations.

Inductive ext := EFrontMatter | EStrike | ETaskList | EAutolinks | ERawHtml | EPragmas.
Definition ext_eqb (a b : ext) : bool :=
  match a, b with
  | EFrontMatter, EFrontMatter | EStrike, EStrike | ETaskList, ETaskList | EAutolinks, EAutolinks | ERawHtml, ERawHtml | EPragmas, EPragmas => true
  | _, _ => false
  end.
Definition all_ext := [EFrontMatter; EStrike; ETaskList; EAutolinks; ERawHtml; EPragmas].

(* the switches of one run *)
Record flags := mkflags { f_fm : bool; f_strike : bool; f_task : bool; f_auto : bool; f_raw : bool; f_pragma : bool }.
Definition on (f : flags) (e : ext) : bool :=
  match e with EFrontMatter => f_fm f | EStrike => f_strike f | ETaskList => f_task f | EAutolinks => f_auto f | ERawHtml => f_raw f | EPragmas => f_pragma f end.
Definition set (f : flags) (e : ext) (b : bool) : flags :=
  match e with
  | EFrontMatter => mkflags b (f_strike f) (f_task f) (f_auto f) (f_raw f) (f_pragma f)
  | EStrike => mkflags (f_fm f) b (f_task f) (f_auto f) (f_raw f) (f_pragma f)
  | ETaskList => mkflags (f_fm f) (f_strike f) b (f_auto f) (f_raw f) (f_pragma f)
  | EAutolinks => mkflags (f_fm f) (f_strike f) (f_task f) b (f_raw f) (f_pragma f)
  | ERawHtml => mkflags (f_fm f) (f_strike f) (f_task f) (f_auto f) b (f_pragma f)
  | EPragmas => mkflags (f_fm f) (f_strike f) (f_task f) (f_auto f) (f_raw f) b
  end.
Definition bools := [true; false].
Definition all_flags : list flags :=
  flat_map (fun a => flat_map (fun b => flat_map (fun c => flat_map (fun d => flat_map (fun e => map (fun g => mkflags a b c d e g) bools) bools) bools) bools) bools) bools.

(* one call of register_handlers *)
Record reg := mkreg { r_guard : option ext; r_char : N; r_handler : str; r_simple : bool }.
Definition active (f : flags) (r : reg) : bool := match r_guard r with None => true | Some e => on f e end.
(* the registrations that are executed under the switches f, in order *)
Definition table (regs : list reg) (f : flags) : list reg := filter (active f) regs.
(* the dictionary: the last registration for a character wins *)
Fixpoint lookup (t : list reg) (c : N) : option str :=
  match t with
  | [] => None
  | r :: rest => match lookup rest c with Some h => Some h | None => if N.eqb (r_char r) c then Some (r_handler r) else None end
  end.
(* the stop characters: newline, then each registered character *)
Definition starts (t : list reg) : list N := c_nl :: map r_char t.
Definition stops (t : list reg) (c : N) : bool := existsb (N.eqb c) (starts t).

(* ParserHelper.index_any_of(text, starts, from) *)
Fixpoint index_from (t : list reg) (text : str) (from : nat) (i : nat) : option (nat * N) :=
  match text with
  | [] => None
  | c :: rest => if (from <=? i) && stops t c then Some (i, c) else index_from t rest from (S i)
  end.

Section Scan.
Variable St : Type.
(* what a handler does: from the state, the text and the index of its character to a new state and the index to go on from *)
Variable handle : str -> St -> str -> nat -> St * nat.
(* a stop character without handler: the newline *)
Variable newline : St -> str -> nat -> St * nat.

Fixpoint scan (fuel : nat) (t : list reg) (st : St) (text : str) (from : nat) : option (St * nat) :=
  match fuel with
  | 0 => None
  | S f =>
    match index_from t text from 0 with
    | None => Some (st, from)
    | Some (i, c) =>
      let '(st', from') := match lookup t c with Some h => handle h st text i | None => newline st text i end in
      scan f t st' text from'
    end
  end.
End Scan.

(* ---- what the extensions are documented to react to, one character class per extension (hand-written) ---- *)
Definition trig_chars (e : ext) : list N :=
  match e with
  | EStrike => [126]                       (* ~ *)
  | EAutolinks => [104; 119; 64; 120; 109] (* h(ttp) w(ww.) @ x(mpp:) m(ailto:) *)
  | _ => []                                 (* the others have no inline handler of their own *)
  end%N.
Definition has_any (cs : list N) (text : str) : bool := existsb (fun c => existsb (N.eqb c) cs) text.
