(* The plug-in life-cycle: what each plug-in is called with, in which order, after
   plugin_manager.py::starting_new_file / next_token / next_line / completed_file (dispatch lists from
   __apply_configuration, context maps), file_scan_helper.py::__scan_file / __process_file_scan /
   __process_lines_in_file (scan) and __process_file_fix_tokens / __process_file_fix_lines (fix phases).
   Definitions only.  Tokens are identified by their index in the stream handed to the rules. *)
From Coq Require Import List ZArith NArith Bool Arith.
Require Import PV.Base.Str PV.Base.StrOrder PV.Base.RuleTypes.
Import ListNotations.

Inductive ctx : Set := CScan | CFix | CReport.          (* plain scan context / fixing context / collecting context *)
Inductive call : Set :=
| Start                                                   (* starting_new_file() *)
| Tok (i : nat)                                           (* next_token(context, tokens[i]) *)
| Line (n : nat) (text : str)                             (* next_line(context, text) with context.line_number = n *)
| Complete (n : Z).                                       (* completed_file(context) with context.line_number = n *)
Definition ev : Set := (str * ctx * call)%type.           (* plug-in id, kind of context it is handed, call *)

Definition pmem (x : str) (l : list str) : bool := existsb (str_eqb x) l.
(* which context a plug-in gets: no map (scan) = the caller's; with a map = its own entry, or it is skipped *)
Definition ctx_of (cmap : option (list (str * ctx))) (default : ctx) (p : rule) : option ctx :=
  match cmap with
  | None => Some default
  | Some m => match find (fun e => str_eqb (fst e) (r_id p)) m with Some e => Some (snd e) | None => None end
  end.
Definition deliver (sel : rule -> bool) (cmap : option (list (str * ctx))) (default : ctx) (c : rule -> call) (enabled : list rule) : list ev :=
  flat_map (fun p => if sel p then match ctx_of cmap default p with Some k => [(r_id p, k, c p)] | None => [] end else []) enabled.

(* starting_new_file(constraint_id_list): plug-ins that define the callback and are in the constraint (None = all) *)
Definition d_start (enabled : list rule) (constraint : option (list str)) (kind : ctx) : list ev :=
  flat_map (fun p => if r_cb_start p && match constraint with None => true | Some l => pmem (r_id p) l end
                     then [(r_id p, kind, Start)] else []) enabled.
Definition d_token enabled cmap default (i : nat) : list ev := deliver r_cb_token cmap default (fun _ => Tok i) enabled.
(* a line has two texts in the line phase of fix mode: as read from the file, and as rewritten by the fixing plug-ins of the
   pass (next_line hands each plug-in the line as left by the plug-ins dispatched before it).  `pick p` says which one
   plug-in p is handed; in scan mode both are the same. *)
Definition d_line enabled cmap default (pick : rule -> bool) (nl : nat * (str * str)) : list ev :=
  deliver r_cb_line cmap default (fun p => Line (fst nl) (if pick p then snd (snd nl) else fst (snd nl))) enabled.
Definition d_complete enabled cmap default (n : Z) : list ev := deliver r_cb_complete cmap default (fun _ => Complete n) enabled.
Definition same (l : list str) : list (str * str) := map (fun s => (s, s)) l.
Definition no_pick (_ : rule) : bool := false.
(* plug-ins dispatched after the built-in line fixers (ids sort after `pivot`) see the rewritten line *)
Definition after_pivot (pivot : str) (p : rule) : bool := negb (PV.Base.StrOrder.str_ltb (r_id p) pivot).

(* ---- scan mode: one file ---- *)
Definition scan_file (enabled : list rule) (ntoks : nat) (lines : list str) : list ev :=
  d_start enabled None CScan
  ++ flat_map (d_token enabled None CScan) (seq 0 ntoks)
  ++ flat_map (d_line enabled None CScan no_pick) (number_from 1 (same lines))
  ++ d_complete enabled None CScan (Z.of_nat (length lines) + 1).
Definition scan_files (enabled : list rule) (files : list (nat * list str)) : list ev :=
  flat_map (fun f => scan_file enabled (fst f) (snd f)) files.

(* ---- fix mode: the two phases of one pass ---- *)
Definition cmap_of (fix_list collect_list : list str) : list (str * ctx) :=
  map (fun i => (i, CFix)) fix_list ++ map (fun i => (i, CReport)) collect_list.
(* python dict built by comprehension then overwritten by the collect entries: a later entry wins; ids are disjoint in practice.
   An empty dict is falsy: `if context_map:` then treats every plug-in as mapped to the caller's context *)
Definition cmap_opt (fix_list collect_list : list str) : option (list (str * ctx)) :=
  match cmap_of fix_list collect_list with [] => None | m => Some (rev m) end.
Definition token_phase (enabled : list rule) (fix_list collect_list : list str) (ntoks : nat) : list ev :=
  d_start enabled (Some fix_list) CFix ++ d_start enabled (Some collect_list) CReport
  ++ flat_map (d_token enabled (cmap_opt fix_list collect_list) CFix) (seq 0 ntoks)
  ++ d_complete enabled (cmap_opt fix_list collect_list) CFix (-1).
Definition line_phase (enabled : list rule) (fix_list collect_list : list str) (ntoks : nat) (pick : rule -> bool) (lines : list (str * str)) : list ev :=
  d_start enabled (Some fix_list) CFix ++ d_start enabled (Some collect_list) CReport
  ++ flat_map (d_token enabled (cmap_opt fix_list collect_list) CFix) (seq 0 ntoks)
  ++ flat_map (d_line enabled (cmap_opt fix_list collect_list) CFix pick) (number_from 1 lines)
  ++ d_complete enabled (cmap_opt fix_list collect_list) CFix (Z.of_nat (length lines) + 1).

(* ---- what one plug-in sees ---- *)
Definition trace_of (pid : str) (tr : list ev) : list (ctx * call) :=
  map (fun e => (snd (fst e), snd e)) (filter (fun e => str_eqb (fst (fst e)) pid) tr).
Definition opt1 {A} (b : bool) (x : A) : list A := if b then [x] else [].
(* the shape the property demands, restricted to the callbacks the plug-in defines *)
Definition seen_lines (pick : rule -> bool) (p : rule) (lines : list (str * str)) : list str :=
  map (fun l => if pick p then snd l else fst l) lines.
Definition shape (p : rule) (k : ctx) (ntoks : nat) (lines : option (list str)) (final : Z) : list (ctx * call) :=
  opt1 (r_cb_start p) (k, Start)
  ++ (if r_cb_token p then map (fun i => (k, Tok i)) (seq 0 ntoks) else [])
  ++ match lines with
     | Some ls => if r_cb_line p then map (fun nl => (k, Line (fst nl) (snd nl))) (number_from 1 ls) else []
     | None => []
     end
  ++ opt1 (r_cb_complete p) (k, Complete final).

Definition ids_distinct (enabled : list rule) : Prop := NoDup (map r_id enabled).

Definition ctx_eqb (a b : ctx) : bool := match a, b with CScan, CScan | CFix, CFix | CReport, CReport => true | _, _ => false end.
Definition call_eqb (a b : call) : bool :=
  match a, b with
  | Start, Start => true | Tok i, Tok j => Nat.eqb i j | Line n s, Line m t => Nat.eqb n m && str_eqb s t
  | Complete n, Complete m => Z.eqb n m | _, _ => false
  end.
Definition ev_eqb (a b : ev) : bool := str_eqb (fst (fst a)) (fst (fst b)) && ctx_eqb (snd (fst a)) (snd (fst b)) && call_eqb (snd a) (snd b).
