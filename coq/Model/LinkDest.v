(* C03 - links/link_parse_helper.py::__encode_link_destination: the normalisation of a link destination before it becomes an
   href / src attribute.  The reference implementations of CommonMark (commonmark.js / markdown-it `normalizeLink`, which the
   specification's examples follow: `[link](foo%20b&auml;)` gives href="foo%20b%C3%A4") keep an existing percent escape,
   write a `%` that does not start one as %25, `&` as &amp; and percent-encode the UTF-8 bytes of every character outside a
   fixed safe set.
   `encode_impl` follows the Python loop (the text is cut at the next `%` or `&`, the piece in front goes through
   urllib.parse.quote, the special character is handled, and so on; the index into the string is rendered as the remaining
   suffix); `enc` is the same function by recursion on the characters.  A lone surrogate (on which urllib raises) is outside
   the model. *)
From Coq Require Import List NArith Bool Arith.
Require Import PV.Base.Str.
Import ListNotations.
Local Open Scope N_scope.

Definition c_pct : N := 37.
Definition is_hexd (c : N) : bool := ((48 <=? c) && (c <=? 57)) || ((65 <=? c) && (c <=? 70)) || ((97 <=? c) && (c <=? 102)).
Definition is_alnum (c : N) : bool := ((48 <=? c) && (c <=? 57)) || ((65 <=? c) && (c <=? 90)) || ((97 <=? c) && (c <=? 122)).
(* urllib.parse.quote never quotes letters, digits and "_.-~"; LinkParseHelper.__link_safe_characters = "/#:?=()*!$'+,;@" *)
Definition safe_extra : list N := [47; 35; 58; 63; 61; 40; 41; 42; 33; 36; 39; 43; 44; 59; 64].
Definition is_safe (c : N) : bool := is_alnum c || existsb (N.eqb c) [95; 46; 45; 126] || existsb (N.eqb c) safe_extra.

Definition hexdig (n : N) : N := if n <? 10 then 48 + n else 55 + n.
Definition pct_byte (b : N) : str := [c_pct; hexdig (b / 16); hexdig (b mod 16)].
Definition utf8 (c : N) : list N :=
  if c <? 128 then [c]
  else if c <? 2048 then [192 + c / 64; 128 + c mod 64]
  else if c <? 65536 then [224 + c / 4096; 128 + (c / 64) mod 64; 128 + c mod 64]
  else [240 + c / 262144; 128 + (c / 4096) mod 64; 128 + (c / 64) mod 64; 128 + c mod 64].
Definition quote1 (c : N) : str := if is_safe c then [c] else flat_map pct_byte (utf8 c).
Definition quote (s : str) : str := flat_map quote1 s.

Definition s_pct25 : str := [37; 50; 53].
Definition s_amp : str := [38; 97; 109; 112; 59].
Definition is_special (c : N) : bool := N.eqb c c_pct || N.eqb c c_amp.

(* ---- the loop of the implementation ---- *)
(* ParserHelper.collect_until_one_of_characters_verified(text, i, "%&"): the piece up to the next special character, and the rest *)
Fixpoint span_plain (s : str) : str * str :=
  match s with
  | [] => ([], [])
  | c :: r => if is_special c then ([], s) else let (a, b) := span_plain r in (c :: a, b)
  end.

(* one turn of the while loop: `rest` starts at the special character *)
Definition turn (rest : str) : str * str :=
  match rest with
  | [] => ([], [])
  | sc :: r =>
    if N.eqb sc c_pct then
      let hg := taken 2 r in
      if Nat.eqb (length hg) 2 && forallb is_hexd hg then (c_pct :: hg, dropn 2 r) else (s_pct25, r)
    else (s_amp, r)
  end.

Fixpoint loop (fuel : nat) (rest : str) : option str :=
  match rest with
  | [] => Some []
  | _ :: _ =>
    match fuel with
    | O => None
    | S f =>
      let (part, r1) := turn rest in
      let (before, r2) := span_plain r1 in
      option_map (fun t => part ++ quote before ++ t) (loop f r2)
    end
  end.

Definition encode_impl (s : str) : option str :=
  let (before, r) := span_plain s in option_map (app (quote before)) (loop (length s) r).

(* ---- the same by recursion on the characters ---- *)
Fixpoint enc (s : str) : str :=
  match s with
  | [] => []
  | c :: r =>
    if N.eqb c c_pct then
      match r with
      | h1 :: h2 :: r' => if is_hexd h1 && is_hexd h2 then c_pct :: h1 :: h2 :: enc r' else s_pct25 ++ enc r
      | _ => s_pct25 ++ enc r
      end
    else if N.eqb c c_amp then s_amp ++ enc r
    else quote1 c ++ enc r
  end.

(* the text ends inside what could become an escape: `%` or `%h` not consumed by an earlier escape *)
Fixpoint open_tail (s : str) : bool :=
  match s with
  | [] => false
  | c :: r =>
    if N.eqb c c_pct then
      match r with
      | h1 :: h2 :: r' => if is_hexd h1 && is_hexd h2 then open_tail r' else open_tail r
      | _ => true
      end
    else open_tail r
  end.

(* characters: Unicode scalar values *)
Definition valid (s : str) : bool := forallb (fun c => c <? 1114112) s.
(* what may stand in the attribute: the safe set, `%` and the characters of `&amp;` - all ASCII, no space, quote or angle bracket *)
Definition out_ok (c : N) : bool := is_safe c || N.eqb c c_pct || N.eqb c c_amp.
