(* C03 - links/link_parse_helper.py: normalize_link_label (the form under which link labels are compared), and the map of
   link reference definitions, add_link_definition / look_up_link ("the first definition wins, labels are matched
   case-folded").  CommonMark 4.7 / 6.3: to normalise a label strip the white space around it, collapse runs of white space
   inside it to one space and fold the case.  `norm_impl` follows the Python text (replace_any_of, split(" ") without the
   empty pieces, join, casefold, strip); `norm` is the same as one pass over the characters.  str.casefold is modelled for
   ASCII text only (A-Z to a-z); labels with other letters are outside the model. *)
From Coq Require Import List NArith Bool Arith.
Require Import PV.Base.Str.
Import ListNotations.
Local Open Scope N_scope.

(* Constants.non_space_ascii_whitespace = "\t\n\v\f\r" *)
Definition is_ows (c : N) : bool := (9 <=? c) && (c <=? 13).
Definition fold_ws (s : str) : str := map (fun c => if is_ows c then c_sp else c) s.
Definition lower (c : N) : N := if (65 <=? c) && (c <=? 90) then c + 32 else c.
Definition nonempty (s : str) : bool := negb (is_nil s).

Definition norm_impl (s : str) : str :=
  strip (map lower (join_c c_sp (filter nonempty (split_c c_sp (fold_ws s))))).

(* one pass: every word that follows a gap gets one space in front of it *)
Fixpoint sq (inword : bool) (s : str) : str :=
  match s with
  | [] => []
  | c :: r => if N.eqb c c_sp then sq false r else if inword then c :: sq true r else c_sp :: c :: sq true r
  end.
Definition squeeze (s : str) : str := tl (sq false s).
Definition norm (s : str) : str := map lower (squeeze (fold_ws s)).

Definition all_ws (s : str) : bool := forallb (fun c => N.eqb c c_sp || is_ows c) s.
Definition upper (c : N) : N := if (97 <=? c) && (c <=? 122) then c - 32 else c.

(* ---- the definitions ---- *)
Section Defs.
Variable V : Type.
Definition defmap := list (str * V).
Fixpoint find_def (k : str) (d : defmap) : option V :=
  match d with [] => None | (k', v) :: r => if str_eqb k k' then Some v else find_def k r end.
(* LinkParseHelper.add_link_definition (the caller passes the normalised label): kept only if the label is new *)
Definition add_def (d : defmap) (kv : str * V) : defmap :=
  match find_def (fst kv) d with Some _ => d | None => d ++ [kv] end.
(* LinkParseHelper.look_up_link: the label is normalised; an empty one matches nothing *)
Definition look_up (d : defmap) (label : str) : option V :=
  let k := norm_impl label in if is_nil k then None else find_def k d.
(* a document's definitions, in order: (label as written, value) *)
Definition build (entries : list (str * V)) : defmap :=
  fold_left add_def (map (fun e => (norm_impl (fst e), snd e)) entries) [].
(* what the specification says: the first definition whose label matches *)
Fixpoint first_match (k : str) (entries : list (str * V)) : option V :=
  match entries with [] => None | (l, v) :: r => if str_eqb k (norm l) then Some v else first_match k r end.
End Defs.
