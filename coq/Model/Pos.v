(* Token positions.  (1) the arithmetic under every inline position: ParserHelper.calculate_deltas (line / column delta of
   a consumed string; a negative column delta means "absolute column") and its application, and MarkdownToken's
   column = index_number + index_indent + 1.  (2) the oracle pos_ok: the (line, column) of a token lies inside the source
   and the source text there is the element's own opening text.  Definitions only. *)
From Coq Require Import List ZArith NArith Bool Arith.
Require Import PV.Base.Str.
Import ListNotations.
Local Open Scope Z_scope.

(* ---- (1) ---- *)
Definition has_nl (s : str) : bool := existsb (N.eqb c_nl) s.
Definition last_piece (s : str) : str := last (split_nl s) [].
(* calculate_deltas for text without replacement / escape markers *)
Definition calc_deltas (s : str) : Z * Z :=
  if has_nl s then (Z.of_nat (length (split_nl s)) - 1, - (Z.of_nat (length (last_piece s)) + 1))
  else (0, Z.of_nat (length s)).
Definition apply_deltas (p : Z * Z) (d : Z * Z) : Z * Z :=
  (fst p + fst d, if snd d <? 0 then - snd d else snd p + snd d).
(* reading the text character by character *)
Definition read_char (p : Z * Z) (c : N) : Z * Z := if N.eqb c c_nl then (fst p + 1, 1) else (fst p, snd p + 1).
Definition read_pos (p : Z * Z) (s : str) : Z * Z := fold_left read_char s p.
Definition token_column (index_number index_indent : Z) : Z := index_number + index_indent + 1.

(* ---- (2) ---- *)
(* what the source must show at a token's position, by token kind *)
Inductive opening : Set :=
| OChars (cs : list N)      (* one of these characters *)
| ODigit                    (* a digit (ordered list marker) *)
| ONonBlank                 (* any character that is not a space or tab (first character of a paragraph, of indented code ...) *)
| OAny                      (* anything, also the end of the line (text tokens may start with whitespace, blank lines) *)
| OLineStart                (* column 1 (blank line tokens) *)
| OAfterSpaces (cs : list N). (* optional spaces, then one of these characters (an HTML block keeps its indentation as content) *)
Fixpoint skip_sp (s : str) : str := match s with c :: r => if N.eqb c c_sp then skip_sp r else s | [] => [] end.
Definition nth_char (line : str) (col : Z) : option N := if 1 <=? col then nth_error line (Z.to_nat (col - 1)) else None.
Definition opens (o : opening) (line : str) (col : Z) : bool :=
  match o with
  | OChars cs => match nth_char line col with Some c => existsb (N.eqb c) cs | None => false end
  | ODigit => match nth_char line col with Some c => is_digit c | None => false end
  | ONonBlank => match nth_char line col with Some c => negb (N.eqb c c_sp || N.eqb c c_tab) | None => false end
  | OAny => true
  | OLineStart => col =? 1
  | OAfterSpaces cs => match skip_sp (dropn (Z.to_nat (col - 1)) line) with c :: _ => existsb (N.eqb c) cs | [] => false end
  end.
Definition in_source (lines : list str) (l c : Z) : bool :=
  (1 <=? l) && (l <=? Z.of_nat (length lines)) && (1 <=? c) && (c <=? Z.of_nat (length (nth (Z.to_nat (l - 1)) lines [])) + 1).
Definition pos_ok (lines : list str) (o : opening) (l c : Z) : bool :=
  in_source lines l c && opens o (nth (Z.to_nat (l - 1)) lines []) c.
(* block tokens appear in non-decreasing line order *)
Fixpoint monotone (ls : list Z) : bool :=
  match ls with a :: ((b :: _) as r) => (a <=? b) && monotone r | _ => true end.

(* a whole document: every positioned token is ok and the block tokens are in non-decreasing line order *)
Definition ptoken : Set := (opening * Z * Z * bool)%type.          (* expected opening, line, column, is a block token *)
Definition doc_pos_ok (lines : list str) (ts : list ptoken) : list bool :=
  map (fun t => let '(o, l, c, _) := t in pos_ok lines o l c) ts.
Definition doc_monotone (ts : list ptoken) : bool :=
  monotone (map (fun t => snd (fst (fst t))) (filter (fun t => snd t) ts)).
