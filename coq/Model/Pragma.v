(* Pragmas, after extensions/pragma_token.py (look_for_pragmas, compile_single_pragma, __handle_disable_next_line,
   __handle_disable_num_lines) and plugin_manager.py::compile_pragmas / log_scan_failure.  Definitions only.
   Layer 1: the text of a pragma line -> a parsed pragma.  Layer 2: parsed pragmas -> suppression tables and errors.
   Layer 3: which failures are suppressed. *)
From Coq Require Import List ZArith NArith Bool Arith.
Require Import PV.Base.Str PV.Base.RuleTypes.
Import ListNotations.

(* ---------- layer 1: text ---------- *)
Definition is_ws (c : N) : bool := N.eqb c c_sp || N.eqb c c_tab.                         (* ParserHelper: " \t" *)
Definition is_ascii_ws (c : N) : bool := N.eqb c 32 || (N.leb 9 c && N.leb c 13).        (* Constants.ascii_whitespace *)
Fixpoint skip_ws (s : str) : str := match s with c :: r => if is_ws c then skip_ws r else s | [] => [] end.
Fixpoint take_nonws (s : str) : str * str :=
  match s with c :: r => if is_ws c then ([], s) else let '(a, b) := take_nonws r in (c :: a, b) | [] => ([], []) end.
Definition lower_c (c : N) : N := if (N.leb 65 c && N.leb c 90)%bool then (c + 32)%N else c.
Definition lower (s : str) : str := map lower_c s.
Definition rstrip_ascii (s : str) : str := rev ((fix go (l : str) := match l with c :: r => if is_ascii_ws c then go r else l | [] => [] end) (rev s)).
Definition strip_sp (s : str) : str := strip s.                                           (* str.strip(" ") *)

Definition pfx : str := [60;33;45;45]%N.          (* "<!--"  *)
Definition pfx_alt : str := [60;33;45;45;45]%N.   (* "<!---" *)
Definition title : str := [112;121;109;108;32]%N. (* "pyml " *)
Definition sfx : str := [45;45;62]%N.             (* "-->"   *)

(* look_for_pragmas on a line at container depth 0 (the caller passes the leading whitespace separately: a line that
   starts with whitespace is not looked at).  Some true = recognised with the alternate prefix. *)
Definition is_pragma_line (line : str) : option bool :=
  if prefix_b pfx line then
    let alt := prefix_b pfx_alt line in
    let rest := lower (rstrip_ascii (skip_ws (dropn (if alt then 5 else 4) line))) in
    if prefix_b title rest && suffix_b sfx rest then Some alt else None
  else None.

Inductive cmd : Set := CNone | CUnknown | CNext | CNum (n : Z) | CNumNoArgs | CNumBadCount | CNumNoIds.
Inductive idres : Set := IdOk (rid : str) | IdBlank | IdUnknown.
Record parsed : Set := mkParsed { p_at : Z; p_cmd : cmd; p_ids : list idres }.

Definition str_next : str := [100;105;115;97;98;108;101;45;110;101;120;116;45;108;105;110;101]%N.   (* disable-next-line *)
Definition str_num : str := [100;105;115;97;98;108;101;45;110;117;109;45;108;105;110;101;115]%N.    (* disable-num-lines *)

(* all_ids: id and names of every registered rule -> its (lower-case) id *)
Definition resolve_id (rules : list rule) (x : str) : option str :=
  match find (fun r => existsb (str_eqb x) (r_idents r)) rules with Some r => Some (r_id r) | None => None end.
Definition parse_ids (rules : list rule) (s : str) : list idres :=
  map (fun piece => let x := lower (strip_sp piece) in
                    if is_nil x then IdBlank else match resolve_id rules x with Some i => IdOk i | None => IdUnknown end)
      (split_c c_comma s).
(* int(): optional sign and ASCII digits (underscores and non-ASCII digits are outside the model) *)
Definition parse_count (s : str) : option Z :=
  let digits := fun d => if forallb is_digit d && negb (is_nil d) then Some (Z.of_N (num_of 0 d)) else None in
  match s with
  | c :: r => if N.eqb c c_plus then digits r else if N.eqb c c_dash then option_map Z.opp (digits r) else digits s
  | [] => None
  end.

(* compile_single_pragma: the slice [after "pyml " and spaces : -3] of the text after the prefix *)
Definition command_data (alt : bool) (line : str) : str :=
  let lap := dropn (if alt then 5 else 4) line in
  let after1 := skip_ws lap in
  let after2 := skip_ws (dropn 5 after1) in
  (* python: line_after_prefix[idx : -3] *)
  taken (length after2 - 3) after2.
Definition parse_pragma (rules : list rule) (at_line : Z) (alt : bool) (line : str) : parsed :=
  let cd := command_data alt line in
  let '(c, rest) := take_nonws cd in
  let c := lower c in
  if is_nil c then mkParsed at_line CNone []
  else if str_eqb c str_next then mkParsed at_line CNext (parse_ids rules rest)
  else if str_eqb c str_num then
    let r1 := skip_ws rest in
    if is_nil r1 then mkParsed at_line CNumNoArgs []
    else let '(num, r2) := take_nonws r1 in
         match parse_count num with
         | Some n => if (1 <=? n)%Z then
                       let r3 := skip_ws r2 in
                       if is_nil r3 then mkParsed at_line CNumNoIds [] else mkParsed at_line (CNum n) (parse_ids rules r3)
                     else mkParsed at_line CNumBadCount []
         | None => mkParsed at_line CNumBadCount []
         end
  else mkParsed at_line CUnknown [].

(* ---------- layer 2: tables ---------- *)
Definition ok_ids (p : parsed) : list str := flat_map (fun i => match i with IdOk r => [r] | _ => [] end) (p_ids p).
Record tables : Set := mkTables { t_next : list (Z * list str); t_ranges : list (Z * Z * list str) }.
(* document_pragmas[line + 1] = ids (a dict: a later assignment for the same line replaces the earlier one) *)
Definition add_pragma (t : tables) (p : parsed) : tables :=
  match p_cmd p, ok_ids p with
  | CNext, (_ :: _) as ids => mkTables ((p_at p + 1, ids)%Z :: t_next t) (t_ranges t)
  | CNum n, (_ :: _) as ids => mkTables (t_next t) (t_ranges t ++ [(p_at p + 1, p_at p + n, ids)%Z])
  | _, _ => t
  end.
Definition compile (ps : list parsed) : tables := fold_left add_pragma ps (mkTables [] []).
(* how many error messages a pragma produces (each names the pragma's own line) *)
Definition n_errors (p : parsed) : nat :=
  match p_cmd p with
  | CNone | CUnknown | CNumNoArgs | CNumBadCount | CNumNoIds => 1
  | CNext | CNum _ => length (filter (fun i => match i with IdOk _ => false | _ => true end) (p_ids p))
  end.

(* ---------- layer 3: log_scan_failure ---------- *)
Fixpoint lookup_z (k : Z) (l : list (Z * list str)) : option (list str) :=
  match l with [] => None | (k', v) :: r => if Z.eqb k k' then Some v else lookup_z k r end.
Definition mem_s (x : str) (l : list str) : bool := existsb (str_eqb x) l.
Definition suppressed (t : tables) (line : Z) (rid : str) : bool :=
  (match lookup_z line (t_next t) with Some ids => mem_s rid ids | None => false end)
  || existsb (fun r => let '(i, j, k) := r in (i <=? line)%Z && (line <=? j)%Z && mem_s rid k) (t_ranges t).

(* ---------- specification ---------- *)
Definition covers (p : parsed) (line : Z) : bool :=
  match p_cmd p with
  | CNext => Z.eqb line (p_at p + 1)
  | CNum n => ((p_at p + 1 <=? line) && (line <=? p_at p + n))%Z
  | _ => false
  end.
Definition names (p : parsed) (rid : str) : bool := mem_s rid (ok_ids p).
