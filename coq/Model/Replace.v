(* C08 - file_scan_helper.py::__apply_replacement_fix: one token-range replacement requested by a fixing rule.
   The token list keeps everything outside the range, the tokens behind it move by the change in the number of lines,
   and the pragma lines recorded in the trailing pragma token (a dictionary line -> text, kept apart from the tokens)
   move with them.  A pragma with the alternate prefix is keyed by its negated line in the implementation; here a pragma
   is keyed by its line and the prefix is part of its value. *)
From Coq Require Import List ZArith Bool Arith Lia.
Require Import PV.Base.Sort.
Import ListNotations.
Local Open Scope Z_scope.

Section R.
Variable V : Type.
Definition dict := list (Z * V).

Fixpoint lookup (k : Z) (d : dict) : option V :=
  match d with [] => None | (k', v) :: r => if Z.eqb k k' then Some v else lookup k r end.
Fixpoint remove (k : Z) (d : dict) : dict :=
  match d with [] => [] | (k', v) :: r => if Z.eqb k k' then remove k r else (k', v) :: remove k r end.
(* Python: d[k] = v *)
Definition set (k : Z) (v : V) (d : dict) : dict := (k, v) :: remove k d.
(* PragmaToken.adjust_pragma_line_number: old = d[k]; del d[k]; d[k'] = old *)
Definition move (d : dict) (k k' : Z) : dict :=
  match lookup k d with Some v => set k' v (remove k d) | None => d end.

(* sorted(keys, key=abs), reversed when lines are added *)
Definition order (keys : list Z) (delta : Z) : list Z :=
  let s := sort Z.ltb keys in if 0 <? delta then rev s else s.

Definition target (end_line delta k : Z) : Z := if end_line <? k then k + delta else k.
Definition step (end_line delta : Z) (d : dict) (k : Z) : dict :=
  if end_line <? k then move d k (k + delta) else d.
Definition shift_pragmas (d : dict) (end_line delta : Z) : dict :=
  fold_left (step end_line delta) (order (map fst d) delta) d.

(* what the loop is meant to do: every pragma behind the replaced range moves by delta, the others stay *)
Definition shift_spec (d : dict) (end_line delta : Z) : dict :=
  map (fun p => (target end_line delta (fst p), snd p)) d.

(* the loop as it was before the repair f3ff20a: always from the last line to the first *)
Definition shift_pragmas_desc (d : dict) (end_line delta : Z) : dict :=
  fold_left (step end_line delta) (rev (sort Z.ltb (map fst d))) d.
End R.

(* ---- the token list ---- *)
Record tk := mktk { t_id : nat; t_line : Z; t_end : bool }.
(* MarkdownToken.adjust_line_number: a token without a line (line 0, the end tokens) stays as it is *)
Definition adjust (d : Z) (t : tk) : tk := if Z.eqb (t_line t) 0 then t else mktk (t_id t) (t_line t + d) (t_end t).
Definition nth_line (l : list tk) (i : nat) : Z := t_line (nth i l (mktk 0 0 false)).

(* the first token of the range that is not an end token (or the last token of the range) *)
Fixpoint actual_start (toks : list tk) (si ei : nat) (fuel : nat) : nat :=
  match fuel with
  | O => si
  | S f => if (si <? ei)%nat && t_end (nth si toks (mktk 0 0 false)) then actual_start toks (S si) ei f else si
  end.

Definition line_delta (toks : list tk) (si ei : nat) (newt : list tk) : Z :=
  let a := actual_start toks si ei (length toks) in
  let d1 := nth_line toks ei - nth_line toks a + 1 in
  let d2 := t_line (last newt (mktk 0 0 false)) - t_line (hd (mktk 0 0 false) newt) + 1 in
  d2 - d1.

Definition replace_tokens (toks : list tk) (si ei : nat) (newt : list tk) : list tk :=
  firstn si toks ++ newt ++ map (adjust (line_delta toks si ei newt)) (skipn (S ei) toks).
