(* Collection, ordering and printing of rule failures, after
   plugin_scan_context.py::add_triggered_rule / report_on_triggered_rules and
   plugin_manager.py::log_scan_failure.  The comparison itself is Gen/FailureLt.v (translated). *)
From Coq Require Import List ZArith Bool.
Require Import PV.Base.Str PV.Base.StrOrder PV.Base.Sort PV.Gen.FailureLt.
Import ListNotations.
Local Open Scope Z_scope.

(* add_triggered_rule appends to the list; report_on_triggered_rules hands sorted(list) to log_scan_failure,
   which drops suppressed failures (pragmas) and prints the others *)
Definition sorted_failures (rs : list failure) : list failure := sort failure_ltb rs.
Definition printed (supp : failure -> bool) (rs : list failure) : list failure :=
  filter (fun f => negb (supp f)) (sorted_failures rs).

(* ---- specification: the documented order "by line, then column, then rule id" ---- *)
Definition key_ltb (a b : failure) : bool :=
  (f_line a <? f_line b) ||
  ((f_line a =? f_line b) && ((f_col a <? f_col b) || ((f_col a =? f_col b) && str_ltb (f_rid a) (f_rid b)))).
Definition key_le (a b : failure) : Prop := key_ltb b a = false.
Definition same_key (a b : failure) : Prop := f_line a = f_line b /\ f_col a = f_col b /\ f_rid a = f_rid b.

(* a position is inside a document whose lines have the given lengths: the line exists (a report may also
   name the line after the last one when the text ends in a newline, which the harness counts as an
   (empty) line), the column is within the line or one past its end *)
Definition in_range (lens : list Z) (p : Z * Z) : Prop :=
  let '(l, c) := p in 1 <= l <= Z.of_nat (length lens) /\ 1 <= c <= nth (Z.to_nat (l - 1)) lens 0 + 1.

Definition failure_eqb (a b : failure) : bool :=
  str_eqb (f_file a) (f_file b) && (f_line a =? f_line b) && (f_col a =? f_col b) && str_eqb (f_rid a) (f_rid b) && str_eqb (f_extra a) (f_extra b).
