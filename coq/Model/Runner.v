(* Model of the per-file loop and its error handling, written after
   file_scan_helper.py::process_files_to_scan / __scan_specific_file / __fix_specific_file /
   __handle_scan_error and main.py::main / __scan_files_if_no_errors.
   No proofs here (the model must still run when a proof breaks). *)
From Coq Require Import List NArith Bool ZArith.
Require Import PV.Base.Str PV.Gen.ReturnCodes PV.Gen.FinalCategory.
Import ListNotations.

Inductive mode : Set := Scan | Fix.

(* What happens while one file is processed, as far as the loop can see. *)
Inductive outcome : Set :=
| Done (nfail : N) (fixed : bool)  (* ran to completion; scan: nfail failures reported; fix: file rewritten iff fixed *)
| PluginErr (nfail : N)            (* BadPluginError / BadPluginFixError raised; scan: nfail failures were collected before *)
| TokErr                           (* BadTokenizationError raised by the parser *)
| DecodeErr.                       (* the file is not valid UTF-8: UnicodeDecodeError in FileSourceProvider, reported per file, always fatal *)

Inductive event : Set :=
| EFailures (file n : N)   (* n "file:line:col: ID" lines on stdout *)
| EFixed (file : N)        (* "Fixed: file" on stdout *)
| EShortError (file : N)   (* "file:0:0: message" on stderr: continue-on-error shortcut *)
| ELongError (file : N)    (* "X encountered while scanning 'file':" on stderr, then exit *)
| EUnexpected              (* main(): "Unexpected Error(BadTokenizationError): ..." - does not name the file *)
| EConfigError.            (* main(): "Configuration Error: 'utf-8' codec ..." - does not name the file *)

Record st : Set := mkst { did_fix : bool; did_fail : bool; nfailures : N; out : list event }.
Definition st0 : st := mkst false false 0%N [].

Definition is_err (o : outcome) : bool := match o with Done _ _ => false | _ => true end.
Definition eff_nfail (m : mode) (n : N) : N := match m with Scan => n | Fix => 0%N end.
Definition eff_fixed (m : mode) (b : bool) : bool := match m with Scan => false | Fix => b end.
Definition ev_failures (f n : N) : list event := if N.eqb n 0 then [] else [EFailures f n].

(* one iteration of `for next_file in files_to_scan`; inr = the process exits with SYSTEM_ERROR *)
Definition step (m : mode) (coe : bool) (s : st) (fo : N * outcome) : st + list event :=
  let '(f, o) := fo in
  match o with
  | Done n fx =>
      let n' := eff_nfail m n in let fx' := eff_fixed m fx in
      inl (mkst (did_fix s || fx') (did_fail s) (nfailures s + n')
                (out s ++ ev_failures f n' ++ (if fx' then [EFixed f] else [])))
  | PluginErr n =>
      let n' := eff_nfail m n in
      if coe then inl (mkst (did_fix s) true (nfailures s + n') (out s ++ ev_failures f n' ++ [EShortError f]))
      else inr (out s ++ ev_failures f n' ++ [ELongError f])
  | TokErr =>
      if coe then inl (mkst (did_fix s) true (nfailures s) (out s ++ [EShortError f]))
      else inr (out s ++ [EUnexpected])
  | DecodeErr => inr (out s ++ [ELongError f])
  end.

Fixpoint loop (m : mode) (coe : bool) (s : st) (fs : list (N * outcome)) : st + list event :=
  match fs with
  | [] => inl s
  | f :: r => match step m coe s f with inl s' => loop m coe s' r | inr o => inr o end
  end.

Definition run (m : mode) (coe : bool) (fs : list (N * outcome)) : app_result * list event :=
  match loop m coe st0 fs with
  | inl s => (final_category false (did_fail s) (did_fix s) (nfailures s), out s)
  | inr o => (SYSTEM_ERROR, o)
  end.

Definition category m coe fs := fst (run m coe fs).
Definition outputs m coe fs := snd (run m coe fs).
Definition exit_code (sc : scheme) m coe fs : option Z := code sc (category m coe fs).

(* ---- specification side ---- *)
Definition aborts (coe : bool) (o : outcome) : bool :=
  match o with Done _ _ => false | DecodeErr => true | _ => negb coe end.
(* the files the run gets to: everything up to and including the first aborting one *)
Fixpoint processed (coe : bool) (fs : list (N * outcome)) : list (N * outcome) :=
  match fs with
  | [] => []
  | f :: r => if aborts coe (snd f) then [f] else f :: processed coe r
  end.
Definition o_fixed (m : mode) (o : outcome) : bool := match o with Done _ fx => eff_fixed m fx | _ => false end.
Definition o_trig (m : mode) (o : outcome) : bool :=
  match o with Done n _ | PluginErr n => negb (N.eqb (eff_nfail m n) 0) | _ => false end.
Definition spec_category (m : mode) (coe : bool) (fs : list (N * outcome)) : app_result :=
  let p := map snd (processed coe fs) in
  if existsb is_err p then SYSTEM_ERROR
  else if existsb (o_fixed m) p then FIXED_AT_LEAST_ONE_FILE
  else if existsb (o_trig m) p then SCAN_TRIGGERED_AT_LEAST_ONCE
  else SUCCESS.

(* events of one file when it is processed without aborting the run *)
Definition file_events (m : mode) (fo : N * outcome) : list event :=
  let '(f, o) := fo in
  match o with
  | Done n fx => ev_failures f (eff_nfail m n) ++ (if eff_fixed m fx then [EFixed f] else [])
  | PluginErr n => ev_failures f (eff_nfail m n) ++ [EShortError f]
  | TokErr => [EShortError f]
  | DecodeErr => []
  end.
Definition names_file (f : N) (e : event) : bool :=
  match e with EShortError g | ELongError g => N.eqb f g | _ => false end.

(* ---- all the ways main() reaches exit_application (main.py::main, __parse_arguments,
        __initialize_plugins_and_extensions, plugin_manager/extension_manager sub-commands) ---- *)
Inductive path : Set :=
| PNoSubcommand                 (* no sub-command: help + COMMAND_LINE_ERROR (before the scheme is known) *)
| PVersion                      (* version: SUCCESS (before the scheme is known) *)
| PArgparseError                (* argparse itself calls sys.exit(2) *)
| PSubNoSub                     (* `plugins` / `extensions` without list|info *)
| PSubList (matched : bool)     (* plugins|extensions list [filter] *)
| PSubInfo (found : bool)       (* plugins|extensions info <id> *)
| PInitError                    (* bad --config, invalid scheme value, strict configuration error, bad --add-plugin *)
| PListFiles (nfiles : nat)     (* scan|fix --list-files: nfiles = 0 also when a path argument is in error *)
| PPathError                    (* scan|fix with a path argument in error *)
| PRun (m : mode) (coe : bool) (fs : list (N * outcome))
| PStdin (coe : bool) (o : outcome).

Definition path_category (p : path) : app_result :=
  match p with
  | PNoSubcommand | PArgparseError | PSubNoSub => COMMAND_LINE_ERROR
  | PVersion => SUCCESS
  | PSubList b | PSubInfo b => if b then SUCCESS else NO_FILES_TO_SCAN
  | PInitError => SYSTEM_ERROR
  | PListFiles n => list_files_category (Nat.eqb n 0)
  | PPathError => final_category true false false 0%N
  | PRun m coe fs => category m coe fs
  | PStdin coe o => category Scan coe [(0%N, o)]
  end.

(* the scheme in force when the exit happens: exits taken before
   ReturnCodeHelper.set_initial_state use the default scheme whatever was asked for *)
Definition scheme_known (p : path) : bool :=
  match p with PNoSubcommand | PVersion | PArgparseError => false | _ => true end.
Definition path_exit (asked : scheme) (p : path) : option Z :=
  code (if scheme_known p then asked else SchemeDefault) (path_category p).

(* ---- boolean equality on observations, for the correspondence check ---- *)
Definition event_eqb (a b : event) : bool :=
  match a, b with
  | EFailures f n, EFailures g k => N.eqb f g && N.eqb n k
  | EFixed f, EFixed g | EShortError f, EShortError g | ELongError f, ELongError g => N.eqb f g
  | EUnexpected, EUnexpected | EConfigError, EConfigError => true
  | _, _ => false
  end.
Definition optZ_eqb (a b : option Z) : bool :=
  match a, b with Some x, Some y => Z.eqb x y | None, None => true | _, _ => false end.
Definition is_stdout (e : event) : bool := match e with EFailures _ _ | EFixed _ => true | _ => false end.
(* observation of a run: exit status, stdout events, stderr events *)
Definition observe (sc : scheme) (m : mode) (coe : bool) (fs : list (N * outcome)) :=
  (exit_code sc m coe fs, filter is_stdout (outputs m coe fs), filter (fun e => negb (is_stdout e)) (outputs m coe fs)).
Definition obs_eqb (a b : option Z * list event * list event) : bool :=
  let '(c1, o1, e1) := a in let '(c2, o2, e2) := b in
  optZ_eqb c1 c2 && list_eqb event_eqb o1 o2 && list_eqb event_eqb e1 e2.
