(* Two of the global string passes at the end of TransformToMarkdown.transform, on which "lossless" rests whatever the
   tokens are:  (1) pragma lines are taken out of the parser's view (keyed by line number) and put back into the
   regenerated text by __handle_pragma_processing;  (2) three marker characters are deleted from the regenerated text.
   Documents are lists of lines here (the regenerated text is their join with newlines).  Definitions only. *)
From Coq Require Import List ZArith NArith Bool Arith.
Require Import PV.Base.Str.
Import ListNotations.

(* ---- (1) pragma lines ---- *)
Section Splice.
Variable isp : str -> bool.                      (* the line is recognised as a pragma (Model/Pragma.v is_pragma_line, at depth 0) *)
(* what the parser sees, and the pragma table: (key, line) with key = the 1-based line number, negated for the alternate prefix *)
Variable alt : str -> bool.
Fixpoint strip_from (n : Z) (d : list str) : list str * list (Z * str) :=
  match d with
  | [] => ([], [])
  | l :: r => let '(ls, ps) := strip_from (n + 1) r in
              if isp l then (ls, ((if alt l then - n else n)%Z, l) :: ps) else (l :: ls, ps)
  end.
Definition strip (d : list str) := strip_from 1 d.
End Splice.

(* the regenerated text is empty: no line at all, or one empty line - the code cannot tell them apart (`if transformed_data:`) *)
Definition text_empty (l : list str) : bool := match l with [] => true | [[]] => true | _ => false end.
Definition insert_line (k : nat) (p : str) (l : list str) : list str := firstn k l ++ p :: skipn k l.
(* one step of __handle_pragma_processing: line number n = |key|;
   n = 1 -> in front; otherwise before the (n-1)-th newline of the text, or at the end when there is none
   (find_nth_occurrence returns -1, also for n - 1 <= 0) *)
Definition reinsert1 (l : list str) (kp : Z * str) : list str :=
  let '(key, p) := kp in let n := Z.abs key in
  if (n =? 1)%Z then (if text_empty l then [p] else p :: l)
  else if ((1 <=? n - 1) && (n - 1 <=? Z.of_nat (length l) - 1))%Z%bool then insert_line (Z.to_nat (n - 1)) p l
  else l ++ [p].
(* sorted(pragma_lines.items(), key=abs of the line key): ascending by line number, whatever the prefix *)
Fixpoint insert_sorted (x : Z * str) (l : list (Z * str)) : list (Z * str) :=
  match l with [] => [x] | y :: r => if (Z.abs (fst y) <? Z.abs (fst x))%Z then y :: insert_sorted x r else x :: l end.
Definition sort_keys (l : list (Z * str)) : list (Z * str) := fold_right insert_sorted [] l.
Definition reinsert (l : list str) (ps : list (Z * str)) : list str := fold_left reinsert1 (sort_keys ps) l.

(* ---- (2) marker characters: .replace(U+8268, "").replace(U+8269, "").replace(U+00FE, "") ---- *)
Definition is_marker (c : N) : bool := N.eqb c 33384 || N.eqb c 33385 || N.eqb c 254.
Definition strip_markers (s : str) : str := filter (fun c => negb (is_marker c)) s.
