(* C05 - general/tab_helper.py: TabHelper.detabify_string and calculate_length.  Tab stops are every four columns; a position
   in a line is a column only after the tabs in front of it have been given their width, and that width depends on the
   column at which the text starts (`additional_start_delta`: the text may be the rest of a line whose beginning belongs to
   a container).  `detab_impl` follows the Python loop: find the next tab, take the run of spaces and tabs around it (the
   spaces in front of it included), append the text in front of the run and as many spaces as the run is wide at its column,
   go on with what is behind the run.  `expand` is the same by recursion on the characters.  The Python computes the next
   tab stop with a float division (int((n + 4) / 4) * 4), exact far beyond any line length; the model uses N. *)
From Coq Require Import List NArith Bool Arith.
Require Import PV.Base.Str.
Import ListNotations.
Local Open Scope N_scope.

Definition next_stop (col : N) : N := ((col + 4) / 4) * 4.
(* the column after `s`, when `s` starts at column `col` *)
Fixpoint adv (col : N) (s : str) : N :=
  match s with [] => col | c :: r => adv (if N.eqb c c_tab then next_stop col else col + 1) r end.
(* TabHelper.calculate_length(source_string, start_index) *)
Definition calc_length (s : str) (start : N) : N := adv start s - start.
Definition spaces (n : N) : str := repeat c_sp (N.to_nat n).

Definition is_blank_c (c : N) : bool := N.eqb c c_sp || N.eqb c c_tab.
Fixpoint has_tab (s : str) : bool := match s with [] => false | c :: r => N.eqb c c_tab || has_tab r end.
(* source_string[:find("\t")] and the rest *)
Fixpoint span_notab (s : str) : str * str :=
  match s with [] => ([], []) | c :: r => if N.eqb c c_tab then ([], s) else let (a, b) := span_notab r in (c :: a, b) end.
(* collect_backwards_while_spaces from the tab: the text in front of the tab without its trailing spaces, and those spaces *)
Fixpoint tsplit (p : str) : str * str :=
  match p with
  | [] => ([], [])
  | c :: r => let (t, s) := tsplit r in if is_nil t && N.eqb c c_sp then ([], c :: s) else (c :: t, s)
  end.
(* collect_while_spaces from the tab: the run of spaces and tabs, and what is behind it *)
Fixpoint span_blank (s : str) : str * str :=
  match s with [] => ([], []) | c :: r => if is_blank_c c then let (a, b) := span_blank r in (c :: a, b) else ([], s) end.

Fixpoint loop (fuel : nat) (delta cur : N) (rebuilt src : str) : option str :=
  if negb (has_tab src) then Some (rebuilt ++ src)
  else match fuel with
  | O => None
  | S f =>
    let (pre, r0) := span_notab src in
    let (text, tsp) := tsplit pre in
    let (ws1, rest) := span_blank r0 in
    let ws := tsp ++ ws1 in
    let start := N.of_nat (length text) in
    let realized := cur + start + delta in
    let wlen := calc_length ws realized in
    loop f delta (cur + start + wlen) (rebuilt ++ text ++ spaces wlen) rest
  end.
Definition detab_impl (s : str) (delta : N) : option str :=
  if negb (has_tab s) then Some s else loop (length s) delta 0 [] s.

(* ---- the same by recursion on the characters ---- *)
Fixpoint expand (col : N) (s : str) : str :=
  match s with
  | [] => []
  | c :: r => if N.eqb c c_tab then spaces (next_stop col - col) ++ expand (next_stop col) r else c :: expand (col + 1) r
  end.
