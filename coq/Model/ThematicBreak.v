(* C03 - leaf_blocks/thematic_leaf_block_processor.py::is_thematic_break.  CommonMark 4.1: a line consisting of up to three
   columns of indentation, followed by three or more matching `-`, `_` or `*` characters, each followed optionally by any
   number of spaces or tabs, is a thematic break.  `tb_impl` follows the Python function (the test of the character at the
   start index, the width of the extracted white space, the scanning loop with its counter, the final test); `tb_spec` is
   the sentence of the specification as a predicate on the indentation and the rest of the line. *)
From Coq Require Import List NArith Bool Arith.
Require Import PV.Base.Str PV.Model.Tabs.
Import ListNotations.
Local Open Scope N_scope.

Definition tb_chars : list N := [45; 95; 42].      (* - _ * *)
Definition is_tb_char (c : N) : bool := existsb (N.eqb c) tb_chars.

(* the while loop: from the start index to the end of the line or to the first character that is neither white space
   (when allowed between the characters) nor the start character; Some count when the end of the line was reached *)
Fixpoint tb_scan (allow_ws : bool) (start_char : N) (s : str) (count : nat) : option nat :=
  match s with
  | [] => Some count
  | c :: r =>
    if allow_ws && is_blank_c c then tb_scan allow_ws start_char r count
    else if N.eqb c start_char then tb_scan allow_ws start_char r (S count)
    else None
  end.

Definition tb_impl (line : str) (start : nat) (ws : str) (skip_ws_check allow_ws : bool) : option (N * nat) :=
  match nth_error line start with
  | None => None
  | Some c =>
    if ((calc_length ws 0 <=? 3) || skip_ws_check) && is_tb_char c then
      match tb_scan allow_ws c (dropn start line) 0 with
      | Some n => if (3 <=? n)%nat then Some (c, length line) else None
      | None => None
      end
    else None
  end.

(* the specification: `ws` is the indentation, `body` the rest of the line *)
Definition tb_spec (ws body : str) : bool :=
  match body with
  | [] => false
  | c :: _ =>
    (calc_length ws 0 <=? 3) && is_tb_char c &&
    forallb (fun x => N.eqb x c || is_blank_c x) body && (3 <=? count_c c body)%nat
  end.
