(* Well-formedness of a token stream: a stack automaton over start / end / atomic tokens, where an end token names the
   position of the start token it closes (EndMarkdownToken.start_markdown_token), and the forests of trees whose
   flattenings it is meant to accept.  Generic in the kinds and in the "may appear directly under" relation; the
   PyMarkdown instance (classes container / leaf / inline, new-list-item only directly in a list) is at the end. *)
From Coq Require Import List Bool Arith NArith.
Require Import PV.Base.Str.
Import ListNotations.

Section WF.
Variable kind : Type.
Variable kind_eqb : kind -> kind -> bool.
Variable allowed : option kind -> kind -> bool.     (* parent (None = document) -> child -> ok? *)

Inductive tok : Type :=
| TStart (k : kind)
| TEnd (k : kind) (start_at : nat)     (* position in the stream of the start token this end token refers to *)
| TAtom (k : kind).
Inductive tree : Type := Node (k : kind) (ch : list tree) | Atom (k : kind).

Fixpoint size_t (t : tree) : nat :=
  match t with
  | Atom _ => 1
  | Node _ ch => 2 + (fix sz (l : list tree) := match l with [] => 0 | x :: r => size_t x + sz r end) ch
  end.
Definition size_f (f : list tree) : nat := fold_right (fun t n => size_t t + n) 0 f.
(* the stream of a forest that starts at position o *)
Fixpoint flatten_t (o : nat) (t : tree) : list tok :=
  match t with
  | Atom k => [TAtom k]
  | Node k ch =>
      TStart k ::
      (fix fl (p : nat) (l : list tree) : list tok := match l with [] => [] | x :: r => flatten_t p x ++ fl (p + size_t x) r end) (S o) ch
      ++ [TEnd k o]
  end.
Fixpoint flatten_f (o : nat) (f : list tree) : list tok :=
  match f with [] => [] | x :: r => flatten_t o x ++ flatten_f (o + size_t x) r end.

Definition root (t : tree) : kind := match t with Node k _ | Atom k => k end.
Fixpoint ok_t (p : option kind) (t : tree) {struct t} : bool :=
  allowed p (root t) &&
  match t with
  | Atom _ => true
  | Node k ch => (fix all (l : list tree) := match l with [] => true | x :: r => ok_t (Some k) x && all r end) ch
  end.
Definition ok_f (p : option kind) (f : list tree) : bool := forallb (ok_t p) f.

(* the automaton: position of the next token, stack of open (kind, position of the start token) *)
Definition top (st : list (kind * nat)) : option kind := match st with [] => None | (k, _) :: _ => Some k end.
Fixpoint check (pos : nat) (st : list (kind * nat)) (ts : list tok) : bool :=
  match ts with
  | [] => match st with [] => true | _ => false end
  | TAtom k :: r => allowed (top st) k && check (S pos) st r
  | TStart k :: r => allowed (top st) k && check (S pos) ((k, pos) :: st) r
  | TEnd k ref :: r =>
      match st with
      | (k', p') :: st' => kind_eqb k k' && Nat.eqb ref p' && check (S pos) st' r
      | [] => false
      end
  end.
Definition wf_check (ts : list tok) : bool := check 0 [] ts.
End WF.
Arguments TStart {kind}. Arguments TEnd {kind}. Arguments TAtom {kind}.
Arguments Node {kind}. Arguments Atom {kind}.

(* ---- the PyMarkdown instance ---- *)
Inductive cls : Set := CCont | CLeaf | CInl | CSpecial.
Record pkind : Set := mkKind { k_name : str; k_cls : cls }.
Definition cls_eqb (a b : cls) : bool :=
  match a, b with CCont, CCont | CLeaf, CLeaf | CInl, CInl | CSpecial, CSpecial => true | _, _ => false end.
Definition pkind_eqb (a b : pkind) : bool := str_eqb (k_name a) (k_name b) && cls_eqb (k_cls a) (k_cls b).
Definition n_li : str := [108;105]%N.            (* "li"    *)
Definition n_ulist : str := [117;108;105;115;116]%N.  (* "ulist" *)
Definition n_olist : str := [111;108;105;115;116]%N.  (* "olist" *)
Definition is_list (k : pkind) : bool := str_eqb (k_name k) n_ulist || str_eqb (k_name k) n_olist.
Definition is_li (k : pkind) : bool := str_eqb (k_name k) n_li.
(* containers hold containers and leaf blocks, leaf blocks and inline elements hold only inline tokens,
   a new-list-item token only appears directly inside its list, nothing special inside the tree *)
Definition p_allowed (p : option pkind) (c : pkind) : bool :=
  if is_li c then match p with Some pk => is_list pk | None => false end
  else match p with
       | None => match k_cls c with CCont | CLeaf => true | _ => false end
       | Some pk => match k_cls pk, k_cls c with
                    | CCont, CCont | CCont, CLeaf | CLeaf, CInl | CInl, CInl => true
                    | _, _ => false
                    end
       end.
Definition ptok := tok pkind.
(* the whole stream: the tree part, then only special tokens (end-of-stream, pragma) *)
Definition is_special (t : ptok) : bool := match t with TAtom k => cls_eqb (k_cls k) CSpecial | _ => false end.
Fixpoint split_specials (ts : list ptok) : list ptok * list ptok :=
  match ts with
  | [] => ([], [])
  | t :: r => if is_special t then ([], ts) else let '(a, b) := split_specials r in (t :: a, b)
  end.
Definition stream_ok (ts : list ptok) : bool :=
  let '(body, tail) := split_specials ts in wf_check pkind pkind_eqb p_allowed body && forallb is_special tail.
