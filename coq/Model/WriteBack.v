(* Write-back of a fixed file (file_scan_helper.py::__process_file_fix_pass): the destination is overwritten from a
   completely written temporary file.  The file system is three slots: the destination, a sibling of the destination
   (same directory) and the temporary file.  A crash stops the operation list after k steps.  Definitions only. *)
From Coq Require Import List NArith Bool Arith.
Import ListNotations.

Definition bytes := list N.
Record fs : Set := mkFs { dst : bytes; sib : option bytes; tmp : bool }.
Inductive op : Set :=
| OpenTrunc             (* open(dst, "wb"): the destination is truncated *)
| Write (c : bytes)     (* one part of the content is appended to the destination *)
| CreateSib             (* a new empty file next to the destination *)
| WriteSib (c : bytes)  (* one part of the content is appended to the sibling *)
| Rename                (* os.replace(sibling, dst): atomic *)
| RemoveTmp.            (* os.remove(temporary file) *)
Definition apply (s : fs) (o : op) : fs :=
  match o with
  | OpenTrunc => mkFs [] (sib s) (tmp s)
  | Write c => mkFs (dst s ++ c) (sib s) (tmp s)
  | CreateSib => mkFs (dst s) (Some []) (tmp s)
  | WriteSib c => mkFs (dst s) (option_map (fun b => b ++ c) (sib s)) (tmp s)
  | Rename => match sib s with Some b => mkFs b None (tmp s) | None => s end
  | RemoveTmp => mkFs (dst s) (sib s) false
  end.
Definition run_ops (ops : list op) (s : fs) : fs := fold_left apply ops s.
(* the process dies after k operations *)
Definition crash_at (k : nat) (ops : list op) (s : fs) : fs := run_ops (firstn k ops) s.

(* shutil.copyfile(temp, dst); os.remove(temp)  -  the content arrives in parts cs *)
Definition copy_protocol (cs : list bytes) : list op := OpenTrunc :: map Write cs ++ [RemoveTmp].
(* copy to a sibling of the destination, then os.replace, then remove the temporary file *)
Definition replace_protocol (cs : list bytes) : list op := CreateSib :: map WriteSib cs ++ [Rename; RemoveTmp].
Definition start (old : bytes) : fs := mkFs old None true.
