(* C03 - append_text: the loop computes the escaping; with the signature, the codec of C02 gives back the source and the entities. *)
From Coq Require Import List NArith ZArith Bool Arith Lia ZifyBool ZifyN ZifyNat.
Require Import PV.Base.Str PV.Model.Codec PV.Proofs.CodecProofs PV.Model.AppendText.
Import ListNotations.
Local Open Scope N_scope.

Definition chunk (sig : bool) (c : N) : str :=
  match ent c with Some e => if sig then c_al :: c :: c_al :: e ++ [c_al] else e | None => [c] end.
Definition whole (sig : bool) (s : str) : str := flat_map (chunk sig) s.

Lemma span_key_spec s : forall a b, span_key s = (a, b) ->
  s = a ++ b /\ forallb (fun c => negb (is_key c)) a = true /\ (length b <= length s)%nat /\
  match b with [] => True | c :: _ => is_key c = true end.
Proof.
  induction s as [|c r IH]; intros a b H; cbn [span_key] in H.
  - inversion H; subst. repeat split; auto.
  - destruct (is_key c) eqn:K.
    + inversion H; subst. split; [reflexivity|]. split; [reflexivity|]. split; [lia | exact K].
    + destruct (span_key r) as [a' b'] eqn:Hr. inversion H; subst. destruct (IH a' b eq_refl) as (E & F & L & T).
      split; [cbn; f_equal; exact E|]. split; [cbn [forallb]; rewrite K, F; reflexivity|]. split; [cbn [length]; lia | exact T].
Qed.

Lemma whole_plain sig a : forallb (fun c => negb (is_key c)) a = true -> whole sig a = a.
Proof.
  induction a as [|c a IH]; intros H; [reflexivity|]. cbn [forallb] in H. apply andb_true_iff in H. destruct H as [Hc Ha].
  unfold whole. cbn [flat_map]. fold (whole sig a). rewrite IH by exact Ha.
  unfold chunk, is_key in *. destruct (ent c); [discriminate | reflexivity].
Qed.

Lemma whole_app sig a b : whole sig (a ++ b) = whole sig a ++ whole sig b.
Proof. unfold whole. apply flat_map_app. Qed.

Lemma loop_spec sig : forall fuel rest, (length rest <= fuel)%nat -> loop fuel sig rest = Some (whole sig rest).
Proof.
  induction fuel as [|f IH]; intros rest L.
  - destruct rest; [reflexivity | cbn in L; lia].
  - cbn [loop]. destruct (span_key rest) as [before b] eqn:H. destruct (span_key_spec rest before b H) as (E & F & Lb & T).
    destruct b as [|c r].
    + rewrite app_nil_r in E. subst. rewrite whole_plain by exact F. reflexivity.
    + unfold is_key in T. destruct (ent c) as [e|] eqn:Ec; [|discriminate].
      rewrite IH by (cbn [length] in Lb; lia). cbn [option_map]. f_equal.
      transitivity (whole sig (before ++ c :: r)); [|rewrite <- E; reflexivity].
      rewrite whole_app, (whole_plain sig before) by exact F. f_equal.
      change (c :: r) with ([c] ++ r). rewrite whole_app. f_equal.
      unfold whole, chunk. cbn [flat_map]. rewrite Ec, app_nil_r. reflexivity.
Qed.

(* the first turn of the loop needs no fuel when the text is empty; length text is enough otherwise *)
Lemma loop_spec0 sig rest : loop (length rest) sig rest = Some (whole sig rest).
Proof. apply loop_spec. lia. Qed.

Lemma append_impl_spec_l prefix text sig : append_impl prefix text sig = Some (prefix ++ whole sig text).
Proof. unfold append_impl. rewrite loop_spec0. reflexivity. Qed.

Lemma whole_plain_is_esc s : whole false s = esc_t s.
Proof. reflexivity. Qed.

Definition clean_text (s : str) : bool := negb (existsb special s).

Lemma ent_not_special c e : ent c = Some e -> special c = false /\ clean e = true /\ e <> [].
Proof.
  unfold ent. intros H.
  destruct (N.eqb c 60) eqn:E1; [apply N.eqb_eq in E1; subst; inversion H; subst; repeat split; try reflexivity; discriminate|].
  destruct (N.eqb c 62) eqn:E2; [apply N.eqb_eq in E2; subst; inversion H; subst; repeat split; try reflexivity; discriminate|].
  destruct (N.eqb c 38) eqn:E3; [apply N.eqb_eq in E3; subst; inversion H; subst; repeat split; try reflexivity; discriminate|].
  destruct (N.eqb c 34) eqn:E4; [apply N.eqb_eq in E4; subst; inversion H; subst; repeat split; try reflexivity; discriminate|].
  discriminate.
Qed.

Lemma whole_sig_is_enc s : clean_text s = true -> whole true s = enc (pieces s).
Proof.
  unfold clean_text. induction s as [|c r IH]; intros H; [reflexivity|].
  cbn [existsb] in H. apply negb_true_iff in H. apply orb_false_iff in H. destruct H as [Hc Hr].
  unfold whole, pieces, enc. cbn [flat_map map]. fold (whole true r). fold (pieces r). fold (enc (pieces r)).
  rewrite IH by (apply negb_true_iff; exact Hr). f_equal.
  unfold chunk. destruct (ent c) as [e|] eqn:Ec.
  - cbn [enc1]. cbn. reflexivity.
  - cbn [enc1]. unfold escape. cbn [flat_map]. rewrite Hc. reflexivity.
Qed.

Lemma pieces_ok s : clean_text s = true -> Forall (fun p => piece_ok p = true) (pieces s).
Proof.
  unfold clean_text. induction s as [|c r IH]; intros H; [constructor|].
  cbn [existsb] in H. apply negb_true_iff in H. apply orb_false_iff in H. destruct H as [Hc Hr].
  cbn [pieces map]. constructor; [|apply IH; apply negb_true_iff; exact Hr].
  destruct (ent c) as [e|] eqn:Ec.
  - destruct (ent_not_special c e Ec) as (S1 & S2 & S3). cbn [piece_ok]. unfold clean at 1. cbn [existsb]. rewrite S1, S2. cbn.
    destruct e; [contradiction | reflexivity].
  - cbn [piece_ok existsb]. unfold special in Hc. cbn [existsb] in Hc.
    destruct (N.eqb c_esc c) eqn:E; [|reflexivity]. apply N.eqb_eq in E. subst c. cbn in Hc. discriminate.
Qed.

Lemma pieces_src s : src (pieces s) = s.
Proof. induction s as [|c r IH]; [reflexivity|]. unfold src, pieces. cbn [map flat_map]. fold (pieces r). fold (src (pieces r)). rewrite IH. destruct (ent c); reflexivity. Qed.

Lemma pieces_out s : out (pieces s) = esc_t s.
Proof. induction s as [|c r IH]; [reflexivity|]. unfold out, pieces, esc_t. cbn [map flat_map]. fold (pieces r). fold (out (pieces r)). fold (esc_t r). rewrite IH. destruct (ent c); reflexivity. Qed.

Lemma append_roundtrip_l text : clean_text text = true ->
  exists tok, append_impl [] text true = Some tok /\ remove_all tok = Some text /\ resolve_all tok = Some (esc_t text).
Proof.
  intros H. exists (enc (pieces text)). rewrite append_impl_spec_l. cbn [app]. rewrite whole_sig_is_enc by exact H.
  split; [reflexivity|]. split.
  - rewrite remove_all_gives_source_l by (apply pieces_ok; exact H). rewrite pieces_src. reflexivity.
  - rewrite resolve_all_gives_text_l by (apply pieces_ok; exact H). rewrite pieces_out. reflexivity.
Qed.

Lemma esc_t_safe s : existsb (fun c => N.eqb c 60 || N.eqb c 62 || N.eqb c 34) (esc_t s) = false.
Proof.
  induction s as [|c r IH]; [reflexivity|]. unfold esc_t. cbn [flat_map]. fold (esc_t r). rewrite existsb_app, IH, orb_false_r.
  unfold ent.
  destruct (N.eqb c 60) eqn:E1; [reflexivity|]. destruct (N.eqb c 62) eqn:E2; [reflexivity|].
  destruct (N.eqb c 38) eqn:E3; [reflexivity|]. destruct (N.eqb c 34) eqn:E4; [reflexivity|].
  cbn [existsb]. rewrite E1, E2, E4. reflexivity.
Qed.
