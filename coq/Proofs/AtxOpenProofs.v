(* C03 - the ATX opening test of the implementation is the sentence of the specification. *)
From Coq Require Import List NArith ZArith Bool Arith Lia ZifyBool ZifyN ZifyNat.
Require Import PV.Base.Str PV.Model.Tabs PV.Model.AtxOpen.
Import ListNotations.
Local Open Scope N_scope.

Lemma dropn_app_length (a b : str) : dropn (length a) (a ++ b) = b.
Proof. induction a as [|x a IH]; [destruct b; reflexivity | exact IH]. Qed.
Lemma nth_error_app_length (a b : str) : nth_error (a ++ b) (length a) = hd_error b.
Proof. induction a as [|x a IH]; [destruct b; reflexivity | exact IH]. Qed.
Lemma dropn_add (a b : nat) : forall s : str, dropn (a + b) s = dropn b (dropn a s).
Proof. induction a as [|a IH]; intros s; [reflexivity|]. destruct s as [|x s]; [destruct b; reflexivity | apply IH]. Qed.
Lemma dropn_length_le (n : nat) : forall s : str, (length (dropn n s) = length s - n)%nat.
Proof. induction n as [|n IH]; intros s; [cbn; lia|]. destruct s as [|x s]; [reflexivity | cbn [dropn length]; rewrite IH; lia]. Qed.
Lemma run_of_prefix p s : exists r, s = run_of p s ++ r /\ dropn (length (run_of p s)) s = r /\ match r with [] => True | c :: _ => p c = false end.
Proof.
  induction s as [|c s IH]; [exists []; repeat split|]. cbn [run_of]. destruct (p c) eqn:E.
  - destruct IH as (r & E1 & E2 & E3). exists r. split; [cbn; f_equal; exact E1 | split; [exact E2 | exact E3]].
  - exists (c :: s). repeat split. exact E.
Qed.

Lemma atx_impl_is_spec_l ws body :
  atx_impl (ws ++ body) (length ws) ws false =
  if atx_spec ws body then
    let h := run_of is_hash body in let wsa := run_of is_blank_c (dropn (length h) body) in
    Some ((length ws + length h + length wsa)%nat, length h, wsa)
  else None.
Proof.
  unfold atx_impl, atx_spec. rewrite nth_error_app_length, dropn_app_length, orb_false_r.
  destruct (calc_length ws 0 <=? 3); cbn [andb]; [|reflexivity].
  destruct body as [|c r]; [reflexivity|]. cbn [hd_error].
  destruct (is_hash c) eqn:H.
  2:{ cbn [run_of]. rewrite H. reflexivity. }
  cbn zeta. rewrite dropn_add, dropn_app_length.
  set (h := run_of is_hash (c :: r)).
  assert (Hh : (1 <=? length h)%nat = true) by (subst h; cbn [run_of]; rewrite H; reflexivity).
  rewrite Hh. cbn [andb].
  destruct (length h <=? 6)%nat; cbn [andb]; [|reflexivity].
  destruct (run_of_prefix is_blank_c (dropn (length h) (c :: r))) as (rest & E1 & E2 & E3).
  set (wsa := run_of is_blank_c (dropn (length h) (c :: r))) in *.
  destruct (dropn (length h) (c :: r)) as [|x tl] eqn:D.
  - subst wsa. cbn [run_of is_nil negb orb length].
    assert (L : length (ws ++ c :: r) = (length ws + length h)%nat).
    { pose proof (dropn_length_le (length h) (c :: r)) as P. rewrite D in P. cbn [length] in P.
      destruct (run_of_prefix is_hash (c :: r)) as (r2 & F1 & F2 & _). fold h in F1, F2. rewrite F2 in D. subst r2. rewrite app_nil_r in F1.
      rewrite app_length, F1. reflexivity. }
    rewrite L. replace (length ws + length h + 0)%nat with (length ws + length h)%nat by lia. rewrite Nat.eqb_refl. reflexivity.
  - destruct (is_blank_c x) eqn:B.
    + subst wsa. cbn [run_of]. rewrite B. cbn [is_nil negb orb]. reflexivity.
    + subst wsa. cbn [run_of]. rewrite B. cbn [is_nil negb orb length].
      assert (L : Nat.eqb (length ws + length h + 0) (length (ws ++ c :: r)) = false).
      { apply Nat.eqb_neq. pose proof (dropn_length_le (length h) (c :: r)) as P. rewrite D in P. cbn [length] in P.
        rewrite app_length. cbn [length]. lia. }
      rewrite L. reflexivity.
Qed.

Lemma atx_spec_seven_l ws body : prefix_b (repeat c_hash 7) body = true -> atx_spec ws body = false.
Proof.
  intros H. unfold atx_spec.
  assert (L : (7 <= length (run_of is_hash body))%nat).
  { do 7 (destruct body as [|? body]; [discriminate|]; cbn [prefix_b repeat] in H; apply andb_true_iff in H; destruct H as [E H];
          apply N.eqb_eq in E; subst; cbn [run_of]; unfold is_hash at 1; rewrite N.eqb_refl). cbn [length]. lia. }
  destruct (length (run_of is_hash body) <=? 6)%nat eqn:E; [lia|]. rewrite !andb_false_r. reflexivity.
Qed.
