From Coq Require Import List NArith Bool Arith Lia.
Require Import PV.Spec.CMBlock.
Import ListNotations.

Lemma dropn_len : forall n (s : str), length (dropn n s) <= length s.
Proof. induction n as [|n IH]; intros s; destruct s; cbn [dropn length]; try lia. specialize (IH s). lia. Qed.

Lemma dropn_len_lt : forall n (s : str), 1 <= n -> s <> [] -> length (dropn n s) < length s.
Proof. intros [|n] s H N; [lia|]. destruct s; [congruence|]. cbn [dropn length]. pose proof (dropn_len n s). lia. Qed.

Lemma starts_nonempty c s : starts c s = true -> s <> [].
Proof. destruct s; [discriminate | discriminate]. Qed.

Lemma list_marker_len body ord d start mlen : list_marker body = Some (ord, d, start, mlen) -> 1 <= mlen /\ body <> [].
Proof.
  unfold list_marker. destruct body as [|c r]; [discriminate|]. intros H. split; [|discriminate].
  destruct (N.eqb c dash || N.eqb c star || N.eqb c 43).
  - destruct r as [|x r']; [injection H as <- <- <- <-; lia|]. destruct (is_sp x); [injection H as <- <- <- <-; lia | discriminate].
  - cbv zeta in H. destruct ((1 <=? length (take_digits (c :: r))) && (length (take_digits (c :: r)) <=? 9)); [|discriminate].
    destruct (dropn (length (take_digits (c :: r))) (c :: r)) as [|d0 r']; [discriminate|].
    destruct (N.eqb d0 46 || N.eqb d0 41); [|discriminate].
    destruct r' as [|x r'']; [injection H as <- <- <- <-; lia|]. destruct (is_sp x); [injection H as <- <- <- <-; lia | discriminate].
Qed.

Ltac head_destruct :=
  repeat match goal with
  | |- ?a = ?a => reflexivity
  | |- (if ?b then _ else _) = _ => destruct b eqn:?
  | |- match ?x with _ => _ end = _ => destruct x eqn:?
  end.

Theorem starts_loop_fuel : forall fuel1 fuel2 full ln s um cl cp clist ac rest,
  S (length rest) <= fuel1 -> S (length rest) <= fuel2 ->
  starts_loop full fuel1 ln s um cl cp clist ac rest = starts_loop full fuel2 ln s um cl cp clist ac rest.
Proof.
  induction fuel1 as [|f1 IH]; intros fuel2 full ln s um cl cp clist ac rest H1 H2; [lia|].
  destruct fuel2 as [|f2]; [lia|].
  cbn [starts_loop].
  set (ind := lead sp rest). set (body := dropn ind rest).
  assert (Lb : length body <= length rest) by apply dropn_len.
  head_destruct.
  all: apply IH.
  all: try match goal with
       | H : _ && starts gt ?bd = true |- _ =>
           apply andb_prop in H as [_ H]; apply starts_nonempty in H;
           pose proof (dropn_len_lt 1 bd ltac:(lia) H);
           destruct (dropn 1 bd) as [|c0 r0] eqn:?; cbn [length] in *; [lia|]; destruct (is_sp c0); cbn [length]; lia
       | H : (if ?b then list_marker ?bd else None) = Some (_, _, _, ?m) |- _ =>
           destruct b; [|discriminate]; destruct (list_marker_len _ _ _ _ _ H) as [M1 M2];
           pose proof (dropn_len_lt m bd M1 M2);
           destruct (is_blank (dropn m bd)); [cbn [length]; lia|];
           match goal with |- context [dropn ?k (dropn m bd)] => pose proof (dropn_len k (dropn m bd)) end; lia
       end.
Qed.

(* the fuel CM gives the loop (one more than the length of what is left of the line) is always enough: more fuel changes nothing *)
Corollary starts_loop_fuel_adequate : forall extra full ln s um cl cp clist ac rest,
  starts_loop full (S (length rest) + extra) ln s um cl cp clist ac rest = starts_loop full (S (length rest)) ln s um cl cp clist ac rest.
Proof. intros. apply starts_loop_fuel; lia. Qed.
