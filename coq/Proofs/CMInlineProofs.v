From Coq Require Import List NArith Bool Arith Lia.
Require Import PV.Spec.CMBlock.
Import ListNotations.

(* the emphasis layer is a conservative extension: on text without *, _ and & the token pipeline renders what the
   plain renderer `inl` (code spans, breaks, text) renders *)
Definition plain_char (c : N) : bool := negb (N.eqb c star || N.eqb c us || N.eqb c 38).

Definition tok_html (t : itok) : str := match t with TTxt h => h | TDelim c n _ _ => repeat_c c n end.
Definition all_txt (ts : list itok) : bool := forallb (fun t => match t with TTxt _ => true | _ => false end) ts.

Lemma fold_txt : forall ts st, all_txt ts = true ->
  concat (map flat_item (rev (fold_left push_tok ts st))) = concat (map flat_item (rev st)) ++ concat (map tok_html ts).
Proof.
  induction ts as [|t r IH]; intros st H; [cbn; now rewrite app_nil_r|]. cbn [all_txt forallb] in H. apply andb_prop in H as [Ht Hr].
  destruct t as [h|]; [|discriminate]. cbn [fold_left push_tok]. rewrite IH by exact Hr.
  cbn [rev map]. rewrite map_app, concat_app. cbn [map concat flat_item tok_html]. rewrite app_nil_r. now rewrite <- app_assoc.
Qed.

Lemma txt_sp_html pend : concat (map tok_html (txt_sp pend)) = repeat_c sp pend.
Proof. destruct pend; [reflexivity|]. cbn. now rewrite app_nil_r. Qed.
Lemma txt_sp_all pend : all_txt (txt_sp pend) = true.
Proof. destruct pend; reflexivity. Qed.

Lemma forallb_dropn (p : N -> bool) : forall n s, forallb p s = true -> forallb p (dropn n s) = true.
Proof. induction n as [|n IH]; intros s H; [exact H|]. destruct s; [exact H|]. cbn [forallb] in H. apply andb_prop in H as [_ H]. cbn [dropn]. now apply IH. Qed.

Lemma find_close_plain (p : N -> bool) : forall fuel n s acc c rest, forallb p s = true -> find_close fuel n s acc = Some (c, rest) -> forallb p rest = true.
Proof.
  induction fuel as [|f IH]; intros n s acc c rest H E; [discriminate|]. cbn [find_close] in E. destruct s as [|x r]; [discriminate|].
  destruct (N.eqb x bt).
  - destruct (Nat.eqb (lead bt (x :: r)) n).
    + injection E as _ <-. now apply forallb_dropn.
    + eapply IH; [|exact E]. now apply forallb_dropn.
  - cbn [forallb] in H. apply andb_prop in H as [_ H]. eapply IH; [exact H | exact E].
Qed.

Lemma itoks_plain : forall fuel prev s pend, forallb plain_char s = true ->
  all_txt (itoks fuel prev s pend) = true /\ concat (map tok_html (itoks fuel prev s pend)) = inl fuel s pend.
Proof.
  assert (AT : forall pend h ts, all_txt ts = true -> all_txt (txt_sp pend ++ TTxt h :: ts) = true).
  { intros pend h ts A. unfold all_txt. rewrite forallb_app. fold (all_txt (txt_sp pend)). rewrite txt_sp_all. cbn [forallb andb]. exact A. }
  assert (HT : forall pend h ts, concat (map tok_html (txt_sp pend ++ TTxt h :: ts)) = repeat_c sp pend ++ h ++ concat (map tok_html ts)).
  { intros pend h ts. rewrite map_app, concat_app, txt_sp_html. reflexivity. }
  induction fuel as [|f IH]; intros prev s pend H; [split; reflexivity|].
  destruct s as [|c r]; [split; reflexivity|]. pose proof H as Hs. cbn [forallb] in H. apply andb_prop in H as [Hc Hr].
  cbn [itoks inl]. destruct (is_sp c) eqn:Sp; [apply IH; exact Hr|].
  destruct (N.eqb c 10) eqn:Nl.
  - assert (Hl : forallb plain_char (lstrip r) = true) by (unfold lstrip; now apply forallb_dropn).
    destruct (IH (Some c) (lstrip r) 0 Hl) as [A B]. split. { unfold all_txt in *. cbn [forallb]. exact A. } cbn [map concat tok_html]. rewrite B. now rewrite <- app_assoc.
  - destruct (N.eqb c bt) eqn:Bt.
    + destruct (find_close (length (c :: r)) (lead bt (c :: r)) (dropn (lead bt (c :: r)) (c :: r)) []) as [[content rest]|] eqn:F.
      * assert (Hrest : forallb plain_char rest = true) by (eapply find_close_plain; [|exact F]; now apply forallb_dropn).
        destruct (IH (Some bt) rest 0 Hrest) as [A B]. split; [now apply AT|]. rewrite HT, B. now rewrite <- !app_assoc.
      * assert (Hd : forallb plain_char (dropn (lead bt (c :: r)) (c :: r)) = true) by now apply forallb_dropn.
        destruct (IH (Some bt) _ 0 Hd) as [A B]. split; [now apply AT|]. rewrite HT, B. reflexivity.
    + unfold plain_char in Hc. apply negb_true_iff in Hc. apply orb_false_elim in Hc as [Hc1 Hc3]. apply orb_false_elim in Hc1 as [Hc1 Hc2].
      rewrite Hc1, Hc2. cbn [orb]. rewrite Hc3. destruct (IH (Some c) r 0 Hr) as [A B]. split; [now apply AT|]. rewrite HT, B. reflexivity.
Qed.

Theorem emphasis_layer_conservative : forall s, forallb plain_char s = true -> inline_html s = inl (S (length s)) s 0.
Proof.
  intros s H. unfold inline_html. destruct (itoks_plain (S (length s)) None s 0 H) as [A B].
  rewrite (fold_txt _ [] A). cbn [rev map concat app]. exact B.
Qed.
