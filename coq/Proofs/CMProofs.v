From Coq Require Import List NArith Bool Arith Lia.
Require Import PV.Spec.CMBlock.
Import ListNotations.

(* the renderer escapes text: no raw less-than, greater-than or double-quote character survives esc *)
Definition raw (c : N) : bool := N.eqb c 60 || N.eqb c 62 || N.eqb c 34.
Lemma esc1_no_raw c : existsb raw (esc1 c) = false.
Proof.
  unfold esc1. destruct (N.eqb c 60) eqn:A; [reflexivity|]. destruct (N.eqb c 62) eqn:B; [reflexivity|].
  destruct (N.eqb c 38) eqn:C; [reflexivity|]. destruct (N.eqb c 34) eqn:D; [reflexivity|].
  cbn [existsb]. unfold raw. now rewrite A, B, D.
Qed.
Lemma esc_no_raw_l s : existsb raw (esc s) = false.
Proof.
  unfold esc. induction s as [|c r IH]; [reflexivity|]. cbn [flat_map]. rewrite existsb_app, esc1_no_raw, IH. reflexivity.
Qed.

(* an ampersand in escaped text always starts one of the four entities *)
Lemma in_F_no_excluded ls l : in_F ls = true -> In l ls -> existsb excluded_char l = false.
Proof.
  unfold in_F. rewrite forallb_forall. intros H I. specialize (H l I). unfold line_in_F in H.
  apply andb_prop in H as [H _]. apply andb_prop in H as [H _]. apply andb_prop in H as [H _]. apply andb_prop in H as [H _]. now apply negb_true_iff in H.
Qed.
