From Coq Require Import List NArith Bool Arith Lia.
Require Import PV.Base.Str PV.Model.Codec.
Import ListNotations.

(* ---- small facts ---- *)
Lemma not_special c : special c = false -> c <> c_bs /\ c <> c_al /\ c <> c_noop /\ c <> c_esc.
Proof.
  unfold special. cbn [existsb]. rewrite !orb_false_iff. intros (A & B & C & D & E & _).
  repeat split; intros ->; discriminate.
Qed.
Lemma clean_forall s : clean s = true -> forall c, In c s -> special c = false.
Proof.
  unfold clean. intros H c I. apply negb_true_iff in H. destruct (special c) eqn:E; [|reflexivity].
  assert (existsb special s = true) by (apply existsb_exists; eauto). congruence.
Qed.
Lemma no_esc_forall s : existsb (N.eqb c_esc) s = false -> forall c, In c s -> c <> c_esc.
Proof.
  intros H c I ->. assert (existsb (N.eqb c_esc) s = true) by (apply existsb_exists; exists c_esc; split; [exact I | reflexivity]). congruence.
Qed.
Lemma lastc_app last a b : lastc last (a ++ b) = lastc (lastc last a) b.
Proof. unfold lastc. rewrite rev_app_distr. destruct (rev b); reflexivity. Qed.
Lemma lastc_cons last c t : lastc last (c :: t) = lastc (Some c) t.
Proof. change (c :: t) with ([c] ++ t). now rewrite lastc_app. Qed.
Definition noesc (o : option N) : Prop := is_esc o = false.
Lemma noesc_some c : c <> c_esc -> noesc (Some c).
Proof. intros H. unfold noesc, is_esc. now apply N.eqb_neq. Qed.
Lemma noesc_lastc last t : noesc last -> (forall c, In c t -> c <> c_esc) -> noesc (lastc last t).
Proof.
  intros H A. unfold lastc. destruct (rev t) as [|y r] eqn:E; [exact H|]. apply noesc_some. apply A. apply in_rev. rewrite E. now left.
Qed.
Lemma option_map_app {A} (a b : list A) (x : option (list A)) : option_map (app a) (option_map (app b) x) = option_map (app (a ++ b)) x.
Proof. destruct x; cbn; [now rewrite app_assoc | reflexivity]. Qed.
Lemma option_map_cons {A} (a : A) (b : list A) (x : option (list A)) : option_map (cons a) (option_map (app b) x) = option_map (app (a :: b)) x.
Proof. destruct x; reflexivity. Qed.
Lemma option_map_nil {A} (x : option (list A)) : option_map (app []) x = x.
Proof. destruct x; reflexivity. Qed.

(* ================= one pass over a stretch of text ================= *)

(* -- remove_char t (t is BS or NOOP) -- *)
Lemma remove_char_keep t : forall u last rest, (forall c, In c u -> c <> t) ->
  remove_char t last (u ++ rest) = u ++ remove_char t (lastc last u) rest.
Proof.
  induction u as [|c r IH]; intros last rest H; [reflexivity|]. cbn [app remove_char].
  destruct (N.eqb_spec c t) as [E|_]; [exfalso; apply (H c); [now left | exact E]|]. cbn [andb].
  rewrite IH by (intros x I; apply H; now right). now rewrite lastc_cons.
Qed.

Lemma remove_char_text t : t <> c_esc -> special t = true -> forall s last rest,
  remove_char t last (escape s ++ rest) = escape s ++ remove_char t (lastc last s) rest.
Proof.
  intros Nt St. induction s as [|c r IH]; intros last rest; [reflexivity|].
  unfold escape. cbn [flat_map]. fold (escape r). rewrite lastc_cons. destruct (special c) eqn:Sc.
  - cbn [app remove_char]. destruct (N.eqb_spec c_esc t) as [E|_]; [congruence|]. cbn [andb].
    replace (is_esc (Some c_esc)) with true by reflexivity. rewrite andb_false_r. now rewrite IH.
  - cbn [app remove_char]. destruct (N.eqb_spec c t) as [->|_]; [congruence|]. cbn [andb]. now rewrite IH.
Qed.

(* -- resolve_bs -- *)
Lemma resolve_bs_keep : forall u acc rest, (forall c, In c u -> c <> c_bs) -> resolve_bs acc (u ++ rest) = resolve_bs (rev u ++ acc) rest.
Proof.
  induction u as [|c r IH]; intros acc rest H; [reflexivity|]. cbn [app resolve_bs].
  destruct (N.eqb_spec c c_bs) as [E|_]; [exfalso; apply (H c); [now left | exact E]|]. cbn [andb].
  rewrite IH by (intros x I; apply H; now right). cbn [rev]. now rewrite <- app_assoc.
Qed.

Lemma resolve_bs_text : forall s acc rest, resolve_bs acc (escape s ++ rest) = resolve_bs (rev (escape s) ++ acc) rest.
Proof.
  induction s as [|c r IH]; intros acc rest; [reflexivity|].
  unfold escape. cbn [flat_map]. fold (escape r). destruct (special c) eqn:Sc.
  - cbn [app resolve_bs]. change (N.eqb c_esc c_bs) with false. cbn [andb].
    cbn [hd_error]. replace (is_esc (Some c_esc)) with true by reflexivity. rewrite andb_false_r.
    rewrite IH. cbn [rev]. now rewrite <- !app_assoc.
  - cbn [app resolve_bs]. destruct (N.eqb_spec c c_bs) as [->|_]; [discriminate|]. cbn [andb].
    rewrite IH. cbn [rev]. now rewrite <- app_assoc.
Qed.

Lemma resolve_bs_backslash c acc rest : resolve_bs acc (c_bslash :: c_bs :: c :: rest) = resolve_bs (c :: acc) rest.
Proof. cbn [resolve_bs]. change (N.eqb c_bslash c_bs) with false. cbn [andb hd_error]. change (is_esc (Some c_bslash)) with false. rewrite N.eqb_refl. reflexivity. Qed.

(* -- replace_markers -- *)
Lemma replace_keep pick : forall u last rest, (forall c, In c u -> c <> c_al) ->
  replace_markers pick MNormal last (u ++ rest) = option_map (app u) (replace_markers pick MNormal (lastc last u) rest).
Proof.
  induction u as [|c r IH]; intros last rest H; [now rewrite option_map_nil|]. cbn [app replace_markers].
  destruct (N.eqb_spec c c_al) as [E|_]; [exfalso; apply (H c); [now left | exact E]|]. cbn [andb].
  rewrite IH by (intros x I; apply H; now right). rewrite option_map_cons. now rewrite lastc_cons.
Qed.

Lemma replace_text pick : forall s last rest,
  replace_markers pick MNormal last (escape s ++ rest) = option_map (app (escape s)) (replace_markers pick MNormal (lastc last s) rest).
Proof.
  induction s as [|c r IH]; intros last rest; [now rewrite option_map_nil|].
  unfold escape. cbn [flat_map]. fold (escape r). rewrite lastc_cons. destruct (special c) eqn:Sc.
  - cbn [app replace_markers]. change (N.eqb c_esc c_al) with false. cbn [andb].
    replace (is_esc (Some c_esc)) with true by reflexivity. rewrite andb_false_r.
    rewrite IH. now rewrite !option_map_cons.
  - cbn [app replace_markers]. destruct (N.eqb_spec c c_al) as [->|_]; [discriminate|]. cbn [andb].
    rewrite IH. now rewrite option_map_cons.
Qed.

Lemma replace_orig pick last : forall o acc X, (forall c, In c o -> c <> c_al) ->
  replace_markers pick (MOrig acc) last (o ++ c_al :: X) = replace_markers pick (MRepl (rev acc ++ o) []) last X.
Proof.
  induction o as [|c r IH]; intros acc X H.
  - cbn [app replace_markers]. rewrite N.eqb_refl. now rewrite app_nil_r.
  - cbn [app replace_markers]. destruct (N.eqb_spec c c_al) as [E|_]; [exfalso; apply (H c); [now left | exact E]|].
    rewrite IH by (intros x I; apply H; now right). cbn [rev]. now rewrite <- app_assoc.
Qed.

Lemma replace_repl pick last orig : forall r acc X, (forall c, In c r -> c <> c_al) -> rev acc ++ r <> [] ->
  replace_markers pick (MRepl orig acc) last (r ++ c_al :: X) =
  option_map (app (if pick then rev acc ++ r else orig)) (replace_markers pick MNormal (lastc last (if pick then rev acc ++ r else orig)) X).
Proof.
  induction r as [|c r IH]; intros acc X H NE.
  - cbn [app replace_markers]. rewrite N.eqb_refl. rewrite app_nil_r in *. destruct acc as [|a acc']; [exfalso; now apply NE|]. reflexivity.
  - cbn [app replace_markers]. destruct (N.eqb_spec c c_al) as [E|_]; [exfalso; apply (H c); [now left | exact E]|].
    rewrite IH; [|intros x I; apply H; now right|cbn [rev]; rewrite <- app_assoc; exact NE]. cbn [rev]. now rewrite <- app_assoc.
Qed.

Lemma replace_marker pick last o r X : noesc last -> (forall c, In c o -> c <> c_al) -> (forall c, In c r -> c <> c_al) -> r <> [] ->
  replace_markers pick MNormal last (c_al :: o ++ c_al :: r ++ c_al :: X) =
  option_map (app (if pick then r else o)) (replace_markers pick MNormal (lastc last (if pick then r else o)) X).
Proof.
  intros Hl Ho Hr Nr. cbn [replace_markers]. rewrite N.eqb_refl, Hl. cbn [andb negb].
  rewrite (replace_orig pick last o [] _ Ho). cbn [rev app].
  rewrite (replace_repl pick last o r [] X Hr); [reflexivity | exact Nr].
Qed.

(* -- resolve_escapes -- *)
Lemma resolve_escapes_keep : forall u last rest, (forall c, In c u -> c <> c_esc) ->
  resolve_escapes last (u ++ rest) = u ++ resolve_escapes (lastc last u) rest.
Proof.
  induction u as [|c r IH]; intros last rest H; [reflexivity|]. cbn [app resolve_escapes].
  destruct (N.eqb_spec c c_esc) as [E|_]; [exfalso; apply (H c); [now left | exact E]|]. cbn [andb].
  rewrite IH by (intros x I; apply H; now right). now rewrite lastc_cons.
Qed.

Lemma resolve_escapes_text : forall s last rest, noesc last -> (forall c, In c s -> c <> c_esc) ->
  resolve_escapes last (escape s ++ rest) = s ++ resolve_escapes (lastc last s) rest.
Proof.
  induction s as [|c r IH]; intros last rest Hl H; [reflexivity|].
  assert (Nc : c <> c_esc) by (apply H; now left).
  assert (Hr : forall x, In x r -> x <> c_esc) by (intros x I; apply H; now right).
  unfold escape. cbn [flat_map]. fold (escape r). rewrite lastc_cons. destruct (special c) eqn:Sc.
  - cbn [app resolve_escapes]. rewrite N.eqb_refl, Hl. cbn [andb negb]. rewrite IH; [reflexivity | now apply noesc_some | exact Hr].
  - cbn [app resolve_escapes]. destruct (N.eqb_spec c c_esc); [contradiction|]. cbn [andb]. rewrite IH; [reflexivity | now apply noesc_some | exact Hr].
Qed.

(* ================= whole texts: the passes over a list of pieces ================= *)
Definition m1 (p : piece) : str := match p with PBackslash c => [c_bslash; c] | _ => enc1 p end.   (* after remove BS *)
Definition m2 (p : piece) : str := match p with PText s => escape s | PBackslash c => [c_bslash; c] | PReplace o _ => o | PNothing o => o end.
Definition mA (p : piece) : str := match p with PBackslash c => [c] | _ => enc1 p end.            (* after resolve BS *)
Definition mB (p : piece) : str := match p with PText s => escape s | PBackslash c => [c] | PReplace _ r => r | PNothing _ => [c_noop] end.
Definition mC (p : piece) : str := match p with PText s => escape s | PBackslash c => [c] | PReplace _ r => r | PNothing _ => [] end.

Definition ok (ps : list piece) : Prop := Forall (fun p => piece_ok p = true) ps.

Lemma ok_text s : piece_ok (PText s) = true -> forall c, In c s -> c <> c_esc.
Proof. cbn. intros H. apply no_esc_forall. now apply negb_true_iff in H. Qed.
Lemma ok_replace o r : piece_ok (PReplace o r) = true ->
  (forall c, In c o -> special c = false) /\ (forall c, In c r -> special c = false) /\ o <> [] /\ r <> [].
Proof.
  cbn. rewrite !andb_true_iff. intros [[[A B] C] D]. repeat split; try (apply clean_forall; assumption).
  - destruct o; [discriminate | discriminate]. - destruct r; [discriminate | discriminate].
Qed.
Lemma ok_nothing o : piece_ok (PNothing o) = true -> (forall c, In c o -> special c = false) /\ o <> [].
Proof. cbn. rewrite andb_true_iff. intros [A B]. split; [now apply clean_forall | destruct o; discriminate]. Qed.

(* pass 1 of remove_all *)
Lemma pass_remove_bs : forall ps last, ok ps -> remove_char c_bs last (enc ps) = flat_map m1 ps.
Proof.
  induction ps as [|p ps IH]; intros last H; [reflexivity|]. inversion H as [|? ? Hp Hps]; subst.
  unfold enc. cbn [flat_map]. fold (enc ps). destruct p as [s|c|o r|o]; cbn [enc1 m1].
  - rewrite remove_char_text; [|discriminate|reflexivity]. now rewrite IH.
  - cbn [app remove_char]. change (N.eqb c_bslash c_bs) with false. cbn [andb]. rewrite N.eqb_refl. change (is_esc (Some c_bslash)) with false. cbn [andb negb].
    cbn in Hp. apply negb_true_iff in Hp. destruct (not_special c Hp) as (Nb & _). destruct (N.eqb_spec c c_bs); [contradiction|]. cbn [andb]. now rewrite IH.
  - destruct (ok_replace o r Hp) as (Ho & Hr & _ & _).
    rewrite (remove_char_keep c_bs (c_al :: o ++ c_al :: r ++ [c_al])); [now rewrite IH|].
    intros c [<-|I]; [discriminate|]. apply in_app_or in I as [I|[<-|I]]; [apply (not_special c (Ho c I)) | discriminate |].
    apply in_app_or in I as [I|[<-|[]]]; [apply (not_special c (Hr c I)) | discriminate].
  - destruct (ok_nothing o Hp) as (Ho & _).
    rewrite (remove_char_keep c_bs (c_al :: o ++ [c_al; c_noop; c_al])); [now rewrite IH|].
    intros c [<-|I]; [discriminate|]. apply in_app_or in I as [I|[<-|[<-|[<-|[]]]]]; [apply (not_special c (Ho c I)) | discriminate | discriminate | discriminate].
Qed.

(* the invariant between pieces: the character in front is not an ESC *)
Lemma noesc_after_clean last t : noesc last -> (forall c, In c t -> special c = false) -> noesc (lastc last t).
Proof. intros H A. apply noesc_lastc; [exact H|]. intros c I. apply (not_special c (A c I)). Qed.

(* pass 2: the replacement markers *)
Lemma pass_replace_gen (pick : bool) (ma mb : piece -> str) :
  (forall s, ma (PText s) = escape s /\ mb (PText s) = escape s) ->
  (forall c, special c = false -> ma (PBackslash c) = mb (PBackslash c) /\ (forall x, In x (ma (PBackslash c)) -> x <> c_al /\ x <> c_esc)) ->
  (forall o r : str, ma (PReplace o r) = c_al :: o ++ c_al :: r ++ [c_al] /\ mb (PReplace o r) = (if pick then r else o)) ->
  (forall o : str, ma (PNothing o) = c_al :: o ++ [c_al; c_noop; c_al] /\ mb (PNothing o) = (if pick then [c_noop] else o)) ->
  forall ps last, ok ps -> noesc last -> replace_markers pick MNormal last (flat_map ma ps) = Some (flat_map mb ps).
Proof.
  intros HT HB HR HN. induction ps as [|p ps IH]; intros last H Hl; [reflexivity|]. inversion H as [|? ? Hp Hps]; subst. cbn [flat_map].
  destruct p as [s|c|o r|o].
  - destruct (HT s) as [-> ->]. rewrite replace_text. rewrite IH; [reflexivity | exact Hps | apply noesc_lastc; [exact Hl | now apply ok_text]].
  - cbn in Hp. apply negb_true_iff in Hp. destruct (HB c Hp) as [E N]. rewrite <- E.
    rewrite (replace_keep pick (ma (PBackslash c))); [|intros x I; apply (N x I)].
    rewrite IH; [reflexivity | exact Hps | apply noesc_lastc; [exact Hl | intros x I; apply (N x I)]].
  - destruct (ok_replace o r Hp) as (Ho & Hr & No & Nr). destruct (HR o r) as [-> ->].
    replace ((c_al :: o ++ c_al :: r ++ [c_al]) ++ flat_map ma ps) with (c_al :: o ++ c_al :: r ++ c_al :: flat_map ma ps)
      by (cbn [app]; f_equal; rewrite <- !app_assoc; cbn [app]; rewrite <- app_assoc; reflexivity).
    rewrite replace_marker; [|exact Hl|intros c I; apply (not_special c (Ho c I))|intros c I; apply (not_special c (Hr c I))|exact Nr].
    rewrite IH; [reflexivity | exact Hps|]. destruct pick; apply noesc_after_clean; assumption.
  - destruct (ok_nothing o Hp) as (Ho & No). destruct (HN o) as [-> ->].
    replace ((c_al :: o ++ [c_al; c_noop; c_al]) ++ flat_map ma ps) with (c_al :: o ++ c_al :: [c_noop] ++ c_al :: flat_map ma ps)
      by (cbn [app]; f_equal; rewrite <- !app_assoc; reflexivity).
    rewrite replace_marker; [|exact Hl|intros c I; apply (not_special c (Ho c I))|intros c [<-|[]]; discriminate|discriminate].
    rewrite IH; [reflexivity | exact Hps|]. destruct pick; [now apply noesc_some | now apply noesc_after_clean].
Qed.

Lemma pass_replace_orig : forall ps last, ok ps -> noesc last -> replace_markers false MNormal last (flat_map m1 ps) = Some (flat_map m2 ps).
Proof.
  apply (pass_replace_gen false m1 m2); try (intros; split; reflexivity).
  intros c Hc. split; [reflexivity|]. intros x [<-|[<-|[]]]; [split; discriminate | split; apply (not_special c Hc)].
Qed.
Lemma pass_replace_repl : forall ps last, ok ps -> noesc last -> replace_markers true MNormal last (flat_map mA ps) = Some (flat_map mB ps).
Proof.
  apply (pass_replace_gen true mA mB); try (intros; split; reflexivity).
  intros c Hc. split; [reflexivity|]. intros x [<-|[]]. split; apply (not_special c Hc).
Qed.

(* pass 3: the escapes *)
Lemma pass_escapes (m : piece -> str) (f : piece -> str) :
  (forall s, m (PText s) = escape s /\ f (PText s) = s) ->
  (forall p, (forall s, p <> PText s) -> piece_ok p = true -> m p = f p /\ forall c, In c (m p) -> c <> c_esc) ->
  forall ps last, ok ps -> noesc last -> resolve_escapes last (flat_map m ps) = flat_map f ps.
Proof.
  intros HT HO. induction ps as [|p ps IH]; intros last H Hl; [reflexivity|]. inversion H as [|? ? Hp Hps]; subst. cbn [flat_map].
  destruct p as [s|c|o r|o].
  - destruct (HT s) as [-> ->]. rewrite resolve_escapes_text; [|exact Hl|now apply ok_text].
    rewrite IH; [reflexivity | exact Hps | apply noesc_lastc; [exact Hl | now apply ok_text]].
  - destruct (HO (PBackslash c) ltac:(intros s; discriminate) Hp) as [E N]. rewrite resolve_escapes_keep by exact N. rewrite E.
    rewrite IH; [reflexivity | exact Hps | apply noesc_lastc; [exact Hl | rewrite <- E; exact N]].
  - destruct (HO (PReplace o r) ltac:(intros s; discriminate) Hp) as [E N]. rewrite resolve_escapes_keep by exact N. rewrite E.
    rewrite IH; [reflexivity | exact Hps | apply noesc_lastc; [exact Hl | rewrite <- E; exact N]].
  - destruct (HO (PNothing o) ltac:(intros s; discriminate) Hp) as [E N]. rewrite resolve_escapes_keep by exact N. rewrite E.
    rewrite IH; [reflexivity | exact Hps | apply noesc_lastc; [exact Hl | rewrite <- E; exact N]].
Qed.

Theorem remove_all_gives_source_l : forall ps, ok ps -> remove_all (enc ps) = Some (src ps).
Proof.
  intros ps H. unfold remove_all. rewrite (pass_remove_bs ps None H). rewrite (pass_replace_orig ps None H eq_refl). f_equal.
  apply (pass_escapes m2 src1); [intros s; split; reflexivity | | exact H | reflexivity].
  intros p NT Hp. destruct p as [s|c|o r|o]; [exfalso; now apply (NT s)| | |]; (split; [reflexivity|]).
  - cbn in Hp. apply negb_true_iff in Hp. intros x [<-|[<-|[]]]; [discriminate | apply (not_special c Hp)].
  - destruct (ok_replace o r Hp) as (Ho & _). intros x I. apply (not_special x (Ho x I)).
  - destruct (ok_nothing o Hp) as (Ho & _). intros x I. apply (not_special x (Ho x I)).
Qed.

(* pass A of resolve_all *)
Lemma pass_resolve_bs : forall ps acc, ok ps -> resolve_bs acc (enc ps) = Some (rev acc ++ flat_map mA ps).
Proof.
  induction ps as [|p ps IH]; intros acc H; [cbn; now rewrite app_nil_r|]. inversion H as [|? ? Hp Hps]; subst.
  unfold enc. cbn [flat_map]. fold (enc ps). destruct p as [s|c|o r|o]; cbn [enc1 mA].
  - rewrite resolve_bs_text, IH by exact Hps. rewrite rev_app_distr, rev_involutive. now rewrite <- app_assoc.
  - cbn [app]. rewrite resolve_bs_backslash, IH by exact Hps. cbn [rev]. now rewrite <- app_assoc.
  - destruct (ok_replace o r Hp) as (Ho & Hr & _ & _).
    rewrite (resolve_bs_keep (c_al :: o ++ c_al :: r ++ [c_al])).
    + rewrite IH by exact Hps. rewrite rev_app_distr, rev_involutive. now rewrite <- app_assoc.
    + intros c [<-|I]; [discriminate|]. apply in_app_or in I as [I|[<-|I]]; [apply (not_special c (Ho c I)) | discriminate |].
      apply in_app_or in I as [I|[<-|[]]]; [apply (not_special c (Hr c I)) | discriminate].
  - destruct (ok_nothing o Hp) as (Ho & _).
    rewrite (resolve_bs_keep (c_al :: o ++ [c_al; c_noop; c_al])).
    + rewrite IH by exact Hps. rewrite rev_app_distr, rev_involutive. now rewrite <- app_assoc.
    + intros c [<-|I]; [discriminate|]. apply in_app_or in I as [I|[<-|[<-|[<-|[]]]]]; [apply (not_special c (Ho c I)) | discriminate | discriminate | discriminate].
Qed.

(* pass C: the NOOP of an empty replacement goes, an escaped NOOP of the document stays *)
Lemma pass_noops : forall ps last, ok ps -> noesc last -> remove_char c_noop last (flat_map mB ps) = flat_map mC ps.
Proof.
  induction ps as [|p ps IH]; intros last H Hl; [reflexivity|]. inversion H as [|? ? Hp Hps]; subst. cbn [flat_map].
  destruct p as [s|c|o r|o]; cbn [mB mC].
  - rewrite remove_char_text; [|discriminate|reflexivity]. rewrite IH; [reflexivity | exact Hps | apply noesc_lastc; [exact Hl | now apply ok_text]].
  - cbn in Hp. apply negb_true_iff in Hp. destruct (not_special c Hp) as (_ & _ & Nn & Ne).
    rewrite (remove_char_keep c_noop [c]); [|intros x [<-|[]]; exact Nn]. rewrite IH; [reflexivity | exact Hps | now apply noesc_some].
  - destruct (ok_replace o r Hp) as (_ & Hr & _ & _).
    rewrite (remove_char_keep c_noop r); [|intros x I; apply (not_special x (Hr x I))]. rewrite IH; [reflexivity | exact Hps | now apply noesc_after_clean].
  - cbn [app remove_char]. rewrite N.eqb_refl, Hl. cbn [andb negb]. now apply IH.
Qed.

Theorem resolve_all_gives_text_l : forall ps, ok ps -> resolve_all (enc ps) = Some (out ps).
Proof.
  intros ps H. unfold resolve_all. rewrite (pass_resolve_bs ps [] H). cbn [rev app].
  rewrite (pass_replace_repl ps None H eq_refl). f_equal. rewrite (pass_noops ps None H eq_refl).
  apply (pass_escapes mC out1); [intros s; split; reflexivity | | exact H | reflexivity].
  intros p NT Hp. destruct p as [s|c|o r|o]; [exfalso; now apply (NT s)| | |]; (split; [reflexivity|]).
  - cbn in Hp. apply negb_true_iff in Hp. intros x [<-|[]]. apply (not_special c Hp).
  - destruct (ok_replace o r Hp) as (_ & Hr & _). intros x I. apply (not_special x (Hr x I)).
  - intros x [].
Qed.

(* the escape alone does not survive a literal ESC in front of another control character *)
Lemma escape_esc_refuted_l : exists s, resolve_escapes None (escape s) <> s.
Proof. exists [c_esc; c_bs]. vm_compute. discriminate. Qed.
