From Coq Require Import List ZArith NArith Bool Lia.
Require Import PV.Base.Str PV.Base.StrOrder PV.Base.RuleTypes PV.Model.Config.
Import ListNotations.

Lemma lookup_first_app k a b :
  lookup_first k (a ++ b) = match lookup_first k a with Some v => Some v | None => lookup_first k b end.
Proof.
  induction a as [|[k' v] a IH]; cbn [app lookup_first]; [reflexivity|].
  destruct (key_eqb k k'); [reflexivity | exact IH].
Qed.

Lemma first_some_app {A} (a b : list (option A)) :
  first_some (a ++ b) = match first_some a with Some v => Some v | None => first_some b end.
Proof. induction a as [|[x|] a IH]; cbn [app first_some]; auto. Qed.

Lemma lookup_most_specific k ls : lookup k (flat ls) = first_some (map (lookup k) (most_specific_first ls)).
Proof.
  unfold flat, most_specific_first. induction ls as [|l ls IH]; [reflexivity|].
  cbn [concat rev]. rewrite map_app, first_some_app. cbn [map first_some].
  unfold lookup at 1. rewrite rev_app_distr, lookup_first_app. fold (lookup k (concat ls)). rewrite IH.
  destruct (first_some _); [reflexivity|]. unfold lookup. now destruct (lookup_first k (rev l)).
Qed.

Lemma str_eqb_eq a b : str_eqb a b = true <-> a = b.
Proof. destruct (str_eqb_spec a b); split; congruence. Qed.

Lemma has_section_false_lookup es i k : has_section es i = false -> lookup (i, k) es = None.
Proof.
  unfold has_section, lookup. intros H.
  assert (G : forall l, (forall e, In e l -> str_eqb (fst (fst e)) i = false) -> lookup_first (i, k) l = None).
  { induction l as [|[[i' k'] v] l IH]; intros F; cbn [lookup_first]; [reflexivity|].
    unfold key_eqb. cbn [fst snd]. pose proof (F _ (or_introl eq_refl)) as F1. cbn [fst] in F1.
    destruct (str_eqb_spec i i') as [->|N].
    - rewrite str_eqb_refl in F1. discriminate.
    - cbn [andb]. apply IH. intros e He. apply F. now right. }
  apply G. intros e He. apply in_rev in He.
  destruct (str_eqb (fst (fst e)) i) eqn:E; [|reflexivity].
  assert (existsb (fun e0 => str_eqb (fst (fst e0)) i) es = true) by (apply existsb_exists; eauto). congruence.
Qed.

Lemma find_only es l i :
  (forall j, In j l -> has_section es j = true -> j = i) -> In i l ->
  find (has_section es) l = if has_section es i then Some i else None.
Proof.
  induction l as [|j l IH]; intros U I; [destruct I|]. cbn [find].
  destruct (has_section es j) eqn:E.
  - pose proof (U j (or_introl eq_refl) E) as J. subst j. now rewrite E.
  - destruct (has_section es i) eqn:Ei.
    + destruct I as [J|I]; [subst j; congruence|].
      rewrite IH; [reflexivity | intros j' Hj; apply U; now right | exact I].
    + destruct (find (has_section es) l) eqn:F; [|reflexivity].
      apply find_some in F as [F1 F2]. pose proof (U s (or_intror F1) F2). subst s. congruence.
Qed.

Lemma find_section_only r i es :
  only_ident r i es -> find_section es (r_idents r) = if has_section es i then Some i else None.
Proof.
  intros [Hi U]. apply find_only; auto. intros j Hj Hs.
  unfold has_section in Hs. apply existsb_exists in Hs as [e [He E]]. apply str_eqb_eq in E. subst j. now apply U.
Qed.

(* the section a consistently addressed rule reads is the one of its identifier, whatever it contains *)
Lemma section_lookup_only r i es k :
  only_ident r i es ->
  match find_section es (r_idents r) with Some s => lookup (s, k) es | None => None end = lookup (i, k) es.
Proof.
  intros O. rewrite (find_section_only r i es O). destruct (has_section es i) eqn:E; [reflexivity|].
  symmetry. now apply has_section_false_lookup.
Qed.

Definition decided (r : rule) (c : cli) (v : option value) : bool :=
  match cli_setting c (r_idents r) with
  | Some b => b
  | None => match v with Some (VBool b) => b | _ => r_default r end
  end.

Lemma rule_enabled_lenient r i c es :
  only_ident r i es -> rule_enabled false c es r = Ok (decided r c (lookup (i, enabled_key) es)).
Proof.
  intros O. unfold rule_enabled, decided. destruct (cli_setting c (r_idents r)); [reflexivity|].
  pose proof (section_lookup_only r i es enabled_key O) as S.
  destruct (find_section es (r_idents r)) as [s|]; rewrite <- S; [|reflexivity].
  destruct (lookup (s, enabled_key) es) as [[b|z|t|]|]; reflexivity.
Qed.

Lemma enabled_precedence_l r i c ls :
  only_ident r i (flat ls) ->
  rule_enabled false c (flat ls) r =
  Ok (decided r c (first_some (map (lookup (i, enabled_key)) (most_specific_first ls)))).
Proof. intros O. rewrite (rule_enabled_lenient r i c _ O). now rewrite lookup_most_specific. Qed.

Lemma rule_enabled_strict r i c es :
  only_ident r i es ->
  rule_enabled true c es r =
  match cli_setting c (r_idents r) with
  | Some b => Ok b
  | None => match lookup (i, enabled_key) es with
            | None => Ok (r_default r) | Some (VBool b) => Ok b | Some _ => ConfigError end
  end.
Proof.
  intros O. unfold rule_enabled. destruct (cli_setting c (r_idents r)); [reflexivity|].
  pose proof (section_lookup_only r i es enabled_key O) as S.
  destruct (find_section es (r_idents r)) as [s|]; rewrite <- S; reflexivity.
Qed.

Lemma item_value_only strict r i es it :
  only_ident r i es ->
  item_value strict es r it = get_typed strict (ci_ty it) (ci_valid it) (ci_default it) (lookup (i, ci_name it) es).
Proof.
  intros O. unfold item_value, section_ident. rewrite (find_section_only r i es O).
  destruct (has_section es i) eqn:E; [reflexivity|]. cbv beta iota.
  rewrite (has_section_false_lookup es i _ E).
  destruct O as [Hi U].
  (* no section at all: the first identifier's (empty) section is read *)
  assert (H : lookup (hd [] (r_idents r), ci_name it) es = None).
  { apply has_section_false_lookup. destruct (has_section es (hd [] (r_idents r))) eqn:F; [|reflexivity].
    exfalso. unfold has_section in F. apply existsb_exists in F as [e [He Ee]]. apply str_eqb_eq in Ee.
    assert (Hin : In (fst (fst e)) (r_idents r)) by (rewrite Ee; unfold r_idents; cbn [hd]; now left).
    pose proof (U e He Hin) as Q.
    assert (X : existsb (fun e0 => str_eqb (fst (fst e0)) i) es = true).
    { apply existsb_exists. exists e. split; auto. now apply str_eqb_eq. }
    unfold has_section in E. congruence. }
  f_equal. exact H.
Qed.

(* ---- aliases ---- *)
Lemma lookup_first_rename i j k l :
  (i = j \/ forall e, In e l -> fst (fst e) <> j) ->
  lookup_first (j, k) (map (fun e => if str_eqb (fst (fst e)) i then ((j, snd (fst e)), snd e) else e) l) = lookup_first (i, k) l.
Proof.
  intros H. induction l as [|[[i' k'] v] l IH]; [reflexivity|]. cbn [map lookup_first fst snd].
  assert (H' : i = j \/ forall e, In e l -> fst (fst e) <> j).
  { destruct H as [H|H]; [now left|right]. intros e He. apply H. now right. }
  specialize (IH H'). unfold key_eqb in *. cbn [fst snd] in *.
  destruct (str_eqb_spec i' i) as [->|N]; cbn [lookup_first fst snd].
  - unfold key_eqb. cbn [fst snd]. rewrite !str_eqb_refl. cbn [andb]. now rewrite IH.
  - unfold key_eqb. cbn [fst snd]. rewrite IH.
    destruct (str_eqb_spec i i'); [congruence|]. cbn [andb].
    destruct (str_eqb_spec j i') as [<-|]; cbn [andb]; [|reflexivity].
    destruct H as [->|H]; [congruence|]. exfalso. apply (H ((j, k'), v)); [now left | reflexivity].
Qed.

Lemma lookup_rename i j k es :
  (i = j \/ forall e, In e es -> fst (fst e) <> j) -> lookup (j, k) (rename_ident i j es) = lookup (i, k) es.
Proof.
  intros H. unfold lookup, rename_ident. rewrite <- map_rev. apply lookup_first_rename.
  destruct H as [H|H]; [now left|right]. intros e He. apply H. now apply in_rev.
Qed.

Lemma only_ident_fresh r i j es : only_ident r i es -> In j (r_idents r) -> i = j \/ forall e, In e es -> fst (fst e) <> j.
Proof.
  intros [Hi U] Hj. destruct (str_eqb_spec i j) as [->|N]; [now left|right].
  intros e He E. apply N. rewrite <- E. symmetry. apply U; auto. now rewrite E.
Qed.

Lemma only_ident_rename r i j es : only_ident r i es -> In j (r_idents r) -> only_ident r j (rename_ident i j es).
Proof.
  intros [Hi U] Hj. split; [exact Hj|]. intros e He Hin. unfold rename_ident in He. apply in_map_iff in He as [e0 [<- He0]].
  destruct (str_eqb_spec (fst (fst e0)) i) as [E|N]; cbn [fst] in *; [reflexivity|].
  exfalso. apply N. now apply U.
Qed.

Lemma alias_enabled_l strict r i j c es :
  only_ident r i es -> In j (r_idents r) ->
  rule_enabled strict c (rename_ident i j es) r = rule_enabled strict c es r.
Proof.
  intros O Hj. pose proof (only_ident_rename r i j es O Hj) as O'. pose proof (only_ident_fresh r i j es O Hj) as F.
  destruct strict.
  - rewrite (rule_enabled_strict r j c _ O'), (rule_enabled_strict r i c _ O). now rewrite lookup_rename.
  - rewrite (rule_enabled_lenient r j c _ O'), (rule_enabled_lenient r i c _ O). now rewrite lookup_rename.
Qed.

Lemma alias_item_l strict r i j es it :
  only_ident r i es -> In j (r_idents r) ->
  item_value strict (rename_ident i j es) r it = item_value strict es r it.
Proof.
  intros O Hj. rewrite (item_value_only strict r j _ it (only_ident_rename r i j es O Hj)), (item_value_only strict r i es it O).
  now rewrite lookup_rename by (eapply only_ident_fresh; eauto).
Qed.

(* ---- getters ---- *)
Lemma lenient_fallback_l t vd d found r :
  get_typed false t vd d found = Some r ->
  r = Ok (match found with
          | Some v => if has_ty t v && match valid_value vd v with Some b => b | None => false end then v else d
          | None => d end).
Proof.
  unfold get_typed. destruct found as [v|]; [|intros [= <-]; reflexivity].
  destruct (has_ty t v); cbn [andb]; [|intros [= <-]; reflexivity].
  destruct (valid_value vd v) as [[|]|]; intros [= <-]; reflexivity.
Qed.

Lemma strict_raises_l t vd d v :
  (has_ty t v = false \/ valid_value vd v = Some false) -> get_typed true t vd d (Some v) = Some ConfigError.
Proof.
  unfold get_typed. intros [H|H].
  - now rewrite H.
  - rewrite H. now destruct (has_ty t v).
Qed.

Lemma strict_accepts_l t vd d v : has_ty t v = true -> valid_value vd v = Some true -> get_typed true t vd d (Some v) = Some (Ok v).
Proof. unfold get_typed. intros -> ->. reflexivity. Qed.

Lemma cli_disable_wins_l c idents i : In i idents -> mem i (cli_disable c) = true -> cli_setting c idents = Some false.
Proof.
  intros Hi Hm. unfold cli_setting.
  assert (N : is_nil (cli_disable c) = false) by (destruct (cli_disable c); [discriminate|reflexivity]).
  rewrite N. cbn [negb andb].
  assert (E : existsb (fun i0 => mem i0 (cli_disable c)) idents = true) by (apply existsb_exists; eauto).
  rewrite E, orb_true_r. reflexivity.
Qed.
