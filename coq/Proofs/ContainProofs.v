From Coq Require Import List NArith Bool ZArith Lia.
Require Import PV.Base.Str PV.Gen.ReturnCodes PV.Gen.FinalCategory PV.Model.Runner PV.Proofs.RunnerProofs.
Import ListNotations.

(* which failures are reported with the name of the file *)
Definition named_error (coe : bool) (o : outcome) : bool :=
  match o with PluginErr _ => true | TokErr => coe | DecodeErr => true | _ => false end.

Definition final_out (r : st + list event) : list event := match r with inl s => out s | inr o => o end.

Lemma existsb_app_l {A} (p : A -> bool) a b : existsb p a = true -> existsb p (a ++ b) = true.
Proof. intros H. rewrite existsb_app, H. reflexivity. Qed.

Lemma loop_keeps m coe fs s f :
  existsb (names_file f) (out s) = true -> existsb (names_file f) (final_out (loop m coe s fs)) = true.
Proof.
  intros H. pose proof (loop_out_mono m coe fs s) as M.
  destruct (loop m coe s fs); destruct M as [t E]; cbn [final_out]; rewrite E; now apply existsb_app_l.
Qed.

Lemma loop_names : forall m coe fs s f o,
  In (f, o) (processed coe fs) -> named_error coe o = true ->
  existsb (names_file f) (final_out (loop m coe s fs)) = true.
Proof.
  intros m coe fs. induction fs as [|[g p] r IH]; intros s f o I N; [destruct I|].
  cbn [processed snd] in I. cbn [loop].
  assert (Hhead : (g, p) = (f, o) -> existsb (names_file f) (final_out (match step m coe s (g, p) with inl s' => loop m coe s' r | inr e => inr e end)) = true).
  { intros E. inversion E; subst g p. destruct o as [n fx|n| |]; cbn [named_error] in N; try discriminate; cbn [step].
    - destruct coe.
      + apply loop_keeps. cbn [out]. rewrite !existsb_app. cbn [existsb names_file]. rewrite N.eqb_refl. now rewrite !orb_true_r.
      + cbn [final_out]. rewrite !existsb_app. cbn [existsb names_file]. rewrite N.eqb_refl. now rewrite !orb_true_r.
    - subst coe. apply loop_keeps. cbn [out]. rewrite !existsb_app. cbn [existsb names_file]. rewrite N.eqb_refl. now rewrite !orb_true_r.
    - cbn [final_out]. rewrite !existsb_app. cbn [existsb names_file]. rewrite N.eqb_refl. now rewrite !orb_true_r. }
  destruct (aborts coe p) eqn:A.
  - destruct I as [I|[]]. now apply Hhead.
  - destruct I as [I|I]; [now apply Hhead|].
    destruct (step m coe s (g, p)) as [s'|e] eqn:E.
    + eapply IH; eauto.
    + exfalso. destruct p as [n fx|n| |]; cbn [step aborts] in *; try destruct coe; try discriminate.
Qed.

Lemma error_names_file_l m coe fs f o :
  In (f, o) (processed coe fs) -> named_error coe o = true -> existsb (names_file f) (outputs m coe fs) = true.
Proof.
  intros I N. pose proof (loop_names m coe fs st0 f o I N) as H. unfold outputs, run.
  destruct (loop m coe st0 fs); exact H.
Qed.

Lemma error_names_file_refuted_l :
  exists m coe fs f o, In (f, o) (processed coe fs) /\ is_err o = true /\ existsb (names_file f) (outputs m coe fs) = false.
Proof. exists Scan, false, [(1%N, TokErr)], 1%N, TokErr. repeat split; try reflexivity. now left. Qed.

Lemma decode_error_named_l : forall m coe f, existsb (names_file f) (outputs m coe [(f, DecodeErr)]) = true.
Proof. intros. cbn. now rewrite N.eqb_refl. Qed.
