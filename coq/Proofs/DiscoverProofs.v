From Coq Require Import List NArith Bool Arith Lia Permutation Sorted.
Require Import PV.Base.Str PV.Base.StrOrder PV.Base.Sort PV.Model.Discover.
Import ListNotations.

Definition slt (a b : str) : Prop := str_ltb a b = true.

(* ---- generic: sorted + adjacent de-duplication = strictly sorted list of the element set ---- *)
Lemma dedup_In l x : In x (dedup_adj str_eqb l) <-> In x l.
Proof.
  induction l as [|a r IH]; cbn [dedup_adj]; [tauto|].
  destruct r as [|b r'].
  - tauto.
  - destruct (str_eqb_spec a b) as [->|N].
    + rewrite IH. cbn [In]. tauto.
    + cbn [In] in *. rewrite IH. tauto.
Qed.

Lemma lt_le_trans x y z : str_ltb x y = true -> str_ltb z y = false -> str_ltb x z = true.
Proof.
  intros H1 H2. destruct (str_ltb x z) eqn:E; [reflexivity|].
  pose proof (str_le_trans y z x H2 E) as C. congruence.
Qed.

Lemma dedup_strict l : StronglySorted (le_rel str_ltb) l -> StronglySorted slt (dedup_adj str_eqb l).
Proof.
  induction l as [|a r IH]; intros S; cbn [dedup_adj]; [constructor|].
  inversion S as [|? ? Sr Ha]; subst. destruct r as [|b r'].
  - repeat constructor.
  - destruct (str_eqb_spec a b) as [->|N]; [now apply IH|].
    constructor; [now apply IH|].
    rewrite Forall_forall in *. intros z Hz. apply (proj1 (dedup_In _ _)) in Hz. cbn [In] in Hz.
    assert (Lab : str_ltb a b = true).
    { specialize (Ha b (or_introl eq_refl)). unfold le_rel in Ha.
      destruct (str_ltb_total a b) as [->|[H|H]]; congruence. }
    destruct Hz as [<-|Hz]; [exact Lab|].
    inversion Sr as [|? ? _ Hb]; subst. rewrite Forall_forall in Hb. specialize (Hb z Hz). unfold le_rel in Hb.
    unfold slt. eapply lt_le_trans; eauto.
Qed.

Lemma sorted_set_strict l : StronglySorted slt (sorted_set l).
Proof. apply dedup_strict, sort_sorted; [apply str_ltb_asym | apply str_le_trans]. Qed.

Lemma sorted_set_In l x : In x (sorted_set l) <-> In x l.
Proof. unfold sorted_set. rewrite dedup_In. apply sort_In. Qed.

Lemma strict_same_elems_eq : forall l1 l2,
  StronglySorted slt l1 -> StronglySorted slt l2 -> (forall x, In x l1 <-> In x l2) -> l1 = l2.
Proof.
  induction l1 as [|a r1 IH]; intros l2 S1 S2 E.
  - destruct l2 as [|b r2]; [reflexivity|]. exfalso. apply (E b). now left.
  - destruct l2 as [|b r2]; [exfalso; apply (E a); now left|].
    inversion S1 as [|? ? S1r H1]; inversion S2 as [|? ? S2r H2]; subst.
    rewrite Forall_forall in H1, H2.
    assert (a = b) as ->.
    { destruct (proj1 (E a) (or_introl eq_refl)) as [->|Ia]; [reflexivity|].
      destruct (proj2 (E b) (or_introl eq_refl)) as [->|Ib]; [reflexivity|].
      specialize (H1 _ Ib). specialize (H2 _ Ia). unfold slt in *.
      rewrite (str_ltb_asym _ _ H1) in H2. discriminate. }
    f_equal. apply IH; auto. intros x. split; intros Hx.
    + destruct (proj1 (E x) (or_intror Hx)) as [<-|?]; [|assumption].
      specialize (H1 _ Hx). unfold slt in H1. rewrite str_ltb_irrefl in H1. discriminate.
    + destruct (proj2 (E x) (or_intror Hx)) as [<-|?]; [|assumption].
      specialize (H2 _ Hx). unfold slt in H2. rewrite str_ltb_irrefl in H2. discriminate.
Qed.

Lemma sorted_set_ext l l' : (forall x, In x l <-> In x l') -> sorted_set l = sorted_set l'.
Proof.
  intros E. apply strict_same_elems_eq; try apply sorted_set_strict.
  intros x. rewrite !sorted_set_In. apply E.
Qed.

Lemma perm_in_iff {A} (l l' : list A) x : Permutation l l' -> (In x l <-> In x l').
Proof. intros P. split; apply Permutation_in; [exact P | now apply Permutation_sym]. Qed.

Section NodeInd.
Variable P : node -> Prop.
Hypothesis HF : forall nm, P (File nm).
Hypothesis HD : forall nm kids, Forall P kids -> P (Dir nm kids).
Fixpoint node_ind' (n : node) : P n :=
  match n with
  | File nm => HF nm
  | Dir nm kids => HD nm kids ((fix go (l : list node) : Forall P l :=
                                  match l with [] => Forall_nil _ | k :: r => Forall_cons _ (node_ind' k) (go r) end) kids)
  end.
End NodeInd.

(* ---- the loop ---- *)
Section D.
Variables (t : tree) (rc : bool) (ex : list str).

Lemma det_loop_spec args acc :
  det_loop t rc ex args acc =
  if existsb (arg_fails t rc ex) args then None else Some (acc ++ flat_map (arg_files t rc ex) args).
Proof.
  revert acc. induction args as [|a r IH]; intros acc; cbn [det_loop existsb flat_map].
  - now rewrite app_nil_r.
  - unfold arg_fails at 1, arg_files at 1. destruct (arg_select t rc ex a) as [l|]; cbn [orb]; [|reflexivity].
    rewrite IH. destruct (existsb _ r); [reflexivity|]. now rewrite app_assoc.
Qed.

Lemma error_is_existsb args : error t rc ex args = existsb (arg_fails t rc ex) args.
Proof. unfold error, discover. rewrite det_loop_spec. now destruct (existsb _ args). Qed.

Lemma files_spec args :
  files t rc ex args = if error t rc ex args then [] else sorted_set (flat_map (arg_files t rc ex) args).
Proof. rewrite error_is_existsb. unfold files, discover. rewrite det_loop_spec. now destruct (existsb _ args). Qed.

Lemma error_scans_nothing_l args : error t rc ex args = true -> files t rc ex args = [].
Proof. intros H. now rewrite files_spec, H. Qed.

Lemma files_sorted_l args : StronglySorted slt (files t rc ex args).
Proof. rewrite files_spec. destruct (error _ _ _ _); [constructor | apply sorted_set_strict]. Qed.

Lemma strict_nodup l : StronglySorted slt l -> NoDup l.
Proof.
  induction 1 as [|a l S IH F]; constructor; auto.
  intros I. rewrite Forall_forall in F. specialize (F _ I). unfold slt in F. rewrite str_ltb_irrefl in F. discriminate.
Qed.

Lemma files_nodup_l args : NoDup (files t rc ex args).
Proof. apply strict_nodup, files_sorted_l. Qed.

Lemma files_in_iff_l args p :
  In p (files t rc ex args) <-> error t rc ex args = false /\ exists a, In a args /\ In p (arg_files t rc ex a).
Proof.
  rewrite files_spec. destruct (error t rc ex args).
  - cbn [In]. split; [tauto | intros [H _]; discriminate].
  - rewrite sorted_set_In, in_flat_map. split; [intros H; split; [reflexivity|exact H] | tauto].
Qed.

Lemma error_iff_l args :
  error t rc ex args = true <-> exists a, In a args /\ arg_fails t rc ex a = true.
Proof. rewrite error_is_existsb. apply existsb_exists. Qed.

Lemma discover_perm_l args args' :
  Permutation args args' -> discover t rc ex args = discover t rc ex args'.
Proof.
  intros P.
  assert (E : error t rc ex args = error t rc ex args').
  { rewrite !error_is_existsb. apply eq_true_iff_eq. rewrite !existsb_exists.
    split; intros [a [I F]]; exists a; split; auto; now apply (perm_in_iff _ _ a P). }
  assert (F : files t rc ex args = files t rc ex args').
  { rewrite !files_spec, <- E. destruct (error t rc ex args); [reflexivity|].
    apply sorted_set_ext. intros x. rewrite !in_flat_map.
    split; intros [a [I H]]; exists a; split; auto; now apply (perm_in_iff _ _ a P). }
  unfold files, error in *. destruct (discover t rc ex args), (discover t rc ex args'). cbn in *. congruence.
Qed.

(* ---- what is selected is an existing file with an eligible extension ---- *)
Lemma walk_node_eligible : forall n root p, In p (walk_node t rc ex root n) -> eligible t ex p = true.
Proof.
  induction n as [nm|nm kids IH] using node_ind'; intros root p; cbn [walk_node].
  - destruct (eligible t ex _) eqn:E; cbn [In]; [intros [<-|[]]; exact E | tauto].
  - destruct rc; [|cbn [In]; tauto].
    rewrite in_flat_map. intros [k [Ik H]]. rewrite Forall_forall in IH. eapply IH; eauto.
Qed.

Lemma walk_dir_eligible top kids p : In p (walk_dir t rc ex top kids) -> eligible t ex p = true.
Proof.
  unfold walk_dir. rewrite in_flat_map. intros [n [_ H]]. eapply walk_node_eligible; eauto.
Qed.

Lemma select_path_eligible q p : In p (select_path t rc ex q) -> eligible t ex p = true.
Proof.
  unfold select_path, process_path. destruct (resolve t q) as [[nm|nm kids]|]; cbn [In]; try tauto.
  - destruct (eligible t ex q) eqn:E; cbn [In]; [intros [<-|[]]; exact E | tauto].
  - apply walk_dir_eligible.
Qed.

Lemma arg_files_eligible a p : In p (arg_files t rc ex a) -> eligible t ex p = true.
Proof.
  unfold arg_files, arg_select. destruct (is_glob_arg a).
  - destruct (glob t a) as [|g gs]; cbn [In]; [tauto|].
    rewrite in_flat_map. intros [q [_ H]]. eapply select_path_eligible; eauto.
  - fold (select_path t rc ex a). apply select_path_eligible.
Qed.

Lemma files_eligible_l args p : In p (files t rc ex args) -> eligible t ex p = true.
Proof. rewrite files_in_iff_l. intros [_ [a [_ H]]]. eapply arg_files_eligible; eauto. Qed.

End D.
