From Coq Require Import List Bool Permutation.
Require Import PV.Base.Str PV.Base.StrOrder PV.Model.Dispatch.
Import ListNotations.

Section P.
Variables (state event report : Type).
Notation plugin := (plugin state event report).
Implicit Types (p : plugin) (ps : list (plugin * state)).

Lemma reports_app pid (a b : list (str * report)) : reports_of pid (a ++ b) = reports_of pid a ++ reports_of pid b.
Proof. unfold reports_of. now rewrite filter_app, map_app. Qed.

Lemma reports_tagged_same pid (l : list report) : reports_of pid (map (pair pid) l) = l.
Proof.
  unfold reports_of. induction l as [|x l IH]; [reflexivity|]. cbn [map filter fst]. rewrite str_eqb_refl. cbn [map snd]. now rewrite IH.
Qed.

Lemma reports_tagged_other pid q (l : list report) : q <> pid -> reports_of pid (map (pair q) l) = [].
Proof.
  intros N. unfold reports_of. induction l as [|x l IH]; [reflexivity|]. cbn [map filter fst].
  destruct (str_eqb_spec q pid); [contradiction|exact IH].
Qed.

Definition ids ps : list str := map (fun q => p_id (fst q)) ps.

Lemma step_all_ids e ps : ids (fst (step_all _ _ _ e ps)) = ids ps.
Proof. unfold step_all, ids. cbn [fst]. rewrite map_map. apply map_ext. now intros [p s]. Qed.

Lemma step_out_notin e ps pid : ~ In pid (ids ps) ->
  reports_of pid (flat_map (fun q => map (pair (p_id (fst q))) (snd (p_step (fst q) (snd q) e))) ps) = [].
Proof.
  induction ps as [|[q t] l IHl]; intros N; [reflexivity|]. cbn [flat_map fst snd]. rewrite reports_app, reports_tagged_other.
  - apply IHl. intros H. apply N. now right.
  - intros H. apply N. left. exact H.
Qed.

(* what plug-in p reports inside any enabled set is what it reports alone *)
Lemma engine_reports_in : forall evs ps p s,
  NoDup (ids ps) -> In (p, s) ps ->
  reports_of (p_id p) (engine ps evs) = run_one p s evs.
Proof.
  induction evs as [|e r IH]; intros ps p s ND I; [reflexivity|].
  cbn [engine run_one]. destruct (step_all _ _ _ e ps) as [ps' out] eqn:E.
  destruct (p_step p s e) as [s' o] eqn:Ep. rewrite reports_app.
  assert (Hout : reports_of (p_id p) out = o).
  { unfold step_all in E. injection E as _ <-. clear IH.
    induction ps as [|[q t] l IHl]; [destruct I|]. cbn [flat_map fst snd]. rewrite reports_app.
    cbn [ids map fst] in ND. inversion ND as [|? ? Nq NDl]; subst.
    destruct I as [I|I].
    - inversion I; subst q t. rewrite Ep. cbn [snd]. rewrite reports_tagged_same.
      assert (R := step_out_notin e l (p_id p) Nq).
      rewrite R. apply app_nil_r.
    - rewrite reports_tagged_other; [now apply IHl|].
      intros H. apply Nq. unfold ids. rewrite H. apply (in_map (fun q0 => p_id (fst q0)) l (p, s) I). }
  rewrite Hout. f_equal.
  apply IH.
  - rewrite <- (step_all_ids e ps) in ND. now rewrite E in ND.
  - unfold step_all in E. injection E as <- _. apply in_map_iff. exists (p, s). cbn [fst snd]. now rewrite Ep.
Qed.

Lemma engine_reports_notin : forall evs ps pid, ~ In pid (ids ps) -> reports_of pid (engine ps evs) = [].
Proof.
  induction evs as [|e r IH]; intros ps pid N; [reflexivity|].
  cbn [engine]. destruct (step_all _ _ _ e ps) as [ps' out] eqn:E. rewrite reports_app.
  rewrite IH; [|rewrite <- (step_all_ids e ps) in N; now rewrite E in N]. rewrite app_nil_r.
  unfold step_all in E. injection E as _ <-. now apply step_out_notin.
Qed.

(* enabling or disabling other plug-ins changes nothing for p *)
Lemma independent_of_others evs ps ps' p s :
  NoDup (ids ps) -> NoDup (ids ps') -> In (p, s) ps -> In (p, s) ps' ->
  reports_of (p_id p) (engine ps evs) = reports_of (p_id p) (engine ps' evs).
Proof. intros. rewrite (engine_reports_in evs ps p s), (engine_reports_in evs ps' p s); auto. Qed.

Lemma alone_l evs p s : reports_of (p_id p) (engine [(p, s)] evs) = run_one p s evs.
Proof. apply engine_reports_in; [repeat constructor; intros [] | now left]. Qed.
End P.
