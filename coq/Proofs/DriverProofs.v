From Coq Require Import List ZArith NArith Bool Arith Lia.
Require Import PV.Base.Str PV.Model.Driver.
Import ListNotations.

(* ---- termination ---- *)
Definition tinv (N : nat) (s : tstate) : Prop := 1 <= t_pos s <= S N /\ t_last s <= 2 * N + 1.

Lemma tstep_inv N s s' : tinv N s -> tstep N s s' -> tinv N s'.
Proof.
  intros [Hp Hl] H. inversion H; subst; cbn [t_pos t_last] in *; unfold tinv; cbn [t_pos t_last].
  - lia.
  - unfold rank. destruct force; lia.
Qed.

Lemma tstep_decreases N s s' : tinv N s -> tstep N s s' -> measure N s' < measure N s.
Proof.
  intros [Hp Hl] H. inversion H; subst; unfold measure; cbn [t_pos t_last] in *.
  - lia.
  - assert (R : rank target force <= 2 * N + 1) by (unfold rank; destruct force; lia).
    nia.
Qed.

(* every execution of the loop, whatever the handler answers within the contract, has at most measure(init) steps *)
Inductive tpath (N : nat) : tstate -> nat -> Prop :=
| PNil : forall s, tpath N s 0
| PCons : forall s s' n, tstep N s s' -> tpath N s' n -> tpath N s (S n).

Lemma tpath_bounded N : forall n s, tinv N s -> tpath N s n -> n <= measure N s.
Proof.
  induction n as [|n IH]; intros s I P; [lia|]. inversion P as [|? s' ? St Pt]; subst.
  pose proof (tstep_decreases N s s' I St). pose proof (IH s' (tstep_inv N s s' I St) Pt). lia.
Qed.

Theorem driver_terminates_l N : forall n, tpath N tinit n -> n <= (2 * N + 2) * (N + 2) + (N + 1).
Proof.
  intros n P. pose proof (tpath_bounded N n tinit) as B.
  assert (I : tinv N tinit) by (unfold tinv, tinit; cbn; lia).
  specialize (B I P). unfold measure, tinit in B. cbn [t_pos t_last] in B. lia.
Qed.

(* ---- line numbers: what is delivered with number n is the n-th line of the source ---- *)
Definition dinv (all : list str) (s : dstate) : Prop :=
  (1 <= d_line s)%Z /\ d_rq s ++ d_src s = skipn (Z.to_nat (d_line s - 1)) all.
Lemma skipn_S_nth {A} (l : list A) n x r : skipn n l = x :: r -> skipn (S n) l = r.
Proof. revert n. induction l as [|y l IH]; intros [|n] H; cbn in *; try discriminate; [now injection H as _ -> | now apply IH]. Qed.

Lemma firstn_skipn_app {A} (l : list A) a k : firstn k (skipn a l) ++ skipn (a + k) l = skipn a l.
Proof.
  revert l. induction a as [|a IH]; intros l; cbn [skipn Nat.add]; [apply firstn_skipn|].
  destruct l as [|x l]; [cbn; now destruct k|]. cbn [skipn]. apply IH.
Qed.

Lemma delivered_is_source_line all s l s1 :
  dinv all s -> next_line s = Some (l, s1) -> nth_error all (Z.to_nat (d_line s - 1)) = Some l /\ d_line s1 = d_line s.
Proof.
  intros [H1 H2] N. unfold next_line in N.
  assert (E : exists r, skipn (Z.to_nat (d_line s - 1)) all = l :: r /\ d_line s1 = d_line s).
  { destruct (d_rq s) as [|x r] eqn:Q.
    - destruct (d_src s) as [|y r'] eqn:S; [discriminate|]. injection N as <- <-. cbn [app] in H2. exists r'. split; [now rewrite <- H2 | reflexivity].
    - injection N as <- <-. cbn [app] in H2. exists (r ++ d_src s). split; [now rewrite <- H2 | reflexivity]. }
  destruct E as [r [E1 E2]]. split; [|exact E2].
  clear -E1. revert E1. generalize (Z.to_nat (d_line s - 1)). intros n. revert all. induction n as [|n IH]; intros [|x a] E; cbn in *; try discriminate.
  - now injection E as ->.
  - now apply IH.
Qed.

Lemma step_keeps_inv all s l s1 r :
  dinv all s -> next_line s = Some (l, s1) -> good_resp all (d_line s) r -> dinv all (after s1 r).
Proof.
  intros [H1 H2] N G. unfold next_line in N.
  assert (E : d_line s1 = d_line s /\ exists rest, skipn (Z.to_nat (d_line s - 1)) all = l :: rest /\ d_rq s1 ++ d_src s1 = rest).
  { destruct (d_rq s) as [|x q] eqn:Q.
    - destruct (d_src s) as [|y r'] eqn:S; [discriminate|]. injection N as <- <-. cbn [app d_rq d_src d_line] in *. split; [reflexivity|]. exists r'. split; [now rewrite <- H2|reflexivity].
    - injection N as <- <-. cbn [app d_rq d_src d_line] in *. split; [reflexivity|]. exists (q ++ d_src s). split; [now rewrite <- H2|reflexivity]. }
  destruct E as [El [rest [Es Er]]].
  assert (Sk : skipn (Z.to_nat (d_line s)) all = rest).
  { replace (Z.to_nat (d_line s)) with (S (Z.to_nat (d_line s - 1))) by lia. eapply skipn_S_nth; eauto. }
  destruct r as [|ls f]; unfold after, dinv; cbn [d_rq d_src d_line].
  - rewrite El. split; [lia|]. replace (Z.to_nat (d_line s + 1 - 1)) with (Z.to_nat (d_line s)) by lia. now rewrite Er, Sk.
  - cbn [good_resp] in G. destruct G as [Gk Gl]. rewrite El. split; [lia|].
    rewrite <- app_assoc, Er, <- Sk.
    replace (Z.to_nat (d_line s - (Z.of_nat (length ls) - 1) - 1)) with (Z.to_nat (d_line s - Z.of_nat (length ls))) by lia.
    rewrite Gl at 1.
    replace (Z.to_nat (d_line s)) with (Z.to_nat (d_line s - Z.of_nat (length ls)) + length ls) by lia.
    apply firstn_skipn_app.
Qed.

(* every delivery carries the number of the source line it delivers, whatever was requeued before *)
Theorem driver_line_numbers_l all : forall script s,
  dinv all s -> script_ok all script s ->
  Forall (fun d => let '(n, l, _) := d in nth_error all (Z.to_nat (n - 1)) = Some l) (deliveries script s).
Proof.
  induction script as [|r rest IH]; intros s I OK; cbn [deliveries]; [constructor|]. cbn [script_ok] in OK.
  destruct (next_line s) as [[l s1]|] eqn:N.
  - destruct OK as [G OK']. destruct (delivered_is_source_line all s l s1 I N) as [Hn Hl]. constructor.
    + rewrite Hl. exact Hn.
    + apply IH; [eapply step_keeps_inv; eauto | exact OK'].
  - destruct r as [|ls f]; [constructor|]. destruct OK as [[Gk Gl] [EN OK']]. apply IH; [|exact OK'].
    unfold dinv. cbn [d_rq d_src d_line]. split; [lia|]. rewrite app_nil_r.
    replace (Z.to_nat (d_line s - 1 - (Z.of_nat (length ls) - 1) - 1)) with (Z.to_nat (d_line s - 1 - Z.of_nat (length ls))) by lia.
    rewrite Gl at 1. rewrite firstn_all2; [reflexivity|].
    rewrite skipn_length. lia.
Qed.
