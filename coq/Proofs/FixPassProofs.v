From Coq Require Import List NArith Bool ZArith Lia.
Require Import PV.Base.Str PV.Gen.ReturnCodes PV.Gen.FinalCategory PV.Model.Runner PV.Proofs.RunnerProofs PV.Model.FixPass.
Import ListNotations.

Lemma no_write_no_change : forall ps orig, did_fix ps = false -> fix_content orig ps = orig.
Proof.
  induction ps as [|p ps IH]; intros orig H; [reflexivity|].
  unfold did_fix in H. cbn [existsb] in H. apply orb_false_elim in H as [Hp Hr].
  unfold fix_content. cbn [fold_left]. unfold apply_pass at 2. rewrite Hp. now apply IH.
Qed.

Lemma change_implies_announced_l : forall orig ps, fix_content orig ps <> orig -> did_fix ps = true.
Proof. intros orig ps H. destruct (did_fix ps) eqn:E; [reflexivity|]. exfalso. apply H. now apply no_write_no_change. Qed.

Lemma announced_iff_l fs f : In f (announced fs) <-> exists x, In x fs /\ fst (fst x) = f /\ did_fix (snd x) = true.
Proof.
  unfold announced. rewrite in_map_iff. split.
  - intros [x [E I]]. apply filter_In in I as [I D]. eauto.
  - intros [x [I [E D]]]. exists x. split; auto. apply filter_In. auto.
Qed.

(* the last pass that writes decides the content *)
Lemma last_writer : forall ps orig p, pass_writes p = true -> fix_content orig (ps ++ [p]) = p_out p.
Proof. intros. unfold fix_content. rewrite fold_left_app. cbn [fold_left]. unfold apply_pass at 1. now rewrite H. Qed.

Lemma as_outcomes_no_error fs : existsb is_err (map snd (as_outcomes fs)) = false.
Proof. unfold as_outcomes. induction fs as [|f fs IH]; [reflexivity|]. cbn [map snd existsb is_err]. exact IH. Qed.

Lemma processed_all_done fs : processed false (as_outcomes fs) = as_outcomes fs.
Proof. unfold as_outcomes. induction fs as [|f fs IH]; [reflexivity|]. cbn [map processed snd aborts]. now rewrite IH. Qed.

Lemma fix_category_l fs :
  fix_category fs = if existsb (fun f => did_fix (snd f)) fs then FIXED_AT_LEAST_ONE_FILE else SUCCESS.
Proof.
  unfold fix_category. rewrite category_is_spec. unfold spec_category. rewrite processed_all_done, as_outcomes_no_error.
  assert (E : existsb (o_fixed Fix) (map snd (as_outcomes fs)) = existsb (fun f => did_fix (snd f)) fs).
  { unfold as_outcomes. induction fs as [|f fs IH]; [reflexivity|]. cbn [map snd existsb o_fixed eff_fixed]. now rewrite IH. }
  assert (T : existsb (o_trig Fix) (map snd (as_outcomes fs)) = false).
  { unfold as_outcomes. clear E. induction fs as [|f fs IH]; [reflexivity|]. cbn [map snd existsb o_trig eff_nfail]. exact IH. }
  rewrite E, T. reflexivity.
Qed.

Lemma announced_nonempty fs : announced fs <> [] <-> existsb (fun f => did_fix (snd f)) fs = true.
Proof.
  unfold announced. induction fs as [|f fs IH]; cbn [filter map existsb]; [split; [congruence|discriminate]|].
  destruct (did_fix (snd f)); cbn [map orb]; [split; [reflexivity|discriminate]|exact IH].
Qed.
