From Coq Require Import List ZArith Bool Arith Lia Sorted.
Require Import PV.Model.FixSched.
Import ListNotations.
Local Open Scope Z_scope.

Lemma zmin_in : forall l d, In (zmin l d) (d :: l).
Proof.
  induction l as [|x r IH]; intros d; cbn [zmin]; [now left|].
  destruct (Z.min_spec x (zmin r x)) as [[_ ->]|[_ ->]]; [right; now left|].
  destruct (IH x) as [E|I]; [right; left; exact E | right; right; exact I].
Qed.

Lemma zmin_le : forall l d x, In x l -> zmin l d <= x.
Proof.
  induction l as [|y r IH]; intros d x I; [destruct I|]. cbn [zmin]. destruct I as [->|I].
  - apply Z.le_min_l.
  - etransitivity; [apply Z.le_min_r | now apply IH].
Qed.

Lemma next_level_spec L ts L' :
  next_level L ts = Some L' -> L < L' /\ In L' ts /\ forall x, In x ts -> L < x -> L' <= x.
Proof.
  unfold next_level. destruct (filter (fun l => L <? l) ts) as [|x r] eqn:E; [discriminate|].
  remember (zmin (x :: r) x) as m eqn:Em. intros [= <-].
  assert (I : In m (x :: r)). { subst m. destruct (zmin_in (x :: r) x) as [H|H]; [rewrite <- H; now left | exact H]. }
  assert (I' : In m (filter (fun l => L <? l) ts)) by (rewrite E; exact I).
  apply filter_In in I' as [I1 I2]. apply Z.ltb_lt in I2. split; [exact I2|]. split; [exact I1|].
  intros y Hy Ly. subst m. apply zmin_le. rewrite <- E. apply filter_In. split; auto. now apply Z.ltb_lt.
Qed.

Lemma next_level_none L ts : next_level L ts = None -> forall x, In x ts -> x <= L.
Proof.
  unfold next_level. destruct (filter (fun l => L <? l) ts) as [|y r] eqn:E; [|discriminate]. intros _ x Hx.
  destruct (Z.ltb_spec L x) as [H|H]; [|lia].
  assert (In x (filter (fun l => L <? l) ts)) by (apply filter_In; split; auto; now apply Z.ltb_lt). rewrite E in H0. destruct H0.
Qed.

Lemma filter_ge_mono L L' xs : L < L' ->
  (length (filter (fun l => (L' <=? l)%Z) xs) <= length (filter (fun l => (L <=? l)%Z) xs))%nat.
Proof.
  intros Lt. induction xs as [|y ys IH]; cbn [filter]; [lia|].
  destruct (Z.leb_spec L' y), (Z.leb_spec L y); cbn [length]; lia.
Qed.

Lemma filter_ge_strict L L' xs : L < L' -> In L xs ->
  (length (filter (fun l => (L' <=? l)%Z) xs) < length (filter (fun l => (L <=? l)%Z) xs))%nat.
Proof.
  intros Lt. induction xs as [|y ys IH]; intros I; [destruct I|]. cbn [filter].
  destruct I as [->|I].
  - pose proof (filter_ge_mono L L' ys Lt). destruct (Z.leb_spec L' L), (Z.leb_spec L L); cbn [length]; lia.
  - specialize (IH I). destruct (Z.leb_spec L' y), (Z.leb_spec L y); cbn [length]; lia.
Qed.

Section P.
Variable doc : Type.
Variable fix_at : Z -> doc -> doc.
Variable collected : Z -> doc -> list Z.
Notation run := (run fix_at collected).

(* the levels that are run form a strictly increasing sequence starting with the initial level *)
Lemma run_increasing : forall fuel L d d' ls,
  run fuel L d = Some (d', ls) -> exists r, ls = L :: r /\ StronglySorted Z.lt ls.
Proof.
  induction fuel as [|f IH]; intros L d d' ls H; [discriminate|]. cbn [FixSched.run] in H.
  destruct (next_level L (collected L d)) as [L'|] eqn:N.
  - destruct (FixSched.run fix_at collected f L' (fix_at L d)) as [[d2 l2]|] eqn:R; [|discriminate]. injection H as <- <-.
    destruct (IH _ _ _ _ R) as [r [-> S]]. exists (L' :: r). split; [reflexivity|].
    apply next_level_spec in N as [Lt _]. constructor; [exact S|].
    inversion S as [|? ? Sr F]; subst. constructor; [exact Lt|].
    rewrite Forall_forall in *. intros x Hx. specialize (F x Hx). lia.
  - injection H as <- <-. exists []. split; [reflexivity|]. repeat constructor.
Qed.

Lemma sorted_nodup l : StronglySorted Z.lt l -> NoDup l.
Proof.
  induction 1 as [|a l S IH F]; constructor; auto. intros I. rewrite Forall_forall in F. specialize (F _ I). lia.
Qed.

Lemma run_levels_in : forall fuel L d d' ls (levels : list Z),
  In L levels -> (forall l d x, In x (collected l d) -> In x levels) ->
  run fuel L d = Some (d', ls) -> incl ls levels.
Proof.
  induction fuel as [|f IH]; intros L d d' ls levels IL C H; [discriminate|]. cbn [FixSched.run] in H.
  destruct (next_level L (collected L d)) as [L'|] eqn:N.
  - destruct (FixSched.run fix_at collected f L' (fix_at L d)) as [[d2 l2]|] eqn:R; [|discriminate]. injection H as <- <-.
    apply next_level_spec in N as [_ [I _]]. intros x [<-|Hx]; [exact IL|]. exact (IH L' (fix_at L d) d2 l2 levels (C _ _ _ I) C R x Hx).
  - injection H as <- <-. intros x [<-|[]]. exact IL.
Qed.

(* each level at most once; at most as many passes as there are levels *)
Lemma run_pass_bound fuel L d d' ls (levels : list Z) :
  In L levels -> (forall l d x, In x (collected l d) -> In x levels) ->
  run fuel L d = Some (d', ls) -> NoDup ls /\ (length ls <= length levels)%nat.
Proof.
  intros IL C H. destruct (run_increasing _ _ _ _ _ H) as [r [_ S]].
  pose proof (sorted_nodup _ S) as ND. split; [exact ND|].
  apply NoDup_incl_length; [exact ND|]. eapply run_levels_in; eauto.
Qed.

(* no fuel exhaustion: with as much fuel as there are levels from L upwards the loop always ends *)
Lemma run_terminates : forall (levels : list Z) (fuel : nat) (L : Z) (d : doc),
  (forall l d x, In x (collected l d) -> In x levels) ->
  (length (filter (fun l => (L <=? l)%Z) levels) <= fuel)%nat -> In L levels ->
  exists r, run fuel L d = Some r.
Proof.
  intros levels fuel. induction fuel as [|f IH]; intros L d C B IL.
  - exfalso. assert (In L (filter (fun l => (L <=? l)%Z) levels)) by (apply filter_In; split; auto; apply Z.leb_refl).
    destruct (filter _ levels); [destruct H | cbn in B; lia].
  - cbn [FixSched.run]. destruct (next_level L (collected L d)) as [L'|] eqn:N; [|eexists; reflexivity].
    apply next_level_spec in N as [Lt [I _]].
    destruct (IH L' (fix_at L d) C) as [[d2 l2] ->]; [|eapply C; eauto|eexists; reflexivity].
    pose proof (filter_ge_strict L L' levels Lt IL).
    lia.
Qed.
End P.

(* ---- one run reaches a fixed point, under explicit hypotheses about the rules ---- *)
Section FP.
Variable doc : Type.
Variable fix_at : Z -> doc -> doc.
Variable collected : Z -> doc -> list Z.
Variable levels : list Z.
Variable trig : Z -> doc -> bool.          (* some fix-capable rule of level l reports a failure on d *)
(* H1: a pass leaves nothing of its own level to fix; H1': nothing to fix, nothing changed *)
Hypothesis H1 : forall l d, trig l (fix_at l d) = false.
Hypothesis H1' : forall l d, trig l d = false -> fix_at l d = d.
(* H2: interference goes upwards only - a pass never creates work for a lower level *)
Hypothesis H2 : forall l l' d, l' < l -> trig l' d = false -> trig l' (fix_at l d) = false.
(* H3: the collectors of a pass report exactly the higher levels that trigger on the document the pass leaves *)
Hypothesis H3 : forall L d x, In x (collected L d) <-> (In x levels /\ L < x /\ trig x (fix_at L d) = true).
Notation run := (FixSched.run fix_at collected).

Lemma run_clean : forall fuel L d d' ls,
  In L levels -> (forall l, In l levels -> l < L -> trig l d = false) ->
  run fuel L d = Some (d', ls) -> forall l, In l levels -> trig l d' = false.
Proof.
  induction fuel as [|f IH]; intros L d d' ls IL Inv H; [discriminate|]. cbn [FixSched.run] in H.
  assert (Below : forall l, In l levels -> l <= L -> trig l (fix_at L d) = false).
  { intros l Il Le. destruct (Z.eq_dec l L) as [->|N]; [apply H1|]. apply H2; [lia|]. apply Inv; auto. lia. }
  destruct (next_level L (collected L d)) as [L'|] eqn:N.
  - destruct (FixSched.run fix_at collected f L' (fix_at L d)) as [[d2 l2]|] eqn:R; [|discriminate]. injection H as <- <-.
    apply next_level_spec in N as [Lt [I Min]]. apply H3 in I as [IL' [_ T']].
    eapply IH; [exact IL'| |exact R].
    intros l Il Ll. destruct (Z.le_gt_cases l L) as [Le|Gt]; [now apply Below|].
    destruct (trig l (fix_at L d)) eqn:T; [|reflexivity].
    assert (In l (collected L d)) by (apply H3; auto). specialize (Min l H Gt). lia.
  - injection H as <- <-. intros l Il. destruct (Z.le_gt_cases l L) as [Le|Gt]; [now apply Below|].
    destruct (trig l (fix_at L d)) eqn:T; [|reflexivity].
    assert (In l (collected L d)) by (apply H3; auto). pose proof (next_level_none _ _ N l H). lia.
Qed.

Lemma run_idempotent_on_clean : forall fuel L d,
  (forall l, In l levels -> trig l d = false) -> In L levels -> run (S fuel) L d = Some (d, [L]).
Proof.
  intros fuel L d Clean IL. cbn [FixSched.run]. rewrite (H1' L d (Clean L IL)).
  destruct (next_level L (collected L d)) as [L'|] eqn:N; [|reflexivity].
  apply next_level_spec in N as [_ [I _]]. apply H3 in I as [Il [_ T]]. rewrite (H1' L d (Clean L IL)) in T.
  rewrite (Clean L' Il) in T. discriminate.
Qed.

(* one run from the lowest level: nothing fixable is left and a second run changes nothing *)
Theorem one_run_converges fuel fuel2 L0 d d' ls :
  In L0 levels -> (forall l, In l levels -> L0 <= l) ->
  run fuel L0 d = Some (d', ls) ->
  (forall l, In l levels -> trig l d' = false) /\ run (S fuel2) L0 d' = Some (d', [L0]).
Proof.
  intros I0 Min H.
  assert (C : forall l, In l levels -> trig l d' = false).
  { eapply run_clean; eauto. intros l Il Lt. specialize (Min l Il). lia. }
  split; [exact C|]. now apply run_idempotent_on_clean.
Qed.
End FP.

(* without H1 (a pass that leaves work of its own level - two rules of one level interfering, as MD029/MD030 on '10. x')
   a second run changes the document again: the scheduler never re-runs a level *)
Lemma not_idempotent_without_H1 :
  exists (fix_at : Z -> nat -> nat) (collected : Z -> nat -> list Z) d d1 d2 l1 l2,
    FixSched.run fix_at collected 3 1 d = Some (d1, l1) /\ FixSched.run fix_at collected 3 1 d1 = Some (d2, l2) /\ d2 <> d1.
Proof.
  exists (fun _ n => match n with O => 1%nat | S O => 2%nat | _ => n end), (fun _ _ => []), 0%nat, 1%nat, 2%nat, [1], [1].
  repeat split; discriminate.
Qed.
