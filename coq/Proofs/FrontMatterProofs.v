From Coq Require Import List NArith ZArith Bool Arith Lia.
Require Import PV.Base.Str PV.Model.FrontMatter.
Import ListNotations.

Section P.
Variable yaml_ok : list str -> bool.
Variable allow_blank : bool.
Notation collect := (collect allow_blank).
Notation header := (header yaml_ok allow_blank).
Notation after_header := (after_header yaml_ok allow_blank).

Definition closing_list (cl : option str) : list str := match cl with Some l => [l] | None => [] end.

Lemma collect_partition : forall ls c cl rest, collect ls = (c, cl, rest) -> ls = c ++ closing_list cl ++ rest.
Proof.
  induction ls as [|l r IH]; intros c cl rest H; cbn [FrontMatter.collect] in H.
  - injection H as <- <- <-. reflexivity.
  - destruct (FrontMatter.collect allow_blank r) as [[c' cl'] rest'] eqn:E. specialize (IH _ _ _ eq_refl).
    destruct (blank_ws l); [destruct allow_blank|destruct (boundary l)]; injection H as <- <- <-; cbn [app closing_list]; try reflexivity; f_equal; exact IH.
Qed.

(* the closing line is the first boundary line after the opening one *)
Lemma collect_closing : forall ls c l rest, collect ls = (c, Some l, rest) -> boundary l = true /\ Forall (fun x => boundary x = false) c.
Proof.
  induction ls as [|x r IH]; intros c l rest H; cbn [FrontMatter.collect] in H; [discriminate|].
  assert (B : blank_ws x = true -> boundary x = false).
  { unfold blank_ws, boundary. destruct (rstrip_ws x); [reflexivity | discriminate]. }
  destruct (FrontMatter.collect allow_blank r) as [[c' cl'] rest'] eqn:E.
  destruct (blank_ws x) eqn:Bx.
  - destruct allow_blank; [|discriminate]. injection H as <- -> <-.
    destruct (IH _ _ _ eq_refl) as [H1 H2]. split; [exact H1|]. constructor; [now apply B | exact H2].
  - destruct (boundary x) eqn:Bd.
    + injection H as <- <- <-. split; [exact Bd | constructor].
    + injection H as <- -> <-. destruct (IH _ _ _ eq_refl) as [H1 H2]. split; [exact H1|]. constructor; assumption.
Qed.

(* a header is recognised: the document is exactly opening line, collected lines, closing line, remaining lines; the
   remaining lines are numbered from one more than the length of the block *)
Theorem header_token_l : forall ls s cl c rest n, header ls = FMToken s cl c rest n ->
  ls = (s :: c ++ [cl]) ++ rest /\ boundary s = true /\ boundary cl = true /\ Forall (fun x => boundary x = false) c /\
  yaml_ok c = true /\ n = (Z.of_nat (length (s :: c ++ [cl])) + 1)%Z.
Proof.
  intros ls s cl c rest n H. unfold FrontMatter.header in H. destruct ls as [|first r]; [discriminate|].
  destruct (boundary first) eqn:Bf; [|discriminate].
  destruct (FrontMatter.collect allow_blank r) as [[c' [l|]] rest'] eqn:E.
  - destruct (yaml_ok c') eqn:Y; [|discriminate]. injection H as <- <- <- <- <-.
    destruct (collect_closing _ _ _ _ E) as [H1 H2]. pose proof (collect_partition _ _ _ _ E) as P. cbn [closing_list] in P.
    repeat split; try assumption.
    + rewrite P. cbn [app]. f_equal. rewrite <- app_assoc. reflexivity.
    + cbn [length]. rewrite app_length. cbn [length]. lia.
  - discriminate.
Qed.

(* no header is recognised: the block pass sees every line of the document again, from line 1 *)
Theorem header_abandon_l : forall ls rq rest, header ls = FMAbandon rq rest -> rq ++ rest = ls.
Proof.
  intros ls rq rest H. unfold FrontMatter.header in H. destruct ls as [|first r]; [discriminate|].
  destruct (boundary first) eqn:Bf; [|discriminate].
  destruct (FrontMatter.collect allow_blank r) as [[c' [l|]] rest'] eqn:E.
  - destruct (yaml_ok c'); [discriminate|]. injection H as <- <-.
    pose proof (collect_partition _ _ _ _ E) as P. cbn [closing_list] in P. rewrite P. cbn [app]. now rewrite <- app_assoc.
  - injection H as <- <-. pose proof (collect_partition _ _ _ _ E) as P. cbn [closing_list app] in P. rewrite P. reflexivity.
Qed.

Theorem header_none_l : forall ls, header ls = FMNone -> after_header ls = (ls, 1%Z) /\ (ls = [] \/ exists f r, ls = f :: r /\ boundary f = false).
Proof.
  intros ls H. unfold FrontMatter.after_header. rewrite H. split; [reflexivity|].
  destruct ls as [|f r]; [now left|]. right. exists f, r. split; [reflexivity|].
  unfold FrontMatter.header in H. destruct (boundary f); [|reflexivity].
  destruct (FrontMatter.collect allow_blank r) as [[c' [l|]] rest']; [destruct (yaml_ok c')|]; discriminate.
Qed.
End P.

