From Coq Require Import List Bool Arith.
Require Import PV.Model.History.
Import ListNotations.

Section P.
Variables (value event out : Type).
Variable reset_fields : list field.
Variable init : field -> value.
Variable step : state value -> event -> state value * list out.
Variable written : list field.
Notation reset := (reset value reset_fields init).
Notation run_file := (run_file value event out step).
Notation run_files := (run_files value event out reset_fields init step).
Notation eqs := (eqs value).

(* the callbacks write only the fields in `written` ... *)
Hypothesis step_frame : forall s e f, memf f written = false -> fst (step s e) f = s f.
(* ... every written field is re-initialised by starting_new_file ... *)
Hypothesis written_reset : forall f, memf f written = true -> memf f reset_fields = true.
(* ... and the callbacks are functions of the state's content *)
Hypothesis step_ext : forall s1 s2 e, eqs s1 s2 -> eqs (fst (step s1 e)) (fst (step s2 e)) /\ snd (step s1 e) = snd (step s2 e).

Lemma run_file_frame : forall evs s f, memf f written = false -> fst (run_file s evs) f = s f.
Proof.
  induction evs as [|e r IH]; intros s f H; [reflexivity|]. cbn [History.run_file].
  destruct (step s e) as [s1 o1] eqn:E. destruct (History.run_file value event out step s1 r) as [s2 o2] eqn:R. cbn [fst].
  pose proof (IH s1 f H) as I. rewrite R in I. cbn [fst] in I. rewrite I.
  pose proof (step_frame s e f H) as F. rewrite E in F. exact F.
Qed.

Lemma run_file_ext : forall evs s1 s2, eqs s1 s2 ->
  eqs (fst (run_file s1 evs)) (fst (run_file s2 evs)) /\ snd (run_file s1 evs) = snd (run_file s2 evs).
Proof.
  induction evs as [|e r IH]; intros s1 s2 H; [split; [exact H|reflexivity]|]. cbn [History.run_file].
  destruct (step_ext s1 s2 e H) as [Hs Ho].
  destruct (step s1 e) as [a1 o1]. destruct (step s2 e) as [a2 o2]. cbn [fst snd] in Hs, Ho.
  destruct (IH a1 a2 Hs) as [Is Io].
  destruct (History.run_file value event out step a1 r) as [b1 p1]. destruct (History.run_file value event out step a2 r) as [b2 p2].
  cbn [fst snd] in *. split; [exact Is | now rewrite Ho, Io].
Qed.

(* whatever was processed before, the state a file starts from is the same *)
Lemma reset_after_file s evs : eqs (reset (fst (run_file s evs))) (reset s).
Proof.
  intros f. unfold History.reset. destruct (memf f reset_fields) eqn:R; [reflexivity|].
  apply run_file_frame. destruct (memf f written) eqn:W; [|reflexivity]. rewrite (written_reset f W) in R. discriminate.
Qed.

Lemma reset_ext s1 s2 : eqs s1 s2 -> eqs (reset s1) (reset s2).
Proof. intros H f. unfold History.reset. destruct (memf f reset_fields); [reflexivity | apply H]. Qed.

Lemma reset_after_files : forall files s, eqs (reset (fst (run_files s files))) (reset s).
Proof.
  induction files as [|f r IH]; intros s; [intros x; reflexivity|]. cbn [History.run_files].
  destruct (History.run_file value event out step (reset s) f) as [s1 o] eqn:E.
  destruct (History.run_files value event out reset_fields init step s1 r) as [s2 os] eqn:R. cbn [fst].
  intros x. pose proof (IH s1 x) as I. rewrite R in I. cbn [fst] in I. rewrite I.
  pose proof (reset_after_file (reset s) f x) as J. rewrite E in J. cbn [fst] in J. rewrite J.
  unfold History.reset. destruct (memf x reset_fields); reflexivity.
Qed.

(* the output for a file does not depend on the files processed before it *)
Theorem history_independent_l : forall h1 h2 s f,
  snd (run_file (reset (fst (run_files s h1))) f) = snd (run_file (reset (fst (run_files s h2))) f).
Proof.
  intros h1 h2 s f.
  assert (E : eqs (reset (fst (run_files s h1))) (reset (fst (run_files s h2)))).
  { intros x. rewrite (reset_after_files h1 s x), (reset_after_files h2 s x). reflexivity. }
  exact (proj2 (run_file_ext f _ _ E)).
Qed.

(* ... in particular it is the output of processing that file alone *)
Theorem same_as_alone_l : forall h s f,
  snd (run_file (reset (fst (run_files s h))) f) = snd (run_file (reset s) f).
Proof. intros h s f. exact (history_independent_l h [] s f). Qed.
End P.
