From Coq Require Import List NArith Bool Arith Lia.
Require Import PV.Base.Str PV.Model.IO.
Import ListNotations.

Lemma last_flag_cons x l : last_flag (x :: l) = match l with [] => snd x | _ => last_flag l end.
Proof.
  unfold last_flag. cbn [rev]. destruct l as [|y l]; [now destruct x|].
  cbn [rev]. destruct (rev l ++ [y]) as [|z zs] eqn:E; [destruct (rev l); discriminate|]. cbn [app]. now destruct z.
Qed.

Definition G (s cur : str) : list str :=
  let ls := readlines s cur in map fst ls ++ (if last_flag ls then [[]] else []).

Lemma G_split : forall s cur, G s cur = split_acc c_nl s cur.
Proof.
  induction s as [|c r IH]; intros cur; unfold G; cbn [readlines split_acc].
  - destruct cur; cbn; reflexivity.
  - destruct (N.eqb c c_nl).
    + cbn [map fst]. rewrite last_flag_cons. cbn [snd app].
      fold (G r []) in *. rewrite <- IH. unfold G.
      destruct (readlines r []) as [|y l]; cbn [map app last_flag rev]; reflexivity.
    + apply IH.
Qed.

Lemma file_lines_eq_split_l t : file_lines t = split_nl t.
Proof. apply (G_split t []). Qed.

(* ---- in-memory provider ---- *)
Lemma split_first_spec : forall s cur,
  split_acc c_nl s cur = match split_first s cur with (a, None) => [a] | (a, Some b) => a :: split_acc c_nl b [] end.
Proof.
  induction s as [|c r IH]; intros cur; cbn [split_acc split_first]; [reflexivity|].
  destruct (N.eqb c c_nl); [reflexivity | apply IH].
Qed.

Lemma split_first_shorter : forall s cur a b, split_first s cur = (a, Some b) -> length b < length s.
Proof.
  induction s as [|c r IH]; intros cur a b; cbn [split_first]; [discriminate|].
  destruct (N.eqb c c_nl); [intros [= _ <-]; cbn; lia | intros H; apply IH in H; cbn; lia].
Qed.

Lemma mem_lines_aux_split : forall fuel s, length s < fuel -> mem_lines_aux fuel s = split_acc c_nl s [].
Proof.
  induction fuel as [|n IH]; intros s L; [lia|]. cbn [mem_lines_aux]. rewrite split_first_spec.
  destruct (split_first s []) as [a [b|]] eqn:E; [|reflexivity].
  rewrite IH; [reflexivity|]. apply split_first_shorter in E. lia.
Qed.

Lemma mem_lines_eq_split_l s : mem_lines s = split_nl s.
Proof. apply mem_lines_aux_split. lia. Qed.

(* ---- universal newlines ---- *)
Definition no_cr (s : str) : bool := forallb (fun c => negb (N.eqb c c_cr)) s.

Lemma universal_no_cr : forall n s, length s <= n -> no_cr (universal s) = true.
Proof.
  induction n as [|n IH]; intros [|c r] L; cbn in L; try lia; try reflexivity.
  cbn [universal]. destruct (N.eqb c c_cr) eqn:E.
  - cbn [no_cr forallb]. change (N.eqb c_nl c_cr) with false. cbn [negb andb].
    destruct r as [|d r']; [reflexivity|]. destruct (N.eqb d c_nl); apply IH; cbn in *; lia.
  - cbn [no_cr forallb]. rewrite E. cbn [negb andb]. apply IH. lia.
Qed.

Lemma universal_id : forall s, no_cr s = true -> universal s = s.
Proof.
  induction s as [|c r IH]; intros H; [reflexivity|]. cbn [no_cr forallb] in H. apply andb_prop in H as [Hc Hr].
  cbn [universal]. destruct (N.eqb c c_cr); [discriminate|]. now rewrite IH.
Qed.

Lemma universal_idem_l s : universal (universal s) = universal s.
Proof. apply universal_id, (universal_no_cr (length s)). lia. Qed.

(* the same document with CR-LF line ends *)
Fixpoint to_crlf (s : str) : str :=
  match s with [] => [] | c :: r => if N.eqb c c_nl then c_cr :: c_nl :: to_crlf r else c :: to_crlf r end.

Lemma universal_crlf : forall s, no_cr s = true -> universal (to_crlf s) = s.
Proof.
  induction s as [|c r IH]; intros H; [reflexivity|]. cbn [no_cr forallb] in H. apply andb_prop in H as [Hc Hr].
  cbn [to_crlf]. destruct (N.eqb c c_nl) eqn:E.
  - cbn [universal]. change (N.eqb c_cr c_cr) with true. cbv iota. change (N.eqb c_nl c_nl) with true. cbv iota.
    apply N.eqb_eq in E. subst c. now rewrite IH.
  - cbn [universal]. destruct (N.eqb c c_cr); [discriminate|]. now rewrite IH.
Qed.

Lemma split_acc_final_nl : forall s cur, split_acc c_nl (s ++ [c_nl]) cur = split_acc c_nl s cur ++ [[]].
Proof.
  induction s as [|c r IH]; intros cur; cbn [app split_acc].
  - change (N.eqb c_nl c_nl) with true. reflexivity.
  - destruct (N.eqb c c_nl); [cbn [app]; now rewrite IH | apply IH].
Qed.
