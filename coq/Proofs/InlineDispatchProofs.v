From Coq Require Import List NArith Bool Arith Lia.
Require Import PV.Base.Str PV.Model.InlineDispatch.
Import ListNotations.

Lemma ext_eqb_eq a b : ext_eqb a b = true <-> a = b.
Proof. destruct a, b; cbn; split; intros H; try reflexivity; try discriminate. Qed.

Lemma on_set_same f e b : on (set f e b) e = b.
Proof. destruct e; reflexivity. Qed.
Lemma on_set_other f e e' b : e' <> e -> on (set f e b) e' = on f e'.
Proof. destruct e, e'; intros H; try reflexivity; exfalso; apply H; reflexivity. Qed.

Lemma all_flags_complete f : In f all_flags.
Proof. destruct f as [[] [] [] [] [] []]; vm_compute; tauto. Qed.

(* ---- two tables that agree on the characters of a text are scanned alike, whatever the handlers do ---- *)
Section Agree.
Variable St : Type.
Variable handle : str -> St -> str -> nat -> St * nat.
Variable newline : St -> str -> nat -> St * nat.
Variables t1 t2 : list reg.

Lemma index_agree : forall text from i,
  (forall c, In c text -> stops t1 c = stops t2 c) ->
  index_from t1 text from i = index_from t2 text from i.
Proof.
  induction text as [|c r IH]; intros from i H; [reflexivity|]. cbn [index_from].
  rewrite (H c (or_introl eq_refl)). destruct ((from <=? i) && stops t2 c); [reflexivity|].
  apply IH. intros x Hx. apply H. now right.
Qed.

Lemma index_in : forall t text from i j c, index_from t text from i = Some (j, c) -> In c text.
Proof.
  induction text as [|x r IH]; intros from i j c H; [discriminate|]. cbn [index_from] in H.
  destruct ((from <=? i) && stops t x); [injection H as _ <-; now left|]. right. eapply IH. exact H.
Qed.

Lemma scan_agree_l : forall text,
  (forall c, In c text -> lookup t1 c = lookup t2 c /\ stops t1 c = stops t2 c) ->
  forall fuel st from, scan St handle newline fuel t1 st text from = scan St handle newline fuel t2 st text from.
Proof.
  intros text H. induction fuel as [|f IH]; intros st from; [reflexivity|]. cbn [scan].
  rewrite (index_agree text from 0 (fun c Hc => proj2 (H c Hc))).
  destruct (index_from t2 text from 0) as [[i c]|] eqn:E; [|reflexivity].
  rewrite (proj1 (H c (index_in _ _ _ _ _ _ E))).
  destruct (match lookup t2 c with Some h => handle h st text i | None => newline st text i end) as [st' from']. apply IH.
Qed.
End Agree.

(* ---- the table with an extension on and off agrees on every character no registration of that extension is for ---- *)
Definition ext_chars (regs : list reg) (e : ext) : list N :=
  map r_char (filter (fun r => match r_guard r with Some e' => ext_eqb e' e | None => false end) regs).

Lemma active_set regs e : forall r f b, In r regs -> ~ In (r_char r) (ext_chars regs e) -> active (set f e b) r = active f r.
Proof.
  intros r f b Hin Hc. unfold active. destruct (r_guard r) as [e'|] eqn:G; [|reflexivity].
  apply on_set_other. intros ->. apply Hc. unfold ext_chars. apply in_map. apply filter_In. split; [exact Hin|].
  rewrite G. apply ext_eqb_eq. reflexivity.
Qed.

Lemma lookup_set : forall regs0 regs e f b c, incl regs regs0 -> ~ In c (ext_chars regs0 e) ->
  lookup (table regs (set f e b)) c = lookup (table regs f) c.
Proof.
  intros regs0. induction regs as [|r rest IH]; intros e f b c Hi Hc; [reflexivity|].
  assert (Hi' : incl rest regs0) by (intros x Hx; apply Hi; now right).
  unfold table in *. cbn [filter].
  destruct (N.eqb_spec (r_char r) c) as [Heq|Hne].
  - rewrite (active_set regs0 e r f b (Hi r (or_introl eq_refl))) by (rewrite Heq; exact Hc).
    destruct (active f r); cbn [lookup]; rewrite (IH e f b c Hi' Hc); reflexivity.
  - destruct (active (set f e b) r), (active f r); cbn [lookup]; rewrite (IH e f b c Hi' Hc);
      destruct (lookup (filter (active f) rest) c); try reflexivity; destruct (N.eqb_spec (r_char r) c); congruence.
Qed.

Lemma stops_set : forall regs0 regs e f b c, incl regs regs0 -> ~ In c (ext_chars regs0 e) ->
  existsb (N.eqb c) (map r_char (table regs (set f e b))) = existsb (N.eqb c) (map r_char (table regs f)).
Proof.
  intros regs0. induction regs as [|r rest IH]; intros e f b c Hi Hc; [reflexivity|].
  assert (Hi' : incl rest regs0) by (intros x Hx; apply Hi; now right).
  unfold table in *. cbn [filter].
  destruct (N.eqb_spec c (r_char r)) as [Heq|Hne].
  - rewrite (active_set regs0 e r f b (Hi r (or_introl eq_refl))) by (rewrite <- Heq; exact Hc).
    destruct (active f r); cbn [map existsb]; rewrite (IH e f b c Hi' Hc); reflexivity.
  - destruct (active (set f e b) r), (active f r); cbn [map existsb]; rewrite (IH e f b c Hi' Hc);
      destruct (N.eqb_spec c (r_char r)); try congruence; reflexivity.
Qed.

(* the registrations of an extension are all for characters of its documented class *)
Definition guarded_in_class (regs : list reg) : bool :=
  forallb (fun r => match r_guard r with Some e => existsb (N.eqb (r_char r)) (trig_chars e) | None => true end) regs.

Lemma ext_chars_class regs e c : guarded_in_class regs = true -> In c (ext_chars regs e) -> In c (trig_chars e).
Proof.
  intros G H. unfold ext_chars in H. apply in_map_iff in H as (r & <- & Hr). apply filter_In in Hr as [Hin Hg].
  unfold guarded_in_class in G. rewrite forallb_forall in G. specialize (G r Hin).
  destruct (r_guard r) as [e'|]; [|discriminate]. apply ext_eqb_eq in Hg. subst e'.
  apply existsb_exists in G as (x & Hx & E). apply N.eqb_eq in E. now subst.
Qed.

Theorem dispatch_inert_l : forall regs, guarded_in_class regs = true ->
  forall (St : Type) handle newline e f text,
  has_any (trig_chars e) text = false ->
  forall fuel st from,
    scan St handle newline fuel (table regs (set f e true)) st text from =
    scan St handle newline fuel (table regs (set f e false)) st text from.
Proof.
  intros regs G St handle newline e f text H fuel st from. apply scan_agree_l. intros c Hc.
  assert (N : ~ In c (ext_chars regs e)).
  { intros X. apply (ext_chars_class regs e c G) in X. unfold has_any in H.
    assert (T : existsb (fun c0 => existsb (N.eqb c0) (trig_chars e)) text = true).
    { apply existsb_exists. exists c. split; [exact Hc|]. apply existsb_exists. exists c. split; [exact X | apply N.eqb_refl]. }
    congruence. }
  split.
  - rewrite (lookup_set regs regs e f true c (incl_refl _) N), (lookup_set regs regs e f false c (incl_refl _) N). reflexivity.
  - unfold stops, starts. cbn [existsb]. f_equal.
    rewrite (stops_set regs regs e f true c (incl_refl _) N), (stops_set regs regs e f false c (incl_refl _) N). reflexivity.
Qed.

(* ---- with its extensions off, a character of an extension class is not a stop character at all ---- *)
Definition all_trig : list N := flat_map trig_chars all_ext.
Definition unguarded_outside (regs : list reg) : bool :=
  forallb (fun r => match r_guard r with None => negb (existsb (N.eqb (r_char r)) all_trig) | Some _ => true end) regs.
(* classes of different extensions are disjoint *)
Definition classes_disjoint : bool :=
  forallb (fun e => forallb (fun e' => ext_eqb e e' || negb (existsb (fun c => existsb (N.eqb c) (trig_chars e')) (trig_chars e))) all_ext) all_ext.

Lemma lookup_none_stops : forall t c, existsb (N.eqb c) (map r_char t) = false -> lookup t c = None.
Proof.
  induction t as [|r rest IH]; intros c H; [reflexivity|]. cbn [map existsb] in H. apply orb_false_elim in H as [H1 H2].
  cbn [lookup]. rewrite (IH c H2). rewrite N.eqb_sym. now rewrite H1.
Qed.

Theorem dispatch_plain_when_off_l : forall regs, guarded_in_class regs = true -> unguarded_outside regs = true ->
  forall f e c, In c (trig_chars e) -> on f e = false ->
  (forall e', e' <> e -> ~ In c (trig_chars e')) ->
  lookup (table regs f) c = None /\ stops (table regs f) c = N.eqb c c_nl.
Proof.
  intros regs G U f e c Hc Hoff Hdis.
  assert (A : existsb (N.eqb c) (map r_char (table regs f)) = false).
  { destruct (existsb (N.eqb c) (map r_char (table regs f))) eqn:E; [|reflexivity]. exfalso.
    apply existsb_exists in E as (x & Hx & Ex). apply N.eqb_eq in Ex. subst x.
    apply in_map_iff in Hx as (r & Hr & Hin). unfold table in Hin. apply filter_In in Hin as [Hin Ha].
    unfold active in Ha. unfold guarded_in_class in G. rewrite forallb_forall in G. specialize (G r Hin).
    unfold unguarded_outside in U. rewrite forallb_forall in U. specialize (U r Hin).
    destruct (r_guard r) as [e'|].
    - apply existsb_exists in G as (x & Hx & Ex). apply N.eqb_eq in Ex. subst x. rewrite Hr in Hx.
      destruct (ext_eqb e' e) eqn:EE; [apply ext_eqb_eq in EE; subst e'; congruence|].
      apply (Hdis e'); [intros ->; destruct e; discriminate | exact Hx].
    - apply negb_true_iff in U. rewrite Hr in U.
      assert (T : existsb (N.eqb c) all_trig = true).
      { apply existsb_exists. exists c. split; [|apply N.eqb_refl]. unfold all_trig. apply in_flat_map. exists e. split; [destruct e; cbn; tauto | exact Hc]. }
      congruence. }
  split; [apply lookup_none_stops; exact A|]. unfold stops, starts. cbn [existsb]. rewrite A. apply orb_false_r.
Qed.
