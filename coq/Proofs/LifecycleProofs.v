From Coq Require Import List ZArith NArith Bool Arith Lia.
Require Import PV.Base.Str PV.Base.StrOrder PV.Base.RuleTypes PV.Model.Lifecycle.
Import ListNotations.

Lemma trace_app pid a b : trace_of pid (a ++ b) = trace_of pid a ++ trace_of pid b.
Proof. unfold trace_of. now rewrite filter_app, map_app. Qed.

Lemma trace_flat_map_outer {A} pid (g : A -> list ev) l :
  trace_of pid (flat_map g l) = flat_map (fun x => trace_of pid (g x)) l.
Proof. induction l as [|x l IH]; cbn [flat_map]; [reflexivity|]. now rewrite trace_app, IH. Qed.

Definition own (f : rule -> list ev) : Prop := forall q e, In e (f q) -> fst (fst e) = r_id q.

Lemma trace_other pid l : (forall e, In e l -> fst (fst e) <> pid) -> trace_of pid l = [].
Proof.
  intros H. unfold trace_of. induction l as [|e l IH]; [reflexivity|]. cbn [filter].
  destruct (str_eqb_spec (fst (fst e)) pid) as [E|N].
  - exfalso. apply (H e); [now left | exact E].
  - apply IH. intros e' He'. apply H. now right.
Qed.

Lemma trace_flat_map_notin pid f enabled :
  own f -> ~ In pid (map r_id enabled) -> trace_of pid (flat_map f enabled) = [].
Proof.
  intros O N. apply trace_other. intros e He E. apply in_flat_map in He as [q [Hq He]].
  apply N. rewrite <- E, (O q e He). now apply in_map.
Qed.

Lemma trace_flat_map_in p f enabled :
  own f -> ids_distinct enabled -> In p enabled ->
  trace_of (r_id p) (flat_map f enabled) = trace_of (r_id p) (f p).
Proof.
  intros O. unfold ids_distinct. induction enabled as [|q l IH]; intros ND I; [destruct I|].
  cbn [map] in ND. inversion ND as [|? ? Nq NDl]; subst. cbn [flat_map]. rewrite trace_app.
  destruct I as [->|I].
  - rewrite (trace_flat_map_notin (r_id p) f l O Nq). now rewrite app_nil_r.
  - rewrite (IH NDl I).
    assert (T : trace_of (r_id p) (f q) = []); [|now rewrite T].
    apply trace_other. intros e He E. rewrite (O q e He) in E. apply Nq. rewrite E. now apply in_map.
Qed.

Lemma own_deliver (sel : rule -> bool) cmap d (c : rule -> call) : own (fun p => if sel p then match ctx_of cmap d p with Some k => [((r_id p, k, c p) : ev)] | None => [] end else []).
Proof. intros q e. destruct (sel q); [|intros []]. destruct (ctx_of cmap d q); [|intros []]. now intros [<-|[]]. Qed.

Lemma own_start constraint kind :
  own (fun p => if r_cb_start p && match constraint with None => true | Some l => pmem (r_id p) l end then [((r_id p, kind, Start) : ev)] else []).
Proof. intros q e. destruct (_ && _); [|intros []]. now intros [<-|[]]. Qed.

Lemma str_eqb_rid p : str_eqb (r_id p) (r_id p) = true.
Proof. apply str_eqb_refl. Qed.

Lemma trace_deliver_in p sel cmap d c enabled :
  ids_distinct enabled -> In p enabled ->
  trace_of (r_id p) (deliver sel cmap d c enabled) =
  if sel p then match ctx_of cmap d p with Some k => [(k, c p)] | None => [] end else [].
Proof.
  intros ND I. unfold deliver. etransitivity; [apply (trace_flat_map_in p _ enabled); auto; apply own_deliver|]. cbv beta.
  destruct (sel p); [|reflexivity]. destruct (ctx_of cmap d p); [|reflexivity].
  unfold trace_of. cbn [filter fst snd map]. now rewrite str_eqb_rid.
Qed.

Lemma trace_deliver_notin pid sel cmap d c enabled :
  ~ In pid (map r_id enabled) -> trace_of pid (deliver sel cmap d c enabled) = [].
Proof. intros N. unfold deliver. now apply trace_flat_map_notin; [apply own_deliver|]. Qed.

Lemma trace_start_in p constraint kind enabled :
  ids_distinct enabled -> In p enabled ->
  trace_of (r_id p) (d_start enabled constraint kind) =
  if r_cb_start p && match constraint with None => true | Some l => pmem (r_id p) l end then [(kind, Start)] else [].
Proof.
  intros ND I. unfold d_start. etransitivity; [apply (trace_flat_map_in p _ enabled); auto; apply own_start|]. cbv beta.
  destruct (_ && _); [|reflexivity]. unfold trace_of. cbn [filter fst snd map]. now rewrite str_eqb_rid.
Qed.

Lemma trace_start_notin pid constraint kind enabled :
  ~ In pid (map r_id enabled) -> trace_of pid (d_start enabled constraint kind) = [].
Proof. intros N. unfold d_start. now apply trace_flat_map_notin; [apply own_start|]. Qed.

Lemma flat_map_if_single {A B} (b : bool) (f : A -> B) l :
  flat_map (fun x => if b then [f x] else []) l = if b then map f l else [].
Proof. destruct b; induction l as [|x l IH]; cbn [flat_map map app]; congruence. Qed.

Lemma flat_map_nil {A B} (l : list A) : flat_map (fun _ => @nil B) l = [].
Proof. induction l; auto. Qed.

Lemma number_from_map {A B} (f : A -> B) l n :
  number_from n (map f l) = map (fun nl => (fst nl, f (snd nl))) (number_from n l).
Proof. revert n. induction l as [|x l IH]; intros n; cbn [map number_from fst snd]; [reflexivity|]. now rewrite IH. Qed.

Lemma lines_single (b : bool) (k : ctx) (g : str * str -> str) (l : list (str * str)) n :
  flat_map (fun nl : nat * (str * str) => if b then [(k, Line (fst nl) (g (snd nl)))] else []) (number_from n l) =
  if b then map (fun nl : nat * str => (k, Line (fst nl) (snd nl))) (number_from n (map g l)) else [].
Proof.
  rewrite number_from_map, map_map. cbn [fst snd].
  apply (flat_map_if_single b (fun nl : nat * (str * str) => (k, Line (fst nl) (g (snd nl))))).
Qed.

(* ---- scan ---- *)
Lemma scan_trace_shape_l p enabled ntoks lines :
  ids_distinct enabled -> In p enabled ->
  trace_of (r_id p) (scan_file enabled ntoks lines) = shape p CScan ntoks (Some lines) (Z.of_nat (length lines) + 1).
Proof.
  intros ND I. unfold scan_file, shape. rewrite !trace_app, !trace_flat_map_outer.
  rewrite (trace_start_in p None CScan enabled ND I), andb_true_r. unfold opt1. f_equal.
  f_equal; [|f_equal].
  - unfold d_token. erewrite flat_map_ext; [|intros i; apply (trace_deliver_in p); assumption].
    cbn [ctx_of]. apply (flat_map_if_single (r_cb_token p) (fun i => (CScan, Tok i))).
  - unfold d_line. erewrite flat_map_ext; [|intros i; apply (trace_deliver_in p); assumption].
    cbn [ctx_of]. unfold no_pick. rewrite (lines_single (r_cb_line p) CScan fst (same lines) 1).
    unfold same. rewrite map_map. cbn [fst]. now rewrite map_id.
  - unfold d_complete. now rewrite (trace_deliver_in p _ _ _ _ enabled ND I).
Qed.

Lemma disabled_gets_nothing_l pid enabled files :
  ~ In pid (map r_id enabled) -> trace_of pid (scan_files enabled files) = [].
Proof.
  intros N. unfold scan_files. rewrite trace_flat_map_outer.
  erewrite flat_map_ext; [apply flat_map_nil|]. intros f. unfold scan_file.
  rewrite !trace_app, !trace_flat_map_outer, (trace_start_notin pid _ _ _ N).
  unfold d_token, d_line, d_complete.
  erewrite (flat_map_ext _ (fun _ => [])); [|intros i; now apply trace_deliver_notin].
  erewrite (flat_map_ext (fun x => trace_of pid (deliver r_cb_line _ _ _ _)) (fun _ => [])); [|intros i; now apply trace_deliver_notin].
  rewrite !flat_map_nil. now rewrite trace_deliver_notin.
Qed.

Lemma multi_file_trace_l p enabled files :
  ids_distinct enabled -> In p enabled ->
  trace_of (r_id p) (scan_files enabled files) =
  flat_map (fun f => shape p CScan (fst f) (Some (snd f)) (Z.of_nat (length (snd f)) + 1)) files.
Proof.
  intros ND I. unfold scan_files. rewrite trace_flat_map_outer. apply flat_map_ext. intros f.
  now apply scan_trace_shape_l.
Qed.

(* ---- fix phases ---- *)
Lemma find_cmap_fix fl cl pid :
  pmem pid fl = true -> pmem pid cl = false ->
  find (fun e : str * ctx => str_eqb (fst e) pid) (rev (cmap_of fl cl)) = Some (pid, CFix) \/
  exists q, find (fun e : str * ctx => str_eqb (fst e) pid) (rev (cmap_of fl cl)) = Some (q, CFix).
Proof.
  intros Hf Hc. right. unfold cmap_of. rewrite rev_app_distr.
  assert (A : forall l, pmem pid l = false -> find (fun e : str * ctx => str_eqb (fst e) pid) (rev (map (fun i => (i, CReport)) l)) = None).
  { intros l H. destruct (find _ _) eqn:F; [|reflexivity]. apply find_some in F as [F1 F2].
    apply in_rev, in_map_iff in F1 as [i [<- Hi]]. cbn [fst] in F2. unfold pmem in H.
    assert (existsb (str_eqb pid) l = true); [|congruence]. apply existsb_exists. exists i. split; auto.
    destruct (str_eqb_spec i pid) as [->|]; [apply str_eqb_refl | discriminate]. }
  assert (B : forall l, pmem pid l = true -> exists q, find (fun e : str * ctx => str_eqb (fst e) pid) (rev (map (fun i => (i, CFix)) l)) = Some (q, CFix)).
  { intros l H. destruct (find _ _) eqn:F.
    - apply find_some in F as [F1 F2]. apply in_rev, in_map_iff in F1 as [i [<- Hi]]. now exists i.
    - exfalso. unfold pmem in H. apply existsb_exists in H as [i [Hi E]].
      assert (Q : In (i, CFix) (rev (map (fun i0 : str => (i0, CFix)) l))) by (apply -> in_rev; apply in_map_iff; now exists i).
      pose proof (find_none _ _ F _ Q) as Z. cbn [fst] in Z.
      destruct (str_eqb_spec pid i) as [->|]; [|discriminate]. rewrite str_eqb_refl in Z. discriminate. }
  destruct (B fl Hf) as [q Hq]. exists q.
  clear A B Hf.
  assert (G : forall (a b : list (str * ctx)) (f : str * ctx -> bool), find f a = None -> find f (a ++ b) = find f b).
  { induction a as [|x a IH]; intros b f H; [reflexivity|]. cbn [find app] in *. destruct (f x); [discriminate|]. now apply IH. }
  rewrite G; [exact Hq|].
  destruct (find _ (rev (map (fun i => (i, CReport)) cl))) eqn:F; [|reflexivity].
  apply find_some in F as [F1 F2]. apply in_rev, in_map_iff in F1 as [i [<- Hi]]. cbn [fst] in F2. unfold pmem in Hc.
  assert (existsb (str_eqb pid) cl = true); [|congruence]. apply existsb_exists. exists i. split; auto.
  destruct (str_eqb_spec i pid) as [->|]; [apply str_eqb_refl | discriminate].
Qed.

Lemma cmap_nonempty fl cl pid : pmem pid fl = true -> exists m, cmap_opt fl cl = Some (rev m) /\ m = cmap_of fl cl.
Proof.
  intros H. unfold cmap_opt. destruct (cmap_of fl cl) eqn:E.
  - exfalso. unfold cmap_of in E. destruct fl; [discriminate|]. discriminate.
  - eexists. split; reflexivity.
Qed.

Lemma ctx_of_fixer fl cl p : pmem (r_id p) fl = true -> pmem (r_id p) cl = false -> ctx_of (cmap_opt fl cl) CFix p = Some CFix.
Proof.
  intros Hf Hc. destruct (cmap_nonempty fl cl (r_id p) Hf) as [m [-> ->]]. cbn [ctx_of].
  destruct (find_cmap_fix fl cl (r_id p) Hf Hc) as [-> | [q ->]]; reflexivity.
Qed.

Lemma token_phase_fixer_l p enabled fl cl ntoks :
  ids_distinct enabled -> In p enabled -> pmem (r_id p) fl = true -> pmem (r_id p) cl = false ->
  trace_of (r_id p) (token_phase enabled fl cl ntoks) = shape p CFix ntoks None (-1).
Proof.
  intros ND I Hf Hc. unfold token_phase, shape. rewrite !trace_app, !trace_flat_map_outer.
  rewrite !(trace_start_in p _ _ enabled ND I), Hf, Hc, andb_true_r, andb_false_r. unfold opt1. cbn [app].
  f_equal. f_equal.
  - unfold d_token. erewrite flat_map_ext; [|intros i; apply (trace_deliver_in p); assumption].
    rewrite (ctx_of_fixer fl cl p Hf Hc). apply (flat_map_if_single (r_cb_token p) (fun i => (CFix, Tok i))).
  - unfold d_complete. now rewrite (trace_deliver_in p _ _ _ _ enabled ND I), (ctx_of_fixer fl cl p Hf Hc).
Qed.

Lemma find_map_tag pid (k : ctx) l :
  find (fun e : str * ctx => str_eqb (fst e) pid) (rev (map (fun i => (i, k)) l)) =
  if pmem pid l then Some (pid, k) else None.
Proof.
  destruct (pmem pid l) eqn:H.
  - destruct (find _ _) eqn:F.
    + apply find_some in F as [F1 F2]. apply in_rev, in_map_iff in F1 as [i [<- Hi]]. cbn [fst] in F2.
      destruct (str_eqb_spec i pid) as [->|]; [reflexivity|discriminate].
    + exfalso. unfold pmem in H. apply existsb_exists in H as [i [Hi E]].
      assert (Q : In (i, k) (rev (map (fun i0 : str => (i0, k)) l))) by (apply -> in_rev; apply in_map_iff; now exists i).
      pose proof (find_none _ _ F _ Q) as Z. cbn [fst] in Z.
      destruct (str_eqb_spec pid i) as [->|]; [|discriminate]. rewrite str_eqb_refl in Z. discriminate.
  - destruct (find _ _) eqn:F; [|reflexivity]. apply find_some in F as [F1 F2].
    apply in_rev, in_map_iff in F1 as [i [<- Hi]]. cbn [fst] in F2. unfold pmem in H.
    assert (existsb (str_eqb pid) l = true); [|congruence]. apply existsb_exists. exists i. split; auto.
    destruct (str_eqb_spec i pid) as [->|]; [apply str_eqb_refl | discriminate].
Qed.

Lemma find_app_l {A} (f : A -> bool) a b : find f (a ++ b) = match find f a with Some x => Some x | None => find f b end.
Proof. induction a as [|x a IH]; cbn [find app]; [reflexivity|]. destruct (f x); auto. Qed.

Lemma find_cmap fl cl pid :
  find (fun e : str * ctx => str_eqb (fst e) pid) (rev (cmap_of fl cl)) =
  if pmem pid cl then Some (pid, CReport) else if pmem pid fl then Some (pid, CFix) else None.
Proof. unfold cmap_of. rewrite rev_app_distr, find_app_l, !find_map_tag. now destruct (pmem pid cl). Qed.

Lemma ctx_of_cmap fl cl p :
  cmap_of fl cl <> [] ->
  ctx_of (cmap_opt fl cl) CFix p =
  if pmem (r_id p) cl then Some CReport else if pmem (r_id p) fl then Some CFix else None.
Proof.
  intros NE. unfold cmap_opt. destruct (cmap_of fl cl) eqn:E; [congruence|]. rewrite <- E. cbn [ctx_of].
  rewrite find_cmap. destruct (pmem (r_id p) cl); [reflexivity|]. now destruct (pmem (r_id p) fl).
Qed.

Definition role_ctx (fl cl : list str) (p : rule) : option ctx :=
  if pmem (r_id p) cl then Some CReport else if pmem (r_id p) fl then Some CFix else None.

(* what any enabled plug-in sees in the two phases of a fix pass, by role:
   fixer of this pass, collector of a higher level, or not fix-capable (nothing at all) *)
Lemma line_phase_by_role_l p enabled fl cl ntoks pick lines :
  ids_distinct enabled -> In p enabled -> cmap_of fl cl <> [] -> (pmem (r_id p) fl && pmem (r_id p) cl = false) ->
  trace_of (r_id p) (line_phase enabled fl cl ntoks pick lines) =
  match role_ctx fl cl p with
  | Some k => shape p k ntoks (Some (seen_lines pick p lines)) (Z.of_nat (length lines) + 1)
  | None => []
  end.
Proof.
  intros ND I NE DJ. unfold line_phase, shape, role_ctx, seen_lines. rewrite !trace_app, !trace_flat_map_outer.
  rewrite !(trace_start_in p _ _ enabled ND I).
  unfold d_token, d_line, d_complete.
  erewrite (flat_map_ext (fun x => trace_of (r_id p) (deliver r_cb_token _ _ _ _))); [|intros i; apply (trace_deliver_in p); assumption].
  erewrite (flat_map_ext (fun x => trace_of (r_id p) (deliver r_cb_line _ _ _ _))); [|intros i; apply (trace_deliver_in p); assumption].
  rewrite (trace_deliver_in p _ _ _ _ enabled ND I), (ctx_of_cmap fl cl p NE).
  destruct (pmem (r_id p) cl) eqn:Hc, (pmem (r_id p) fl) eqn:Hf; try discriminate; rewrite ?andb_true_r, ?andb_false_r; unfold opt1; cbn [app].
  - f_equal. f_equal; [apply (flat_map_if_single (r_cb_token p) (fun i => (CReport, Tok i)))|].
    f_equal. destruct (pick p); [apply (lines_single (r_cb_line p) CReport snd lines 1) | apply (lines_single (r_cb_line p) CReport fst lines 1)].
  - f_equal. f_equal; [apply (flat_map_if_single (r_cb_token p) (fun i => (CFix, Tok i)))|].
    f_equal. destruct (pick p); [apply (lines_single (r_cb_line p) CFix snd lines 1) | apply (lines_single (r_cb_line p) CFix fst lines 1)].
  - destruct (r_cb_token p), (r_cb_line p), (r_cb_complete p); cbn [app]; rewrite ?flat_map_nil; reflexivity.
Qed.

Lemma token_phase_by_role_l p enabled fl cl ntoks :
  ids_distinct enabled -> In p enabled -> cmap_of fl cl <> [] -> (pmem (r_id p) fl && pmem (r_id p) cl = false) ->
  trace_of (r_id p) (token_phase enabled fl cl ntoks) =
  match role_ctx fl cl p with
  | Some k => shape p k ntoks None (-1)
  | None => []
  end.
Proof.
  intros ND I NE DJ. unfold token_phase, shape, role_ctx. rewrite !trace_app, !trace_flat_map_outer.
  rewrite !(trace_start_in p _ _ enabled ND I).
  unfold d_token, d_complete.
  erewrite (flat_map_ext (fun x => trace_of (r_id p) (deliver r_cb_token _ _ _ _))); [|intros i; apply (trace_deliver_in p); assumption].
  rewrite (trace_deliver_in p _ _ _ _ enabled ND I), (ctx_of_cmap fl cl p NE).
  destruct (pmem (r_id p) cl) eqn:Hc, (pmem (r_id p) fl) eqn:Hf; try discriminate; rewrite ?andb_true_r, ?andb_false_r; unfold opt1; cbn [app].
  - f_equal. f_equal. apply (flat_map_if_single (r_cb_token p) (fun i => (CReport, Tok i))).
  - f_equal. f_equal. apply (flat_map_if_single (r_cb_token p) (fun i => (CFix, Tok i))).
  - destruct (r_cb_token p), (r_cb_complete p); cbn [app]; rewrite ?flat_map_nil; reflexivity.
Qed.
