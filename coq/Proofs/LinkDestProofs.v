(* C03 - the link-destination normalisation: the loop of the implementation computes `enc`; what `enc` guarantees. *)
From Coq Require Import List NArith ZArith Bool Arith Lia ZifyBool ZifyN.
Require Import PV.Base.Str PV.Model.LinkDest.
Import ListNotations.
Ltac Zify.zify_post_hook ::= Z.to_euclidean_division_equations.
Local Open Scope N_scope.

Lemma special_cases c : is_special c = false -> N.eqb c c_pct = false /\ N.eqb c c_amp = false.
Proof. unfold is_special; intros H; apply orb_false_iff in H; exact H. Qed.

Lemma enc_plain_cons c s : is_special c = false -> enc (c :: s) = quote1 c ++ enc s.
Proof. intros H; destruct (special_cases c H) as [H1 H2]; cbn [enc]; rewrite H1, H2; reflexivity. Qed.

Lemma span_plain_spec s : forall a b, span_plain s = (a, b) ->
  s = a ++ b /\ forallb (fun c => negb (is_special c)) a = true /\
  (b = [] \/ exists c r, b = c :: r /\ is_special c = true) /\ (length b <= length s)%nat.
Proof.
  induction s as [|c r IH]; intros a b H; cbn [span_plain] in H.
  - inversion H; subst; repeat split; auto.
  - destruct (is_special c) eqn:Hs.
    + inversion H; subst; repeat split; auto. right; exists c, r; auto.
    + destruct (span_plain r) as [a' b'] eqn:Hr. inversion H; subst.
      destruct (IH a' b eq_refl) as (E & F & G & L). repeat split.
      * cbn; f_equal; exact E.
      * cbn [forallb]; rewrite Hs, F; reflexivity.
      * exact G.
      * cbn [length]; lia.
Qed.

Lemma enc_plain_app a : forall b, forallb (fun c => negb (is_special c)) a = true -> enc (a ++ b) = quote a ++ enc b.
Proof.
  induction a as [|c a IH]; intros b H; [reflexivity|].
  cbn [forallb] in H; apply andb_true_iff in H; destruct H as [Hc Ha]; apply negb_true_iff in Hc.
  change ((c :: a) ++ b) with (c :: (a ++ b)); rewrite enc_plain_cons by exact Hc.
  rewrite IH by exact Ha. unfold quote; cbn [flat_map]; rewrite app_assoc; reflexivity.
Qed.

Lemma turn_spec c r part r1 : is_special c = true -> turn (c :: r) = (part, r1) ->
  enc (c :: r) = part ++ enc r1 /\ (length r1 <= length r)%nat.
Proof.
  intros Hs H; unfold turn in H; cbn [enc].
  destruct (N.eqb c c_pct) eqn:Hp.
  - apply N.eqb_eq in Hp; subst c.
    destruct r as [|h1 [|h2 r']]; cbn in H.
    + inversion H; subst; split; [reflexivity | cbn; lia].
    + inversion H; subst; split; [reflexivity | cbn; lia].
    + rewrite andb_true_r in H. destruct (is_hexd h1 && is_hexd h2) eqn:Hh; inversion H; subst; split; try reflexivity; cbn [length]; lia.
  - unfold is_special in Hs; rewrite Hp in Hs; cbn in Hs; rewrite Hs.
    inversion H; subst; split; [reflexivity | lia].
Qed.

Lemma loop_spec : forall fuel rest, (length rest <= fuel)%nat ->
  (rest = [] \/ exists c r, rest = c :: r /\ is_special c = true) -> loop fuel rest = Some (enc rest).
Proof.
  induction fuel as [|f IH]; intros rest L S.
  - destruct rest; [reflexivity | cbn in L; lia].
  - destruct S as [->|(c & r & -> & Hs)]; [reflexivity|].
    cbn [loop]. destruct (turn (c :: r)) as [part r1] eqn:Ht.
    destruct (turn_spec c r part r1 Hs Ht) as [E L1].
    destruct (span_plain r1) as [before r2] eqn:Hsp.
    destruct (span_plain_spec r1 before r2 Hsp) as (E1 & F & G & L2).
    rewrite IH; [| cbn [length] in L; lia | exact G].
    cbn [option_map]. rewrite E. do 2 f_equal. transitivity (enc (before ++ r2)); [symmetry; apply enc_plain_app; exact F | rewrite <- E1; reflexivity].
Qed.

Lemma encode_impl_spec_l s : encode_impl s = Some (enc s).
Proof.
  unfold encode_impl. destruct (span_plain s) as [before r] eqn:Hsp.
  destruct (span_plain_spec s before r Hsp) as (E & F & G & L).
  rewrite loop_spec by assumption. cbn [option_map]. f_equal. transitivity (enc (before ++ r)); [symmetry; apply enc_plain_app; exact F | rewrite <- E; reflexivity].
Qed.

(* ---- what may stand in the attribute ---- *)
Lemma hexdig_alnum n : n < 16 -> is_alnum (hexdig n) = true.
Proof. unfold is_alnum, hexdig; intros H; destruct (n <? 10) eqn:E; lia. Qed.

Lemma alnum_ok c : is_alnum c = true -> out_ok c = true.
Proof. unfold out_ok, is_safe; intros ->; reflexivity. Qed.

Lemma hexd_alnum c : is_hexd c = true -> is_alnum c = true.
Proof. unfold is_hexd, is_alnum; lia. Qed.

Lemma pct_byte_ok b : b < 256 -> forallb out_ok (pct_byte b) = true.
Proof.
  intros H; unfold pct_byte; cbn [forallb].
  rewrite (alnum_ok (hexdig (b / 16))) by (apply hexdig_alnum; lia).
  rewrite (alnum_ok (hexdig (b mod 16))) by (apply hexdig_alnum; lia).
  reflexivity.
Qed.

Lemma utf8_bytes c : c < 1114112 -> forallb (fun b => b <? 256) (utf8 c) = true.
Proof.
  intros H; unfold utf8.
  destruct (c <? 128) eqn:E1; [cbn; lia|].
  destruct (c <? 2048) eqn:E2; [cbn [forallb]; lia|].
  destruct (c <? 65536) eqn:E3; cbn [forallb]; lia.
Qed.

Lemma forallb_flat_map {A B} (f : A -> list B) (p : B -> bool) (l : list A) :
  (forall x, In x l -> forallb p (f x) = true) -> forallb p (flat_map f l) = true.
Proof.
  induction l as [|x l IH]; intros H; [reflexivity|].
  cbn [flat_map]; rewrite forallb_app, H by (left; reflexivity). apply IH; intros y Hy; apply H; right; exact Hy.
Qed.

Lemma quote1_ok c : c < 1114112 -> forallb out_ok (quote1 c) = true.
Proof.
  intros H; unfold quote1. destruct (is_safe c) eqn:E.
  - cbn; unfold out_ok; rewrite E; reflexivity.
  - apply forallb_flat_map; intros b Hb. apply pct_byte_ok.
    pose proof (utf8_bytes c H) as U. rewrite forallb_forall in U. specialize (U b Hb). lia.
Qed.

Lemma s_pct25_ok : forallb out_ok s_pct25 = true.  Proof. reflexivity. Qed.
Lemma s_amp_ok : forallb out_ok s_amp = true.  Proof. reflexivity. Qed.

Lemma enc_out_ok_n : forall n s, (length s <= n)%nat -> valid s = true -> forallb out_ok (enc s) = true.
Proof.
  induction n as [|n IH]; intros s L V.
  - destruct s; [reflexivity | cbn in L; lia].
  - destruct s as [|c r]; [reflexivity|].
    unfold valid in V; cbn [forallb] in V; apply andb_true_iff in V; destruct V as [Vc Vr]; fold (valid r) in Vr.
    cbn [length] in L. assert (Hr : forallb out_ok (enc r) = true) by (apply IH; [lia | exact Vr]).
    cbn [enc]. destruct (N.eqb c c_pct) eqn:Hp.
    + destruct r as [|h1 [|h2 r']]; try (rewrite forallb_app, s_pct25_ok; exact Hr).
      destruct (is_hexd h1 && is_hexd h2) eqn:Hh; [| rewrite forallb_app, s_pct25_ok; exact Hr].
      apply andb_true_iff in Hh; destruct Hh as [H1 H2].
      cbn [forallb]. rewrite (alnum_ok h1), (alnum_ok h2) by (apply hexd_alnum; assumption).
      cbn. apply IH; [cbn [length] in L; lia|].
      unfold valid in Vr; cbn [forallb] in Vr. apply andb_true_iff in Vr; destruct Vr as [_ Vr]; apply andb_true_iff in Vr; destruct Vr as [_ Vr]. exact Vr.
    + destruct (N.eqb c c_amp) eqn:Ha.
      * rewrite forallb_app, s_amp_ok; exact Hr.
      * rewrite forallb_app, quote1_ok by lia. exact Hr.
Qed.

Lemma enc_out_ok_l s : valid s = true -> forallb out_ok (enc s) = true.
Proof. apply (enc_out_ok_n (length s)); lia. Qed.

Lemma out_ok_ascii c : out_ok c = true -> c < 128 /\ c <> 32 /\ c <> 34 /\ c <> 60 /\ c <> 62 /\ c <> 92 /\ c <> 96.
Proof. unfold out_ok, is_safe, is_alnum, safe_extra, c_pct, c_amp; cbn [existsb]; lia. Qed.

(* ---- escapes that are there stay, wherever they are ---- *)
Lemma enc_app_n : forall n a b, (length a <= n)%nat -> open_tail a = false -> enc (a ++ b) = enc a ++ enc b.
Proof.
  induction n as [|n IH]; intros a b L O.
  - destruct a; [reflexivity | cbn in L; lia].
  - destruct a as [|c r]; [reflexivity|]. cbn [length] in L.
    change ((c :: r) ++ b) with (c :: (r ++ b)). cbn [enc open_tail] in *.
    destruct (N.eqb c c_pct) eqn:Hp.
    + destruct r as [|h1 [|h2 r']]; try discriminate.
      change ((h1 :: h2 :: r') ++ b) with (h1 :: h2 :: (r' ++ b)).
      destruct (is_hexd h1 && is_hexd h2) eqn:Hh.
      * rewrite ?Hh. rewrite (IH r' b) by (cbn [length] in L; try lia; exact O). reflexivity.
      * rewrite ?Hh. change (h1 :: h2 :: r' ++ b) with ((h1 :: h2 :: r') ++ b). rewrite (IH (h1 :: h2 :: r') b) by (try lia; exact O).
        rewrite app_assoc; reflexivity.
    + destruct (N.eqb c c_amp); rewrite (IH r b) by (try lia; exact O); rewrite app_assoc; reflexivity.
Qed.

Lemma enc_app_l a b : open_tail a = false -> enc (a ++ b) = enc a ++ enc b.
Proof. apply (enc_app_n (length a)); lia. Qed.

Lemma enc_escape_l h1 h2 b : is_hexd h1 = true -> is_hexd h2 = true -> enc (c_pct :: h1 :: h2 :: b) = c_pct :: h1 :: h2 :: enc b.
Proof. intros H1 H2; cbn [enc]. rewrite N.eqb_refl, H1, H2; reflexivity. Qed.

Lemma enc_escape_kept_l a h1 h2 b : open_tail a = false -> is_hexd h1 = true -> is_hexd h2 = true ->
  enc (a ++ c_pct :: h1 :: h2 :: b) = enc a ++ c_pct :: h1 :: h2 :: enc b.
Proof. intros O H1 H2; rewrite enc_app_l by exact O; rewrite enc_escape_l by assumption; reflexivity. Qed.

Lemma no_pct_closed a : existsb (N.eqb c_pct) a = false -> open_tail a = false.
Proof.
  induction a as [|c a IH]; intros H; [reflexivity|].
  cbn [existsb] in H; apply orb_false_iff in H; destruct H as [Hc Ha].
  cbn [open_tail]. rewrite N.eqb_sym, Hc. apply IH; exact Ha.
Qed.
