(* C03 - link labels: the Python text computes `norm`; `norm` is a normal form; the first definition wins. *)
From Coq Require Import List NArith ZArith Bool Arith Lia ZifyBool ZifyN.
Require Import PV.Base.Str PV.Base.StrOrder PV.Model.LinkLabel.
Import ListNotations.
Local Open Scope N_scope.

(* ---- split / filter / join is one pass ---- *)
Definition P (ws : list str) : str := flat_map (fun w => c_sp :: w) ws.

Lemma join_P w r : join_c c_sp (w :: r) = w ++ P r.
Proof.
  revert w; induction r as [|w' r IH]; intros w; [cbn; rewrite app_nil_r; reflexivity|].
  change (join_c c_sp (w :: w' :: r)) with (w ++ c_sp :: join_c c_sp (w' :: r)). rewrite IH. reflexivity.
Qed.

Lemma P_split : forall s cur,
  P (filter nonempty (split_acc c_sp s cur)) = if is_nil cur then sq false s else c_sp :: rev cur ++ sq true s.
Proof.
  induction s as [|c r IH]; intros cur.
  - cbn [split_acc filter]. destruct cur as [|x cur]; [reflexivity|].
    assert (H : nonempty (rev (x :: cur)) = true) by (cbn [rev]; destruct (rev cur); reflexivity).
    rewrite H. cbn [P flat_map is_nil sq]. rewrite !app_nil_r. reflexivity.
  - cbn [split_acc sq]. destruct (N.eqb c c_sp) eqn:E.
    + cbn [filter]. destruct cur as [|x cur].
      * cbn [rev nonempty is_nil negb]. rewrite IH. reflexivity.
      * assert (H : nonempty (rev (x :: cur)) = true) by (cbn [rev]; destruct (rev cur); reflexivity).
        rewrite H. cbn [P flat_map]. fold (P (filter nonempty (split_acc c_sp r []))). rewrite IH. cbn [is_nil app]. reflexivity.
    + rewrite IH. cbn [is_nil]. destruct cur as [|x cur]; cbn [is_nil rev].
      * reflexivity.
      * rewrite <- !app_assoc. reflexivity.
Qed.

Lemma join_split_squeeze s : join_c c_sp (filter nonempty (split_c c_sp s)) = squeeze s.
Proof.
  unfold split_c, squeeze. pose proof (P_split s []) as H. cbn [is_nil] in H.
  destruct (filter nonempty (split_acc c_sp s [])) as [|w r].
  - cbn in H. rewrite <- H. reflexivity.
  - rewrite join_P. rewrite <- H. reflexivity.
Qed.

(* ---- the shape of the result ---- *)
Lemma sq_false_shape s : sq false s = [] \/ exists c r, N.eqb c c_sp = false /\ sq false s = c_sp :: c :: sq true r.
Proof.
  induction s as [|c r IH]; [left; reflexivity|]. cbn [sq]. destruct (N.eqb c c_sp) eqn:E; [exact IH|].
  right; exists c, r; split; [exact E | reflexivity].
Qed.

Lemma sq_last b s : sq b s = [] \/ last (sq b s) 0 <> c_sp.
Proof.
  revert b; induction s as [|c r IH]; intros b; [left; reflexivity|]. cbn [sq].
  destruct (N.eqb c c_sp) eqn:E; [apply IH|].
  assert (Hc : c <> c_sp) by (intros ->; rewrite N.eqb_refl in E; discriminate).
  right. destruct (IH true) as [H|H].
  - rewrite H. destruct b; cbn; exact Hc.
  - destruct b.
    + destruct (sq true r) eqn:Y; [cbn; exact Hc|]. exact H.
    + destruct (sq true r) eqn:Y; [cbn; exact Hc|]. exact H.
Qed.

Lemma lower_sp c : N.eqb (lower c) c_sp = N.eqb c c_sp.
Proof. unfold lower, c_sp. destruct ((65 <=? c) && (c <=? 90)) eqn:E; lia. Qed.

Lemma rev_last (x : str) : x <> [] -> rev x = last x 0 :: rev (removelast x).
Proof. intros H. rewrite (app_removelast_last 0 H) at 1. rewrite rev_app_distr. reflexivity. Qed.

Lemma strip_id x : (x = [] \/ exists c r, N.eqb c c_sp = false /\ x = c :: r) -> (x = [] \/ last x 0 <> c_sp) -> strip x = x.
Proof.
  intros H1 H2. unfold strip, rstrip, rstrip_c, lstrip.
  destruct H2 as [->|H2]; [reflexivity|].
  destruct H1 as [->|(c & r & Hc & ->)]; [reflexivity|].
  assert (Hne : c :: r <> []) by discriminate.
  assert (E : N.eqb (last (c :: r) 0) c_sp = false) by (apply N.eqb_neq; exact H2).
  rewrite (rev_last (c :: r) Hne). cbn [lead]. rewrite E. cbn [dropn].
  rewrite <- (rev_last (c :: r) Hne). rewrite rev_involutive. cbn [lead]. rewrite Hc. reflexivity.
Qed.

Lemma squeeze_head s : squeeze s = [] \/ exists c r, N.eqb c c_sp = false /\ squeeze s = c :: r.
Proof.
  unfold squeeze. destruct (sq_false_shape s) as [->|(c & r & Hc & ->)]; [left; reflexivity|].
  right; exists c, (sq true r); split; [exact Hc | reflexivity].
Qed.

Lemma squeeze_last s : squeeze s = [] \/ last (squeeze s) 0 <> c_sp.
Proof.
  unfold squeeze. destruct (sq_false_shape s) as [->|(c & r & Hc & E)]; [left; reflexivity|].
  right. destruct (sq_last false s) as [H|H]; [rewrite E in H; discriminate|].
  rewrite E in *. cbn [tl]. exact H.
Qed.

Lemma last_map {A B} (f : A -> B) l d : last (map f l) (f d) = f (last l d).
Proof. induction l as [|x [|y l] IH]; [reflexivity | reflexivity | exact IH]. Qed.

Lemma norm_impl_is_norm_l s : norm_impl s = norm s.
Proof.
  unfold norm_impl, norm. rewrite join_split_squeeze. apply strip_id.
  - destruct (squeeze_head (fold_ws s)) as [->|(c & r & Hc & ->)]; [left; reflexivity|].
    right; exists (lower c), (map lower r); split; [rewrite lower_sp; exact Hc | reflexivity].
  - destruct (squeeze_last (fold_ws s)) as [->|H]; [left; reflexivity|]. right.
    change 0 with (lower 0). rewrite last_map. intros E. apply H.
    apply N.eqb_eq. rewrite <- lower_sp. apply N.eqb_eq. exact E.
Qed.

(* ---- a normal form ---- *)
Lemma sq_idem s : sq true (sq true s) = sq true s /\ sq true (sq false s) = sq false s.
Proof.
  induction s as [|c r [IH1 IH2]]; [split; reflexivity|]. cbn [sq].
  destruct (N.eqb c c_sp) eqn:E.
  - split; exact IH2.
  - split; cbn [sq]; rewrite ?E; cbn [N.eqb c_sp Pos.eqb sq]; rewrite ?E, IH1; reflexivity.
Qed.

Lemma squeeze_idem s : squeeze (squeeze s) = squeeze s.
Proof.
  unfold squeeze. destruct (sq_false_shape s) as [->|(c & r & Hc & ->)]; [reflexivity|].
  cbn [tl sq]. rewrite Hc. destruct (sq_idem r) as [H _]. rewrite H. reflexivity.
Qed.

Lemma sq_map (g : N -> N) : (forall c, N.eqb (g c) c_sp = N.eqb c c_sp) -> g c_sp = c_sp ->
  forall b s, sq b (map g s) = map g (sq b s).
Proof.
  intros Hg Hs b s; revert b; induction s as [|c r IH]; intros b; [reflexivity|].
  cbn [map sq]. rewrite Hg. destruct (N.eqb c c_sp); [apply IH|].
  destruct b; cbn [map]; rewrite IH, ?Hs; reflexivity.
Qed.

Lemma squeeze_map g : (forall c, N.eqb (g c) c_sp = N.eqb c c_sp) -> g c_sp = c_sp -> forall s, squeeze (map g s) = map g (squeeze s).
Proof. intros Hg Hs s; unfold squeeze; rewrite (sq_map g Hg Hs). destruct (sq false s); reflexivity. Qed.

Lemma lower_idem c : lower (lower c) = lower c.
Proof. unfold lower. destruct ((65 <=? c) && (c <=? 90)) eqn:E; [|rewrite E; reflexivity]. destruct ((65 <=? c + 32) && (c + 32 <=? 90)) eqn:F; lia. Qed.

Lemma lower_ows c : is_ows (lower c) = is_ows c.
Proof. unfold lower, is_ows. destruct ((65 <=? c) && (c <=? 90)) eqn:E; lia. Qed.

Lemma sq_chars (p : N -> bool) : p c_sp = true -> forall b s, forallb p s = true -> forallb p (sq b s) = true.
Proof.
  intros Hp b s; revert b; induction s as [|c r IH]; intros b H; [reflexivity|].
  cbn [forallb] in H; apply andb_true_iff in H; destruct H as [Hc Hr]. cbn [sq].
  destruct (N.eqb c c_sp); [apply IH; exact Hr|]. destruct b; cbn [forallb]; rewrite ?Hp, Hc, IH by exact Hr; reflexivity.
Qed.

Lemma forallb_tl {A} (p : A -> bool) l : forallb p l = true -> forallb p (tl l) = true.
Proof. destruct l; [auto|]. cbn. intros H; apply andb_true_iff in H; tauto. Qed.

Lemma fold_ws_clean s : forallb (fun c => negb (is_ows c)) (fold_ws s) = true.
Proof. induction s as [|c r IH]; [reflexivity|]. cbn [fold_ws map forallb]. fold (fold_ws r). rewrite IH. destruct (is_ows c) eqn:E; [reflexivity | rewrite E; reflexivity]. Qed.

Lemma fold_ws_id s : forallb (fun c => negb (is_ows c)) s = true -> fold_ws s = s.
Proof.
  induction s as [|c r IH]; intros H; [reflexivity|]. cbn [forallb] in H; apply andb_true_iff in H; destruct H as [Hc Hr].
  cbn [fold_ws map]. fold (fold_ws r). rewrite IH by exact Hr. apply negb_true_iff in Hc. rewrite Hc. reflexivity.
Qed.

Lemma norm_clean s : forallb (fun c => negb (is_ows c)) (norm s) = true.
Proof.
  unfold norm. rewrite forallb_forall. intros c Hc. apply in_map_iff in Hc. destruct Hc as (x & <- & Hx).
  rewrite lower_ows. revert x Hx. rewrite <- forallb_forall. unfold squeeze. apply forallb_tl.
  apply sq_chars; [reflexivity | apply fold_ws_clean].
Qed.

Lemma norm_idempotent_l s : norm (norm s) = norm s.
Proof.
  unfold norm at 1. rewrite (fold_ws_id (norm s)) by apply norm_clean.
  unfold norm. rewrite (squeeze_map lower lower_sp eq_refl), squeeze_idem.
  rewrite map_map. apply map_ext. intros c; apply lower_idem.
Qed.

(* ---- what does not matter: case, and the kind and amount of white space ---- *)
Lemma upper_sp c : N.eqb (upper c) c_sp = N.eqb c c_sp.
Proof. unfold upper, c_sp. destruct ((97 <=? c) && (c <=? 122)) eqn:E; lia. Qed.
Lemma upper_ows c : is_ows (upper c) = is_ows c.
Proof. unfold upper, is_ows. destruct ((97 <=? c) && (c <=? 122)) eqn:E; lia. Qed.
Lemma lower_upper c : lower (upper c) = lower c.
Proof. unfold upper, lower. destruct ((97 <=? c) && (c <=? 122)) eqn:E; [|reflexivity].
  destruct ((65 <=? c - 32) && (c - 32 <=? 90)) eqn:F; destruct ((65 <=? c) && (c <=? 90)) eqn:G; lia. Qed.

Lemma fold_ws_upper s : fold_ws (map upper s) = map upper (fold_ws s).
Proof.
  unfold fold_ws. rewrite !map_map. apply map_ext. intros c. rewrite upper_ows.
  destruct (is_ows c); reflexivity.
Qed.

Lemma norm_case_l s : norm (map upper s) = norm s.
Proof.
  unfold norm. rewrite fold_ws_upper, (squeeze_map upper upper_sp eq_refl), map_map.
  apply map_ext. intros c; apply lower_upper.
Qed.

Definition all_sp (s : str) : bool := forallb (fun c => N.eqb c c_sp) s.
Lemma fold_ws_all s : all_ws s = true -> all_sp (fold_ws s) = true.
Proof.
  induction s as [|c r IH]; intros H; [reflexivity|]. cbn [all_ws forallb] in H; apply andb_true_iff in H; destruct H as [Hc Hr].
  cbn [fold_ws map all_sp forallb]. fold (fold_ws r). fold (all_sp (fold_ws r)). rewrite (IH Hr).
  destruct (is_ows c) eqn:E; [reflexivity|]. rewrite orb_false_r in Hc. rewrite Hc. reflexivity.
Qed.
Lemma fold_ws_app a b : fold_ws (a ++ b) = fold_ws a ++ fold_ws b.
Proof. unfold fold_ws; apply map_app. Qed.

Lemma sq_skip w : all_sp w = true -> forall b r, w <> [] \/ b = false -> sq b (w ++ r) = sq false r.
Proof.
  induction w as [|c w IH]; intros H b r Hb.
  - destruct Hb as [Hb| ->]; [contradiction | reflexivity].
  - cbn [all_sp forallb] in H; apply andb_true_iff in H; destruct H as [Hc Hw]. cbn [app sq]. rewrite Hc.
    apply IH; [exact Hw | right; reflexivity].
Qed.

Lemma sq_end w : all_sp w = true -> forall b, sq b w = [].
Proof.
  induction w as [|c w IH]; intros H b; [reflexivity|].
  cbn [all_sp forallb] in H; apply andb_true_iff in H; destruct H as [Hc Hw]. cbn [sq]. rewrite Hc. apply IH; exact Hw.
Qed.

Lemma sq_gap a : forall b w r, all_sp w = true -> w <> [] -> sq b (a ++ w ++ r) = sq b a ++ sq false r.
Proof.
  induction a as [|c a IH]; intros b w r Hw Hn.
  - cbn [app sq]. apply sq_skip; [exact Hw | left; exact Hn].
  - cbn [app sq]. destruct (N.eqb c c_sp); [apply IH; assumption|].
    destruct b; cbn [app]; rewrite IH by assumption; reflexivity.
Qed.

Lemma sq_trail a : forall b w, all_sp w = true -> sq b (a ++ w) = sq b a.
Proof.
  induction a as [|c a IH]; intros b w Hw.
  - cbn [app sq]. apply sq_end; exact Hw.
  - cbn [app sq]. destruct (N.eqb c c_sp); [apply IH; assumption|].
    destruct b; rewrite IH by assumption; reflexivity.
Qed.

Lemma fold_ws_nonempty w : w <> [] -> fold_ws w <> [].
Proof. destruct w; [contradiction | discriminate]. Qed.

Lemma norm_gap_l a w1 w2 b : all_ws w1 = true -> w1 <> [] -> all_ws w2 = true -> w2 <> [] ->
  norm (a ++ w1 ++ b) = norm (a ++ w2 ++ b).
Proof.
  intros H1 N1 H2 N2. unfold norm, squeeze. rewrite !fold_ws_app.
  rewrite !sq_gap by (try apply fold_ws_all; try apply fold_ws_nonempty; assumption). reflexivity.
Qed.

Lemma norm_strip_l w s w' : all_ws w = true -> all_ws w' = true -> norm (w ++ s ++ w') = norm s.
Proof.
  intros H H'. unfold norm, squeeze. rewrite !fold_ws_app.
  rewrite sq_skip by (try apply fold_ws_all; try assumption; right; reflexivity).
  rewrite sq_trail by (apply fold_ws_all; assumption). reflexivity.
Qed.

(* ---- the first definition wins ---- *)
Section D.
Variable V : Type.

Lemma find_def_app k (d : defmap V) kv : find_def V k (d ++ [kv]) =
  match find_def V k d with Some v => Some v | None => if str_eqb k (fst kv) then Some (snd kv) else None end.
Proof.
  induction d as [|[k' v'] d IH]; [destruct kv; reflexivity|].
  cbn [app find_def]. destruct (str_eqb k k'); [reflexivity | exact IH].
Qed.

Lemma find_def_fold k : forall (es : list (str * V)) (d : defmap V),
  find_def V k (fold_left (add_def V) es d) =
  match find_def V k d with Some v => Some v | None => find_def V k es end.
Proof.
  induction es as [|[k' v'] es IH]; intros d; [cbn; destruct (find_def V k d); reflexivity|].
  cbn [fold_left]. rewrite IH. unfold add_def. cbn [fst snd].
  destruct (find_def V k' d) eqn:E.
  - destruct (find_def V k d) eqn:F; [reflexivity|]. cbn [find_def].
    destruct (str_eqb k k') eqn:G; [|reflexivity].
    destruct (str_eqb_spec k k'); [subst; congruence | discriminate].
  - rewrite find_def_app. cbn [fst snd find_def]. destruct (find_def V k d); [reflexivity|].
    destruct (str_eqb k k'); reflexivity.
Qed.

Lemma find_def_first k : forall es : list (str * V),
  find_def V k (map (fun e => (norm_impl (fst e), snd e)) es) = first_match V k es.
Proof.
  induction es as [|[l v] es IH]; [reflexivity|]. cbn [map find_def first_match fst snd].
  rewrite norm_impl_is_norm_l, IH. reflexivity.
Qed.

Lemma first_wins_l entries label : is_nil (norm label) = false ->
  look_up V (build V entries) label = first_match V (norm label) entries.
Proof.
  intros H. unfold look_up, build. rewrite norm_impl_is_norm_l, H, find_def_fold. cbn [find_def].
  apply find_def_first.
Qed.

Lemma empty_label_l entries label : is_nil (norm label) = true -> look_up V (build V entries) label = None.
Proof. intros H. unfold look_up. rewrite norm_impl_is_norm_l, H. reflexivity. Qed.
End D.
