From Coq Require Import List ZArith NArith Bool Arith Lia.
Require Import PV.Base.Str PV.Model.Pos.
Import ListNotations.
Local Open Scope Z_scope.

(* reading a text without newline moves the column only *)
Lemma read_no_nl : forall s p, has_nl s = false -> read_pos p s = (fst p, snd p + Z.of_nat (length s)).
Proof.
  induction s as [|c r IH]; intros [l k] H; cbn [read_pos fold_left length].
  - cbn. f_equal. lia.
  - cbn [has_nl existsb] in H. apply orb_false_elim in H as [Hc Hr]. unfold read_char at 2. rewrite N.eqb_sym in Hc. rewrite Hc.
    cbn [fst snd]. fold (read_pos (l, k + 1) r). rewrite IH; [|exact Hr]. cbn [fst snd]. f_equal. lia.
Qed.

Lemma split_acc_nonempty : forall s cur, split_acc c_nl s cur <> [].
Proof. induction s as [|x r IH]; intros cur; cbn [split_acc]; [discriminate|]. destruct (N.eqb x c_nl); [discriminate | apply IH]. Qed.

(* general: the position after reading s, in terms of split on newline with an accumulator *)
Lemma read_split : forall s cur p,
  read_pos p s =
  let ps := split_acc c_nl s cur in
  if has_nl s then (fst p + Z.of_nat (length ps) - 1, Z.of_nat (length (last ps [])) + 1)
  else (fst p, snd p + Z.of_nat (length s)).
Proof.
  induction s as [|c r IH]; intros cur [l k]; cbn [read_pos fold_left has_nl existsb split_acc].
  - cbv zeta. cbn [fst snd length]. f_equal; lia.
  - unfold read_char at 2. rewrite (N.eqb_sym c_nl c). destruct (N.eqb c c_nl) eqn:E; cbn [orb fst snd].
    + fold (read_pos (l + 1, 1) r). rewrite (IH [] (l + 1, 1)). cbv zeta. cbn [fst snd].
      destruct (has_nl r) eqn:Hr.
      * pose proof (split_acc_nonempty r []) as NE.
        destruct (split_acc c_nl r []) as [|q qs] eqn:Q; [congruence|]. cbn [length last]. f_equal; lia.
      * (* r has no newline: split_acc r [] = [r] *)
        assert (S : forall t acc, has_nl t = false -> split_acc c_nl t acc = [rev acc ++ t]).
        { induction t as [|x t IHt]; intros acc H; cbn [split_acc]; [now rewrite app_nil_r|].
          cbn [has_nl existsb] in H. apply orb_false_elim in H as [Hx Ht]. rewrite N.eqb_sym in Hx. rewrite Hx.
          rewrite IHt; [|exact Ht]. cbn [rev]. now rewrite <- app_assoc. }
        rewrite (S r [] Hr). cbn [length last rev app]. change (Z.of_nat 2) with 2. f_equal; lia.
    + fold (read_pos (l, k + 1) r). rewrite (IH (c :: cur) (l, k + 1)). cbv zeta. cbn [fst snd length].
      unfold has_nl. destruct (existsb (N.eqb c_nl) r); f_equal; lia.
Qed.

Lemma deltas_correct_l : forall p s, 1 <= snd p -> apply_deltas p (calc_deltas s) = read_pos p s.
Proof.
  intros [l k] s Hk. rewrite (read_split s [] (l, k)). cbv zeta. unfold calc_deltas, apply_deltas, last_piece, split_nl, split_c.
  destruct (has_nl s); cbn [fst snd].
  - destruct (Z.ltb_spec (- (Z.of_nat (length (last (split_acc c_nl s []) [])) + 1)) 0); [f_equal; lia | lia].
  - destruct (Z.ltb_spec (Z.of_nat (length s)) 0); [lia | f_equal; lia].
Qed.

Lemma pos_ok_spec_l lines o l c :
  pos_ok lines o l c = true <->
  (1 <= l <= Z.of_nat (length lines) /\ 1 <= c <= Z.of_nat (length (nth (Z.to_nat (l - 1)) lines [])) + 1 /\
   opens o (nth (Z.to_nat (l - 1)) lines []) c = true).
Proof.
  unfold pos_ok, in_source. rewrite !andb_true_iff, !Z.leb_le. tauto.
Qed.

Lemma opens_chars_l cs line c : opens (OChars cs) line c = true <-> exists ch, nth_char line c = Some ch /\ In ch cs.
Proof.
  cbn [opens]. destruct (nth_char line c) as [x|]; [|split; [discriminate | intros [ch [H _]]; discriminate]].
  rewrite existsb_exists. split.
  - intros [y [I E]]. apply N.eqb_eq in E. subst. eauto.
  - intros [ch [[= ->] I]]. exists ch. split; auto. apply N.eqb_refl.
Qed.

Lemma monotone_spec_l : forall ls, monotone ls = true -> forall i j a b, (i <= j)%nat -> nth_error ls i = Some a -> nth_error ls j = Some b -> a <= b.
Proof.
  induction ls as [|x r IH]; intros M i j a b Le Hi Hj; [destruct i; discriminate|].
  destruct r as [|y r'].
  - destruct i as [|i]; [|destruct i; discriminate]. destruct j as [|j]; [|destruct j; discriminate]. cbn in Hi, Hj. injection Hi as <-. injection Hj as <-. lia.
  - cbn [monotone] in M. apply andb_prop in M as [Mxy Mr]. apply Z.leb_le in Mxy.
    destruct i as [|i].
    + cbn in Hi. injection Hi as <-. destruct j as [|j]; [cbn in Hj; injection Hj as <-; lia|].
      cbn [nth_error] in Hj. assert (y <= b) by (apply (IH Mr 0%nat j y b); [lia | reflexivity | exact Hj]). lia.
    + destruct j as [|j]; [lia|]. cbn [nth_error] in Hi, Hj. apply (IH Mr i j a b); [lia | exact Hi | exact Hj].
Qed.
