From Coq Require Import List ZArith NArith Bool Arith Lia.
Require Import PV.Base.Str PV.Base.StrOrder PV.Base.RuleTypes PV.Model.Pragma.
Import ListNotations.
Local Open Scope Z_scope.

Definition hit (line : Z) (rid : str) (p : parsed) : bool := covers p line && names p rid.

Lemma names_nil p rid : ok_ids p = [] -> names p rid = false.
Proof. unfold names. intros ->. reflexivity. Qed.

Lemma step_suppressed t p line rid :
  lookup_z (p_at p + 1) (t_next t) = None ->
  suppressed (add_pragma t p) line rid = suppressed t line rid || hit line rid p.
Proof.
  intros H. unfold add_pragma, hit, covers, names.
  destruct (p_cmd p) as [| | |n| | |]; try (rewrite andb_false_l, orb_false_r; destruct (ok_ids p); reflexivity).
  - (* CNext *)
    destruct (ok_ids p) as [|i ids] eqn:E; [now rewrite andb_false_r, orb_false_r|].
    unfold suppressed. cbn [t_next t_ranges lookup_z].
    destruct (Z.eqb_spec line (p_at p + 1)) as [->|N].
    + rewrite H. cbn [andb orb]. now rewrite orb_comm.
    + cbn [andb]. now rewrite orb_false_r.
  - (* CNum *)
    destruct (ok_ids p) as [|i ids] eqn:E; [now rewrite andb_false_r, orb_false_r|].
    unfold suppressed. cbn [t_next t_ranges]. rewrite existsb_app. cbn [existsb]. rewrite orb_false_r. now rewrite orb_assoc.
Qed.

Lemma next_keys t p q : p_at q <> p_at p -> lookup_z (p_at q + 1) (t_next t) = None -> lookup_z (p_at q + 1) (t_next (add_pragma t p)) = None.
Proof.
  intros N H. unfold add_pragma. destruct (p_cmd p); try exact H; destruct (ok_ids p); try exact H.
  cbn [t_next lookup_z]. destruct (Z.eqb_spec (p_at q + 1) (p_at p + 1)); [lia|exact H].
Qed.

Lemma fold_suppressed : forall ps t line rid,
  NoDup (map p_at ps) -> (forall p, In p ps -> lookup_z (p_at p + 1) (t_next t) = None) ->
  suppressed (fold_left add_pragma ps t) line rid = suppressed t line rid || existsb (hit line rid) ps.
Proof.
  induction ps as [|p ps IH]; intros t line rid ND H; cbn [fold_left existsb]; [now rewrite orb_false_r|].
  cbn [map] in ND. inversion ND as [|? ? Np NDr]; subst.
  rewrite IH; auto.
  - rewrite step_suppressed; [now rewrite orb_assoc | apply H; now left].
  - intros q Hq. apply next_keys; [|apply H; now right].
    intros E. apply Np. rewrite <- E. now apply in_map.
Qed.

Lemma suppress_exact_l ps line rid :
  NoDup (map p_at ps) ->
  (suppressed (compile ps) line rid = true <-> exists p, In p ps /\ covers p line = true /\ names p rid = true).
Proof.
  intros ND. unfold compile. rewrite fold_suppressed; auto. cbn. rewrite existsb_exists. unfold hit.
  split; intros [p [I H]]; exists p; [apply andb_prop in H|]; intuition. 
Qed.

(* a pragma whose command is not understood, whose count is bad, or none of whose ids resolves, suppresses nothing *)
Definition malformed (p : parsed) : bool :=
  match p_cmd p with CNext | CNum _ => is_nil (ok_ids p) | _ => true end.

Lemma malformed_no_hit p line rid : malformed p = true -> hit line rid p = false.
Proof.
  unfold malformed, hit, covers. destruct (p_cmd p); try reflexivity; intros H; destruct (ok_ids p) eqn:E; try discriminate;
    rewrite (names_nil p rid E); apply andb_false_r.
Qed.

Lemma malformed_suppresses_nothing_l ps q line rid :
  NoDup (map p_at (q :: ps)) -> malformed q = true ->
  suppressed (compile (q :: ps)) line rid = suppressed (compile ps) line rid.
Proof.
  intros ND M. unfold compile.
  rewrite (fold_suppressed (q :: ps)); auto. rewrite (fold_suppressed ps); auto; [|now inversion ND].
  cbn [existsb]. now rewrite (malformed_no_hit q line rid M).
Qed.

Lemma malformed_reported_l p : malformed p = true -> (p_cmd p = CNext \/ exists n, p_cmd p = CNum n) -> p_ids p <> [] -> (1 <= n_errors p)%nat.
Proof.
  unfold malformed, n_errors, ok_ids. intros M C NE.
  assert (G : flat_map (fun i => match i with IdOk r => [r] | _ => [] end) (p_ids p) = [] ->
              (1 <= length (filter (fun i => match i with IdOk _ => false | _ => true end) (p_ids p)))%nat).
  { destruct (p_ids p) as [|i l]; [congruence|]. destruct i; cbn; intros H; try discriminate; lia. }
  destruct C as [C|[n C]]; rewrite C in *; apply G; destruct (flat_map _ _); [reflexivity|discriminate| reflexivity|discriminate].
Qed.

Lemma bad_command_reported_l p : (match p_cmd p with CNext | CNum _ => false | _ => true end) = true -> n_errors p = 1%nat.
Proof. unfold n_errors. destruct (p_cmd p); try reflexivity; discriminate. Qed.

(* disable-num-lines N covers exactly the N lines that follow *)
Lemma num_lines_covers p n line : p_cmd p = CNum n -> (covers p line = true <-> p_at p + 1 <= line <= p_at p + n).
Proof. intros E. unfold covers. rewrite E. rewrite andb_true_iff, !Z.leb_le. tauto. Qed.
Lemma next_line_covers p line : p_cmd p = CNext -> (covers p line = true <-> line = p_at p + 1).
Proof. intros E. unfold covers. rewrite E. apply Z.eqb_eq. Qed.
