From Coq Require Import List ZArith Bool Arith Lia Permutation Sorted.
Require Import PV.Base.Sort PV.Model.Replace.
Import ListNotations.
Local Open Scope Z_scope.

Section P.
Variable V : Type.
Notation dict := (dict V).
Notation lookup := (lookup V). Notation remove := (remove V). Notation set := (set V). Notation move := (move V).

Lemma lookup_remove x k (d : dict) : lookup x (remove k d) = if Z.eqb x k then None else lookup x d.
Proof.
  induction d as [|[k' v] r IH]; cbn [Replace.lookup Replace.remove]; [now destruct (Z.eqb x k)|].
  destruct (Z.eqb_spec k k') as [<-|N].
  - rewrite IH. destruct (Z.eqb_spec x k); reflexivity.
  - cbn [Replace.lookup]. rewrite IH. destruct (Z.eqb_spec x k) as [->|]; [|reflexivity].
    destruct (Z.eqb_spec k k'); [contradiction | reflexivity].
Qed.

Lemma lookup_set x k v (d : dict) : lookup x (set k v d) = if Z.eqb x k then Some v else lookup x d.
Proof. unfold Replace.set. cbn [Replace.lookup]. rewrite lookup_remove. destruct (Z.eqb x k); reflexivity. Qed.

Lemma lookup_move x k k' (d : dict) :
  lookup x (move d k k') =
  match lookup k d with
  | Some v => if Z.eqb x k' then Some v else if Z.eqb x k then None else lookup x d
  | None => lookup x d
  end.
Proof.
  unfold Replace.move. destruct (lookup k d) as [v|]; [|reflexivity].
  rewrite lookup_set, lookup_remove. reflexivity.
Qed.

Lemma lookup_in k (d : dict) : lookup k d <> None <-> In k (map fst d).
Proof.
  induction d as [|[k' v] r IH]; cbn [Replace.lookup map fst In]; [tauto|].
  destruct (Z.eqb_spec k k') as [->|N]; [split; [now left | discriminate]|].
  rewrite IH. split; [now right | intros [E|H]; [congruence | exact H]].
Qed.

Variables e delta : Z.
Notation T := (target e delta).
Notation step := (step V e delta).

Lemma step_sem x d k :
  lookup x (step d k) =
  if e <? k then match lookup k d with
                 | Some v => if Z.eqb x (k + delta) then Some v else if Z.eqb x k then None else lookup x d
                 | None => lookup x d end
  else lookup x d.
Proof. unfold Replace.step. destruct (e <? k); [apply lookup_move | reflexivity]. Qed.

(* the target of a key processed earlier is never a key processed later *)
Fixpoint fwd (o : list Z) : Prop := match o with [] => True | a :: r => (forall b, In b r -> T a <> b) /\ fwd r end.

Lemma T_moved k : e <? k = true -> T k = k + delta.
Proof. unfold target. now intros ->. Qed.
Lemma T_stay k : e <? k = false -> T k = k.
Proof. unfold target. now intros ->. Qed.

Lemma run_sem : forall o (d : dict),
  NoDup o -> (forall a b, In a o -> In b o -> T a = T b -> a = b) -> fwd o ->
  (forall k, In k o -> lookup k d <> None) ->
  (forall x, lookup x d <> None -> In x o \/ forall k, In k o -> T k <> x) ->
  forall x, lookup x (fold_left step o d) =
            match find (fun k => Z.eqb (T k) x) o with
            | Some k => lookup k d
            | None => if existsb (Z.eqb x) o then None else lookup x d
            end.
Proof.
  induction o as [|k r IH]; intros d ND Inj Fw Hk Hd x; [reflexivity|].
  cbn [fold_left find existsb]. inversion ND as [|? ? Nk NDr]; subst. destruct Fw as [Fk Fr].
  assert (Sk : forall y, y <> k -> y <> T k -> lookup y (step d k) = lookup y d).
  { intros y Y1 Y2. rewrite step_sem. destruct (e <? k) eqn:M; [|reflexivity]. rewrite (T_moved k M) in Y2.
    destruct (lookup k d); [|reflexivity]. destruct (Z.eqb_spec y (k + delta)); [contradiction|]. destruct (Z.eqb_spec y k); [contradiction | reflexivity]. }
  assert (STk : lookup (T k) (step d k) = lookup k d).
  { rewrite step_sem. destruct (e <? k) eqn:M.
    - rewrite (T_moved k M). destruct (lookup k d) eqn:L; [now rewrite Z.eqb_refl|]. exfalso. apply (Hk k); [now left | exact L].
    - rewrite (T_stay k M). reflexivity. }
  rewrite IH; try assumption.
  - (* the formula for r and step d k against the formula for k :: r and d *)
    destruct (Z.eqb_spec (T k) x) as [<-|NT].
    + assert (F : find (fun k0 => Z.eqb (T k0) (T k)) r = None).
      { destruct (find (fun k0 => Z.eqb (T k0) (T k)) r) as [k0|] eqn:E; [|reflexivity]. apply find_some in E as [I E]. apply Z.eqb_eq in E.
        exfalso. apply Nk. rewrite <- (Inj k0 k); [exact I | now right | now left | exact E]. }
      rewrite F. destruct (existsb (Z.eqb (T k)) r) eqn:X.
      * apply existsb_exists in X as (b & Ib & Eb). apply Z.eqb_eq in Eb. exfalso. apply (Fk b Ib). exact Eb.
      * exact STk.
    + destruct (find (fun k0 => Z.eqb (T k0) x) r) as [k0|] eqn:E.
      * apply find_some in E as [I _]. apply Sk; [intros ->; contradiction | intros ->; apply (Fk _ I); reflexivity].
      * destruct (Z.eqb_spec x k) as [->|Nx].
        -- cbn [orb]. destruct (existsb (Z.eqb k) r); [reflexivity|].
           rewrite step_sem. destruct (e <? k) eqn:M; [|exfalso; apply NT; now rewrite (T_stay k M)].
           rewrite (T_moved k M) in NT. destruct (lookup k d) eqn:L; [|reflexivity].
           destruct (Z.eqb_spec k (k + delta)); [exfalso; apply NT; congruence|]. now rewrite Z.eqb_refl.
        -- cbn [orb]. destruct (existsb (Z.eqb x) r); [reflexivity|]. apply Sk; [exact Nx | intros ->; apply NT; reflexivity].
  - intros a b Ia Ib. apply Inj; now right.
  - intros k0 I. rewrite Sk; [apply Hk; now right | intros ->; contradiction | intros ->; apply (Fk _ I); reflexivity].
  - intros y Hy. destruct (Z.eqb_spec y (T k)) as [->|NT].
    + right. intros k0 I E. apply Nk. rewrite <- (Inj k0 k); [exact I | now right | now left | exact E].
    + destruct (Z.eqb_spec y k) as [->|Ny].
      * (* k is still a key: it was not moved away, so T k = k - excluded *)
        exfalso. rewrite step_sem in Hy. destruct (e <? k) eqn:M; [|apply NT; now rewrite (T_stay k M)].
        rewrite (T_moved k M) in NT. destruct (lookup k d); [|now apply Hy].
        destruct (Z.eqb_spec k (k + delta)); [contradiction|]. rewrite Z.eqb_refl in Hy. now apply Hy.
      * rewrite Sk in Hy by assumption. destruct (Hd y Hy) as [[->|I]|H]; [contradiction | now left | right; intros k0 I; apply H; now right].
Qed.
End P.

(* ---- the order chosen by the loop makes every move land on a free line ---- *)
Lemma sort_ltb_sorted l : StronglySorted (fun a b => a <= b) (sort Z.ltb l).
Proof.
  assert (S := sort_sorted Z.ltb (fun a b H => proj2 (Z.ltb_ge b a) (Z.lt_le_incl _ _ (proj1 (Z.ltb_lt a b) H)))
                  (fun a b c H1 H2 => proj2 (Z.ltb_ge c a) (Z.le_trans _ _ _ (proj1 (Z.ltb_ge b a) H1) (proj1 (Z.ltb_ge c b) H2))) l).
  induction S as [|a r S IH F]; constructor; auto. eapply Forall_impl; [|exact F]. unfold le_rel. intros b H. now apply Z.ltb_ge in H.
Qed.

Lemma fwd_asc e delta : delta <= 0 -> forall o, StronglySorted (fun a b => a <= b) o -> NoDup o -> fwd e delta o.
Proof.
  intros D. induction o as [|a r IH]; intros S ND; cbn [fwd]; [exact I|].
  inversion S as [|? ? Sr Fa]; subst. inversion ND as [|? ? Na NDr]; subst. split; [|now apply IH].
  intros b Ib E. rewrite Forall_forall in Fa. specialize (Fa b Ib). assert (a <> b) by (intros ->; contradiction).
  unfold target in E. destruct (e <? a); lia.
Qed.

Lemma fwd_desc e delta : 0 < delta -> forall o, StronglySorted (fun a b => b <= a) o -> NoDup o -> fwd e delta o.
Proof.
  intros D. induction o as [|a r IH]; intros S ND; cbn [fwd]; [exact I|].
  inversion S as [|? ? Sr Fa]; subst. inversion ND as [|? ? Na NDr]; subst. split; [|now apply IH].
  intros b Ib E. rewrite Forall_forall in Fa. specialize (Fa b Ib). assert (a <> b) by (intros ->; contradiction).
  unfold target in E. destruct (e <? a); lia.
Qed.

Lemma sorted_rev (o : list Z) : StronglySorted (fun a b => a <= b) o -> StronglySorted (fun a b => b <= a) (rev o).
Proof.
  induction 1 as [|a r S IH F]; cbn [rev]; [constructor|].
  assert (G : forall l x, StronglySorted (fun a b => b <= a) l -> Forall (fun y => x <= y) l -> StronglySorted (fun a b => b <= a) (l ++ [x])).
  { induction l as [|y l' IHl]; intros x Sl Fl; cbn [app]; [repeat constructor|].
    inversion Sl as [|? ? Sl' Fy]; subst. inversion Fl as [|? ? Hy Fl']; subst. constructor; [now apply IHl|].
    apply Forall_app. split; [exact Fy | now constructor]. }
  apply G; [exact IH|]. apply Forall_rev. exact F.
Qed.

Section Q.
Variable V : Type.
Variables e delta : Z.

Lemma order_props (keys : list Z) : NoDup keys ->
  NoDup (order keys delta) /\ (forall k, In k (order keys delta) <-> In k keys) /\ fwd e delta (order keys delta).
Proof.
  intros ND. unfold order. assert (P := sort_perm Z.ltb keys). assert (NS : NoDup (sort Z.ltb keys)) by (eapply Permutation_NoDup; [apply Permutation_sym; exact P | exact ND]).
  destruct (Z.ltb_spec 0 delta).
  - repeat split.
    + now apply NoDup_rev.
    + intros H0. apply (proj1 (sort_In Z.ltb k keys)). apply (proj2 (in_rev _ k)). exact H0.
    + intros H0. apply (proj1 (in_rev _ k)). apply (proj2 (sort_In Z.ltb k keys)). exact H0.
    + apply fwd_desc; [assumption | apply sorted_rev, sort_ltb_sorted | now apply NoDup_rev].
  - repeat split; [exact NS | apply (sort_In Z.ltb) | apply (sort_In Z.ltb) | apply fwd_asc; [assumption | apply sort_ltb_sorted | exact NS]].
Qed.

Lemma lookup_spec (d : dict V) x : NoDup (map fst d) ->
  (forall a b, In a (map fst d) -> In b (map fst d) -> target e delta a = target e delta b -> a = b) ->
  lookup V x (shift_spec V d e delta) =
  match find (fun k => Z.eqb (target e delta k) x) (map fst d) with Some k => lookup V k d | None => None end.
Proof.
  induction d as [|[k v] r IH]; intros ND Inj; [reflexivity|]. cbn [shift_spec map fst snd Replace.lookup find].
  inversion ND as [|? ? Nk NDr]; subst. rewrite (Z.eqb_sym x). destruct (Z.eqb_spec (target e delta k) x) as [E|N].
  - now rewrite Z.eqb_refl.
  - fold (shift_spec V r e delta). rewrite IH; [|exact NDr | intros a b Ia Ib; apply Inj; now right].
    destruct (find (fun k0 => Z.eqb (target e delta k0) x) (map fst r)) as [k0|] eqn:F; [|reflexivity].
    apply find_some in F as [I _]. destruct (Z.eqb_spec k0 k) as [->|]; [contradiction | reflexivity].
Qed.

(* a find over a permutation of a list on which the predicate picks at most one element *)
Lemma find_perm (p : Z -> bool) (l1 l2 : list Z) : Permutation l1 l2 -> (forall a b, In a l1 -> In b l1 -> p a = true -> p b = true -> a = b) ->
  find p l1 = find p l2.
Proof.
  intros P U. destruct (find p l1) as [a|] eqn:F1; destruct (find p l2) as [b|] eqn:F2; try reflexivity.
  - apply find_some in F1 as [I1 P1]. apply find_some in F2 as [I2 P2]. f_equal. apply U; auto. eapply Permutation_in; [apply Permutation_sym; exact P | exact I2].
  - apply find_some in F1 as [I1 P1]. exfalso. eapply find_none in F2; [|eapply Permutation_in; [exact P | exact I1]]. congruence.
  - apply find_some in F2 as [I2 P2]. exfalso. eapply find_none in F1; [|eapply Permutation_in; [apply Permutation_sym; exact P | exact I2]]. congruence.
Qed.

Theorem shift_pragmas_exact_l (d : dict V) :
  NoDup (map fst d) ->
  (forall k, In k (map fst d) -> e < k -> e < k + delta) ->
  forall x, lookup V x (shift_pragmas V d e delta) = lookup V x (shift_spec V d e delta).
Proof.
  intros ND H x. set (keys := map fst d).
  assert (Inj : forall a b, In a keys -> In b keys -> target e delta a = target e delta b -> a = b).
  { intros a b Ia Ib E. unfold target in E. destruct (Z.ltb_spec e a), (Z.ltb_spec e b); try lia.
    - specialize (H a Ia). lia.
    - specialize (H b Ib). lia. }
  destruct (order_props keys ND) as (NDo & Io & Fo).
  unfold shift_pragmas. fold keys. rewrite (run_sem V e delta (order keys delta) d NDo).
  - rewrite (lookup_spec d x ND Inj). fold keys.
    assert (P : Permutation (order keys delta) keys).
    { unfold order. destruct (0 <? delta); [rewrite <- Permutation_rev|]; apply sort_perm. }
    rewrite (find_perm (fun k => Z.eqb (target e delta k) x) _ _ P).
    + destruct (find (fun k => Z.eqb (target e delta k) x) keys); [reflexivity|].
      destruct (existsb (Z.eqb x) (order keys delta)) eqn:X; [reflexivity|].
      destruct (lookup V x d) eqn:L; [|reflexivity]. exfalso.
      assert (I : In x keys) by (apply (lookup_in V); congruence).
      assert (X' : existsb (Z.eqb x) (order keys delta) = true) by (apply existsb_exists; exists x; split; [now apply Io | apply Z.eqb_refl]).
      congruence.
    + intros a b Ia Ib Pa Pb. apply Z.eqb_eq in Pa, Pb. apply Inj; [now apply Io | now apply Io | congruence].
  - intros a b Ia Ib. apply Inj; now apply Io.
  - exact Fo.
  - intros k Ik. apply (lookup_in V). now apply Io.
  - intros y Hy. left. apply Io. now apply (lookup_in V).
Qed.
End Q.

(* ---- the token list: everything outside the range is kept, in order ---- *)
Lemma replace_prefix_l toks si ei newt : (si <= length toks)%nat -> firstn si (replace_tokens toks si ei newt) = firstn si toks.
Proof.
  intros H. unfold replace_tokens. rewrite firstn_app. rewrite firstn_length, Nat.min_l by exact H. rewrite Nat.sub_diag, firstn_O, app_nil_r.
  apply firstn_all2. rewrite firstn_length. lia.
Qed.

Lemma replace_rest_l toks si ei newt : (si <= length toks)%nat ->
  skipn si (replace_tokens toks si ei newt) = newt ++ map (adjust (line_delta toks si ei newt)) (skipn (S ei) toks).
Proof.
  intros H. unfold replace_tokens. rewrite skipn_app. rewrite firstn_length, Nat.min_l by exact H. rewrite Nat.sub_diag, skipn_O.
  rewrite skipn_all2; [reflexivity|]. rewrite firstn_length. lia.
Qed.

Lemma adjust_id_l d t : t_id (adjust d t) = t_id t /\ t_end (adjust d t) = t_end t /\ t_line (adjust d t) = if Z.eqb (t_line t) 0 then 0 else t_line t + d.
Proof. unfold adjust. destruct (Z.eqb_spec (t_line t) 0) as [E|E]; repeat split; auto. Qed.

(* the order the loop used before the repair loses a pragma when lines are removed *)
Lemma desc_loses_l : exists d : dict nat,
  NoDup (map fst d) /\ (forall k, In k (map fst d) -> 4 < k -> 4 < k + -2) /\
  (length (shift_pragmas_desc nat d 4 (-2)) < length d)%nat.
Proof.
  exists [(7, 1%nat); (9, 2%nat)]. split; [repeat constructor; cbn; intuition lia|]. split; [cbn; intros k [<-|[<-|[]]]; lia|].
  vm_compute. lia.
Qed.

Lemma length_preserved_l : forall (V : Type) e delta (d : dict V), NoDup (map fst d) ->
  (forall k, In k (map fst d) -> e < k -> e < k + delta) ->
  forall k v, In (k, v) d -> lookup V (target e delta k) (shift_pragmas V d e delta) = Some v.
Proof.
  intros V e delta d ND H k v I. rewrite (shift_pragmas_exact_l V e delta d ND H).
  assert (Inj : forall a b, In a (map fst d) -> In b (map fst d) -> target e delta a = target e delta b -> a = b).
  { intros a b Ia Ib E. unfold target in E. destruct (Z.ltb_spec e a), (Z.ltb_spec e b); try lia.
    - specialize (H a Ia). lia.
    - specialize (H b Ib). lia. }
  rewrite (lookup_spec V e delta d _ ND Inj).
  assert (Ik : In k (map fst d)) by (apply in_map_iff; exists (k, v); auto).
  destruct (find (fun k0 => Z.eqb (target e delta k0) (target e delta k)) (map fst d)) as [k0|] eqn:F.
  - apply find_some in F as [I0 E0]. apply Z.eqb_eq in E0. rewrite (Inj k0 k I0 Ik E0).
    clear - ND I. induction d as [|[k' v'] r IH]; [destruct I|]. cbn [map fst] in ND. inversion ND as [|? ? Nk NDr]; subst.
    cbn [Replace.lookup]. destruct I as [[= -> ->]|I]; [now rewrite Z.eqb_refl|].
    destruct (Z.eqb_spec k k') as [->|]; [|now apply IH]. exfalso. apply Nk. apply in_map_iff. exists (k', v). auto.
  - exfalso. eapply find_none in F; [|exact Ik]. now rewrite Z.eqb_refl in F.
Qed.
