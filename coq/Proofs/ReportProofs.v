From Coq Require Import List ZArith Bool Lia Permutation Sorted.
Require Import PV.Base.Str PV.Base.StrOrder PV.Base.Sort PV.Gen.FailureLt PV.Model.Report.
Import ListNotations.
Local Open Scope Z_scope.

Lemma failure_ltb_is_key_ltb a b : failure_ltb a b = key_ltb a b.
Proof.
  unfold failure_ltb, key_ltb.
  destruct (Z.eqb_spec (f_line a) (f_line b)) as [E|E]; cbn [negb].
  - rewrite E, Z.ltb_irrefl. cbn [orb andb].
    destruct (Z.eqb_spec (f_col a) (f_col b)) as [E2|E2]; cbn [negb].
    + rewrite E2, Z.ltb_irrefl. reflexivity.
    + now rewrite orb_false_r.
  - now rewrite orb_false_r.
Qed.

Lemma key_ltb_irrefl a : key_ltb a a = false.
Proof. unfold key_ltb. rewrite !Z.ltb_irrefl, !Z.eqb_refl, str_ltb_irrefl. reflexivity. Qed.

Ltac zb := repeat match goal with
  | |- context [Z.ltb ?x ?y] => destruct (Z.ltb_spec x y)
  | |- context [Z.eqb ?x ?y] => destruct (Z.eqb_spec x y)
  | H : context [Z.ltb ?x ?y] |- _ => destruct (Z.ltb_spec x y)
  | H : context [Z.eqb ?x ?y] |- _ => destruct (Z.eqb_spec x y)
  end; cbn [orb andb negb] in *.

Lemma key_ltb_asym a b : key_ltb a b = true -> key_ltb b a = false.
Proof.
  unfold key_ltb. intros H. zb; try lia; try congruence; try reflexivity.
  now apply str_ltb_asym.
Qed.

Lemma key_ltb_trans a b c : key_ltb a b = true -> key_ltb b c = true -> key_ltb a c = true.
Proof.
  unfold key_ltb. intros H1 H2. zb; try lia; try congruence; try reflexivity.
  eapply str_ltb_trans; eauto.
Qed.

Lemma key_le_trans a b c : key_ltb b a = false -> key_ltb c b = false -> key_ltb c a = false.
Proof.
  unfold key_ltb. intros H1 H2. zb; try lia; try congruence; try reflexivity.
  eapply str_le_trans; eauto.
Qed.

Lemma key_total a b : same_key a b \/ key_ltb a b = true \/ key_ltb b a = true.
Proof.
  unfold key_ltb, same_key. zb; try lia; auto.
  destruct (str_ltb_total (f_rid a) (f_rid b)) as [E|[E|E]]; auto.
Qed.

Lemma flt_asym a b : failure_ltb a b = true -> failure_ltb b a = false.
Proof. rewrite !failure_ltb_is_key_ltb. apply key_ltb_asym. Qed.
Lemma flt_le_trans a b c : failure_ltb b a = false -> failure_ltb c b = false -> failure_ltb c a = false.
Proof. rewrite !failure_ltb_is_key_ltb. apply key_le_trans. Qed.

Lemma sorted_failures_sorted rs : StronglySorted key_le (sorted_failures rs).
Proof.
  unfold sorted_failures.
  pose proof (sort_sorted failure_ltb flt_asym flt_le_trans rs) as S.
  induction S as [|a l S IH F]; constructor; auto.
  rewrite Forall_forall in *. intros x Hx. specialize (F x Hx). unfold le_rel in F. unfold key_le.
  now rewrite <- failure_ltb_is_key_ltb.
Qed.

Lemma filter_sorted {A} (R : A -> A -> Prop) (p : A -> bool) l : StronglySorted R l -> StronglySorted R (filter p l).
Proof.
  induction 1 as [|a l S IH F]; cbn [filter]; [constructor|].
  destruct (p a); auto. constructor; auto.
  rewrite Forall_forall in *. intros x Hx. apply filter_In in Hx as [Hx _]. auto.
Qed.

Lemma printed_sorted_l supp rs : StronglySorted key_le (printed supp rs).
Proof. unfold printed. apply filter_sorted, sorted_failures_sorted. Qed.

Lemma filter_perm {A} (p : A -> bool) l l' : Permutation l l' -> Permutation (filter p l) (filter p l').
Proof.
  induction 1; cbn [filter].
  - constructor.
  - destruct (p x); auto.
  - destruct (p x), (p y); auto. apply perm_swap.
  - etransitivity; eauto.
Qed.

Lemma printed_once_l supp rs : Permutation (printed supp rs) (filter (fun f => negb (supp f)) rs).
Proof. unfold printed, sorted_failures. apply filter_perm, sort_perm. Qed.

Lemma printed_length_l supp rs : length (printed supp rs) = length (filter (fun f => negb (supp f)) rs).
Proof. apply Permutation_length, printed_once_l. Qed.

Lemma printed_nothing_suppressed_l rs : Permutation (printed (fun _ => false) rs) rs.
Proof.
  etransitivity; [apply printed_once_l|]. cbn [negb].
  assert (forall l : list failure, filter (fun _ => true) l = l) as ->; [|reflexivity].
  induction l as [|x l IH]; cbn [filter]; congruence.
Qed.

(* the order in which rules happened to report does not matter, as long as no two collected
   failures share (line, column, rule id) *)
Definition keys_distinct (rs : list failure) : Prop :=
  forall a b, In a rs -> In b rs -> same_key a b -> a = b.

Lemma printed_perm_invariant_l supp rs rs' :
  NoDup rs -> keys_distinct rs -> Permutation rs rs' -> printed supp rs = printed supp rs'.
Proof.
  intros N K P. unfold printed, sorted_failures. f_equal.
  apply sort_perm_invariant; auto; try exact flt_asym; try exact flt_le_trans.
  intros a b Ha Hb. rewrite !failure_ltb_is_key_ltb.
  destruct (key_total a b) as [S|[L|L]]; auto.
Qed.

(* a report made with non-negative deltas relative to a token whose own position is in range, and that
   stays on the token's line within the line, is in range *)
Lemma token_report_in_range_l lens tl tc dc :
  in_range lens (tl, tc) -> 0 <= dc -> tc + dc <= nth (Z.to_nat (tl - 1)) lens 0 + 1 ->
  in_range lens (token_report_pos tl tc 0 dc).
Proof.
  unfold in_range, token_report_pos. intros [Hl Hc] Hd Hb.
  destruct (Z.leb_spec 0 dc); [|lia]. replace (tl + 0) with tl by lia. lia.
Qed.

Lemma token_report_absolute_col_l tl tc dl dc : dc < 0 -> token_report_pos tl tc dl dc = (tl + dl, - dc).
Proof. unfold token_report_pos. intros H. destruct (Z.leb_spec 0 dc); [lia|reflexivity]. Qed.

Lemma line_report_pos_l cur col : line_report_pos cur col 0 = (cur, col).
Proof. unfold line_report_pos. f_equal. lia. Qed.
