From Coq Require Import List NArith Bool Arith Lia.
Require Import PV.Spec.CMBlock PV.Spec.RuleSpec.
Import ListNotations.

Lemma lnums_in ls ln : In ln (lnums ls) <-> 1 <= ln <= length ls.
Proof. unfold lnums. rewrite in_seq. lia. Qed.

(* MD013: a line is reported exactly when it is longer than the limit of its category and (unless strict) has a space past it *)
Lemma md013_exact_l c ls lvs ln :
  In ln (must (md013 c ls lvs)) <->
  1 <= ln <= length ls /\ exists n, limit13 c lvs ln = Some n /\ n < length (line_at ls ln) /\
    (strict13 c = true \/ existsb is_sp (dropn n (line_at ls ln)) = true).
Proof.
  unfold md013, only. cbn [must]. rewrite filter_In, lnums_in. split.
  - intros [H1 H2]. split; [exact H1|]. destruct (limit13 c lvs ln) as [n|]; [|discriminate]. exists n. split; [reflexivity|].
    apply andb_prop in H2 as [A B]. apply Nat.ltb_lt in A. split; [exact A|]. apply orb_prop in B. exact B.
  - intros [H1 (n & E & A & B)]. split; [exact H1|]. rewrite E. apply andb_true_intro. split; [now apply Nat.ltb_lt|]. now apply orb_true_iff.
Qed.

(* a switched-off category is never reported *)
Lemma md013_off_l c ls lvs ln : limit13 c lvs ln = None -> ~ In ln (must (md013 c ls lvs)).
Proof. intros E H. apply md013_exact_l in H as [_ (n & E' & _)]. congruence. Qed.

(* in strict mode raising the three limits never adds a report *)
Lemma md013_strict_monotone_l c c' ls lvs ln :
  strict13 c = true -> strict13 c' = true -> code_on c' = code_on c -> head_on c' = head_on c ->
  line_length c <= line_length c' -> code_len c <= code_len c' -> head_len c <= head_len c' ->
  In ln (must (md013 c' ls lvs)) -> In ln (must (md013 c ls lvs)).
Proof.
  intros S S' Co Ho L1 L2 L3 H. apply md013_exact_l in H as [R (n' & E' & A' & _)]. apply md013_exact_l. split; [exact R|].
  unfold limit13 in *. destruct (leaf_at lvs ln) as [l|].
  - destruct (is_code l).
    + rewrite Co in E'. destruct (code_on c); [|discriminate]. injection E' as <-. exists (code_len c). repeat split; auto; lia.
    + destruct (is_head l).
      * rewrite Ho in E'. destruct (head_on c); [|discriminate]. injection E' as <-. exists (head_len c). repeat split; auto; lia.
      * injection E' as <-. exists (line_length c). repeat split; auto; lia.
  - injection E' as <-. exists (line_length c). repeat split; auto; lia.
Qed.

(* MD010: every line with a tab; with code_blocks off, never a line of a code block *)
Lemma md010_exact_l ls lvs ln :
  In ln (must (md010 true ls lvs)) <-> 1 <= ln <= length ls /\ has_tab_c (line_at ls ln) = true.
Proof. unfold md010, only. cbn [must]. rewrite filter_In, lnums_in. tauto. Qed.

Lemma md010_code_exempt_l ls lvs ln l :
  leaf_at lvs ln = Some l -> is_code l = true -> ~ In ln (must (md010 false ls lvs)) /\
  (In ln (open_ (md010 false ls lvs)) -> is_fenced l = true /\ (ln = lsl l \/ ln = lel l)).
Proof.
  intros E C. unfold md010. cbn [must open_]. rewrite !filter_In, E, C. cbn [negb]. split.
  - intros [_ H]. discriminate.
  - intros [_ H]. unfold is_fenced. destruct (lb l) as [? ?|? ? ?|? ? ?|? ? cs]; try discriminate. destruct cs as [|? ? ? ? closed]; try discriminate.
    split; [reflexivity|]. apply orb_prop in H as [H|H]; [left; apply Nat.eqb_eq in H; exact H|].
    apply andb_prop in H as [_ H]. right; apply Nat.eqb_eq in H; exact H.
Qed.

Lemma md010_outside_code_l ls lvs ln :
  (forall l, leaf_at lvs ln = Some l -> is_code l = false) ->
  (In ln (must (md010 false ls lvs)) <-> 1 <= ln <= length ls /\ has_tab_c (line_at ls ln) = true).
Proof.
  intros H. unfold md010. cbn [must]. rewrite !filter_In, lnums_in.
  destruct (leaf_at lvs ln) as [l|] eqn:E; [rewrite (H l eq_refl)|]; cbn [negb]; tauto.
Qed.

(* MD009: exactly the lines outside code blocks whose number of trailing spaces is positive and (unless strict) not br_spaces *)
Lemma md009_exact_l c ls lvs ln :
  In ln (must (md009 c ls lvs)) <->
  1 <= ln <= length ls /\ 1 <= trailing_sp (line_at ls ln) /\
  (forall l, leaf_at lvs ln = Some l -> is_code l = false) /\
  (strict9 c = true \/ trailing_sp (line_at ls ln) <> br_spaces c).
Proof.
  unfold md009, only. cbn [must]. rewrite filter_In, lnums_in. split.
  - intros [H1 H2]. apply andb_prop in H2 as [H2 C]. apply andb_prop in H2 as [A B]. apply Nat.leb_le in A.
    repeat split; try lia.
    + intros l E. rewrite E in B. now apply negb_true_iff in B.
    + apply orb_prop in C as [C|C]; [now left|right]. apply negb_true_iff, Nat.eqb_neq in C. exact C.
  - intros (H1 & A & B & C). split; [exact H1|]. apply andb_true_intro. split; [apply andb_true_intro; split|].
    + now apply Nat.leb_le.
    + destruct (leaf_at lvs ln) as [l|]; [|reflexivity]. now rewrite (B l eq_refl).
    + apply orb_true_iff. destruct C as [C|C]; [now left|right]. now apply negb_true_iff, Nat.eqb_neq.
Qed.

(* MD012: every report is at a blank line of the document, the last line of a run of more than `maxb` blank lines *)
Lemma runs12_blank : forall maxb (blank marker : nat -> bool) lns run ln,
  (forall x, In x run -> blank x = true) -> In ln (fst (runs12 maxb blank marker lns run)) ->
  blank ln = true /\ (In ln run \/ In ln lns).
Proof.
  intros maxb blank marker.
  assert (C : forall run ln, (forall x, In x run -> blank x = true) ->
     In ln (fst (match run with [] => ([], []) | last :: _ => if existsb marker run then ([], run) else if maxb <? length run then ([last], []) else ([], []) end)) ->
     blank ln = true /\ In ln run).
  { intros run ln Hr H. destruct run as [|last r]; [destruct H|]. destruct (existsb marker (last :: r)); [destruct H|].
    destruct (maxb <? length (last :: r)); [|destruct H]. destruct H as [<-|[]]. split; [apply Hr; now left | now left]. }
  induction lns as [|x r IH]; intros run ln Hr H; cbn [runs12] in H.
  - destruct (C run ln Hr H) as [A B]. split; [exact A | now left].
  - destruct (blank x) eqn:B.
    + destruct (IH (x :: run) ln) as [A [D|D]]; [intros y [<-|Hy]; [exact B | now apply Hr] | exact H | |].
      * split; [exact A|]. destruct D as [<-|D]; [right; now left | now left].
      * split; [exact A | right; now right].
    + set (cl := match run with [] => ([], []) | last :: _ => if existsb marker run then ([], run) else if maxb <? length run then ([last], []) else ([], []) end) in *.
      destruct cl as [m o] eqn:E. destruct (runs12 maxb blank marker r []) as [m' o'] eqn:E'. cbn [fst] in H.
      apply in_app_or in H as [H|H].
      * destruct (C run ln Hr) as [A D]; [fold cl; rewrite E; exact H|]. split; [exact A | now left].
      * destruct (IH [] ln) as [A [[]|D]]; [intros y [] | rewrite E'; exact H|]. split; [exact A | right; now right].
Qed.

Lemma md012_blank_l maxb ls lvs tic nl ln : In ln (must (md012 maxb ls lvs tic nl)) -> blank_at lvs ln = true /\ 1 <= ln <= length ls.
Proof.
  unfold md012. cbv zeta.
  match goal with |- In ln (must (let '(m, o) := runs12 _ ?b ?mk _ _ in _)) -> _ => set (blank := b); set (marker := mk) end.
  destruct (runs12 maxb blank marker (lnums ls) []) as [m o] eqn:E. cbn [must]. intros H.
  destruct (runs12_blank maxb blank marker (lnums ls) [] ln) as [A [[]|D]]; [intros y [] | rewrite E; exact H|].
  split; [|now apply lnums_in]. unfold blank in A. cbv beta in A. now apply andb_prop in A as [A _].
Qed.

(* MD047: no report when the text ends with a newline; a report at the last line when it ends with a character that is not white space *)
Lemma md047_newline_l (ps : list str) (r : list str) : rev ps = [] :: r -> must (md047 ps) = [] /\ open_ (md047 ps) = [].
Proof. intros H. unfold md047. rewrite H. cbn. split; reflexivity. Qed.

Lemma md047_missing_l (ps : list str) (l : str) (r : list str) : rev ps = l :: r -> is_blank l = false -> must (md047 ps) = [length ps].
Proof.
  intros H B. unfold md047. rewrite H. destruct l as [|c l']; [discriminate|]. cbn [is_nil]. rewrite B, andb_false_r. reflexivity.
Qed.

(* MD001: a report is at a heading of level at least 3, or at a heading after another one *)
Lemma md001_go_in : forall hs prev ln, In ln (md001_go prev hs) -> exists h, In h hs /\ h_line h = ln /\ 2 <= h_lvl h.
Proof.
  induction hs as [|h r IH]; intros prev ln H; cbn [md001_go] in H; [destruct H|].
  apply in_app_or in H as [H|H].
  - destruct prev as [p|]; [|destruct H]. destruct (Nat.ltb_spec (S p) (h_lvl h)); [|destruct H]. destruct H as [<-|[]].
    exists h. repeat split; [now left | lia].
  - destruct (IH _ _ H) as (h' & A & B & C). exists h'. repeat split; auto. now right.
Qed.

(* MD001 on two headings: reported iff the second is more than one level deeper *)
Lemma md001_two_l h1 h2 : md001_go None [h1; h2] = if S (h_lvl h1) <? h_lvl h2 then [h_line h2] else [].
Proof. cbn [md001_go app]. destruct (S (h_lvl h1) <? h_lvl h2); reflexivity. Qed.

(* MD004 with a fixed style: exactly the unordered lists whose marker is another character, at their first line *)
Lemma md004_fixed_exact_l c lsts ln :
  In ln (must (md004 (K4Fixed c) lsts)) <-> exists l, In l lsts /\ l_ord l = false /\ l_delim l <> c /\ l_sl l = ln.
Proof.
  unfold md004, only. cbn [must]. rewrite in_flat_map. split.
  - intros (l & Il & H). apply filter_In in Il as [Il Ho]. apply negb_true_iff in Ho.
    destruct (N.eqb_spec (l_delim l) c) as [E|N]; [destruct H|]. destruct H as [<-|[]]. exists l. auto.
  - intros (l & Il & Ho & N & <-). exists l. split; [apply filter_In; split; [exact Il | now rewrite Ho]|].
    destruct (N.eqb_spec (l_delim l) c); [contradiction | now left].
Qed.

(* MD004 consistent: nothing is reported when every unordered list uses the marker of the first one *)
Lemma md004_consistent_quiet_l lsts c :
  (forall l, In l lsts -> l_ord l = false -> l_delim l = c) -> must (md004 K4Consistent lsts) = [].
Proof.
  intros H. unfold md004. destruct (filter (fun l => negb (l_ord l)) lsts) as [|l0 r] eqn:F; [reflexivity|].
  unfold only. cbn [must].
  assert (A : forall l, In l (l0 :: r) -> l_delim l = c).
  { intros l Il. rewrite <- F in Il. apply filter_In in Il as [Il Ho]. apply H; [exact Il | now apply negb_true_iff in Ho]. }
  assert (E0 : l_delim l0 = c) by (apply A; now left).
  assert (Ar : forall l, In l r -> l_delim l = c) by (intros l Il; apply A; now right).
  rewrite E0. clear F A E0 H. induction r as [|x r IH]; [reflexivity|]. cbn [flat_map].
  rewrite (Ar x (or_introl eq_refl)), N.eqb_refl. cbn [app]. apply IH. intros l Il. apply Ar. now right.
Qed.


(* MD032 says something (must or open) only about the first line of a list that is not directly inside a list item *)
Lemma md032_per_only ls lvs l x : In x (fst (md032_per ls lvs l)) \/ In x (snd (md032_per ls lvs l)) -> in_item l = false /\ x = l_sl l.
Proof.
  unfold md032_per. destruct (in_item l); [cbn; tauto|].
  destruct (md032_side ls lvs l (l_sl l - 1)) as [m1 o1]. destruct (md032_side ls lvs l (S (l_el l))) as [m2 o2].
  destruct (blank_at lvs (l_el l)); cbn [fst snd]; intros [H|H];
    match type of H with In _ (if ?b then _ else _) => destruct b end; cbn in H; try tauto; destruct H as [<-|[]]; auto.
Qed.

Lemma md032_at_lists_l ls lvs lsts ln :
  In ln (must (md032 ls lvs lsts)) \/ In ln (open_ (md032 ls lvs lsts)) -> exists l, In l lsts /\ in_item l = false /\ l_sl l = ln.
Proof.
  unfold md032. cbn [must open_]. intros [H|H]; apply in_flat_map in H as (p & Ip & Hp); apply in_map_iff in Ip as (l & <- & Il);
    exists l; (split; [exact Il|]); [destruct (md032_per_only ls lvs l ln (or_introl Hp)) | destruct (md032_per_only ls lvs l ln (or_intror Hp))]; auto.
Qed.
