From Coq Require Import List NArith Bool ZArith Lia.
Require Import PV.Gen.ReturnCodes PV.Gen.DocReturnCodes PV.Gen.FinalCategory PV.Model.Runner.
Import ListNotations.

Lemma code_eq_doc : forall s r, code s r = doc s r.
Proof. intros [] []; reflexivity. Qed.

Lemma code_total : forall s r, exists z, code s r = Some z.
Proof. intros [] []; eexists; reflexivity. Qed.

Lemma code_documented_values :
  code SchemeDefault SUCCESS = Some 0%Z /\ code SchemeMinimal SUCCESS = Some 0%Z /\
  code SchemeDefault NO_FILES_TO_SCAN = Some 1%Z /\ code SchemeMinimal NO_FILES_TO_SCAN = Some 0%Z /\
  code SchemeDefault COMMAND_LINE_ERROR = Some 2%Z /\ code SchemeMinimal COMMAND_LINE_ERROR = Some 2%Z /\
  code SchemeDefault FIXED_AT_LEAST_ONE_FILE = Some 3%Z /\ code SchemeMinimal FIXED_AT_LEAST_ONE_FILE = Some 0%Z /\
  code SchemeDefault SCAN_TRIGGERED_AT_LEAST_ONCE = Some 1%Z /\ code SchemeMinimal SCAN_TRIGGERED_AT_LEAST_ONCE = Some 0%Z /\
  code SchemeDefault SYSTEM_ERROR = Some 1%Z /\ code SchemeMinimal SYSTEM_ERROR = Some 1%Z.
Proof. repeat split; reflexivity. Qed.

(* generalised statement about the loop from an arbitrary state *)
Definition cat_of (s : st) : app_result := final_category false (did_fail s) (did_fix s) (nfailures s).

Definition spec_from (m : mode) (coe : bool) (s : st) (fs : list (N * outcome)) : app_result :=
  let p := map snd (processed coe fs) in
  if did_fail s || existsb is_err p then SYSTEM_ERROR
  else if did_fix s || existsb (o_fixed m) p then FIXED_AT_LEAST_ONE_FILE
  else if negb (N.eqb (nfailures s) 0) || existsb (o_trig m) p then SCAN_TRIGGERED_AT_LEAST_ONCE
  else SUCCESS.

Definition res_cat (r : st + list event) : app_result :=
  match r with inl s => cat_of s | inr _ => SYSTEM_ERROR end.

Lemma neqb_add (a b : N) : negb (N.eqb (a + b) 0) = negb (N.eqb a 0) || negb (N.eqb b 0).
Proof.
  destruct (N.eqb_spec a 0), (N.eqb_spec b 0), (N.eqb_spec (a+b) 0); simpl; try reflexivity; lia.
Qed.

Lemma loop_spec : forall m coe fs s, res_cat (loop m coe s fs) = spec_from m coe s fs.
Proof.
  intros m coe fs; induction fs as [|[f o] r IH]; intros s.
  - cbn [loop res_cat processed map existsb]. unfold spec_from, cat_of, final_category.
    cbn [processed map existsb]. rewrite !orb_false_r.
    destruct (did_fail s), (did_fix s), (N.eqb (nfailures s) 0); reflexivity.
  - cbn [loop]. destruct o as [n fx|n| |]; cbn [step].
    + rewrite IH. unfold spec_from; cbn [processed snd aborts map existsb is_err o_fixed o_trig did_fail did_fix nfailures].
      rewrite neqb_add. cbn [orb].
      destruct (did_fail s), (did_fix s), (eff_fixed m fx), (negb (N.eqb (nfailures s) 0)),
        (negb (N.eqb (eff_nfail m n) 0)), (existsb is_err (map snd (processed coe r))),
        (existsb (o_fixed m) (map snd (processed coe r))), (existsb (o_trig m) (map snd (processed coe r))); reflexivity.
    + destruct coe.
      * rewrite IH. unfold spec_from; cbn [processed snd aborts negb map existsb is_err did_fail did_fix nfailures].
        rewrite !orb_true_r. reflexivity.
      * unfold spec_from; cbn [processed snd aborts negb map existsb is_err res_cat].
        rewrite !orb_true_r. reflexivity.
    + destruct coe.
      * rewrite IH. unfold spec_from; cbn [processed snd aborts negb map existsb is_err did_fail did_fix nfailures].
        rewrite !orb_true_r. reflexivity.
      * unfold spec_from; cbn [processed snd aborts negb map existsb is_err res_cat].
        rewrite !orb_true_r. reflexivity.
    + unfold spec_from; cbn [processed snd aborts negb map existsb is_err res_cat].
      rewrite !orb_true_r. reflexivity.
Qed.

Lemma category_is_spec : forall m coe fs, category m coe fs = spec_category m coe fs.
Proof.
  intros. unfold category, run. pose proof (loop_spec m coe fs st0) as H.
  unfold spec_from in H; cbn [st0 did_fail did_fix nfailures orb N.eqb negb] in H.
  unfold spec_category. rewrite <- H. destruct (loop m coe st0 fs); reflexivity.
Qed.

Lemma error_never_masked_l : forall m coe fs,
  existsb is_err (map snd (processed coe fs)) = true -> category m coe fs = SYSTEM_ERROR.
Proof. intros. rewrite category_is_spec. unfold spec_category. cbv zeta. rewrite H. reflexivity. Qed.

Lemma system_error_only_from_error : forall m coe fs,
  category m coe fs = SYSTEM_ERROR -> existsb is_err (map snd (processed coe fs)) = true.
Proof.
  intros m coe fs. rewrite category_is_spec. unfold spec_category. cbv zeta.
  destruct (existsb is_err _); [reflexivity|].
  destruct (existsb (o_fixed m) _); [discriminate|]. destruct (existsb (o_trig m) _); discriminate.
Qed.

Lemma exit_code_is_table : forall sc m coe fs, exit_code sc m coe fs = doc sc (spec_category m coe fs).
Proof. intros. unfold exit_code. rewrite category_is_spec. apply code_eq_doc. Qed.

(* --- continue-on-error: every other file is processed as if the failing one were absent --- *)
Definition recoverable (o : outcome) : bool := match o with DecodeErr => false | _ => true end.

Lemma loop_coe_out : forall m fs s, forallb recoverable (map snd fs) = true ->
  exists s', loop m true s fs = inl s' /\ out s' = out s ++ flat_map (file_events m) fs.
Proof.
  intros m fs; induction fs as [|[f o] r IH]; intros s H.
  - exists s. split; [reflexivity|]. simpl. now rewrite app_nil_r.
  - cbn [map snd forallb] in H. apply andb_prop in H as [Ho Hr].
    cbn [loop]. destruct o as [n fx|n| |]; try discriminate; cbn [step];
    match goal with |- exists s', loop _ _ ?s1 _ = _ /\ _ =>
      destruct (IH s1 Hr) as (s' & -> & E); exists s'; split; [reflexivity|]; rewrite E;
      cbn [out flat_map file_events]; rewrite <- ?app_assoc; reflexivity end.
Qed.

Lemma coe_outputs_concat : forall m fs, forallb recoverable (map snd fs) = true ->
  outputs m true fs = flat_map (file_events m) fs.
Proof.
  intros m fs H. unfold outputs, run. destruct (loop_coe_out m fs st0 H) as (s' & -> & E).
  simpl. exact E.
Qed.


Lemma coe_others_unaffected_l : forall m pre x post,
  forallb recoverable (map snd (pre ++ x :: post)) = true ->
  exists a b, outputs m true (pre ++ post) = a ++ b /\
              outputs m true (pre ++ x :: post) = a ++ file_events m x ++ b.
Proof.
  intros m pre x post H.
  assert (H2 : forallb recoverable (map snd (pre ++ post)) = true).
  { rewrite map_app, forallb_app in *. cbn [map forallb] in H.
    apply andb_prop in H as [A B]. apply andb_prop in B as [_ B]. now rewrite A, B. }
  rewrite (coe_outputs_concat _ _ H), (coe_outputs_concat _ _ H2).
  exists (flat_map (file_events m) pre), (flat_map (file_events m) post).
  rewrite !flat_map_app. cbn [flat_map]. split; reflexivity.
Qed.

(* without continue-on-error nothing after the first failing file is touched *)
Lemma processed_firstn : forall coe fs, exists k, processed coe fs = firstn k fs.
Proof.
  intros coe fs; induction fs as [|f r [k IH]].
  - exists 0%nat. reflexivity.
  - cbn [processed]. destruct (aborts coe (snd f)).
    + exists 1%nat. reflexivity.
    + exists (S k). cbn [firstn]. now rewrite IH.
Qed.

Lemma loop_processed : forall m coe fs s, loop m coe s fs = loop m coe s (processed coe fs).
Proof.
  intros m coe fs; induction fs as [|[f o] r IH]; intros s; [reflexivity|].
  cbn [processed snd]. destruct (aborts coe o) eqn:A.
  - cbn [loop]. destruct o as [n fx|n| |]; cbn [aborts] in A; try discriminate; cbn [step];
      try (destruct coe; [discriminate|reflexivity]); reflexivity.
  - cbn [loop]. destruct (step m coe s (f, o)); [apply IH|reflexivity].
Qed.

Lemma run_processed : forall m coe fs, run m coe fs = run m coe (processed coe fs).
Proof. intros. unfold run. now rewrite loop_processed. Qed.

(* an error is reported: some event carries the error, and (except for the two main()-level
   messages) names the failing file *)
Definition is_error_event (e : event) : bool :=
  match e with EShortError _ | ELongError _ | EUnexpected | EConfigError => true | _ => false end.

Lemma loop_out_mono : forall m coe fs s, 
  match loop m coe s fs with inl s' => exists t, out s' = out s ++ t | inr o => exists t, o = out s ++ t end.
Proof.
  intros m coe fs; induction fs as [|[f o] r IH]; intros s.
  - exists []. now rewrite app_nil_r.
  - cbn [loop]. destruct (step m coe s (f,o)) as [s1|o1] eqn:E.
    + assert (exists t, out s1 = out s ++ t) as [t1 Ht].
      { destruct o as [n fx|n| |]; cbn [step] in E; try destruct coe; inversion E; cbn [out]; eexists; reflexivity. }
      specialize (IH s1). destruct (loop m coe s1 r); destruct IH as [t2 ->]; rewrite Ht, <- app_assoc; eexists; reflexivity.
    + destruct o as [n fx|n| |]; cbn [step] in E; try destruct coe; inversion E; eexists; reflexivity.
Qed.

(* exits taken before the scheme is known return a code that does not depend on the scheme *)
Lemma early_exit_scheme_insensitive_l : forall p asked,
  scheme_known p = false -> path_exit asked p = doc asked (path_category p).
Proof. intros [] []; simpl; intros; try discriminate; reflexivity. Qed.

Lemma path_exit_is_table_l : forall asked p, path_exit asked p = doc asked (path_category p).
Proof.
  intros asked p. destruct (scheme_known p) eqn:K.
  - unfold path_exit. rewrite K. apply code_eq_doc.
  - now apply early_exit_scheme_insensitive_l.
Qed.

Lemma stdin_error_not_masked_l : forall coe o, is_err o = true -> path_category (PStdin coe o) = SYSTEM_ERROR.
Proof.
  intros coe o H. cbn [path_category]. apply error_never_masked_l.
  cbn [processed snd]. destruct (aborts coe o); cbn [map snd existsb]; rewrite H; reflexivity.
Qed.
