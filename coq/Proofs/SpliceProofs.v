From Coq Require Import List ZArith NArith Bool Arith Lia.
Require Import PV.Base.Str PV.Model.Splice.
Import ListNotations.
Local Open Scope Z_scope.

Section P.
Variable isp : str -> bool.
Variable alt : str -> bool.
Notation strip_from := (strip_from isp alt).

(* keys produced from line n on are >= n and strictly increasing *)
Lemma strip_keys : forall d n ls ps, strip_from n d = (ls, ps) -> Forall (fun kp => n <= Z.abs (fst kp)) ps.
Proof.
  induction d as [|l r IH]; intros n ls ps H; cbn [Splice.strip_from] in H.
  - injection H as <- <-. constructor.
  - destruct (Splice.strip_from isp alt (n + 1) r) as [ls' ps'] eqn:E. specialize (IH _ _ _ E).
    destruct (isp l); injection H as <- <-.
    + constructor; [cbn [fst]; destruct (alt l); lia|]. eapply Forall_impl; [|exact IH]. cbn. intros; lia.
    + eapply Forall_impl; [|exact IH]. cbn. intros; lia.
Qed.

Lemma strip_sorted : forall d n ls ps, 0 <= n -> strip_from n d = (ls, ps) -> sort_keys ps = ps.
Proof.
  induction d as [|l r IH]; intros n ls ps Hn H; cbn [Splice.strip_from] in H.
  - injection H as <- <-. reflexivity.
  - destruct (Splice.strip_from isp alt (n + 1) r) as [ls' ps'] eqn:E.
    pose proof (IH (n + 1) _ _ ltac:(lia) E) as S. pose proof (strip_keys _ _ _ _ E) as K.
    destruct (isp l); injection H as <- <-; [|exact S].
    cbn [sort_keys fold_right]. fold (sort_keys ps'). rewrite S.
    destruct ps' as [|[k q] ps'']; [reflexivity|]. cbn [insert_sorted fst].
    inversion K as [|? ? Hk _]; subst. cbn [fst] in Hk. destruct (Z.ltb_spec (Z.abs k) (Z.abs (if alt l then - n else n))); [destruct (alt l); lia|reflexivity].
Qed.

Lemma insert_line_cons k p x l : insert_line (S k) p (x :: l) = x :: insert_line k p l.
Proof. reflexivity. Qed.

(* the state while re-inserting: the lines [x1..xm] already in place in front, then what is left *)
Lemma reinsert_tail : forall d n (pre : list str) ls ps,
  strip_from n d = (ls, ps) -> Z.of_nat (length pre) = n - 1 -> 1 <= n -> (pre = [] -> ls <> [[]]) ->
  fold_left reinsert1 ps (pre ++ ls) = pre ++ d.
Proof.
  induction d as [|l r IH]; intros n pre ls ps H Hlen Hn NE; cbn [Splice.strip_from] in H.
  - injection H as <- <-. reflexivity.
  - destruct (Splice.strip_from isp alt (n + 1) r) as [ls' ps'] eqn:E.
    destruct (isp l); injection H as <- <-.
    + (* a pragma line: it goes back at position n *)
      cbn [fold_left]. assert (R : reinsert1 (pre ++ ls') ((if alt l then - n else n), l) = (pre ++ [l]) ++ ls').
      { unfold reinsert1. replace (Z.abs (if alt l then - n else n)) with n by (destruct (alt l); lia). destruct (Z.eqb_spec n 1) as [->|N1].
        - destruct pre; [|cbn [length] in Hlen; lia]. cbn [app]. specialize (NE eq_refl).
          destruct ls' as [|[|c cs] [|y ys]]; cbn [text_empty]; try reflexivity. exfalso. apply NE. reflexivity.
        - rewrite app_length. destruct ((1 <=? n - 1) && (n - 1 <=? Z.of_nat (length pre + length ls') - 1))%bool eqn:C.
          + unfold insert_line. replace (Z.to_nat (n - 1)) with (length pre) by lia.
            rewrite firstn_app, firstn_all, Nat.sub_diag, firstn_O, app_nil_r, skipn_app, skipn_all, Nat.sub_diag, skipn_O.
            now rewrite <- app_assoc.
          + (* no such newline: the text has exactly n - 1 lines, the pragma is appended *)
            apply andb_false_iff in C as [C|C]; [apply Z.leb_gt in C; lia|]. apply Z.leb_gt in C.
            assert (length ls' = 0%nat) by lia. destruct ls'; [|discriminate]. now rewrite !app_nil_r. }
      rewrite R. rewrite (IH (n + 1) (pre ++ [l]) ls' ps' E); [now rewrite <- app_assoc | rewrite app_length; cbn [length]; lia | lia | intros X; destruct pre; discriminate].
    + change (pre ++ l :: ls') with (pre ++ [l] ++ ls'). rewrite app_assoc.
      rewrite (IH (n + 1) (pre ++ [l]) ls' ps' E); [now rewrite <- app_assoc | rewrite app_length; cbn [length]; lia | lia | intros X; destruct pre; discriminate].
Qed.

Theorem splice_roundtrip_l : forall d ls ps,
  strip isp alt d = (ls, ps) -> ls <> [[]] -> reinsert ls ps = d.
Proof.
  intros d ls ps H NE. unfold reinsert. unfold Splice.strip in H. rewrite (strip_sorted d 1 ls ps ltac:(lia) H).
  exact (reinsert_tail d 1 [] ls ps H eq_refl ltac:(lia) (fun _ => NE)).
Qed.
End P.

Lemma strip_markers_id_l : forall s, existsb is_marker s = false -> strip_markers s = s.
Proof.
  induction s as [|c r IH]; intros H; [reflexivity|]. cbn [existsb] in H. apply orb_false_elim in H as [Hc Hr].
  cbn [strip_markers filter]. rewrite Hc. cbn [negb]. f_equal. now apply IH.
Qed.
