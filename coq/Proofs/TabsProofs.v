(* C05 - tabs: the loop of detabify_string computes `expand`; what `expand` guarantees. *)
From Coq Require Import List NArith ZArith Bool Arith Lia ZifyBool ZifyN ZifyNat.
Require Import PV.Base.Str PV.Model.Tabs.
Import ListNotations.
Ltac Zify.zify_post_hook ::= Z.to_euclidean_division_equations.
Local Open Scope N_scope.

Lemma next_stop_gt col : col < next_stop col /\ next_stop col <= col + 4.
Proof. unfold next_stop. lia. Qed.

Lemma adv_ge s : forall col, col <= adv col s.
Proof.
  induction s as [|c r IH]; intros col; cbn [adv]; [lia|].
  destruct (N.eqb c c_tab).
  - pose proof (IH (next_stop col)); pose proof (next_stop_gt col); lia.
  - pose proof (IH (col + 1)); lia.
Qed.

Lemma spaces_add a b : spaces a ++ spaces b = spaces (a + b).
Proof. unfold spaces. rewrite <- repeat_app. f_equal. lia. Qed.

Lemma spaces_S n : c_sp :: spaces n = spaces (n + 1).
Proof. unfold spaces. replace (N.to_nat (n + 1)) with (S (N.to_nat n)) by lia. reflexivity. Qed.

Definition no_tab (s : str) : bool := negb (has_tab s).
Definition all_blank (s : str) : bool := forallb is_blank_c s.

Lemma expand_notab t : forall col x, has_tab t = false -> expand col (t ++ x) = t ++ expand (col + N.of_nat (length t)) x.
Proof.
  induction t as [|c t IH]; intros col x H.
  - cbn. f_equal. lia.
  - cbn [has_tab] in H. apply orb_false_iff in H. destruct H as [Hc Ht].
    cbn [app expand length]. rewrite Hc. rewrite IH by exact Ht.
    replace (col + N.of_nat (S (length t))) with (col + 1 + N.of_nat (length t)) by lia. reflexivity.
Qed.

Lemma expand_blank w : forall col x, all_blank w = true ->
  expand col (w ++ x) = spaces (adv col w - col) ++ expand (adv col w) x.
Proof.
  induction w as [|c w IH]; intros col x H.
  - cbn [app adv]. replace (col - col) with 0 by lia. reflexivity.
  - cbn [all_blank forallb] in H. apply andb_true_iff in H. destruct H as [Hc Hw].
    cbn [app expand adv]. destruct (N.eqb c c_tab) eqn:E.
    + rewrite IH by exact Hw. rewrite app_assoc, spaces_add. do 2 f_equal.
      pose proof (next_stop_gt col); pose proof (adv_ge w (next_stop col)); lia.
    + unfold is_blank_c in Hc. rewrite E, orb_false_r in Hc. apply N.eqb_eq in Hc. subst c.
      rewrite IH by exact Hw. rewrite app_comm_cons, spaces_S. do 2 f_equal.
      pose proof (adv_ge w (col + 1)); lia.
Qed.

Lemma span_notab_spec s : forall a b, span_notab s = (a, b) ->
  s = a ++ b /\ has_tab a = false /\ (has_tab s = true -> exists r, b = c_tab :: r).
Proof.
  induction s as [|c r IH]; intros a b H; cbn [span_notab] in H.
  - inversion H; subst. repeat split; auto. cbn; discriminate.
  - destruct (N.eqb c c_tab) eqn:E.
    + inversion H; subst. repeat split; auto. intros _. apply N.eqb_eq in E; subst. exists r; reflexivity.
    + destruct (span_notab r) as [a' b'] eqn:Hr. inversion H; subst.
      destruct (IH a' b eq_refl) as (E1 & E2 & E3). repeat split.
      * cbn; f_equal; exact E1.
      * cbn [has_tab]; rewrite E, E2; reflexivity.
      * cbn [has_tab]; rewrite E; cbn; exact E3.
Qed.

Lemma tsplit_spec p : forall t s, tsplit p = (t, s) -> p = t ++ s /\ all_blank s = true /\ (has_tab p = false -> has_tab t = false).
Proof.
  induction p as [|c r IH]; intros t s H; cbn [tsplit] in H.
  - inversion H; subst; repeat split; auto.
  - destruct (tsplit r) as [t' s'] eqn:Hr. destruct (IH t' s' eq_refl) as (E1 & E2 & E3).
    destruct (is_nil t' && N.eqb c c_sp) eqn:G.
    + inversion H; subst. apply andb_true_iff in G. destruct G as [G1 G2].
      destruct t'; [|discriminate]. cbn [app] in *. repeat split; auto.
      cbn [all_blank forallb]. unfold is_blank_c. rewrite G2. cbn. exact E2.
    + inversion H; subst. split; [reflexivity|]. split; [exact E2|].
      cbn [has_tab]. intros F. apply orb_false_iff in F. destruct F as [F1 F2]. rewrite F1, (E3 F2). reflexivity.
Qed.

Lemma span_blank_spec s : forall a b, span_blank s = (a, b) -> s = a ++ b /\ all_blank a = true.
Proof.
  induction s as [|c r IH]; intros a b H; cbn [span_blank] in H.
  - inversion H; subst; split; reflexivity.
  - destruct (is_blank_c c) eqn:E.
    + destruct (span_blank r) as [a' b'] eqn:Hr. inversion H; subst. destruct (IH a' b eq_refl) as [E1 E2].
      split; [cbn; f_equal; exact E1 | cbn [all_blank forallb]; rewrite E; exact E2].
    + inversion H; subst; split; reflexivity.
Qed.

Lemma all_blank_app a b : all_blank (a ++ b) = all_blank a && all_blank b.
Proof. apply forallb_app. Qed.

Lemma expand_no_tab_id s : forall col, has_tab s = false -> expand col s = s.
Proof. intros col H. rewrite <- (app_nil_r s) at 1. rewrite expand_notab by exact H. cbn. apply app_nil_r. Qed.

Lemma loop_spec delta : forall fuel src rebuilt cur, (length src <= fuel)%nat ->
  loop fuel delta cur rebuilt src = Some (rebuilt ++ expand (cur + delta) src).
Proof.
  induction fuel as [|f IH]; intros src rebuilt cur L.
  - destruct src; [reflexivity | cbn in L; lia].
  - cbn [loop]. destruct (has_tab src) eqn:HT; cbn [negb].
    2:{ rewrite expand_no_tab_id by exact HT. reflexivity. }
    destruct (span_notab src) as [pre r0] eqn:H1. destruct (span_notab_spec src pre r0 H1) as (E1 & N1 & T1).
    destruct (T1 HT) as [r0' ->].
    destruct (tsplit pre) as [text tsp] eqn:H2. destruct (tsplit_spec pre text tsp H2) as (E2 & B2 & N2).
    destruct (span_blank (c_tab :: r0')) as [ws1 rest] eqn:H3. destruct (span_blank_spec _ ws1 rest H3) as (E3 & B3).
    assert (Hw : ws1 <> []).
    { intros ->. cbn [span_blank] in H3. unfold is_blank_c in H3. rewrite N.eqb_refl, orb_true_r in H3.
      destruct (span_blank r0'); discriminate. }
    rewrite IH.
    2:{ rewrite E1, E3, !app_length in L. destruct ws1; [contradiction|]. cbn [length] in L. lia. }
    f_equal. rewrite <- !app_assoc. f_equal.
    rewrite E1, E2, E3. rewrite <- !app_assoc.
    rewrite expand_notab by (apply N2; exact N1). f_equal.
    rewrite app_assoc. rewrite expand_blank by (rewrite all_blank_app, B2, B3; reflexivity).
    unfold calc_length.
    set (col := cur + delta + N.of_nat (length text)).
    replace (cur + N.of_nat (length text) + delta) with col by lia.
    pose proof (adv_ge (tsp ++ ws1) col).
    replace (cur + N.of_nat (length text) + (adv col (tsp ++ ws1) - col) + delta) with (adv col (tsp ++ ws1)) by lia.
    reflexivity.
Qed.

Lemma detab_impl_spec_l s delta : detab_impl s delta = Some (expand delta s).
Proof.
  unfold detab_impl. destruct (has_tab s) eqn:H; cbn [negb].
  - rewrite loop_spec by lia. reflexivity.
  - rewrite expand_no_tab_id by exact H. reflexivity.
Qed.

(* ---- what expansion guarantees ---- *)
Lemma has_tab_app a b : has_tab (a ++ b) = has_tab a || has_tab b.
Proof. induction a as [|c a IH]; [reflexivity|]. cbn [app has_tab]. rewrite IH, orb_assoc. reflexivity. Qed.

Lemma spaces_no_tab n : has_tab (spaces n) = false.
Proof. unfold spaces. induction (N.to_nat n) as [|k IH]; [reflexivity | cbn; exact IH]. Qed.

Lemma expand_has_no_tab_l s : forall col, has_tab (expand col s) = false.
Proof.
  induction s as [|c r IH]; intros col; [reflexivity|]. cbn [expand].
  destruct (N.eqb c c_tab) eqn:E.
  - rewrite has_tab_app, spaces_no_tab, IH. reflexivity.
  - cbn [has_tab]. rewrite E, IH. reflexivity.
Qed.

Lemma spaces_length n : length (spaces n) = N.to_nat n.
Proof. unfold spaces. apply repeat_length. Qed.

Lemma expand_length_l s : forall col, N.of_nat (length (expand col s)) = calc_length s col.
Proof.
  unfold calc_length. induction s as [|c r IH]; intros col; cbn [expand adv]; [cbn; lia|].
  destruct (N.eqb c c_tab).
  - rewrite app_length, spaces_length, Nat2N.inj_add, IH.
    pose proof (next_stop_gt col); pose proof (adv_ge r (next_stop col)). lia.
  - cbn [length]. rewrite Nat2N.inj_succ, IH. pose proof (adv_ge r (col + 1)). lia.
Qed.

Lemma expand_app_l a : forall col b, expand col (a ++ b) = expand col a ++ expand (adv col a) b.
Proof.
  induction a as [|c a IH]; intros col b; [reflexivity|]. cbn [app expand adv].
  destruct (N.eqb c c_tab); rewrite IH; [rewrite app_assoc|]; reflexivity.
Qed.

Lemma expand_idempotent_l s col : expand col (expand col s) = expand col s.
Proof. apply expand_no_tab_id. apply expand_has_no_tab_l. Qed.

Lemma adv_stop_l col : adv col [c_tab] mod 4 = 0 /\ col < adv col [c_tab] <= col + 4.
Proof. cbn [adv]. rewrite N.eqb_refl. unfold next_stop. lia. Qed.
