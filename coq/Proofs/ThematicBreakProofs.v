(* C03 - the thematic-break test of the implementation is the sentence of the specification. *)
From Coq Require Import List NArith ZArith Bool Arith Lia ZifyBool ZifyN ZifyNat.
Require Import PV.Base.Str PV.Model.Tabs PV.Model.ThematicBreak.
Import ListNotations.
Local Open Scope N_scope.

Lemma tb_char_not_blank c : is_tb_char c = true -> is_blank_c c = false.
Proof. unfold is_tb_char, tb_chars, is_blank_c, c_sp, c_tab. cbn [existsb]. lia. Qed.

Lemma tb_scan_spec c : is_blank_c c = false -> forall s n,
  tb_scan true c s n = if forallb (fun x => N.eqb x c || is_blank_c x) s then Some (n + count_c c s)%nat else None.
Proof.
  intros Hc. induction s as [|x r IH]; intros n.
  - cbn. f_equal. lia.
  - cbn [tb_scan forallb count_c andb]. destruct (is_blank_c x) eqn:B.
    + assert (E : N.eqb x c = false).
      { destruct (N.eqb x c) eqn:E; [|reflexivity]. apply N.eqb_eq in E; subst. congruence. }
      rewrite E, IH. cbn [orb andb]. destruct (forallb _ r); [f_equal; lia | reflexivity].
    + destruct (N.eqb x c) eqn:E; cbn [orb andb]; [|reflexivity].
      rewrite IH. destruct (forallb _ r); [f_equal; lia | reflexivity].
Qed.

Lemma dropn_app_length (a b : str) : dropn (length a) (a ++ b) = b.
Proof. induction a as [|x a IH]; [destruct b; reflexivity | exact IH]. Qed.

Lemma nth_error_app_length (a b : str) : nth_error (a ++ b) (length a) = hd_error b.
Proof. induction a as [|x a IH]; [destruct b; reflexivity | exact IH]. Qed.

Lemma tb_impl_is_spec_l ws body :
  tb_impl (ws ++ body) (length ws) ws false true =
  if tb_spec ws body then Some (hd 0 body, length (ws ++ body)) else None.
Proof.
  unfold tb_impl, tb_spec. rewrite nth_error_app_length, dropn_app_length.
  destruct body as [|c r]; [reflexivity|]. cbn [hd_error hd]. rewrite orb_false_r.
  destruct (calc_length ws 0 <=? 3); cbn [andb]; [|reflexivity].
  destruct (is_tb_char c) eqn:T; cbn [andb]; [|reflexivity].
  rewrite (tb_scan_spec c (tb_char_not_blank c T)).
  destruct (forallb _ (c :: r)); cbn [andb]; [|reflexivity]. cbn [Nat.add]. reflexivity.
Qed.

Lemma count_c_app c a b : count_c c (a ++ b) = (count_c c a + count_c c b)%nat.
Proof. induction a as [|x a IH]; [reflexivity|]. cbn [app count_c]. rewrite IH. lia. Qed.

(* more of the same character, or white space, at the end of the line keeps a break a break *)
Lemma tb_spec_append_l ws body x : tb_spec ws body = true -> (N.eqb x (hd 0 body) || is_blank_c x) = true ->
  tb_spec ws (body ++ [x]) = true.
Proof.
  unfold tb_spec. destruct body as [|c r]; [discriminate|]. cbn [hd app]. intros H Hx.
  apply andb_true_iff in H. destruct H as [H H4]. apply andb_true_iff in H. destruct H as [H H3].
  change (c :: r ++ [x]) with ((c :: r) ++ [x]).
  rewrite H, forallb_app, H3, count_c_app. cbn [forallb andb]. rewrite Hx. cbn [andb]. lia.
Qed.

(* four or more columns of indentation never give a break (the line is code, or a continuation) *)
Lemma tb_spec_indent_l ws body : 4 <= calc_length ws 0 -> tb_spec ws body = false.
Proof. unfold tb_spec. destruct body; [reflexivity|]. intros H. destruct (calc_length ws 0 <=? 3) eqn:E; [lia | reflexivity]. Qed.
