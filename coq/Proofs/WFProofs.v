From Coq Require Import List Bool Arith Lia.
Require Import PV.Base.Str PV.Base.StrOrder PV.Model.WF.
Import ListNotations.

Section P.
Variable kind : Type.
Variable kind_eqb : kind -> kind -> bool.
Hypothesis kind_eqb_eq : forall a b, kind_eqb a b = true <-> a = b.
Variable allowed : option kind -> kind -> bool.
Notation tok := (tok kind). Notation tree := (tree kind).
Notation flatten_t := (flatten_t kind). Notation flatten_f := (flatten_f kind).
Notation size_t := (size_t kind). Notation size_f := (size_f kind).
Notation ok_t := (ok_t kind allowed). Notation ok_f := (ok_f kind allowed).
Notation check := (check kind kind_eqb allowed). Notation top := (top kind).

Lemma size_node k ch : size_t (Node k ch) = 2 + size_f ch.
Proof. reflexivity. Qed.

Lemma flatten_node o k ch : flatten_t o (Node k ch) = TStart k :: flatten_f (S o) ch ++ [TEnd k o].
Proof. reflexivity. Qed.

Lemma ok_node p k ch : ok_t p (Node k ch) = allowed p k && ok_f (Some k) ch.
Proof. reflexivity. Qed.

Lemma size_f_cons c cs : size_f (c :: cs) = size_t c + size_f cs.
Proof. reflexivity. Qed.

Section TreeInd.
Variable P : tree -> Prop.
Hypothesis HA : forall k, P (Atom k).
Hypothesis HN : forall k ch, Forall P ch -> P (Node k ch).
Fixpoint tree_ind' (t : tree) : P t :=
  match t with
  | Atom k => HA k
  | Node k ch => HN k ch ((fix go (l : list tree) : Forall P l :=
                            match l with [] => Forall_nil _ | x :: r => Forall_cons _ (tree_ind' x) (go r) end) ch)
  end.
End TreeInd.

Lemma size_pos t : 1 <= size_t t.
Proof. destruct t; [rewrite size_node|cbn]; lia. Qed.

(* completeness: the stream of a forest that respects `allowed` is accepted *)
Lemma check_tree : forall t pos st rest, ok_t (top st) t = true ->
  check pos st (flatten_t pos t ++ rest) = check (pos + size_t t) st rest.
Proof.
  induction t as [k|k ch IH] using tree_ind'; intros pos st rest H.
  - cbn [WF.flatten_t app WF.check WF.size_t]. cbn [WF.ok_t WF.root] in H. rewrite andb_true_r in H. rewrite H. cbn [andb].
    now rewrite Nat.add_1_r.
  - rewrite ok_node in H. apply andb_prop in H as [Ha Hc]. rewrite flatten_node, size_node.
    cbn [app WF.check]. rewrite Ha. cbn [andb]. rewrite <- app_assoc.
    assert (A : forall ch' p, Forall (fun t => forall pos st rest, ok_t (top st) t = true ->
                     check pos st (flatten_t pos t ++ rest) = check (pos + size_t t) st rest) ch' ->
               ok_f (Some k) ch' = true ->
               check p ((k, pos) :: st) (flatten_f p ch' ++ [TEnd k pos] ++ rest) = check (S (p + size_f ch')) st rest).
    { induction ch' as [|c cs IHc]; intros p F Hok.
      - cbn [WF.flatten_f app WF.check WF.size_f fold_right]. rewrite (proj2 (kind_eqb_eq k k) eq_refl), Nat.eqb_refl. cbn [andb].
        now rewrite Nat.add_0_r.
      - inversion F as [|? ? Fc Fcs]; subst. cbn [WF.ok_f forallb] in Hok. apply andb_prop in Hok as [H1 H2].
        cbn [WF.flatten_f]. rewrite <- app_assoc. rewrite (Fc p ((k, pos) :: st)); [|exact H1].
        rewrite IHc; auto. rewrite size_f_cons. f_equal. lia. }
    rewrite (A ch (S pos) IH Hc). f_equal. lia.
Qed.

Lemma check_forest : forall f pos st rest, ok_f (top st) f = true ->
  check pos st (flatten_f pos f ++ rest) = check (pos + size_f f) st rest.
Proof.
  induction f as [|t ts IH]; intros pos st rest H; cbn [WF.flatten_f app].
  - cbn [WF.size_f fold_right]. now rewrite Nat.add_0_r.
  - cbn [WF.ok_f forallb] in H. apply andb_prop in H as [H1 H2]. rewrite <- app_assoc, check_tree; auto.
    rewrite IH; auto. rewrite size_f_cons. f_equal. lia.
Qed.

Theorem wf_complete_l : forall f, ok_f None f = true -> wf_check kind kind_eqb allowed (flatten_f 0 f) = true.
Proof.
  intros f H. unfold wf_check. pose proof (check_forest f 0 [] [] H) as A. rewrite app_nil_r in A. rewrite A. reflexivity.
Qed.

Lemma length_flatten_t : forall t o, length (flatten_t o t) = size_t t.
Proof.
  induction t as [k|k ch IH] using tree_ind'; intros o; [reflexivity|].
  rewrite flatten_node, size_node. cbn [length]. rewrite app_length. cbn [length].
  assert (A : forall p, length (flatten_f p ch) = size_f ch).
  { induction ch as [|c cs IHc]; intros p; [reflexivity|]. inversion IH as [|? ? Fc Fcs]; subst.
    cbn [WF.flatten_f WF.size_f fold_right]. rewrite app_length, Fc, IHc; auto. }
  rewrite A. lia.
Qed.

(* soundness: an accepted stream is the stream of a forest that respects `allowed`, and every end token names its start *)
Lemma sound_gen : forall n ts pos st, length ts < n -> check pos st ts = true ->
  exists f rest, ts = flatten_f pos f ++ rest /\ ok_f (top st) f = true /\
    match st with
    | [] => rest = []
    | (k, p) :: st' => exists r', rest = TEnd k p :: r' /\ check (S (pos + size_f f)) st' r' = true
    end.
Proof.
  induction n as [|n IH]; intros ts pos st Hl Hc; [lia|].
  destruct ts as [|[k|k ref|k] r]; cbn [WF.check] in Hc.
  - destruct st; [|discriminate]. exists [], []. auto.
  - (* start *)
    apply andb_prop in Hc as [Ha Hc]. cbn [length] in Hl.
    destruct (IH r (S pos) ((k, pos) :: st)) as (ch & rest & Hr & Hok & (r' & -> & Hc')); [lia|exact Hc|].
    assert (Lr' : length r' < n). { subst r. rewrite app_length in Hl. cbn [length] in Hl. lia. }
    destruct (IH r' (S (S pos + size_f ch)) st Lr' Hc') as (f & rest' & Hr' & Hok' & Hst').
    exists (Node k ch :: f), rest'. split; [|split].
    + cbn [WF.flatten_f]. rewrite flatten_node, size_node. subst r. rewrite Hr'. cbn [app]. rewrite <- !app_assoc. cbn [app].
      do 4 f_equal. f_equal. lia.
    + cbn [WF.ok_f forallb]. fold (ok_f (top st) f). rewrite Hok', andb_true_r, ok_node, Ha. exact Hok.
    + destruct st as [|[k2 p2] st2]; [exact Hst'|]. destruct Hst' as (r2 & -> & H2). exists r2. split; [reflexivity|].
      cbn [WF.size_f fold_right]. rewrite size_node. fold (size_f f). replace (S (pos + (2 + size_f ch + size_f f))) with (S (S (S pos + size_f ch) + size_f f)) by lia. exact H2.
  - (* end *)
    destruct st as [|[k' p'] st']; [discriminate|]. apply andb_prop in Hc as [He Hc]. apply andb_prop in He as [Hk Hp].
    apply kind_eqb_eq in Hk. apply Nat.eqb_eq in Hp. subst k' p'.
    exists [], (TEnd k ref :: r). cbn [WF.flatten_f app WF.ok_f forallb WF.size_f fold_right]. repeat split. exists r. split; [reflexivity|].
    now rewrite Nat.add_0_r.
  - (* atom *)
    apply andb_prop in Hc as [Ha Hc]. cbn [length] in Hl.
    destruct (IH r (S pos) st) as (f & rest & Hr & Hok & Hst); [lia|exact Hc|].
    exists (Atom k :: f), rest. split; [|split].
    + cbn [WF.flatten_f WF.flatten_t WF.size_t app]. rewrite Hr. do 2 f_equal. f_equal. lia.
    + cbn [WF.ok_f forallb WF.ok_t WF.root]. rewrite Ha. exact Hok.
    + destruct st as [|[k2 p2] st2]; [exact Hst|]. destruct Hst as (r2 & -> & H2). exists r2. split; [reflexivity|].
      cbn [WF.size_f fold_right WF.size_t]. fold (size_f f). replace (S (pos + (1 + size_f f))) with (S (S pos + size_f f)) by lia. exact H2.
Qed.

Theorem wf_sound_l : forall ts, wf_check kind kind_eqb allowed ts = true -> exists f, ok_f None f = true /\ flatten_f 0 f = ts.
Proof.
  intros ts H. destruct (sound_gen (S (length ts)) ts 0 [] (Nat.lt_succ_diag_r _) H) as (f & rest & Hr & Hok & ->).
  exists f. rewrite app_nil_r in Hr. auto.
Qed.
End P.

Lemma pkind_eqb_eq a b : pkind_eqb a b = true <-> a = b.
Proof.
  unfold pkind_eqb. destruct a as [n1 c1], b as [n2 c2]. cbn [k_name k_cls]. rewrite andb_true_iff. split.
  - intros [H1 H2]. destruct (str_eqb_spec n1 n2); [|discriminate]. subst. f_equal. destruct c1, c2; try discriminate; reflexivity.
  - intros [= -> ->]. rewrite str_eqb_refl. split; [reflexivity|]. destruct c2; reflexivity.
Qed.
