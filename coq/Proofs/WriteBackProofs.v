From Coq Require Import List NArith Bool Arith Lia.
Require Import PV.Model.WriteBack.
Import ListNotations.

Lemma run_app a b s : run_ops (a ++ b) s = run_ops b (run_ops a s).
Proof. unfold run_ops. apply fold_left_app. Qed.

Lemma writes_dst cs s : run_ops (map Write cs) s = mkFs (dst s ++ concat cs) (sib s) (tmp s).
Proof.
  revert s. induction cs as [|c cs IH]; intros s; cbn [map run_ops fold_left concat].
  - rewrite app_nil_r. now destruct s.
  - fold (run_ops (map Write cs) (apply s (Write c))). rewrite IH. cbn [apply dst sib tmp]. now rewrite app_assoc.
Qed.

Lemma writes_sib cs s b : sib s = Some b -> run_ops (map WriteSib cs) s = mkFs (dst s) (Some (b ++ concat cs)) (tmp s).
Proof.
  revert s b. induction cs as [|c cs IH]; intros s b H; cbn [map run_ops fold_left concat].
  - rewrite app_nil_r. destruct s; cbn in *; now subst.
  - fold (run_ops (map WriteSib cs) (apply s (WriteSib c))).
    assert (E : sib (apply s (WriteSib c)) = Some (b ++ c)) by (cbn [apply sib]; now rewrite H).
    rewrite (IH _ _ E). cbn [apply dst tmp]. now rewrite app_assoc.
Qed.

(* a run that is not cut short ends with the new content and no temporary file - both protocols *)
Lemma copy_completes old cs : run_ops (copy_protocol cs) (start old) = mkFs (concat cs) None false.
Proof. unfold copy_protocol, start. cbn [run_ops fold_left apply]. fold (run_ops (map Write cs ++ [RemoveTmp]) (mkFs [] None true)). rewrite run_app, writes_dst. reflexivity. Qed.

Lemma replace_completes old cs : run_ops (replace_protocol cs) (start old) = mkFs (concat cs) None false.
Proof.
  unfold replace_protocol, start. cbn [run_ops fold_left apply dst sib tmp].
  fold (run_ops (map WriteSib cs ++ [Rename; RemoveTmp]) (mkFs old (Some []) true)).
  rewrite run_app, (writes_sib cs _ []); [|reflexivity]. reflexivity.
Qed.

(* the sibling protocol: whenever the process dies, the destination holds the old or the new content, complete *)
Lemma firstn_map_prefix {A B} (f : A -> B) k l : firstn k (map f l) = map f (firstn k l).
Proof. revert l. induction k; intros [|x l]; cbn; congruence. Qed.

Lemma replace_atomic_l old cs k :
  dst (crash_at k (replace_protocol cs) (start old)) = old \/ dst (crash_at k (replace_protocol cs) (start old)) = concat cs.
Proof.
  unfold crash_at, replace_protocol, start. destruct k as [|k]; [left; reflexivity|].
  cbn [firstn run_ops fold_left apply dst sib tmp].
  fold (run_ops (firstn k (map WriteSib cs ++ [Rename; RemoveTmp])) (mkFs old (Some []) true)).
  rewrite firstn_app, run_app, firstn_map_prefix, (writes_sib _ _ []); [|reflexivity].
  rewrite map_length.
  destruct (k - length cs) as [|[|j]] eqn:E; cbn [firstn run_ops fold_left apply dst sib tmp app].
  - now left.
  - right. assert (length cs <= k) by lia. now rewrite firstn_all2 by lia.
  - right. destruct j; cbn [firstn fold_left apply dst sib tmp]; assert (length cs <= k) by lia; now rewrite firstn_all2 by lia.
Qed.

(* the copy protocol of the code before the repair is not: a crash right after the destination is opened, or between two parts,
   leaves a file that is neither *)
Lemma copy_not_atomic_l : exists old cs k,
  dst (crash_at k (copy_protocol cs) (start old)) <> old /\ dst (crash_at k (copy_protocol cs) (start old)) <> concat cs.
Proof. exists [1%N; 2%N], [[3%N]; [4%N]], 2. split; vm_compute; discriminate. Qed.

(* in the sibling protocol the temporary file is removed by the last step only; the sibling never outlives a completed run *)
Lemma replace_no_residue old cs : sib (run_ops (replace_protocol cs) (start old)) = None /\ tmp (run_ops (replace_protocol cs) (start old)) = false.
Proof. now rewrite replace_completes. Qed.
