(* C01 - parsing is total.  Statements only; Print Assumptions beneath each.
   PARTIAL: the per-line handler (the container/leaf/inline code, ~30 000 lines) is an oracle here.  Proved: the main loop
   around it ends, in a number of handler calls quadratic in the number of lines, for every handler that keeps the requeue
   contract; and the loop hands every line to the handler with its true line number.  That the handler itself returns, and
   returns without an internal error, for every document is decided by enumeration on the implementation. *)
From Coq Require Import List ZArith NArith Bool Arith Lia.
Require Import PV.Base.Str PV.Model.Driver PV.Proofs.DriverProofs.
Import ListNotations.

(* every execution of the loop on a document of N lines, whatever the handler answers within the contract (a request to
   deliver lines again goes back to a later line than the previous request, or to the same line now with the
   force-ignore flag), takes at most (2N+2)(N+2)+N+1 steps *)
Theorem driver_terminates : forall N n, tpath N tinit n -> n <= (2 * N + 2) * (N + 2) + (N + 1).
Proof. exact driver_terminates_l. Qed.
Print Assumptions driver_terminates.

(* every step within the contract strictly decreases the measure *)
Theorem driver_measure_decreases : forall N s s', tinv N s -> tstep N s s' -> measure N s' < measure N s.
Proof. exact tstep_decreases. Qed.
Print Assumptions driver_measure_decreases.

(* whatever was requeued, a line is handed to the handler with its own line number (needed by C05 and C11) *)
Theorem driver_line_numbers : forall all script,
  script_ok all script (start all) ->
  Forall (fun d => let '(n, l, _) := d in nth_error all (Z.to_nat (n - 1)) = Some l) (deliveries script (start all)).
Proof.
  intros all script OK. apply driver_line_numbers_l; [|exact OK]. unfold dinv, start. cbn. split; [discriminate | reflexivity].
Qed.
Print Assumptions driver_line_numbers.

(* non-vacuity: three lines of a definition that is abandoned at the third line: all three come back with the flag set *)
Example c01_example :
  let a := [[97]%N; [98]%N; [99]%N; [100]%N] in
  deliveries [Normal; Normal; Requeue [[97]%N; [98]%N; [99]%N] true; Normal; Normal; Normal; Normal] (start a) =
    [(1, [97]%N, false); (2, [98]%N, false); (3, [99]%N, false); (1, [97]%N, true); (2, [98]%N, false); (3, [99]%N, false); (4, [100]%N, false)]%Z
  /\ tstep 4 (mkT 3 0) (mkT 1 (rank 1 true)).
Proof. split; [vm_compute; reflexivity | apply TRequeue; cbn; lia]. Qed.
