(* C02 - the token stream is lossless.  Statements only; Print Assumptions beneath each.
   The whole-pipeline statement  forall d, regenerate (parse d) = d  is NOT proved (it is a statement about the 30 000-line
   parser and the 5 000-line regenerator); it is decided by enumeration on the implementation.  Proved here: two global
   passes of the regenerator on which every document depends, as mechanism kernels. *)
From Coq Require Import List ZArith NArith Bool Arith.
Require Import PV.Base.Str PV.Model.Splice PV.Proofs.SpliceProofs PV.Model.Codec PV.Proofs.CodecProofs.
Import ListNotations.

(* for every document (list of lines), whatever lines are pragmas and whichever prefix they use: taking the pragma lines out
   (keyed by line number) and putting them back the way __handle_pragma_processing does gives the document back *)
Theorem pragma_splice_roundtrip : forall (isp alt : str -> bool) d ls ps,
  strip isp alt d = (ls, ps) -> ls <> [[]] -> reinsert ls ps = d.
Proof. exact splice_roundtrip_l. Qed.
Print Assumptions pragma_splice_roundtrip.

(* the hypothesis the proof forces: when what is left without the pragma lines is a single empty line, the code takes the
   regenerated text for empty and the newline after a leading pragma line is lost ("P" + newline regenerates as "P").  Known finding. *)
Theorem pragma_splice_refuted : exists (isp alt : str -> bool) d ls ps, strip isp alt d = (ls, ps) /\ reinsert ls ps <> d.
Proof. exists (fun l => negb (is_nil l)), (fun _ => false), [[112]%N; []], [[]], [(1%Z, [112]%N)]. split; vm_compute; [reflexivity | discriminate]. Qed.
Print Assumptions pragma_splice_refuted.

(* the three marker characters are removed from the regenerated text: harmless exactly when the text has none *)
Theorem strip_markers_id : forall s, existsb is_marker s = false -> strip_markers s = s.
Proof. exact strip_markers_id_l. Qed.
Print Assumptions strip_markers_id.

(* ... and lossy otherwise: U+00FE (thorn), U+8268 and U+8269 (CJK ideographs) are deleted from any document (known finding) *)
Theorem strip_markers_refuted : exists s, strip_markers s <> s.
Proof. exists [97; 254; 98]%N. vm_compute. discriminate. Qed.
Print Assumptions strip_markers_refuted.

(* the in-band marker codec of ParserHelper: for every text the parser can write - any sequence of literal text (the five
   control characters in it escaped; no literal ESC), backslash escapes, character references and empty replacements -
   remove_all gives back exactly the source text and resolve_all exactly the rendered text *)
Theorem codec_remove_all_gives_source : forall ps, Forall (fun p => piece_ok p = true) ps -> remove_all (enc ps) = Some (src ps).
Proof. exact remove_all_gives_source_l. Qed.
Print Assumptions codec_remove_all_gives_source.

Theorem codec_resolve_all_gives_text : forall ps, Forall (fun p => piece_ok p = true) ps -> resolve_all (enc ps) = Some (out ps).
Proof. exact resolve_all_gives_text_l. Qed.
Print Assumptions codec_resolve_all_gives_text.

(* the hypothesis `no literal ESC` is needed: a literal U+0005 in front of another control character does not survive *)
Theorem codec_literal_esc_refuted : exists s, resolve_escapes None (escape s) <> s.
Proof. exact escape_esc_refuted_l. Qed.
Print Assumptions codec_literal_esc_refuted.

Example c02_example :
  let isp := fun l => prefix_b [60;33]%N l in let alt := fun l => prefix_b [60;33;45;45;45]%N l in
  let d := [[97]%N; [60;33;45;45;45;120]%N; [98]%N; [60;33;45;45;121]%N; []] in
  strip isp alt d = ([[97]%N; [98]%N; []], [(-2, [60;33;45;45;45;120]%N); (4, [60;33;45;45;121]%N)]%Z) /\
  reinsert [[97]%N; [98]%N; []] [(-2, [60;33;45;45;45;120]%N); (4, [60;33;45;45;121]%N)]%Z = d.
Proof. split; vm_compute; reflexivity. Qed.
