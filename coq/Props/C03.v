(* C03 - conformance to CommonMark.  Statements only; Print Assumptions beneath each.
   PARTIAL: the theorems are about the specification model CM (Spec/CMBlock.v); that PyMarkdown's structure is CM's is
   decided by comparing rendered HTML on the enumerated documents of the fragment F (see evidence). *)
From Coq Require Import List NArith Bool Arith.
Require Import PV.Spec.CMBlock PV.Proofs.CMProofs PV.Proofs.CMFuel PV.Proofs.CMInlineProofs.
Require Import PV.Base.Str PV.Model.LinkDest PV.Proofs.LinkDestProofs.
Import ListNotations.

(* whatever the text: nothing that could open or close a tag or an attribute survives the renderer's escaping *)
Theorem cm_escape_safe : forall s, existsb raw (esc s) = false.
Proof. exact esc_no_raw_l. Qed.
Print Assumptions cm_escape_safe.

(* a document of the fragment F has no tab and no inline markup character in any line *)
Theorem fragment_has_no_inline_markup : forall ls l, in_F ls = true -> In l ls -> existsb excluded_char l = false.
Proof. exact in_F_no_excluded. Qed.
Print Assumptions fragment_has_no_inline_markup.

(* the fuel the block phase gives its inner loop (one more than the length of what is left of the line) always suffices:
   any larger amount gives the same result, for every state and every line *)
Theorem cm_fuel_adequate : forall extra full ln s um cl cp clist ac rest,
  starts_loop full (S (length rest) + extra) ln s um cl cp clist ac rest = starts_loop full (S (length rest)) ln s um cl cp clist ac rest.
Proof. exact starts_loop_fuel_adequate. Qed.
Print Assumptions cm_fuel_adequate.

(* the emphasis / character-reference layer is a conservative extension of the renderer validated before it: on text
   without *, _ and & the token pipeline renders exactly what the plain renderer (code spans, breaks, text) renders *)
Theorem cm_emphasis_layer_conservative : forall s, forallb plain_char s = true -> inline_html s = inl (S (length s)) s 0.
Proof. exact emphasis_layer_conservative. Qed.
Print Assumptions cm_emphasis_layer_conservative.

(* ---- the link-destination normalisation (links/link_parse_helper.py::__encode_link_destination) ---- *)
(* the loop of the implementation (cut at the next `%` or `&`, quote the piece in front, handle the special character)
   never runs out of fuel and computes the character-by-character function `enc`, for every destination *)
Theorem linkdest_loop_is_enc : forall s, encode_impl s = Some (enc s).
Proof. exact encode_impl_spec_l. Qed.
Print Assumptions linkdest_loop_is_enc.

(* whatever the destination (any Unicode scalar values): the normalised text consists of the URL-safe ASCII set, `%` and
   the characters of `&amp;` only - no space, quote, angle bracket, backslash, backtick or non-ASCII character reaches the
   attribute *)
Theorem linkdest_attribute_safe : forall s c, valid s = true -> In c (enc s) ->
  (c < 128 /\ c <> 32 /\ c <> 34 /\ c <> 60 /\ c <> 62 /\ c <> 92 /\ c <> 96)%N.
Proof.
  intros s c V H. apply out_ok_ascii. pose proof (enc_out_ok_l s V) as A. rewrite forallb_forall in A. exact (A c H).
Qed.
Print Assumptions linkdest_attribute_safe.

(* a percent escape that is there stays as it is, wherever it stands - in the middle or at the very end of the destination -
   and what is in front of it and behind it is normalised on its own (`a` must not end inside a `%` or `%h` of its own) *)
Theorem linkdest_escapes_kept : forall a h1 h2 b, open_tail a = false -> is_hexd h1 = true -> is_hexd h2 = true ->
  enc (a ++ c_pct :: h1 :: h2 :: b) = enc a ++ c_pct :: h1 :: h2 :: enc b.
Proof. exact enc_escape_kept_l. Qed.
Print Assumptions linkdest_escapes_kept.

(* text without `%` never ends inside an escape: the hypothesis of linkdest_escapes_kept is satisfiable, and the
   specification's own example `foo%20b` + a-umlaut gives foo%20b%C3%A4; a `%` that starts no escape becomes %25 *)
Example linkdest_examples :
  open_tail [47; 120]%N = false /\
  enc [102; 111; 111; 37; 50; 48; 98; 228]%N = [102; 111; 111; 37; 50; 48; 98; 37; 67; 51; 37; 65; 52]%N /\
  enc [47; 120; 37; 50; 48]%N = [47; 120; 37; 50; 48]%N /\
  enc [97; 37; 32; 102]%N = [97; 37; 50; 53; 37; 50; 48; 102]%N /\
  encode_impl [37; 43; 49; 38]%N = Some [37; 50; 53; 43; 49; 38; 97; 109; 112; 59]%N.
Proof. repeat split; vm_compute; reflexivity. Qed.

(* the model is a total function: the CommonMark examples it must reproduce, as regression facts *)
Example cm_spec_examples :
  (* two list items; a lazy continuation line in a block quote *)
  html [[45;32;97]%N; [45;32;98]%N] = lit [60; 117; 108; 62; 10; 60; 108; 105; 62; 97; 10; 60; 47; 108; 105; 62; 10; 60; 108; 105; 62; 98; 10; 60; 47; 108; 105; 62; 10; 60; 47; 117; 108; 62; 10] /\
  html [[62;32;97]%N; [98]%N] = html [[62;32;97]%N; [62;32;98]%N].
Proof. split; vm_compute; reflexivity. Qed.
