(* C03 - conformance to CommonMark.  Statements only; Print Assumptions beneath each.
   PARTIAL: the theorems are about the specification model CM (Spec/CMBlock.v); that PyMarkdown's structure is CM's is
   decided by comparing rendered HTML on the enumerated documents of the fragment F (see evidence). *)
From Coq Require Import List NArith Bool Arith.
Require Import PV.Spec.CMBlock PV.Proofs.CMProofs PV.Proofs.CMFuel PV.Proofs.CMInlineProofs.
Import ListNotations.

(* whatever the text: nothing that could open or close a tag or an attribute survives the renderer's escaping *)
Theorem cm_escape_safe : forall s, existsb raw (esc s) = false.
Proof. exact esc_no_raw_l. Qed.
Print Assumptions cm_escape_safe.

(* a document of the fragment F has no tab and no inline markup character in any line *)
Theorem fragment_has_no_inline_markup : forall ls l, in_F ls = true -> In l ls -> existsb excluded_char l = false.
Proof. exact in_F_no_excluded. Qed.
Print Assumptions fragment_has_no_inline_markup.

(* the fuel the block phase gives its inner loop (one more than the length of what is left of the line) always suffices:
   any larger amount gives the same result, for every state and every line *)
Theorem cm_fuel_adequate : forall extra full ln s um cl cp clist ac rest,
  starts_loop full (S (length rest) + extra) ln s um cl cp clist ac rest = starts_loop full (S (length rest)) ln s um cl cp clist ac rest.
Proof. exact starts_loop_fuel_adequate. Qed.
Print Assumptions cm_fuel_adequate.

(* the emphasis / character-reference layer is a conservative extension of the renderer validated before it: on text
   without *, _ and & the token pipeline renders exactly what the plain renderer (code spans, breaks, text) renders *)
Theorem cm_emphasis_layer_conservative : forall s, forallb plain_char s = true -> inline_html s = inl (S (length s)) s 0.
Proof. exact emphasis_layer_conservative. Qed.
Print Assumptions cm_emphasis_layer_conservative.

(* the model is a total function: the CommonMark examples it must reproduce, as regression facts *)
Example cm_spec_examples :
  (* two list items; a lazy continuation line in a block quote *)
  html [[45;32;97]%N; [45;32;98]%N] = lit [60; 117; 108; 62; 10; 60; 108; 105; 62; 97; 10; 60; 47; 108; 105; 62; 10; 60; 108; 105; 62; 98; 10; 60; 47; 108; 105; 62; 10; 60; 47; 117; 108; 62; 10] /\
  html [[62;32;97]%N; [98]%N] = html [[62;32;97]%N; [62;32;98]%N].
Proof. split; vm_compute; reflexivity. Qed.
