(* C03 - conformance to CommonMark.  Statements only; Print Assumptions beneath each.
   PARTIAL: the theorems are about the specification model CM (Spec/CMBlock.v); that PyMarkdown's structure is CM's is
   decided by comparing rendered HTML on the enumerated documents of the fragment F (see evidence). *)
From Coq Require Import List NArith Bool Arith.
Require Import PV.Spec.CMBlock PV.Proofs.CMProofs PV.Proofs.CMFuel PV.Proofs.CMInlineProofs.
Require Import PV.Model.Codec.
Require Import PV.Base.Str PV.Model.LinkDest PV.Proofs.LinkDestProofs PV.Model.LinkLabel PV.Proofs.LinkLabelProofs PV.Model.Tabs PV.Model.ThematicBreak PV.Proofs.ThematicBreakProofs PV.Model.AtxOpen PV.Proofs.AtxOpenProofs PV.Model.AppendText PV.Proofs.AppendTextProofs.
Import ListNotations.

(* whatever the text: nothing that could open or close a tag or an attribute survives the renderer's escaping *)
Theorem cm_escape_safe : forall s, existsb raw (esc s) = false.
Proof. exact esc_no_raw_l. Qed.
Print Assumptions cm_escape_safe.

(* a document of the fragment F has no tab and no inline markup character in any line *)
Theorem fragment_has_no_inline_markup : forall ls l, in_F ls = true -> In l ls -> existsb excluded_char l = false.
Proof. exact in_F_no_excluded. Qed.
Print Assumptions fragment_has_no_inline_markup.

(* the fuel the block phase gives its inner loop (one more than the length of what is left of the line) always suffices:
   any larger amount gives the same result, for every state and every line *)
Theorem cm_fuel_adequate : forall extra full ln s um cl cp clist ac rest,
  starts_loop full (S (length rest) + extra) ln s um cl cp clist ac rest = starts_loop full (S (length rest)) ln s um cl cp clist ac rest.
Proof. exact starts_loop_fuel_adequate. Qed.
Print Assumptions cm_fuel_adequate.

(* the emphasis / character-reference layer is a conservative extension of the renderer validated before it: on text
   without *, _ and & the token pipeline renders exactly what the plain renderer (code spans, breaks, text) renders *)
Theorem cm_emphasis_layer_conservative : forall s, forallb plain_char s = true -> inline_html s = inl (S (length s)) s 0.
Proof. exact emphasis_layer_conservative. Qed.
Print Assumptions cm_emphasis_layer_conservative.

(* ---- the link-destination normalisation (links/link_parse_helper.py::__encode_link_destination) ---- *)
(* the loop of the implementation (cut at the next `%` or `&`, quote the piece in front, handle the special character)
   never runs out of fuel and computes the character-by-character function `enc`, for every destination *)
Theorem linkdest_loop_is_enc : forall s, encode_impl s = Some (enc s).
Proof. exact encode_impl_spec_l. Qed.
Print Assumptions linkdest_loop_is_enc.

(* whatever the destination (any Unicode scalar values): the normalised text consists of the URL-safe ASCII set, `%` and
   the characters of `&amp;` only - no space, quote, angle bracket, backslash, backtick or non-ASCII character reaches the
   attribute *)
Theorem linkdest_attribute_safe : forall s c, valid s = true -> In c (enc s) ->
  (c < 128 /\ c <> 32 /\ c <> 34 /\ c <> 60 /\ c <> 62 /\ c <> 92 /\ c <> 96)%N.
Proof.
  intros s c V H. apply out_ok_ascii. pose proof (enc_out_ok_l s V) as A. rewrite forallb_forall in A. exact (A c H).
Qed.
Print Assumptions linkdest_attribute_safe.

(* a percent escape that is there stays as it is, wherever it stands - in the middle or at the very end of the destination -
   and what is in front of it and behind it is normalised on its own (`a` must not end inside a `%` or `%h` of its own) *)
Theorem linkdest_escapes_kept : forall a h1 h2 b, open_tail a = false -> is_hexd h1 = true -> is_hexd h2 = true ->
  enc (a ++ c_pct :: h1 :: h2 :: b) = enc a ++ c_pct :: h1 :: h2 :: enc b.
Proof. exact enc_escape_kept_l. Qed.
Print Assumptions linkdest_escapes_kept.

(* text without `%` never ends inside an escape: the hypothesis of linkdest_escapes_kept is satisfiable, and the
   specification's own example `foo%20b` + a-umlaut gives foo%20b%C3%A4; a `%` that starts no escape becomes %25 *)
Example linkdest_examples :
  open_tail [47; 120]%N = false /\
  enc [102; 111; 111; 37; 50; 48; 98; 228]%N = [102; 111; 111; 37; 50; 48; 98; 37; 67; 51; 37; 65; 52]%N /\
  enc [47; 120; 37; 50; 48]%N = [47; 120; 37; 50; 48]%N /\
  enc [97; 37; 32; 102]%N = [97; 37; 50; 53; 37; 50; 48; 102]%N /\
  encode_impl [37; 43; 49; 38]%N = Some [37; 50; 53; 43; 49; 38; 97; 109; 112; 59]%N.
Proof. repeat split; vm_compute; reflexivity. Qed.

(* ---- link labels and the map of link reference definitions (links/link_parse_helper.py) ---- *)
(* the Python text (replace_any_of, split without the empty pieces, join, casefold, strip) computes the one-pass function
   `norm`, for every label *)
Theorem linklabel_impl_is_norm : forall s, norm_impl s = norm s.
Proof. exact norm_impl_is_norm_l. Qed.
Print Assumptions linklabel_impl_is_norm.

(* normalisation is a normal form: normalising twice changes nothing *)
Theorem linklabel_idempotent : forall s, norm (norm s) = norm s.
Proof. exact norm_idempotent_l. Qed.
Print Assumptions linklabel_idempotent.

(* what does not matter when labels are compared: the case of ASCII letters; the kind and amount of white space between
   words (any non-empty run of spaces, tabs, line endings counts as one space); white space around the label *)
Theorem linklabel_insensitive : forall a w1 w2 b w w',
  all_ws w1 = true -> w1 <> [] -> all_ws w2 = true -> w2 <> [] -> all_ws w = true -> all_ws w' = true ->
  norm (map upper (w ++ a ++ w1 ++ b ++ w')) = norm (a ++ w2 ++ b).
Proof.
  intros a w1 w2 b w w' H1 N1 H2 N2 H H'. rewrite norm_case_l.
  replace (w ++ a ++ w1 ++ b ++ w') with (w ++ (a ++ w1 ++ b) ++ w') by (rewrite <- !app_assoc; reflexivity).
  rewrite norm_strip_l by assumption. apply norm_gap_l; assumption.
Qed.
Print Assumptions linklabel_insensitive.

(* the first definition wins: looking a label up in the map built from a document's definitions, in order, gives the value
   of the first definition whose label has the same normal form; a label that normalises to nothing matches nothing *)
Theorem linkdefs_first_wins : forall (V : Type) (entries : list (str * V)) label,
  look_up V (build V entries) label =
  if is_nil (norm label) then None else first_match V (norm label) entries.
Proof.
  intros V entries label. destruct (is_nil (norm label)) eqn:E; [apply empty_label_l | apply first_wins_l]; exact E.
Qed.
Print Assumptions linkdefs_first_wins.

(* `Foo  BAR` (two spaces), `foo bar` and ` FOO<tab>bar ` are one label; of two definitions for it the first counts *)
Example linklabel_examples :
  norm [70; 111; 111; 32; 32; 66; 65; 82]%N = [102; 111; 111; 32; 98; 97; 114]%N /\
  norm [32; 70; 79; 79; 9; 98; 97; 114; 32]%N = [102; 111; 111; 32; 98; 97; 114]%N /\
  look_up nat (build nat [([70; 111; 111; 32; 32; 66; 65; 82]%N, 1%nat); ([102; 111; 111; 32; 98; 97; 114]%N, 2%nat)]) [32; 70; 79; 79; 9; 98; 97; 114; 32]%N = Some 1%nat /\
  look_up nat (build nat [([97]%N, 1%nat)]) [32; 9]%N = None.
Proof. repeat split; vm_compute; reflexivity. Qed.

(* ---- thematic breaks (leaf_blocks/thematic_leaf_block_processor.py::is_thematic_break) ---- *)
(* the test of the implementation - called, as the block pass does, with the line, the index behind its indentation and that
   indentation - answers exactly as the sentence of CommonMark 4.1 does, and reports the matching character and the end of the
   line; for every indentation (tabs included, by their width) and every rest of the line *)
Theorem thematic_break_is_spec : forall ws body,
  tb_impl (ws ++ body) (length ws) ws false true = if tb_spec ws body then Some (hd 0%N body, length (ws ++ body)) else None.
Proof. exact tb_impl_is_spec_l. Qed.
Print Assumptions thematic_break_is_spec.

(* a break stays a break when more of its character or white space is appended; four columns of indentation never give one *)
Theorem thematic_break_stable : forall ws body x,
  (tb_spec ws body = true -> (N.eqb x (hd 0%N body) || is_blank_c x) = true -> tb_spec ws (body ++ [x]) = true) /\
  ((4 <= calc_length ws 0)%N -> tb_spec ws body = false).
Proof. intros ws body x. split; [apply tb_spec_append_l | apply tb_spec_indent_l]. Qed.
Print Assumptions thematic_break_stable.

Example thematic_break_examples :
  tb_spec [] [45; 32; 45; 32; 45]%N = true /\ tb_spec [32; 32; 32]%N [42; 9; 42; 42; 9]%N = true /\
  tb_spec [9]%N [45; 45; 45]%N = false /\ tb_spec [] [45; 45]%N = false /\ tb_spec [] [45; 45; 45; 97]%N = false /\
  tb_spec [32; 32; 9]%N [45; 45; 45]%N = false /\ tb_spec [] [45; 42; 45; 45]%N = false.
Proof. repeat split; vm_compute; reflexivity. Qed.

(* ---- ATX headings (leaf_blocks/atx_leaf_block_processor.py::is_atx_heading) ---- *)
(* called as the block pass calls it, the function recognises an ATX heading exactly when CommonMark 4.2 does (one to six `#`
   after at most three columns of indentation, followed by a space, a tab or the end of the line), and returns the number of
   `#`, the white space behind them and the index of the first character of the heading text *)
Theorem atx_opening_is_spec : forall ws body,
  atx_impl (ws ++ body) (length ws) ws false =
  if atx_spec ws body then
    let h := run_of is_hash body in let wsa := run_of is_blank_c (dropn (length h) body) in
    Some ((length ws + length h + length wsa)%nat, length h, wsa)
  else None.
Proof. exact atx_impl_is_spec_l. Qed.
Print Assumptions atx_opening_is_spec.

(* seven `#` never open a heading, whatever the indentation and whatever follows *)
Theorem atx_seven_hashes_never : forall ws body, prefix_b (repeat c_hash 7) body = true -> atx_spec ws body = false.
Proof. exact atx_spec_seven_l. Qed.
Print Assumptions atx_seven_hashes_never.

Example atx_examples :
  atx_spec [] [35; 32; 97]%N = true /\ atx_spec [32; 32; 32]%N [35; 35; 9; 97]%N = true /\ atx_spec [] [35]%N = true /\
  atx_spec [] [35; 97]%N = false /\ atx_spec [9]%N [35; 32; 97]%N = false /\ atx_spec [] [35; 35; 35; 35; 35; 35; 35; 32; 97]%N = false /\
  atx_impl [32; 35; 35; 32; 32; 97]%N 1 [32]%N false = Some (5%nat, 2%nat, [32; 32]%N).
Proof. repeat split; vm_compute; reflexivity. Qed.

(* ---- the escaping of text on its way into a token (inline/inline_helper.py::InlineHelper.append_text) ---- *)
Lemma esc_t_is_esc : forall s, esc_t s = esc s.
Proof.
  intros s. unfold esc_t, esc. apply flat_map_ext. intros c. unfold ent, esc1.
  destruct (N.eqb c 60); [reflexivity|]. destruct (N.eqb c 62); [reflexivity|].
  destruct (N.eqb c 38); [reflexivity|]. destruct (N.eqb c 34); reflexivity.
Qed.

(* without the signature the loop of append_text never runs out of fuel and appends exactly the specification's escaping of
   the text (the renderer's `esc`, about which cm_escape_safe speaks), for every text *)
Theorem append_text_is_esc : forall prefix text, append_impl prefix text false = Some (prefix ++ esc text).
Proof. intros prefix text. rewrite append_impl_spec_l, whole_plain_is_esc, esc_t_is_esc. reflexivity. Qed.
Print Assumptions append_text_is_esc.

(* with the signature (the parser's use) the token text carries both: for every text free of the codec's five control
   characters, the codec of C02 recovers the source from it (remove_all) and shows the renderer the escaped text (resolve_all) *)
Theorem append_text_roundtrip : forall text, clean_text text = true ->
  exists tok, append_impl [] text true = Some tok /\ remove_all tok = Some text /\ resolve_all tok = Some (esc text).
Proof. intros text H. destruct (append_roundtrip_l text H) as (tok & A & B & C). exists tok. rewrite <- esc_t_is_esc. auto. Qed.
Print Assumptions append_text_roundtrip.

Example append_text_examples :
  append_impl [120]%N [97; 60; 98; 38]%N false = Some [120; 97; 38; 108; 116; 59; 98; 38; 97; 109; 112; 59]%N /\
  append_impl [] [60]%N true = Some [7; 60; 7; 38; 108; 116; 59; 7]%N /\ clean_text [97; 60; 34]%N = true.
Proof. repeat split; vm_compute; reflexivity. Qed.

(* the model is a total function: the CommonMark examples it must reproduce, as regression facts *)
Example cm_spec_examples :
  (* two list items; a lazy continuation line in a block quote *)
  html [[45;32;97]%N; [45;32;98]%N] = lit [60; 117; 108; 62; 10; 60; 108; 105; 62; 97; 10; 60; 47; 108; 105; 62; 10; 60; 108; 105; 62; 98; 10; 60; 47; 108; 105; 62; 10; 60; 47; 117; 108; 62; 10] /\
  html [[62;32;97]%N; [98]%N] = html [[62;32;97]%N; [62;32;98]%N].
Proof. split; vm_compute; reflexivity. Qed.
