(* C04 - the token stream is well-formed.  Statements only; Print Assumptions beneath each.
   What is proved is that the oracle wf_check means what the property says, for every stream; that the parser emits an
   accepted stream for every document is established by running the extracted oracle (see evidence). *)
From Coq Require Import List Bool Arith NArith.
Require Import PV.Base.Str PV.Model.WF PV.Proofs.WFProofs.
Import ListNotations.

(* completeness: the flattening of any forest that respects the class discipline (containers hold containers and leaf
   blocks, leaf blocks and inline elements hold only inline tokens, a new-list-item token only directly inside a list),
   with every end token naming the position of its start token, is accepted *)
Theorem wf_complete : forall f, ok_f pkind p_allowed None f = true -> wf_check pkind pkind_eqb p_allowed (flatten_f pkind 0 f) = true.
Proof. exact (wf_complete_l pkind pkind_eqb pkind_eqb_eq p_allowed). Qed.
Print Assumptions wf_complete.

(* soundness: every accepted stream IS such a flattening: each end token closes the most recently opened, still-open start
   token and refers to it, nothing is left open, and the class discipline holds at every node *)
Theorem wf_sound : forall ts, wf_check pkind pkind_eqb p_allowed ts = true ->
  exists f, ok_f pkind p_allowed None f = true /\ flatten_f pkind 0 f = ts.
Proof. exact (wf_sound_l pkind pkind_eqb pkind_eqb_eq p_allowed). Qed.
Print Assumptions wf_sound.

(* both hold for any kind type and any "may appear under" relation (used again for the event stream of the spec model) *)
Theorem wf_generic : forall (kind : Type) (kind_eqb : kind -> kind -> bool) (allowed : option kind -> kind -> bool),
  (forall a b, kind_eqb a b = true <-> a = b) ->
  (forall f, ok_f kind allowed None f = true -> wf_check kind kind_eqb allowed (flatten_f kind 0 f) = true) /\
  (forall ts, wf_check kind kind_eqb allowed ts = true -> exists f, ok_f kind allowed None f = true /\ flatten_f kind 0 f = ts).
Proof. intros kind e a H. split; [apply wf_complete_l | apply wf_sound_l]; exact H. Qed.
Print Assumptions wf_generic.

(* a new-list-item token is accepted only directly inside a list *)
Theorem li_only_in_list : forall p c, is_li c = true -> p_allowed p c = true -> exists pk, p = Some pk /\ is_list pk = true.
Proof. intros p c L H. unfold p_allowed in H. rewrite L in H. destruct p as [pk|]; [eauto|discriminate]. Qed.
Print Assumptions li_only_in_list.

Example c04_example :
  let k n c := mkKind n c in
  let bq := k [98;113]%N CCont in let ul := k n_ulist CCont in let li := k n_li CCont in
  let pa := k [112]%N CLeaf in let tx := k [116]%N CInl in let em := k [101]%N CInl in
  stream_ok [TStart bq; TStart ul; TStart pa; TAtom tx; TEnd pa 2; TAtom li; TStart pa; TStart em; TAtom tx; TEnd em 7; TEnd pa 6; TEnd ul 1; TEnd bq 0;
             TAtom (k [101;111;115]%N CSpecial)] = true /\
  stream_ok [TStart pa; TAtom li; TEnd pa 0] = false /\ stream_ok [TStart bq; TStart pa; TEnd bq 0; TEnd pa 1] = false /\
  stream_ok [TStart pa; TAtom tx; TEnd pa 5] = false.
Proof. repeat split; vm_compute; reflexivity. Qed.
