(* C05 - token positions.  Statements only; Print Assumptions beneath each.
   Proved: the arithmetic under every inline position, and that the oracle pos_ok means what the property says.
   That every token of every document satisfies pos_ok is established by running the extracted oracle (see evidence). *)
From Coq Require Import List ZArith NArith Bool Arith.
Require Import PV.Base.Str PV.Model.Pos PV.Proofs.PosProofs.
Import ListNotations.
Local Open Scope Z_scope.

(* calculate_deltas + its application move a position exactly as reading the consumed text character by character does
   (for every text: any number of lines; a negative column delta is the absolute column on the last line) *)
Theorem deltas_correct : forall p s, 1 <= snd p -> apply_deltas p (calc_deltas s) = read_pos p s.
Proof. exact deltas_correct_l. Qed.
Print Assumptions deltas_correct.

(* the oracle: pos_ok holds exactly when the line exists, the column lies within it (or one past its end) and the source
   shows the element's opening text there *)
Theorem pos_ok_spec : forall lines o l c,
  pos_ok lines o l c = true <->
  (1 <= l <= Z.of_nat (length lines) /\ 1 <= c <= Z.of_nat (length (nth (Z.to_nat (l - 1)) lines [])) + 1 /\
   opens o (nth (Z.to_nat (l - 1)) lines []) c = true).
Proof. exact pos_ok_spec_l. Qed.
Print Assumptions pos_ok_spec.

Theorem opens_chars_spec : forall cs line c, opens (OChars cs) line c = true <-> exists ch, nth_char line c = Some ch /\ In ch cs.
Proof. exact opens_chars_l. Qed.
Print Assumptions opens_chars_spec.

(* the order check means: any earlier block token is on a line not after any later one *)
Theorem monotone_spec : forall ls, monotone ls = true ->
  forall i j a b, (i <= j)%nat -> nth_error ls i = Some a -> nth_error ls j = Some b -> a <= b.
Proof. exact monotone_spec_l. Qed.
Print Assumptions monotone_spec.

Example c05_example :
  let lines := [[35;32;97]%N; []; [32;32;45;32;42;98;42]%N] in      (* "# a", "", "  - *b*" *)
  pos_ok lines (OChars [35]%N) 1 1 = true /\ pos_ok lines (OChars [45;43;42]%N) 3 3 = true /\ pos_ok lines (OChars [42;95]%N) 3 5 = true /\
  pos_ok lines (OChars [42;95]%N) 3 4 = false /\ pos_ok lines OAny 4 1 = false /\
  apply_deltas (3, 5) (calc_deltas [97;10;98;99]%N) = (4, 3) /\ read_pos (3, 5) [97;10;98;99]%N = (4, 3).
Proof. repeat split; vm_compute; reflexivity. Qed.
