(* C05 - token positions.  Statements only; Print Assumptions beneath each.
   Proved: the arithmetic under every inline position, and that the oracle pos_ok means what the property says.
   That every token of every document satisfies pos_ok is established by running the extracted oracle (see evidence). *)
From Coq Require Import List ZArith NArith Bool Arith.
Require Import PV.Base.Str PV.Model.Pos PV.Proofs.PosProofs PV.Model.Tabs PV.Proofs.TabsProofs.
Import ListNotations.
Local Open Scope Z_scope.

(* calculate_deltas + its application move a position exactly as reading the consumed text character by character does
   (for every text: any number of lines; a negative column delta is the absolute column on the last line) *)
Theorem deltas_correct : forall p s, 1 <= snd p -> apply_deltas p (calc_deltas s) = read_pos p s.
Proof. exact deltas_correct_l. Qed.
Print Assumptions deltas_correct.

(* the oracle: pos_ok holds exactly when the line exists, the column lies within it (or one past its end) and the source
   shows the element's opening text there *)
Theorem pos_ok_spec : forall lines o l c,
  pos_ok lines o l c = true <->
  (1 <= l <= Z.of_nat (length lines) /\ 1 <= c <= Z.of_nat (length (nth (Z.to_nat (l - 1)) lines [])) + 1 /\
   opens o (nth (Z.to_nat (l - 1)) lines []) c = true).
Proof. exact pos_ok_spec_l. Qed.
Print Assumptions pos_ok_spec.

Theorem opens_chars_spec : forall cs line c, opens (OChars cs) line c = true <-> exists ch, nth_char line c = Some ch /\ In ch cs.
Proof. exact opens_chars_l. Qed.
Print Assumptions opens_chars_spec.

(* the order check means: any earlier block token is on a line not after any later one *)
Theorem monotone_spec : forall ls, monotone ls = true ->
  forall i j a b, (i <= j)%nat -> nth_error ls i = Some a -> nth_error ls j = Some b -> a <= b.
Proof. exact monotone_spec_l. Qed.
Print Assumptions monotone_spec.

Example c05_example :
  let lines := [[35;32;97]%N; []; [32;32;45;32;42;98;42]%N] in      (* "# a", "", "  - *b*" *)
  pos_ok lines (OChars [35]%N) 1 1 = true /\ pos_ok lines (OChars [45;43;42]%N) 3 3 = true /\ pos_ok lines (OChars [42;95]%N) 3 5 = true /\
  pos_ok lines (OChars [42;95]%N) 3 4 = false /\ pos_ok lines OAny 4 1 = false /\
  apply_deltas (3, 5) (calc_deltas [97;10;98;99]%N) = (4, 3) /\ read_pos (3, 5) [97;10;98;99]%N = (4, 3).
Proof. repeat split; vm_compute; reflexivity. Qed.

(* ---- tabs (general/tab_helper.py): a position in a line is a column only after the tabs in front of it have been given
   their width ---- *)
(* the loop of TabHelper.detabify_string never runs out of fuel and computes the character-by-character expansion, for every
   text and every starting column *)
Theorem detab_loop_is_expand : forall s delta, detab_impl s delta = Some (expand delta s).
Proof. exact detab_impl_spec_l. Qed.
Print Assumptions detab_loop_is_expand.

(* the expanded text has no tab, is as long as calculate_length says, and a text without tabs is left as it is *)
Theorem detab_exact : forall s col,
  has_tab (expand col s) = false /\ N.of_nat (length (expand col s)) = calc_length s col /\ expand col (expand col s) = expand col s.
Proof. intros s col. split; [apply expand_has_no_tab_l | split; [apply expand_length_l | apply expand_idempotent_l]]. Qed.
Print Assumptions detab_exact.

(* expansion composes along the line: the second part of a text is expanded from the column at which the first part ends -
   so the rest of a line may be expanded on its own once the column of its first character is known (additional_start_delta) *)
Theorem detab_composes : forall a b col, expand col (a ++ b) = expand col a ++ expand (adv col a) b.
Proof. intros a b col. apply expand_app_l. Qed.
Print Assumptions detab_composes.

(* a tab ends at the next multiple of four and is one to four columns wide *)
Theorem tab_stop : forall col, (adv col [c_tab] mod 4 = 0 /\ col < adv col [c_tab] <= col + 4)%N.
Proof. exact adv_stop_l. Qed.
Print Assumptions tab_stop.

Example detab_examples :
  (* "a<tab>b" from column 0 and from column 3; spaces in front of the tab belong to the run *)
  expand 0 [97; 9; 98]%N = [97; 32; 32; 32; 98]%N /\
  expand 3 [97; 9; 98]%N = [97; 32; 32; 32; 32; 98]%N /\
  detab_impl [97; 32; 32; 9; 9; 98; 9]%N 2 = Some (expand 2 [97; 32; 32; 9; 9; 98; 9]%N) /\
  calc_length [32; 9]%N 2 = 2%N.
Proof. repeat split; vm_compute; reflexivity. Qed.
