(* C06 - rule verdicts match the documented condition.  Statements about the specification Spec/RuleSpec.v (what its
   verdicts mean, for every document and configuration); Print Assumptions beneath each.  That each rule of PyMarkdown
   implements its specification is decided by the enumeration in harness/props/c06.py, not by these theorems. *)
From Coq Require Import List NArith Bool Arith Lia.
Require Import PV.Spec.CMBlock PV.Spec.RuleSpec PV.Proofs.RuleSpecProofs.
Import ListNotations.

(* MD013 reports a line exactly when the line is longer than the limit of its category (code block, heading, other) and,
   unless strict, has a space past the limit *)
Theorem md013_exact : forall c ls lvs ln,
  In ln (must (md013 c ls lvs)) <->
  1 <= ln <= length ls /\ exists n, limit13 c lvs ln = Some n /\ n < length (line_at ls ln) /\
    (strict13 c = true \/ existsb is_sp (dropn n (line_at ls ln)) = true).
Proof. exact md013_exact_l. Qed.
Print Assumptions md013_exact.

Theorem md013_category_off : forall c ls lvs ln, limit13 c lvs ln = None -> ~ In ln (must (md013 c ls lvs)).
Proof. exact md013_off_l. Qed.
Print Assumptions md013_category_off.

Theorem md013_strict_monotone : forall c c' ls lvs ln,
  strict13 c = true -> strict13 c' = true -> code_on c' = code_on c -> head_on c' = head_on c ->
  line_length c <= line_length c' -> code_len c <= code_len c' -> head_len c <= head_len c' ->
  In ln (must (md013 c' ls lvs)) -> In ln (must (md013 c ls lvs)).
Proof. exact md013_strict_monotone_l. Qed.
Print Assumptions md013_strict_monotone.

(* MD009 reports exactly the lines outside code blocks that end in a positive number of spaces other than br_spaces (any
   positive number when strict) *)
Theorem md009_exact : forall c ls lvs ln,
  In ln (must (md009 c ls lvs)) <->
  1 <= ln <= length ls /\ 1 <= trailing_sp (line_at ls ln) /\
  (forall l, leaf_at lvs ln = Some l -> is_code l = false) /\
  (strict9 c = true \/ trailing_sp (line_at ls ln) <> br_spaces c).
Proof. exact md009_exact_l. Qed.
Print Assumptions md009_exact.

(* MD010 reports exactly the lines that contain a tab; with code_blocks off exactly those of them that lie outside code
   blocks, never a content line of a code block (only the fence lines of a fenced block are left open) *)
Theorem md010_exact : forall ls lvs ln,
  In ln (must (md010 true ls lvs)) <-> 1 <= ln <= length ls /\ has_tab_c (line_at ls ln) = true.
Proof. exact md010_exact_l. Qed.
Print Assumptions md010_exact.

Theorem md010_code_blocks_off : forall ls lvs ln,
  (forall l, leaf_at lvs ln = Some l -> is_code l = true ->
     ~ In ln (must (md010 false ls lvs)) /\ (In ln (open_ (md010 false ls lvs)) -> is_fenced l = true /\ (ln = lsl l \/ ln = lel l))) /\
  ((forall l, leaf_at lvs ln = Some l -> is_code l = false) ->
     (In ln (must (md010 false ls lvs)) <-> 1 <= ln <= length ls /\ has_tab_c (line_at ls ln) = true)).
Proof. intros ls lvs ln. split; [intros l E C; exact (md010_code_exempt_l ls lvs ln l E C) | apply md010_outside_code_l]. Qed.
Print Assumptions md010_code_blocks_off.

(* MD012 only ever reports blank lines of the document *)
Theorem md012_reports_blank_lines : forall maxb ls lvs tail_in_code nlines ln, In ln (must (md012 maxb ls lvs tail_in_code nlines)) -> blank_at lvs ln = true /\ 1 <= ln <= length ls.
Proof. exact md012_blank_l. Qed.
Print Assumptions md012_reports_blank_lines.

(* MD047: a text that ends with a newline character is never reported; a text whose last line has a character that is
   not a space is reported at that line *)
Theorem md047_newline : forall (ps : list str) (r : list str), rev ps = [] :: r -> must (md047 ps) = [] /\ open_ (md047 ps) = [].
Proof. exact md047_newline_l. Qed.
Print Assumptions md047_newline.

Theorem md047_missing : forall (ps : list str) (l : str) (r : list str), rev ps = l :: r -> is_blank l = false -> must (md047 ps) = [length ps].
Proof. exact md047_missing_l. Qed.
Print Assumptions md047_missing.

(* MD001: every report is at a heading of level two or more *)
Theorem md001_reports_headings : forall lvs ln, In ln (must (md001 lvs)) -> exists h, In h (headings lvs) /\ h_line h = ln /\ 2 <= h_lvl h.
Proof. intros lvs ln H. exact (md001_go_in (headings lvs) None ln H). Qed.
Print Assumptions md001_reports_headings.

(* MD004 with a fixed style reports exactly the unordered lists with another marker, at their first line; with the
   consistent style nothing is reported when all unordered lists share one marker *)
Theorem md004_fixed_exact : forall c lsts ln,
  In ln (must (md004 (K4Fixed c) lsts)) <-> exists l, In l lsts /\ l_ord l = false /\ l_delim l <> c /\ l_sl l = ln.
Proof. exact md004_fixed_exact_l. Qed.
Print Assumptions md004_fixed_exact.

Theorem md004_consistent_quiet : forall lsts c,
  (forall l, In l lsts -> l_ord l = false -> l_delim l = c) -> must (md004 K4Consistent lsts) = [].
Proof. exact md004_consistent_quiet_l. Qed.
Print Assumptions md004_consistent_quiet.

(* MD032 says something only about the first line of a list that is not directly inside a list item (the documented
   exemption) *)
Theorem md032_only_at_lists : forall ls lvs lsts ln,
  In ln (must (md032 ls lvs lsts)) \/ In ln (open_ (md032 ls lvs lsts)) -> exists l, In l lsts /\ in_item l = false /\ l_sl l = ln.
Proof. exact md032_at_lists_l. Qed.
Print Assumptions md032_only_at_lists.

(* non-vacuity: the specification on a small document *)
Example c06_example :
  let doc := [[35; 32; 97]; [35; 35; 35; 32; 98]; []; []; []]%N in   (* "# a" / "### b" / three blank pieces *)
  map (fun p => (fst p, must (snd p))) (filter (fun p => negb (is_nil (must (snd p)))) (run_rules [2;0;80;80;80;1;1;0;1;1;1;1;1;0;0;0] [46%N] [] doc))
  = [(1, [2]); (12, [5]); (22, [1; 2])].
Proof. vm_compute. reflexivity. Qed.
