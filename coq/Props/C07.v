(* C07 - failures are printed once each, ordered by line, then column, then rule id, deterministically;
   report positions derive from token positions.  Only statements; Print Assumptions beneath each. *)
From Coq Require Import List ZArith Bool Permutation Sorted Lia.
Require Import PV.Base.Str PV.Base.StrOrder PV.Base.Sort PV.Gen.FailureLt PV.Model.Report PV.Proofs.ReportProofs.
Import ListNotations.
Local Open Scope Z_scope.

(* the translated PluginScanFailure.__lt__ IS the documented order: line, then column, then rule id *)
Theorem failure_lt_is_documented_order : forall a b, failure_ltb a b = key_ltb a b.
Proof. exact failure_ltb_is_key_ltb. Qed.
Print Assumptions failure_lt_is_documented_order.

(* it is a strict weak order, which is what Python's sorted() needs to give a meaningful result *)
Theorem failure_lt_strict_weak_order :
  (forall a, failure_ltb a a = false) /\
  (forall a b, failure_ltb a b = true -> failure_ltb b a = false) /\
  (forall a b c, failure_ltb a b = true -> failure_ltb b c = true -> failure_ltb a c = true) /\
  (forall a b c, failure_ltb b a = false -> failure_ltb c b = false -> failure_ltb c a = false).
Proof.
  repeat split; intros *; rewrite ?failure_ltb_is_key_ltb;
    [apply key_ltb_irrefl | apply key_ltb_asym | apply key_ltb_trans | apply key_le_trans].
Qed.
Print Assumptions failure_lt_strict_weak_order.

(* whatever was collected, in whatever order, with whatever suppressions: the printed list is ordered *)
Theorem printed_sorted : forall supp rs, StronglySorted key_le (printed supp rs).
Proof. exact printed_sorted_l. Qed.
Print Assumptions printed_sorted.

(* every collected, unsuppressed failure is printed exactly as often as it was reported; nothing else is *)
Theorem printed_once : forall supp rs, Permutation (printed supp rs) (filter (fun f => negb (supp f)) rs).
Proof. exact printed_once_l. Qed.
Print Assumptions printed_once.

(* determinism: the output does not depend on the order in which the rules reported *)
Theorem printed_perm_invariant : forall supp rs rs',
  NoDup rs -> keys_distinct rs -> Permutation rs rs' -> printed supp rs = printed supp rs'.
Proof. exact printed_perm_invariant_l. Qed.
Print Assumptions printed_perm_invariant.

(* report positions *)
Theorem token_report_in_range : forall lens tl tc dc,
  in_range lens (tl, tc) -> 0 <= dc -> tc + dc <= nth (Z.to_nat (tl - 1)) lens 0 + 1 ->
  in_range lens (token_report_pos tl tc 0 dc).
Proof. exact token_report_in_range_l. Qed.
Print Assumptions token_report_in_range.

Theorem token_report_absolute_col : forall tl tc dl dc, dc < 0 -> token_report_pos tl tc dl dc = (tl + dl, - dc).
Proof. exact token_report_absolute_col_l. Qed.
Print Assumptions token_report_absolute_col.

Theorem line_report_at_current_line : forall cur col, line_report_pos cur col 0 = (cur, col).
Proof. exact line_report_pos_l. Qed.
Print Assumptions line_report_at_current_line.

(* non-vacuity *)
Example c07_example :
  let a := mkF [] 3 1 [77;68;48;48;57]%N [] in let b := mkF [] 1 5 [77;68;48;49;48]%N [] in
  let c := mkF [] 3 1 [77;68;48;48;49]%N [] in
  printed (fun f => (f_line f =? 1)) [a; b; c] = [c; a] /\ keys_distinct [a; b; c] /\ in_range [4; 0; 7] (3, 8).
Proof.
  cbv zeta. split; [reflexivity|]. split.
  - intros x y Hx Hy [H1 [H2 H3]]. cbn [In] in *.
    repeat match goal with H : _ \/ _ |- _ => destruct H end; subst; try tauto; cbn in *; congruence.
  - unfold in_range. simpl. lia.
Qed.
