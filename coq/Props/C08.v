(* C08 - fix mode preserves meaning.  Statements about the mechanism kernel Model/Replace.v (one token-range replacement
   with the pragma lines that move with it); Print Assumptions beneath each.  That a whole fix run changes style only is
   decided by the fingerprint comparison in harness/props/c08.py, not by these theorems. *)
From Coq Require Import List ZArith Bool Arith Lia.
Require Import PV.Model.Replace PV.Proofs.ReplaceProofs.
Import ListNotations.
Local Open Scope Z_scope.

(* a replacement keeps every token in front of the range, puts the new tokens in its place, and keeps every token behind
   the range, in order, with nothing but the line number changed (tokens that carry no line number, the end tokens, keep none) *)
Theorem replacement_keeps_the_rest : forall toks si ei newt, (si <= length toks)%nat ->
  firstn si (replace_tokens toks si ei newt) = firstn si toks /\
  skipn si (replace_tokens toks si ei newt) = newt ++ map (adjust (line_delta toks si ei newt)) (skipn (S ei) toks) /\
  forall d t, t_id (adjust d t) = t_id t /\ t_end (adjust d t) = t_end t /\ t_line (adjust d t) = if Z.eqb (t_line t) 0 then 0 else t_line t + d.
Proof. intros. split; [now apply replace_prefix_l | split; [now apply replace_rest_l | apply adjust_id_l]]. Qed.
Print Assumptions replacement_keeps_the_rest.

(* the pragma lines: whatever the number of pragmas, the line the range ends at and the (positive or negative) change in
   the number of lines, as long as no pragma sits inside the removed lines, the dictionary after the loop is exactly the
   dictionary with every pragma behind the range moved by delta: none lost, none overwritten, none left behind *)
Theorem pragmas_move_with_their_lines : forall (V : Type) e delta (d : dict V),
  NoDup (map fst d) -> (forall k, In k (map fst d) -> e < k -> e < k + delta) ->
  forall x, lookup V x (shift_pragmas V d e delta) = lookup V x (shift_spec V d e delta).
Proof. exact shift_pragmas_exact_l. Qed.
Print Assumptions pragmas_move_with_their_lines.

Theorem no_pragma_lost : forall (V : Type) e delta (d : dict V), NoDup (map fst d) ->
  (forall k, In k (map fst d) -> e < k -> e < k + delta) ->
  forall k v, In (k, v) d -> lookup V (target e delta k) (shift_pragmas V d e delta) = Some v.
Proof. exact length_preserved_l. Qed.
Print Assumptions no_pragma_lost.

(* the order of the loop matters: walking from the last line to the first, as the code did before the repair f3ff20a,
   loses a pragma when lines are removed *)
Theorem fixed_order_refuted : exists d : dict nat,
  NoDup (map fst d) /\ (forall k, In k (map fst d) -> 4 < k -> 4 < k + -2) /\
  (length (shift_pragmas_desc nat d 4 (-2)) < length d)%nat.
Proof. exact desc_loses_l. Qed.
Print Assumptions fixed_order_refuted.

(* non-vacuity *)
Example c08_example :
  shift_pragmas nat [(7, 1%nat); (9, 2%nat); (2, 3%nat)] 4 (-2) = [(7, 2%nat); (5, 1%nat); (2, 3%nat)] /\
  shift_pragmas nat [(5, 1%nat); (6, 2%nat)] 3 1 = [(6, 1%nat); (7, 2%nat)] /\
  map t_line (replace_tokens [mktk 1 1 false; mktk 2 2 false; mktk 3 3 false; mktk 4 4 false] 1 2 [mktk 9 2 false]) = [1; 2; 3].
Proof. repeat split; vm_compute; reflexivity. Qed.
