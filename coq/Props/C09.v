(* C09 - one fix run reaches a fixed point.  Statements only; Print Assumptions beneath each. *)
From Coq Require Import List ZArith Bool Arith Sorted.
Require Import PV.Base.Str PV.Base.RuleTypes PV.Gen.RuleTable PV.Model.FixSched PV.Proofs.FixSchedProofs.
Import ListNotations.
Local Open Scope Z_scope.

(* the levels of the fix-capable default rules, from the translated rule table *)
Definition default_fix_levels : list Z := [0; 1; 2; 3; 5].
Theorem fix_levels_of_rule_table :
  forall r, In r rules -> r_fix r = true -> r_default r = true -> In (r_level r) default_fix_levels.
Proof.
  assert (H : forallb (fun r => negb (r_fix r && r_default r) || existsb (Z.eqb (r_level r)) default_fix_levels) rules = true) by (vm_compute; reflexivity).
  intros r I F D. rewrite forallb_forall in H. specialize (H r I). rewrite F, D in H. cbn [andb negb orb] in H.
  apply existsb_exists in H as [x [Ix E]]. apply Z.eqb_eq in E. now subst.
Qed.
Print Assumptions fix_levels_of_rule_table.

(* whatever the rules do: the levels that are run are strictly increasing - no level runs twice - and the loop ends after
   at most as many passes as there are levels (no fuel exhaustion) *)
Theorem sched_levels_strictly_increase : forall (doc : Type) fix_at collected fuel L (d d' : doc) ls,
  run fix_at collected fuel L d = Some (d', ls) -> exists r, ls = L :: r /\ StronglySorted Z.lt ls.
Proof. exact run_increasing. Qed.
Print Assumptions sched_levels_strictly_increase.

Theorem sched_pass_bound : forall (doc : Type) fix_at collected fuel L (d d' : doc) ls (levels : list Z),
  In L levels -> (forall l d x, In x (collected l d) -> In x levels) ->
  run fix_at collected fuel L d = Some (d', ls) -> NoDup ls /\ (length ls <= length levels)%nat.
Proof. exact run_pass_bound. Qed.
Print Assumptions sched_pass_bound.

Theorem sched_terminates : forall (doc : Type) fix_at collected (levels : list Z) (fuel : nat) (L : Z) (d : doc),
  (forall l d x, In x (collected l d) -> In x levels) ->
  (length (filter (fun l => (L <=? l)%Z) levels) <= fuel)%nat -> In L levels ->
  exists r, run fix_at collected fuel L d = Some r.
Proof. exact run_terminates. Qed.
Print Assumptions sched_terminates.

(* convergence in one run, under the hypotheses it needs about the rules (checked pairwise on the implementation):
   H1 a pass resolves its own level, H1' nothing to fix means untouched, H2 a pass creates no work for lower levels,
   H3 the collectors of a pass see the document it leaves *)
Theorem sched_fixed_point : forall (doc : Type) fix_at collected (levels : list Z) (trig : Z -> doc -> bool),
  (forall l d, trig l (fix_at l d) = false) ->
  (forall l d, trig l d = false -> fix_at l d = d) ->
  (forall l l' d, l' < l -> trig l' d = false -> trig l' (fix_at l d) = false) ->
  (forall L d x, In x (collected L d) <-> (In x levels /\ L < x /\ trig x (fix_at L d) = true)) ->
  forall fuel fuel2 L0 d d' ls,
  In L0 levels -> (forall l, In l levels -> L0 <= l) ->
  run fix_at collected fuel L0 d = Some (d', ls) ->
  (forall l, In l levels -> trig l d' = false) /\ run fix_at collected (S fuel2) L0 d' = Some (d', [L0]).
Proof. intros doc fix_at collected levels trig H1 H1' H2 H3. exact (one_run_converges doc fix_at collected levels trig H1 H1' H2 H3). Qed.
Print Assumptions sched_fixed_point.

(* the property as stated - without hypotheses - is refuted on the scheduler: a pass that leaves work of its own level
   (two rules of one level interfering) is never repeated, so a second run changes the document again *)
Theorem sched_refuted_without_H1 :
  exists (fix_at : Z -> nat -> nat) (collected : Z -> nat -> list Z) d d1 d2 l1 l2,
    run fix_at collected 3 1 d = Some (d1, l1) /\ run fix_at collected 3 1 d1 = Some (d2, l2) /\ d2 <> d1.
Proof. exact not_idempotent_without_H1. Qed.
Print Assumptions sched_refuted_without_H1.

(* non-vacuity: levels 0,1,3 triggered by content, 2 and 5 not *)
Example c09_example :
  run (fun _ (d : nat) => d) (fun L _ => filter (fun l => L <? l) [1; 3]) 6 0 7%nat = Some (7%nat, [0; 1; 3]).
Proof. vm_compute. reflexivity. Qed.
