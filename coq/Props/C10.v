(* C10 - fix reporting is truthful.  Statements only; Print Assumptions beneath each. *)
From Coq Require Import List NArith Bool ZArith.
Require Import PV.Base.Str PV.Gen.ReturnCodes PV.Gen.FinalCategory PV.Model.Runner PV.Model.FixPass PV.Proofs.FixPassProofs.
Import ListNotations.

(* for every original content and every sequence of passes (whatever they compute): if the bytes changed, the file is announced *)
Theorem bytes_change_implies_announced : forall orig ps, fix_content orig ps <> orig -> did_fix ps = true.
Proof. exact change_implies_announced_l. Qed.
Print Assumptions bytes_change_implies_announced.

(* a file for which no pass registers a fix is left byte-identical *)
Theorem unannounced_is_untouched : forall ps orig, did_fix ps = false -> fix_content orig ps = orig.
Proof. exact no_write_no_change. Qed.
Print Assumptions unannounced_is_untouched.

(* 'Fixed: f' is printed exactly for the files some pass of which wrote back *)
Theorem announced_exactly : forall fs f,
  In f (announced fs) <-> exists x, In x fs /\ fst (fst x) = f /\ did_fix (snd x) = true.
Proof. exact announced_iff_l. Qed.
Print Assumptions announced_exactly.

(* the run (no errors) ends in the fixed-at-least-one-file category iff something is announced, else in success *)
Theorem announced_iff_exit_fixed : forall fs,
  fix_category fs = if existsb (fun f => did_fix (snd f)) fs then FIXED_AT_LEAST_ONE_FILE else SUCCESS.
Proof. exact fix_category_l. Qed.
Print Assumptions announced_iff_exit_fixed.

Theorem announced_nonempty_iff : forall fs, announced fs <> [] <-> existsb (fun f => did_fix (snd f)) fs = true.
Proof. exact announced_nonempty. Qed.
Print Assumptions announced_nonempty_iff.

(* the API's files_fixed is the announcement list, independent of the return-code scheme *)
Theorem api_files_fixed_is_announced : forall fs, api_files_fixed fs = announced fs.
Proof. reflexivity. Qed.
Print Assumptions api_files_fixed_is_announced.

(* the converse "announced -> bytes differ" is NOT a theorem of the bookkeeping: it holds only if a pass that registers a fix
   really changes the content and later passes do not undo it; witness: a pass that registers a fix and writes the same bytes.
   This half of the property is decided by enumeration on the implementation (see evidence). *)
Theorem announced_implies_changed_needs_honest_rules : exists orig ps, did_fix ps = true /\ fix_content orig ps = orig.
Proof. exists [97%N], [mkPass true 0 [97%N]]. split; reflexivity. Qed.
Print Assumptions announced_implies_changed_needs_honest_rules.

Example c10_example :
  let fs := [(1%N, [97%N], [mkPass false 1 [98%N]; mkPass false 0 [99%N]]); (2%N, [100%N], [mkPass false 0 [101%N]])] in
  final_contents fs = [(1%N, [98%N]); (2%N, [100%N])] /\ announced fs = [1%N] /\ fix_category fs = FIXED_AT_LEAST_ONE_FILE.
Proof. repeat split; vm_compute; reflexivity. Qed.
