(* C11 - pragmas suppress exactly what they name.  Statements only; Print Assumptions beneath each. *)
From Coq Require Import List ZArith NArith Bool.
Require Import PV.Base.Str PV.Base.RuleTypes PV.Base.Sort PV.Gen.FailureLt PV.Model.Report PV.Model.Pragma PV.Proofs.PragmaProofs.
Import ListNotations.
Local Open Scope Z_scope.

(* for every list of pragmas (one per source line), every line and every rule id: the failure is suppressed iff some pragma
   covers the line and names the rule (through an id or alias that resolved) *)
Theorem suppress_exact : forall ps line rid,
  NoDup (map p_at ps) ->
  (suppressed (compile ps) line rid = true <-> exists p, In p ps /\ covers p line = true /\ names p rid = true).
Proof. exact suppress_exact_l. Qed.
Print Assumptions suppress_exact.

(* disable-next-line covers exactly the following line, disable-num-lines N exactly the following N lines *)
Theorem next_line_covers_exactly : forall p line, p_cmd p = CNext -> (covers p line = true <-> line = p_at p + 1).
Proof. exact next_line_covers. Qed.
Print Assumptions next_line_covers_exactly.
Theorem num_lines_covers_exactly : forall p n line, p_cmd p = CNum n -> (covers p line = true <-> p_at p + 1 <= line <= p_at p + n).
Proof. exact num_lines_covers. Qed.
Print Assumptions num_lines_covers_exactly.

(* a malformed pragma (command not understood, bad or missing count, no id that resolves) suppresses nothing ... *)
Theorem malformed_suppresses_nothing : forall ps q line rid,
  NoDup (map p_at (q :: ps)) -> malformed q = true ->
  suppressed (compile (q :: ps)) line rid = suppressed (compile ps) line rid.
Proof. exact malformed_suppresses_nothing_l. Qed.
Print Assumptions malformed_suppresses_nothing.

(* ... and is reported *)
Theorem bad_command_reported : forall p, (match p_cmd p with CNext | CNum _ => false | _ => true end) = true -> n_errors p = 1%nat.
Proof. exact bad_command_reported_l. Qed.
Print Assumptions bad_command_reported.
Theorem unresolved_ids_reported : forall p,
  malformed p = true -> (p_cmd p = CNext \/ exists n, p_cmd p = CNum n) -> p_ids p <> [] -> (1 <= n_errors p)%nat.
Proof. exact malformed_reported_l. Qed.
Print Assumptions unresolved_ids_reported.

(* per-id semantics: a pragma that mixes ids that resolve with ids that do not is reported AND suppresses the ones that resolve;
   the literal reading "a malformed pragma suppresses nothing" fails for it (known finding) *)
Theorem mixed_pragma_suppresses_and_is_reported : exists p line rid,
  (1 <= n_errors p)%nat /\ suppressed (compile [p]) line rid = true.
Proof. exists (mkParsed 1 CNext [IdOk [109]%N; IdUnknown]), 2, [109]%N. split; vm_compute; [repeat constructor | reflexivity]. Qed.
Print Assumptions mixed_pragma_suppresses_and_is_reported.

(* every other failure is reported unchanged: the output with pragmas is the output without, minus the suppressed failures *)
Theorem others_unchanged : forall supp rs, printed supp rs = filter (fun f => negb (supp f)) (printed (fun _ => false) rs).
Proof.
  intros. unfold printed. generalize (sorted_failures rs). induction l as [|x l IH]; [reflexivity|].
  cbn [filter negb]. destruct (supp x); cbn [negb filter]; [exact IH | now rewrite IH].
Qed.
Print Assumptions others_unchanged.

Example c11_example :
  let ps := [mkParsed 3 CNext [IdOk [97]%N]; mkParsed 5 (CNum 2) [IdOk [98]%N; IdBlank]; mkParsed 9 CNumBadCount []] in
  suppressed (compile ps) 4 [97]%N = true /\ suppressed (compile ps) 5 [97]%N = false /\
  suppressed (compile ps) 7 [98]%N = true /\ suppressed (compile ps) 8 [98]%N = false /\ NoDup (map p_at ps).
Proof. repeat split; try (vm_compute; reflexivity). repeat constructor; cbn; intuition; discriminate. Qed.
