(* C12 - rules are independent.  Statements only; Print Assumptions beneath each. *)
From Coq Require Import List Bool NArith Arith.
Require Import PV.Base.Str PV.Model.Dispatch PV.Proofs.DispatchProofs PV.Gen.SharedState.
Import ListNotations.

(* for arbitrary plug-ins (any state type, any step function, any reports), any set of enabled plug-ins with distinct ids and
   any sequence of events: what a plug-in reports inside the set is exactly what it reports when enabled alone *)
Theorem run_union : forall (state event report : Type) (evs : list event) (ps : list (plugin state event report * state)) p s,
  NoDup (map (fun q => p_id (fst q)) ps) -> In (p, s) ps ->
  reports_of (p_id p) (engine ps evs) = reports_of (p_id p) (engine [(p, s)] evs).
Proof. intros. rewrite alone_l. now apply engine_reports_in. Qed.
Print Assumptions run_union.

(* enabling or disabling other plug-ins neither adds to nor removes from a plug-in's reports *)
Theorem others_do_not_matter : forall (state event report : Type) (evs : list event) (ps ps' : list (plugin state event report * state)) p s,
  NoDup (map (fun q => p_id (fst q)) ps) -> NoDup (map (fun q => p_id (fst q)) ps') -> In (p, s) ps -> In (p, s) ps' ->
  reports_of (p_id p) (engine ps evs) = reports_of (p_id p) (engine ps' evs).
Proof. exact independent_of_others. Qed.
Print Assumptions others_do_not_matter.

(* a plug-in that is not enabled contributes nothing *)
Theorem disabled_reports_nothing : forall (state event report : Type) (evs : list event) (ps : list (plugin state event report * state)) pid,
  ~ In pid (map (fun q => p_id (fst q)) ps) -> reports_of pid (engine ps evs) = [].
Proof. exact engine_reports_notin. Qed.
Print Assumptions disabled_reports_nothing.

(* the premise of the model - every plug-in's state is its own - as an obligation regenerated from the rule and helper
   classes on every run: no class-level mutable container that is mutated without being shadowed per instance, no
   module-level mutable state or shared helper object *)
Theorem no_shared_state : shared_class_state = [] /\ shared_module_state = [].
Proof. split; reflexivity. Qed.
Print Assumptions no_shared_state.

(* non-vacuity: two counters over a common event stream *)
Example c12_example :
  let a := mkPlugin [97]%N (fun (s : nat) (e : nat) => (s + e, if Nat.eqb e 0 then [s] else [])) in
  let b := mkPlugin [98]%N (fun (s : nat) (e : nat) => (S s, [s])) in
  reports_of [97]%N (engine [(a, 0); (b, 5)] [1; 2; 0; 3; 0]) = [3; 6] /\
  reports_of [97]%N (engine [(a, 0)] [1; 2; 0; 3; 0]) = [3; 6].
Proof. split; vm_compute; reflexivity. Qed.
