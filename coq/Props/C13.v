(* C13 - results for a file do not depend on the files processed before it.  Statements only; Print Assumptions beneath each. *)
From Coq Require Import List Bool Arith NArith String.
Local Open Scope string_scope.
Require Import PV.Base.Str PV.Base.StrLit PV.Model.History PV.Proofs.HistoryProofs PV.Gen.RuleFields.
Import ListNotations.

(* for ANY rule (values, events, outputs and step function abstract) whose callbacks write only fields that
   starting_new_file re-initialises: the output for a file is the same after any two histories, and equals the output of
   processing that file alone *)
Theorem history_independent : forall (value event out : Type) reset_fields init step written,
  (forall s e f, memf f written = false -> fst (step s e) f = s f) ->
  (forall f, memf f written = true -> memf f reset_fields = true) ->
  (forall s1 s2 e, eqs value s1 s2 -> eqs value (fst (step s1 e)) (fst (step s2 e)) /\ snd (step s1 e) = snd (step s2 e)) ->
  forall h1 h2 s f,
  snd (run_file value event out step (reset value reset_fields init (fst (run_files value event out reset_fields init step s h1))) f) =
  snd (run_file value event out step (reset value reset_fields init (fst (run_files value event out reset_fields init step s h2))) f).
Proof. exact history_independent_l. Qed.
Print Assumptions history_independent.

Theorem same_as_alone : forall (value event out : Type) reset_fields init step written,
  (forall s e f, memf f written = false -> fst (step s e) f = s f) ->
  (forall f, memf f written = true -> memf f reset_fields = true) ->
  (forall s1 s2 e, eqs value s1 s2 -> eqs value (fst (step s1 e)) (fst (step s2 e)) /\ snd (step s1 e) = snd (step s2 e)) ->
  forall h s f,
  snd (run_file value event out step (reset value reset_fields init (fst (run_files value event out reset_fields init step s h))) f) =
  snd (run_file value event out step (reset value reset_fields init s) f).
Proof. exact same_as_alone_l. Qed.
Print Assumptions same_as_alone.

(* the second hypothesis, rule by rule, regenerated from the rule classes on every run: the fields a callback writes that
   starting_new_file does not re-initialise are exactly the eight reviewed ones (each is written before it is read in every
   file, or is emptied at the end of every file; they are decided by the histories run on the implementation) *)
Definition smem (x : str) (l : list str) : bool := existsb (str_eqb x) l.
Definition unreset : list (str * str) :=
  flat_map (fun r => let '(file, cls, written, rst) := r in map (fun w => (cls, w)) (filter (fun w => negb (smem w rst)) written)) rule_fields.
Definition reviewed : list (str * str) := [
  (lit "RuleMd022", lit "__start_heading_blank_line_count");
  (lit "RuleMd027", lit "__delayed_bleading_fixes");
  (lit "RuleMd031", lit "__fix_requests");
  (lit "RuleMd031", lit "__last_end_container_tokens");
  (lit "RuleMd031", lit "__second_last_token");
  (lit "RuleMd037", lit "__pending_fixes");
  (lit "RuleMd044", lit "__replacement_items");
  (lit "RuleMd046", lit "__token_before_start_fix_token")].
Definition pair_eqb (a b : str * str) : bool := str_eqb (fst a) (fst b) && str_eqb (snd a) (snd b).
Theorem unreset_fields_are_the_reviewed_ones : list_eqb pair_eqb unreset reviewed = true.
Proof. vm_compute. reflexivity. Qed.
Print Assumptions unreset_fields_are_the_reviewed_ones.

(* per-document state outside the rules: the suppression tables of the plug-in manager, the pragma lines and the token list of
   the tokenizer, the link-definition table and the inline handler tables are re-initialised unconditionally for every document *)
Definition required_resets : list str := [
  lit "PluginManager.starting_new_file:__document_pragmas";
  lit "PluginManager.starting_new_file:__document_pragma_ranges";
  lit "TokenizedMarkdown.__parse_blocks_pass:self.__parse_properties.pragma_lines";
  lit "TokenizedMarkdown.__transform:InlineProcessor.initialize()";
  lit "TokenizedMarkdown.__transform:LinkParseHelper.initialize()"].
Theorem per_document_resets_present : forallb (fun r => smem r per_document_resets) required_resets = true.
Proof. vm_compute. reflexivity. Qed.
Print Assumptions per_document_resets_present.

(* non-vacuity: a counter rule that resets its counter and keeps a configuration field *)
Example c13_example :
  let step := fun (st : state nat) (e : nat) => ((fun f => if Nat.eqb f 0 then st 0 + e else st f), [st 0 + st 1]) in
  snd (run_file nat nat nat step (reset nat [0] (fun _ => 0) (fst (run_files nat nat nat [0] (fun _ => 0) step (fun f => if Nat.eqb f 1 then 7 else 3) [[1; 2]; [5]]))) [4; 4])
  = [7; 11].
Proof. vm_compute. reflexivity. Qed.
