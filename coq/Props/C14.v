(* C14 - the plug-in life-cycle.  Statements only; Print Assumptions beneath each. *)
From Coq Require Import List ZArith NArith Bool Arith.
Require Import PV.Base.Str PV.Base.RuleTypes PV.Model.Lifecycle PV.Proofs.LifecycleProofs.
Import ListNotations.

(* scan mode: for every set of enabled plug-ins (distinct ids), every token stream and every list of lines, an enabled
   plug-in sees exactly: Start, every token once in order, every line once in order with its number (from 1) and exact
   text, Complete(number of lines + 1) - restricted to the callbacks it defines *)
Theorem scan_trace_shape : forall p enabled ntoks lines,
  ids_distinct enabled -> In p enabled ->
  trace_of (r_id p) (scan_file enabled ntoks lines) = shape p CScan ntoks (Some lines) (Z.of_nat (length lines) + 1).
Proof. exact scan_trace_shape_l. Qed.
Print Assumptions scan_trace_shape.

(* a plug-in that is not enabled receives nothing, whatever the files *)
Theorem disabled_gets_nothing : forall pid enabled files,
  ~ In pid (map r_id enabled) -> trace_of pid (scan_files enabled files) = [].
Proof. exact disabled_gets_nothing_l. Qed.
Print Assumptions disabled_gets_nothing.

(* several files in one run: the per-file shapes, concatenated *)
Theorem multi_file_trace : forall p enabled files,
  ids_distinct enabled -> In p enabled ->
  trace_of (r_id p) (scan_files enabled files) =
  flat_map (fun f => shape p CScan (fst f) (Some (snd f)) (Z.of_nat (length (snd f)) + 1)) files.
Proof. exact multi_file_trace_l. Qed.
Print Assumptions multi_file_trace.

(* fix mode, both phases of every pass, for every enabled plug-in by its role in the pass: a fixer of the pass's level
   sees the shape with the fixing context, a collector of a higher level sees it with the collecting context, a plug-in
   without fix support sees nothing.  (Token phase: no lines, Complete(-1) - the phase delivers no lines by design.) *)
Theorem fix_token_phase_shape : forall p enabled fl cl ntoks,
  ids_distinct enabled -> In p enabled -> cmap_of fl cl <> [] -> (pmem (r_id p) fl && pmem (r_id p) cl = false) ->
  trace_of (r_id p) (token_phase enabled fl cl ntoks) =
  match role_ctx fl cl p with Some k => shape p k ntoks None (-1) | None => [] end.
Proof. exact token_phase_by_role_l. Qed.
Print Assumptions fix_token_phase_shape.

(* Line phase: each line has the text read from the file and the text as rewritten by this pass's fixing plug-ins; a plug-in is
   handed one or the other (`pick`: the line as left by the plug-ins dispatched before it) - every line once, in order, numbered from 1 *)
Theorem fix_line_phase_shape : forall p enabled fl cl ntoks pick lines,
  ids_distinct enabled -> In p enabled -> cmap_of fl cl <> [] -> (pmem (r_id p) fl && pmem (r_id p) cl = false) ->
  trace_of (r_id p) (line_phase enabled fl cl ntoks pick lines) =
  match role_ctx fl cl p with
  | Some k => shape p k ntoks (Some (seen_lines pick p lines)) (Z.of_nat (length lines) + 1)
  | None => [] end.
Proof. exact line_phase_by_role_l. Qed.
Print Assumptions fix_line_phase_shape.

(* non-vacuity: two plug-ins, one defining only next_token *)
Example c14_example :
  let a := mkRule [97]%N [] true true 0 true true true true [] in
  let b := mkRule [98]%N [] true true 1 false true false false [] in
  trace_of [98]%N (scan_file [a; b] 2 [[120]%N; []]) = [(CScan, Tok 0); (CScan, Tok 1)] /\
  trace_of [97]%N (line_phase [a; b] [[97]%N] [[98]%N] 1 no_pick [([120]%N, [121]%N)]) =
    [(CFix, Start); (CFix, Tok 0); (CFix, Line 1 [120]%N); (CFix, Complete 2)] /\
  trace_of [98]%N (line_phase [a; b] [[97]%N] [[98]%N] 1 no_pick [([120]%N, [121]%N)]) = [(CReport, Tok 0)].
Proof. repeat split; vm_compute; reflexivity. Qed.
