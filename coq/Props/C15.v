(* C15 - failures are contained.  Statements only; Print Assumptions beneath each. *)
From Coq Require Import List NArith Bool ZArith.
Require Import PV.Base.Str PV.Gen.ReturnCodes PV.Gen.FinalCategory PV.Model.Runner PV.Proofs.RunnerProofs PV.Proofs.ContainProofs
               PV.Model.WriteBack PV.Proofs.WriteBackProofs.
Import ListNotations.

(* for every mode, flag and list of per-file outcomes: an error in any processed file ends the run with the system-error
   category (never success, never 'fixed') *)
Theorem failure_never_masked : forall m coe fs,
  existsb is_err (map snd (processed coe fs)) = true -> category m coe fs = SYSTEM_ERROR.
Proof. exact error_never_masked_l. Qed.
Print Assumptions failure_never_masked.

(* continue-on-error: the run's output with a failing file x among the others is the output without x, with x's own events
   inserted at its place - every other file is processed exactly as if x were absent (plug-in and parser failures) *)
Theorem coe_others_unaffected : forall m pre x post,
  forallb recoverable (map snd (pre ++ x :: post)) = true ->
  exists a b, outputs m true (pre ++ post) = a ++ b /\ outputs m true (pre ++ x :: post) = a ++ file_events m x ++ b.
Proof. exact coe_others_unaffected_l. Qed.
Print Assumptions coe_others_unaffected.

(* without continue-on-error (and always for an undecodable file) the run stops at the first failing file:
   nothing after it influences the run *)
Theorem stop_on_first_error : forall m coe fs, run m coe fs = run m coe (processed coe fs).
Proof. exact run_processed. Qed.
Print Assumptions stop_on_first_error.

(* the error is reported naming the file - for plug-in failures and undecodable files always, for parser failures under continue-on-error *)
Theorem error_names_file_partial : forall m coe fs f o,
  In (f, o) (processed coe fs) -> named_error coe o = true -> existsb (names_file f) (outputs m coe fs) = true.
Proof. exact error_names_file_l. Qed.
Print Assumptions error_names_file_partial.

(* ... and NOT in the remaining case: a parser failure without continue-on-error is printed by main()'s generic handler as
   'Unexpected Error(BadTokenizationError): ...' (pinned by the test-suite).  Known finding. *)
Theorem error_names_file_refuted :
  exists m coe fs f o, In (f, o) (processed coe fs) /\ is_err o = true /\ existsb (names_file f) (outputs m coe fs) = false.
Proof. exact error_names_file_refuted_l. Qed.
Print Assumptions error_names_file_refuted.

(* write-back (sibling file + os.replace): whenever the process dies, the file holds the old or the new content, complete *)
Theorem writeback_atomic : forall old cs k,
  dst (crash_at k (replace_protocol cs) (start old)) = old \/ dst (crash_at k (replace_protocol cs) (start old)) = concat cs.
Proof. exact replace_atomic_l. Qed.
Print Assumptions writeback_atomic.

(* a run that is not cut short ends with the new content, no sibling and no temporary file *)
Theorem writeback_completes : forall old cs, run_ops (replace_protocol cs) (start old) = mkFs (concat cs) None false.
Proof. exact replace_completes. Qed.
Print Assumptions writeback_completes.

(* why the repair was needed: copying over the destination (the protocol before the fix) is not atomic *)
Theorem copy_over_destination_not_atomic : exists old cs k,
  dst (crash_at k (copy_protocol cs) (start old)) <> old /\ dst (crash_at k (copy_protocol cs) (start old)) <> concat cs.
Proof. exact copy_not_atomic_l. Qed.
Print Assumptions copy_over_destination_not_atomic.

Example c15_example :
  category Fix true [(1%N, Done 0 true); (2%N, PluginErr 0); (3%N, Done 0 false)] = SYSTEM_ERROR /\
  outputs Fix true [(1%N, Done 0 true); (2%N, PluginErr 0); (3%N, Done 0 true)] = [EFixed 1; EShortError 2; EFixed 3] /\
  dst (crash_at 2 (replace_protocol [[1%N]; [2%N]]) (start [9%N])) = [9%N].
Proof. repeat split; reflexivity. Qed.
