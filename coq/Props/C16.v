(* C16 - all entry points see the same lines.  Statements only; Print Assumptions beneath each. *)
From Coq Require Import List NArith Bool.
Require Import PV.Base.Str PV.Model.IO PV.Proofs.IOProofs.
Import ListNotations.

(* for every text: the file provider (readlines, strip, the appended "" with its initial True) yields exactly split("\n") *)
Theorem file_lines_eq_split : forall t, file_lines t = split_nl t.
Proof. exact file_lines_eq_split_l. Qed.
Print Assumptions file_lines_eq_split.

(* ... and so does the in-memory provider (repeated split("\n", 1)): both providers agree on every text *)
Theorem mem_lines_eq_split : forall s, mem_lines s = split_nl s.
Proof. exact mem_lines_eq_split_l. Qed.
Print Assumptions mem_lines_eq_split.

Theorem providers_agree : forall t, file_lines t = mem_lines t.
Proof. intros. now rewrite file_lines_eq_split_l, mem_lines_eq_split_l. Qed.
Print Assumptions providers_agree.

(* universal-newline reading is idempotent: spooling through one more text-mode file changes nothing *)
Theorem universal_idempotent : forall s, universal (universal s) = universal s.
Proof. exact universal_idem_l. Qed.
Print Assumptions universal_idempotent.

(* the same characters give the same lines whether they are in a file, handed to scan_string/fix_string, or piped to scan-stdin *)
Theorem entry_points_agree : forall s, lines_from_string s = lines_from_file s /\ lines_from_stdin s = lines_from_file s.
Proof. intros. split; [reflexivity|]. unfold lines_from_stdin, lines_from_file. now rewrite universal_idem_l. Qed.
Print Assumptions entry_points_agree.

(* a document with CR-LF line ends is seen exactly like the same document with LF line ends *)
Theorem crlf_insensitive : forall s, no_cr s = true -> lines_from_file (to_crlf s) = lines_from_file s.
Proof. intros s H. unfold lines_from_file. now rewrite (universal_crlf s H), (universal_id s H). Qed.
Print Assumptions crlf_insensitive.

(* a final newline adds exactly one empty last line (what MD047 and the line numbering of completed_file rely on) *)
Theorem final_newline_adds_empty_line : forall t, file_lines (t ++ [c_nl]) = file_lines t ++ [[]].
Proof. intros. rewrite !file_lines_eq_split_l. apply (split_acc_final_nl t []). Qed.
Print Assumptions final_newline_adds_empty_line.

Example c16_example :
  lines_from_file [97;13;10;98;13;99;10]%N = [[97]%N; [98]%N; [99]%N; []] /\ file_lines [] = [[]] /\ mem_lines [97;10;10]%N = [[97]%N; []; []].
Proof. repeat split; vm_compute; reflexivity. Qed.
