(* C17 - precedence of configuration layers, identifiers and aliases, typed getters.
   Statements only; Print Assumptions beneath each. *)
From Coq Require Import List ZArith NArith Bool.
Require Import PV.Base.Str PV.Base.RuleTypes PV.Gen.RuleTable PV.Model.Config PV.Proofs.ConfigProofs.
Import ListNotations.

(* for every stack of layers (loaded lowest precedence first: project file, default file, --config, --set)
   a key has the value given by the most specific layer that mentions it *)
Theorem merge_most_specific : forall k ls,
  lookup k (flat ls) = first_some (map (lookup k) (most_specific_first ls)).
Proof. exact lookup_most_specific. Qed.
Print Assumptions merge_most_specific.

(* whether a rule runs: command line (disable before enable), else the most specific layer that mentions
   plugins.<ident>.enabled - taken if it is a boolean, otherwise the rule's default -, else the rule's default;
   for any rule, any layer stack that addresses the rule through one identifier *)
Theorem enabled_precedence : forall r i c ls,
  only_ident r i (flat ls) ->
  rule_enabled false c (flat ls) r =
  Ok (match cli_setting c (r_idents r) with
      | Some b => b
      | None => match first_some (map (lookup (i, enabled_key)) (most_specific_first ls)) with
                | Some (VBool b) => b
                | _ => r_default r
                end
      end).
Proof. exact enabled_precedence_l. Qed.
Print Assumptions enabled_precedence.

Theorem cli_disable_wins : forall c idents i, In i idents -> mem i (cli_disable c) = true -> cli_setting c idents = Some false.
Proof. exact cli_disable_wins_l. Qed.
Print Assumptions cli_disable_wins.

(* strict mode: an `enabled` value that is not a boolean stops the run *)
Theorem enabled_strict : forall r i c es,
  only_ident r i es ->
  rule_enabled true c es r =
  match cli_setting c (r_idents r) with
  | Some b => Ok b
  | None => match lookup (i, enabled_key) es with
            | None => Ok (r_default r) | Some (VBool b) => Ok b | Some _ => ConfigError end
  end.
Proof. exact rule_enabled_strict. Qed.
Print Assumptions enabled_strict.

(* id or any name, same effect: renaming the identifier used throughout a configuration to another identifier of
   the same rule changes neither whether the rule runs nor any of its settings (lenient and strict) *)
Theorem alias_equiv_enabled : forall strict r i j c es,
  only_ident r i es -> In j (r_idents r) ->
  rule_enabled strict c (rename_ident i j es) r = rule_enabled strict c es r.
Proof. exact alias_enabled_l. Qed.
Print Assumptions alias_equiv_enabled.

Theorem alias_equiv_settings : forall strict r i j es it,
  only_ident r i es -> In j (r_idents r) ->
  item_value strict (rename_ident i j es) r it = item_value strict es r it.
Proof. exact alias_item_l. Qed.
Print Assumptions alias_equiv_settings.

(* settings: the most specific layer's value, through the typed getter *)
Theorem setting_most_specific : forall strict r i ls it,
  only_ident r i (flat ls) ->
  item_value strict (flat ls) r it =
  get_typed strict (ci_ty it) (ci_valid it) (ci_default it)
            (first_some (map (lookup (i, ci_name it)) (most_specific_first ls))).
Proof. intros. rewrite (item_value_only strict r i _ it H). now rewrite lookup_most_specific. Qed.
Print Assumptions setting_most_specific.

(* an invalid value (wrong type, or rejected by the validator) falls back to the default ... *)
Theorem lenient_fallback : forall t vd d found r,
  get_typed false t vd d found = Some r ->
  r = Ok (match found with
          | Some v => if has_ty t v && match valid_value vd v with Some b => b | None => false end then v else d
          | None => d end).
Proof. exact lenient_fallback_l. Qed.
Print Assumptions lenient_fallback.

(* ... unless strict mode is on, in which case the run stops with a configuration error *)
Theorem strict_raises : forall t vd d v,
  (has_ty t v = false \/ valid_value vd v = Some false) -> get_typed true t vd d (Some v) = Some ConfigError.
Proof. exact strict_raises_l. Qed.
Print Assumptions strict_raises.

Theorem strict_accepts_valid : forall t vd d v,
  has_ty t v = true -> valid_value vd v = Some true -> get_typed true t vd d (Some v) = Some (Ok v).
Proof. exact strict_accepts_l. Qed.
Print Assumptions strict_accepts_valid.

(* about the translated rule table: no identifier (id or name) belongs to two rules, so a section addresses one rule *)
Fixpoint nodupb (l : list str) : bool := match l with [] => true | x :: r => negb (mem x r) && nodupb r end.
Theorem rule_identifiers_disjoint : nodupb (concat (map r_idents rules)) = true.
Proof. vm_compute. reflexivity. Qed.
Print Assumptions rule_identifiers_disjoint.

(* every default in the table (None apart) has its item's type and passes its item's validator *)
Theorem defaults_are_valid :
  forallb (fun r => forallb (fun it =>
     match ci_default it with
     | VOther => true
     | d => has_ty (ci_ty it) d && match valid_value (ci_valid it) d with Some b => b | None => true end
     end) (r_items r)) rules = true.
Proof. vm_compute. reflexivity. Qed.
Print Assumptions defaults_are_valid.

(* non-vacuity: md013 addressed by its name in the project file and the --set layer *)
Example c17_example :
  let i := [108;105;110;101;45;108;101;110;103;116;104]%N in
  let ls := [[((i, enabled_key), VBool false)]; []; [((i, [108;105;110;101;95;108;101;110;103;116;104]%N), VInt 100)]; [((i, enabled_key), VStr str_true)]] in
  only_ident rule_md013 i (flat ls) /\
  rule_enabled false (mkCli [] []) (flat ls) rule_md013 = Ok true /\
  rule_enabled true (mkCli [] []) (flat ls) rule_md013 = ConfigError /\
  rule_enabled true (mkCli [[109;100;48;49;51]%N] [i]) (flat ls) rule_md013 = Ok false.
Proof.
  cbv zeta. split; [|repeat split; vm_compute; reflexivity].
  split; [vm_compute; tauto|]. intros e He _. cbn in He.
  repeat match goal with H : _ \/ _ |- _ => destruct H end; subst; try reflexivity; contradiction.
Qed.
