(* C18 - exit codes follow the documented table in both schemes.
   Only statements, each closed by `exact <lemma>`; Print Assumptions beneath. *)
From Coq Require Import List NArith Bool ZArith.
Require Import PV.Gen.ReturnCodes PV.Gen.DocReturnCodes PV.Gen.FinalCategory PV.Model.Runner PV.Proofs.RunnerProofs.
Import ListNotations.

(* the code table (translated from return_code_helper.py) equals the documented table
   (translated from newdocs/src/user-guide.md), for both schemes and every category *)
Theorem code_table_eq_doc_table : forall s r, code s r = doc s r.
Proof. exact code_eq_doc. Qed.
Print Assumptions code_table_eq_doc_table.

(* ... and it is the table quoted in the property text *)
Theorem code_table_values :
  code SchemeDefault SUCCESS = Some 0%Z /\ code SchemeMinimal SUCCESS = Some 0%Z /\
  code SchemeDefault NO_FILES_TO_SCAN = Some 1%Z /\ code SchemeMinimal NO_FILES_TO_SCAN = Some 0%Z /\
  code SchemeDefault COMMAND_LINE_ERROR = Some 2%Z /\ code SchemeMinimal COMMAND_LINE_ERROR = Some 2%Z /\
  code SchemeDefault FIXED_AT_LEAST_ONE_FILE = Some 3%Z /\ code SchemeMinimal FIXED_AT_LEAST_ONE_FILE = Some 0%Z /\
  code SchemeDefault SCAN_TRIGGERED_AT_LEAST_ONCE = Some 1%Z /\ code SchemeMinimal SCAN_TRIGGERED_AT_LEAST_ONCE = Some 0%Z /\
  code SchemeDefault SYSTEM_ERROR = Some 1%Z /\ code SchemeMinimal SYSTEM_ERROR = Some 1%Z.
Proof. exact code_documented_values. Qed.
Print Assumptions code_table_values.

(* every category has a code in every scheme (no KeyError on exit) *)
Theorem code_table_total : forall s r, exists z, code s r = Some z.
Proof. exact code_total. Qed.
Print Assumptions code_table_total.

(* for every mode, flag and list of per-file outcomes the run ends in the category given by
   the precedence: system error if any processed file failed, else fixed, else triggered, else success *)
Theorem category_precedence : forall m coe fs, category m coe fs = spec_category m coe fs.
Proof. exact category_is_spec. Qed.
Print Assumptions category_precedence.

(* an application error in any processed file is never masked by the other files *)
Theorem error_never_masked : forall m coe fs,
  existsb is_err (map snd (processed coe fs)) = true -> category m coe fs = SYSTEM_ERROR.
Proof. exact error_never_masked_l. Qed.
Print Assumptions error_never_masked.

Theorem system_error_only_from_an_error : forall m coe fs,
  category m coe fs = SYSTEM_ERROR -> existsb is_err (map snd (processed coe fs)) = true.
Proof. exact system_error_only_from_error. Qed.
Print Assumptions system_error_only_from_an_error.

(* the exit status is the documented function of (scheme, category) *)
Theorem exit_code_function : forall sc m coe fs, exit_code sc m coe fs = doc sc (spec_category m coe fs).
Proof. exact exit_code_is_table. Qed.
Print Assumptions exit_code_function.


(* every path to exit_application, including the exits taken before the scheme is known
   (argparse errors, no sub-command, version), returns the documented code *)
Theorem path_exit_is_table : forall asked p, path_exit asked p = doc asked (path_category p).
Proof. exact path_exit_is_table_l. Qed.
Print Assumptions path_exit_is_table.

Theorem stdin_error_not_masked : forall coe o, is_err o = true -> path_category (PStdin coe o) = SYSTEM_ERROR.
Proof. exact stdin_error_not_masked_l. Qed.
Print Assumptions stdin_error_not_masked.

(* non-vacuity: a three-file run in which a clean, a failing and a fixed file meet *)
Example c18_example :
  exit_code SchemeDefault Fix true [(1%N, Done 0 true); (2%N, PluginErr 0); (3%N, Done 0 false)] = Some 1%Z /\
  exit_code SchemeDefault Fix false [(1%N, Done 0 true); (3%N, Done 0 false)] = Some 3%Z /\
  exit_code SchemeMinimal Scan false [(1%N, Done 2 false)] = Some 0%Z.
Proof. repeat split; reflexivity. Qed.
