(* C19 - file discovery.  Statements only, each closed by `exact <lemma>`; Print Assumptions beneath. *)
From Coq Require Import List NArith Bool Permutation Sorted.
Require Import PV.Base.Str PV.Base.StrOrder PV.Base.Sort PV.Gen.ReturnCodes PV.Gen.FinalCategory PV.Model.Discover PV.Proofs.DiscoverProofs.
Import ListNotations.

(* for every tree, flags and argument list: the selected paths are in strictly ascending order (sorted, no spelling twice) *)
Theorem discover_sorted_nodup : forall t rc ex args,
  StronglySorted (fun a b => str_ltb a b = true) (files t rc ex args) /\ NoDup (files t rc ex args).
Proof. intros. split; [apply files_sorted_l | apply files_nodup_l]. Qed.
Print Assumptions discover_sorted_nodup.

(* exactly the union of what the individual arguments designate, and only when no argument is in error *)
Theorem discover_exact : forall t rc ex args p,
  In p (files t rc ex args) <-> error t rc ex args = false /\ exists a, In a args /\ In p (arg_files t rc ex a).
Proof. exact files_in_iff_l. Qed.
Print Assumptions discover_exact.

(* independent of the order (and multiplicity) of the arguments *)
Theorem discover_arg_order : forall t rc ex args args',
  Permutation args args' -> discover t rc ex args = discover t rc ex args'.
Proof. exact discover_perm_l. Qed.
Print Assumptions discover_arg_order.

(* the run is in error iff some argument, taken alone, fails (missing path, ineligible named file, glob without match) *)
Theorem error_iff : forall t rc ex args,
  error t rc ex args = true <-> exists a, In a args /\ arg_fails t rc ex a = true.
Proof. exact error_iff_l. Qed.
Print Assumptions error_iff.

Theorem arg_fails_cases : forall t rc ex a,
  arg_fails t rc ex a =
  if is_glob_arg a then is_nil (glob t a)
  else match resolve t a with None => true | Some (Dir _ _) => false | Some (File _) => negb (eligible t ex a) end.
Proof.
  intros. unfold arg_fails, arg_select, process_path. destruct (is_glob_arg a).
  - now destruct (glob t a).
  - destruct (resolve t a) as [[nm|nm k]|]; try reflexivity. now destruct (eligible t ex a).
Qed.
Print Assumptions arg_fails_cases.

(* ... and then nothing is scanned *)
Theorem error_scans_nothing : forall t rc ex args, error t rc ex args = true -> files t rc ex args = [].
Proof. exact error_scans_nothing_l. Qed.
Print Assumptions error_scans_nothing.

(* every selected path names an existing regular file with an eligible extension *)
Theorem selected_is_eligible_file : forall t rc ex args p,
  In p (files t rc ex args) -> is_file t p = true /\ existsb (fun e => suffix_b e p) ex = true.
Proof. intros t rc ex args p H. apply files_eligible_l in H. unfold eligible in H. now apply andb_prop in H. Qed.
Print Assumptions selected_is_eligible_file.

(* "each file once however many arguments reach it" holds for spellings (above) but NOT for files:
   de-duplication is on strings, so two spellings of one location are both selected *)
Definition t_wit : tree := [Dir [100]%N [File [97;46;109;100]%N]].     (* d/a.md *)
Theorem each_file_once_refuted : exists t args p q,
  In p (files t false md_ext args) /\ In q (files t false md_ext args) /\ p <> q /\ canon p = canon q.
Proof.
  exists t_wit, [[100]%N; [46;47;100]%N], [100;47;97;46;109;100]%N, [46;47;100;47;97;46;109;100]%N.
  repeat split; try (vm_compute; tauto); discriminate.
Qed.
Print Assumptions each_file_once_refuted.

(* "arguments that select no file at all end in the no-files-to-scan result": refuted on the code as it is -
   discovery reports no error, and main.py's final category for an empty, error-free run is SUCCESS *)
Theorem no_files_selected_is_success_refuted : exists t args,
  files t false md_ext args = [] /\ error t false md_ext args = false /\
  final_category (error t false md_ext args) false false 0%N = SUCCESS.
Proof. exists [Dir [101]%N [File [99;46;116;120;116]%N]], [[101]%N]. repeat split; vm_compute; reflexivity. Qed.
Print Assumptions no_files_selected_is_success_refuted.

(* non-vacuity: a tree with nested directories, recursion, a glob and a plain file argument *)
Example c19_example :
  let t := [File [97;46;109;100]%N; Dir [100]%N [File [122;46;109;100]%N; Dir [115]%N [File [113;46;109;100]%N]]] in
  discover t true md_ext [[42;46;109;100]%N; [100]%N] =
    ([[97;46;109;100]%N; [100;47;115;47;113;46;109;100]%N; [100;47;122;46;109;100]%N], false)
  /\ discover t false md_ext [[100]%N; [120]%N] = ([], true).
Proof. split; vm_compute; reflexivity. Qed.
