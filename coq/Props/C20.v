(* C20 - extensions are inert unless enabled and needed; front matter only shifts lines.
   Statements only; Print Assumptions beneath each.  `regs` is regenerated from inline_handler_helper.py::initialize and
   emphasis_helper.py::initialize on every run. *)
From Coq Require Import List Bool NArith ZArith Arith.
Require Import PV.Base.Str PV.Model.InlineDispatch PV.Gen.InlineTriggers PV.Proofs.InlineDispatchProofs
  PV.Model.FrontMatter PV.Proofs.FrontMatterProofs.
Import ListNotations.

(* obligations on the regenerated registration table: a registration made under a switch is for a character of that
   extension's documented class, and no unconditional registration is for such a character *)
Theorem registrations_scoped : guarded_in_class regs = true /\ unguarded_outside regs = true /\ classes_disjoint = true.
Proof. repeat split; vm_compute; reflexivity. Qed.
Print Assumptions registrations_scoped.

(* enabling an extension changes nothing in the scan of a text that has none of its characters: the same handlers are
   called at the same places, whatever the handlers do, whatever the other switches are *)
Theorem dispatch_inert : forall (St : Type) handle newline e f text,
  has_any (trig_chars e) text = false ->
  forall fuel st from,
    scan St handle newline fuel (table regs (set f e true)) st text from =
    scan St handle newline fuel (table regs (set f e false)) st text from.
Proof. exact (dispatch_inert_l regs (proj1 registrations_scoped)). Qed.
Print Assumptions dispatch_inert.

(* with an extension off its characters are ordinary text: no handler, and the scan does not stop at them *)
Theorem dispatch_plain_when_off : forall f e c, In c (trig_chars e) -> on f e = false ->
  lookup (table regs f) c = None /\ stops (table regs f) c = false.
Proof.
  intros f e c Hc Hoff.
  destruct (dispatch_plain_when_off_l regs (proj1 registrations_scoped) (proj1 (proj2 registrations_scoped)) f e c Hc Hoff) as [A B].
  - intros e' Hne Hin. destruct e, e'; cbn in Hc, Hin; try tauto; try (exfalso; apply Hne; reflexivity);
      repeat (destruct Hc as [Hc|Hc]; [subst c; repeat (destruct Hin as [Hin|Hin]; [discriminate|]); exact Hin|]); exact Hc.
  - split; [exact A|]. rewrite B. destruct e; cbn in Hc; try tauto; repeat (destruct Hc as [<-|Hc]; [reflexivity|]); tauto.
Qed.
Print Assumptions dispatch_plain_when_off.

(* front matter: a recognised header is the opening line, the collected lines and the closing line at the very start of
   the document; the block pass continues with exactly the remaining lines, numbered from the length of the block plus one *)
Theorem front_matter_shifts : forall yaml_ok allow_blank ls s cl c rest n,
  header yaml_ok allow_blank ls = FMToken s cl c rest n ->
  ls = (s :: c ++ [cl]) ++ rest /\ boundary s = true /\ boundary cl = true /\ Forall (fun x => boundary x = false) c /\
  yaml_ok c = true /\ n = (Z.of_nat (length (s :: c ++ [cl])) + 1)%Z /\
  after_header yaml_ok allow_blank ls = (rest, n).
Proof.
  intros yaml_ok allow_blank ls s cl c rest n H.
  destruct (header_token_l yaml_ok allow_blank ls s cl c rest n H) as (A & B & C & D & E & F).
  repeat split; try assumption. unfold after_header. rewrite H. reflexivity.
Qed.
Print Assumptions front_matter_shifts.

(* no header recognised (no closing line, or the collected lines are not acceptable YAML): nothing is consumed, the block
   pass sees exactly the lines of the document from line 1 *)
Theorem front_matter_abandon : forall yaml_ok allow_blank ls rq rest,
  header yaml_ok allow_blank ls = FMAbandon rq rest ->
  rq ++ rest = ls /\ after_header yaml_ok allow_blank ls = (ls, 1%Z).
Proof.
  intros yaml_ok allow_blank ls rq rest H. pose proof (header_abandon_l yaml_ok allow_blank ls rq rest H) as A. split; [exact A|].
  unfold after_header. rewrite H, A. reflexivity.
Qed.
Print Assumptions front_matter_abandon.

Theorem front_matter_absent : forall yaml_ok allow_blank ls, header yaml_ok allow_blank ls = FMNone ->
  after_header yaml_ok allow_blank ls = (ls, 1%Z) /\ (ls = [] \/ exists f r, ls = f :: r /\ boundary f = false).
Proof. exact header_none_l. Qed.
Print Assumptions front_matter_absent.

(* non-vacuity *)
Example c20_example :
  has_any (trig_chars EAutolinks) [97; 32; 42; 98; 42]%N = false /\
  lookup (table regs (mkflags false false false true false true)) 104%N <> None /\
  header (fun _ => true) false [dashes; [97; 58; 32; 98]%N; dashes; [120]%N] = FMToken dashes dashes [[97; 58; 32; 98]%N] [[120]%N] 4%Z.
Proof. repeat split; vm_compute; try reflexivity; discriminate. Qed.
