(* CM - a specification model of the CommonMark block structure (leaf blocks, block quotes, lists, tight/loose),
   written from the specification text and the reference strategy of commonmark.js / cmark (open-block stack; per line:
   match continuations, open new blocks, lazy continuation, add text; finalisation), NOT from PyMarkdown.
   It is a specification, not a model of the code: it is what "a specification-compliant parser" means in C03, C06, C08
   and C20 on the fragment F of documents it covers (no tabs, no inline markup: see in_F).  Validated against the
   CommonMark examples and against markdown-it-py (vendored) on the same enumerated spaces used for PyMarkdown.
   Tightness is computed the cmark-0.29 way from last-line-blank flags (position-free control flow).
   Line numbers (sl, el) are recorded for reporting only; no decision depends on them except "an item is empty on its own first line". *)
From Coq Require Import List NArith Bool Arith.
Import ListNotations.
Definition str := list N.
Definition sp : N := 32. Definition hash : N := 35. Definition bt : N := 96. Definition tilde : N := 126.
Definition eq_ : N := 61. Definition dash : N := 45. Definition star : N := 42. Definition us : N := 95.
Definition is_sp (c:N) := N.eqb c sp.
Fixpoint lead (c:N) (s:str) : nat := match s with x::r => if N.eqb x c then S (lead c r) else 0 | [] => 0 end.
Fixpoint dropn (n:nat) (s:str) : str := match n, s with S m, _::r => dropn m r | _, _ => s end.
Definition rstrip (s:str) : str := rev (dropn (lead sp (rev s)) (rev s)).
Definition lstrip (s:str) : str := dropn (lead sp s) s.
Definition strip s := lstrip (rstrip s).
Definition is_blank (s:str) := forallb is_sp s.
Fixpoint all_in (cs:list N) (s:str) := forallb (fun x => existsb (N.eqb x) cs) s.
Fixpoint count (c:N) (s:str) : nat := match s with [] => 0 | x::r => (if N.eqb x c then 1 else 0) + count c r end.

(* where a leaf comes from in the source: `off` = characters of the line consumed by containers, `ind` = spaces after that *)
Inductive hsrc := HAtx (off ind : nat) (body : str) | HSetext (pos : list (nat*nat)) (uoff uind : nat) (ubody : str).
Inductive csrc := CInd | CFence (ch : N) (n off ind : nat) (closed : bool).
Inductive block :=
| BPara (ls : list str) (pos : list (nat*nat))
| BHead (lvl:nat) (content:str) (h : hsrc)
| BBreak (off ind : nat) (body : str)
| BCode (info:str) (ls:list str) (c : csrc).

Inductive open :=
| ONone
| OPara (rls : list str) (rpos : list (nat*nat))
| OICode (rls : list str) (pend : list str)
| OFence (c:N) (n:nat) (ind:nat) (info:str) (rls:list str) (off:nat) (closed:bool).


(* ATX: rest has no leading spaces *)
Definition atx (rest:str) : option (nat * str) :=
  let n := lead hash rest in
  if (1 <=? n) && (n <=? 6) then
    let after := dropn n rest in
    match after with
    | [] => Some (n, [])
    | c :: _ => if is_sp c then
        let body := strip after in
        (* remove closing sequence *)
        let rb := rev body in
        let k := lead hash rb in
        let rb' := dropn k rb in
        let body' := match rb' with
                     | [] => []
                     | c' :: _ => if is_sp c' then rev (dropn (lead sp rb') rb') else body end in
        Some (n, if (0 <? k) then body' else body)
      else None
    end
  else None.

Definition tbreak (rest:str) : bool :=
  match rest with
  | c :: _ => (N.eqb c dash || N.eqb c star || N.eqb c us) && all_in [c; sp] rest && (3 <=? count c rest)
  | [] => false end.

Definition setext (rest:str) : option nat :=
  match rest with
  | c :: _ => if (N.eqb c eq_ || N.eqb c dash) then
                let n := lead c rest in if is_blank (dropn n rest) then Some (if N.eqb c eq_ then 1 else 2) else None
              else None
  | [] => None end.

Definition fence_open (rest:str) : option (N * nat * str) :=
  match rest with
  | c :: _ => if (N.eqb c bt || N.eqb c tilde) then
      let n := lead c rest in
      if 3 <=? n then
        let info := strip (dropn n rest) in
        if N.eqb c bt && existsb (N.eqb bt) info then None else Some (c, n, info)
      else None else None
  | [] => None end.

Definition fence_close (c:N) (n:nat) (line:str) : bool :=
  let ind := lead sp line in
  (ind <=? 3) && (let rest := dropn ind line in let k := lead c rest in (n <=? k) && is_blank (dropn k rest)).

(* ---------- CM-1: containers ---------- *)
Inductive nk := KDoc | KQuote | KList (ord:bool) (delim:N) (start:N) | KItem (off:nat).
Inductive node := NLeaf (b:block) (sl el:nat) (llb:bool) | NCont (k:nk) (ch:list node) (sl el:nat) (tight:bool) (llb:bool).
Record frame := { fk : nk; fch : list node; fsl : nat; fllb : bool }.
Record st := { fs : list frame; cur : open; csl : nat; cel : nat; cllb : bool }.

Definition nsl (n:node) := match n with NLeaf _ s _ _ => s | NCont _ _ s _ _ _ => s end.
Definition nel (n:node) := match n with NLeaf _ _ e _ => e | NCont _ _ _ e _ _ => e end.
Definition nllb (n:node) := match n with NLeaf _ _ _ l => l | NCont _ _ _ _ _ l => l end.
Definition set_llb (n:node) (v:bool) := match n with NLeaf b s e _ => NLeaf b s e v | NCont k c s e t _ => NCont k c s e t v end.
Fixpoint last_node (l:list node) : option node := match l with [] => None | [x] => Some x | _ :: r => last_node r end.
Fixpoint ewb (n:node) : bool :=
  nllb n || match n with
            | NCont (KList _ _ _) ch _ _ _ _ | NCont (KItem _) ch _ _ _ _ =>
                (fix lastewb (l:list node) : bool := match l with [] => false | [x] => ewb x | _ :: r => lastewb r end) ch
            | _ => false end.

Definition leaf_block (o:open) : option block :=
  match o with
  | ONone => None
  | OPara rls rpos => Some (BPara (rev rls) (rev rpos))
  | OICode rls _ => Some (BCode [] (rev rls) CInd)
  | OFence c n ind info rls off cl => Some (BCode info (rev rls) (CFence c n off ind cl))
  end.

Definition push_child (n:node) (fs:list frame) : list frame :=
  match fs with f :: r => {| fk := fk f; fch := n :: fch f; fsl := fsl f; fllb := fllb f |} :: r | [] => [] end.

Definition close_leaf (s:st) : st :=
  match leaf_block (cur s) with
  | None => s
  | Some b => {| fs := push_child (NLeaf b (csl s) (cel s) (cllb s)) (fs s); cur := ONone; csl := 0; cel := 0; cllb := false |}
  end.

Definition item_children (n:node) := match n with NCont _ ch _ _ _ _ => ch | _ => [] end.
Fixpoint loose_items (items:list node) : bool :=
  match items with
  | [] => false
  | it :: r =>
     let has_next := negb (match r with [] => true | _ => false end) in
     (has_next && ewb it)
     || (fix subs (l:list node) : bool := match l with [] => false | x :: r' => ((has_next || negb (match r' with [] => true | _ => false end)) && ewb x) || subs r' end) (item_children it)
     || loose_items r
  end.
Definition list_tight (items:list node) : bool := negb (loose_items items).

(* close innermost frame (never the document) ; e = end line for quotes *)
Definition close_frame (e:nat) (fs:list frame) : list frame :=
  match fs with
  | f :: r =>
     let ch := rev (fch f) in
     let lastel := match fch f with n :: _ => nel n | [] => fsl f end in
     let n := match fk f with
              | KQuote => NCont KQuote ch (fsl f) e true (fllb f)
              | KItem o => NCont (KItem o) ch (fsl f) lastel true (fllb f)
              | KList a b c => NCont (KList a b c) ch (fsl f) lastel (list_tight ch) (fllb f)
              | KDoc => NCont KDoc ch (fsl f) e true false end in
     push_child n r
  | [] => [] end.
Fixpoint close_n (k:nat) (e:nat) (fs:list frame) : list frame :=
  match k with 0 => fs | S k' => close_n k' e (close_frame e fs) end.

Definition starts (c:N) (s:str) := match s with x::_ => N.eqb x c | [] => false end.
Definition gt : N := 62.
Definition is_nil {A} (l:list A) := match l with [] => true | _ => false end.

(* frames outer-first *)
Fixpoint match_frames (ofs:list frame) (curopen:bool) (rest:str) : nat * str :=
  match ofs with
  | [] => (0, rest)
  | f :: more =>
    let deeper := match more with [] => curopen | _ => true end in
    let go r := let '(n, r') := match_frames more curopen r in (S n, r') in
    match fk f with
    | KDoc => go rest
    | KList _ _ _ => go rest
    | KQuote => let ind := lead sp rest in
        if (ind <=? 3) && starts gt (dropn ind rest) then
          let r1 := dropn (S ind) rest in
          go (match r1 with c :: r => if is_sp c then r else r1 | [] => r1 end)
        else (0, rest)
    | KItem off =>
        if is_blank rest then (if negb (is_nil (fch f)) || deeper then go [] else (0, rest))
        else if off <=? lead sp rest then go (dropn off rest) else (0, rest)
    end
  end.

Definition is_digit (c:N) := (N.leb 48 c) && (N.leb c 57).
Fixpoint take_digits (s:str) : str := match s with c::r => if is_digit c then c :: take_digits r else [] | [] => [] end.
Fixpoint num_of (acc:N) (s:str) : N := match s with c::r => num_of (acc*10 + (c - 48))%N r | [] => acc end.
(* returns (ord, delim_or_bullet, start, marker_len) *)
Definition list_marker (rest:str) : option (bool * N * N * nat) :=
  match rest with
  | c :: r =>
     if (N.eqb c dash || N.eqb c star || N.eqb c 43) then
        (match r with [] => Some (false, c, 0%N, 1) | x :: _ => if is_sp x then Some (false, c, 0%N, 1) else None end)
     else let ds := take_digits rest in
       let n := length ds in
       if (1 <=? n) && (n <=? 9) then
         match dropn n rest with
         | d :: r' => if (N.eqb d 46 || N.eqb d 41) then
                         (match r' with [] => Some (true, d, num_of 0 ds, S n) | x :: _ => if is_sp x then Some (true, d, num_of 0 ds, S n) else None end)
                      else None
         | [] => None end
       else None
  | [] => None end.

Definition cur_is_para (s:st) := match cur s with OPara _ _ => true | _ => false end.
Definition top_kind (fs:list frame) := match fs with f :: _ => fk f | [] => KDoc end.
Definition is_list_kind (k:nk) := match k with KList _ _ _ => true | _ => false end.
(* ensure innermost frame can hold a non-item block: close an open list frame *)
Definition leave_list (e:nat) (fs:list frame) := if is_list_kind (top_kind fs) then close_frame e fs else fs.

(* closes: close leaf and unmatched frames; `um` = number of unmatched frames *)
Definition do_closes (ln um:nat) (s:st) : st :=
  let s1 := close_leaf s in
  {| fs := close_n um (ln - 1) (fs s1); cur := ONone; csl := 0; cel := 0; cllb := false |}.

Definition add_leaf_node (ln:nat) (b:block) (sl:nat) (s:st) : st :=
  {| fs := push_child (NLeaf b sl ln false) (leave_list (ln-1) (fs s)); cur := ONone; csl := 0; cel := 0; cllb := false |}.

(* phase 2+3 ; fuel bounds the number of containers opened on one line *)
Fixpoint starts_loop (full:nat) (fuel:nat) (ln:nat) (s:st) (um:nat) (closed_:bool) (cont_para:bool) (cont_list:bool) (allclosed:bool) (rest:str) : st :=
  let ind := lead sp rest in
  let off := full - length rest in
  let body := dropn ind rest in
  let blank := is_blank rest in
  let indented := 4 <=? ind in
  let closes := if closed_ then s else do_closes ln um s in
  let tip_para := (negb closed_) && cur_is_para s in
  let finish_default :=
     (* phase 3 *)
     if (negb allclosed) && (negb blank) && tip_para then
       match cur s with OPara rls rpos => {| fs := fs s; cur := OPara (body :: rls) ((off, ind) :: rpos); csl := csl s; cel := ln; cllb := false |} | _ => s end
     else
       if cont_para && negb closed_ then
         match cur s with OPara rls rpos => {| fs := fs s; cur := OPara (body :: rls) ((off, ind) :: rpos); csl := csl s; cel := ln; cllb := false |} | _ => s end
       else
         let s1 := if closed_ then s else
                     (* close unmatched only: leaf closes unless it is matched (allclosed) *)
                     (if allclosed then s else do_closes ln um s) in
         if blank then s1
         else {| fs := leave_list (ln-1) (fs s1); cur := OPara [body] [(off, ind)]; csl := ln; cel := ln; cllb := false |}
  in
  match fuel with
  | 0 => finish_default
  | S fuel' =>
    if (negb indented) && starts gt body then
      let r1 := dropn 1 body in
      let r2 := match r1 with c :: r => if is_sp c then r else r1 | [] => r1 end in
      let s1 := closes in
      let s2 := {| fs := {| fk := KQuote; fch := []; fsl := ln; fllb := false |} :: leave_list (ln-1) (fs s1); cur := ONone; csl := 0; cel := 0; cllb := false |} in
      starts_loop full fuel' ln s2 0 true false false true r2
    else match (if indented then None else atx body) with
    | Some (n, c) => add_leaf_node ln (BHead n c (HAtx off ind body)) ln closes
    | None =>
    match (if indented then None else fence_open body) with
    | Some (c, n, info) => let s1 := closes in {| fs := leave_list (ln-1) (fs s1); cur := OFence c n ind info [] off false; csl := ln; cel := ln; cllb := false |}
    | None =>
    match (if (negb indented) && cont_para && negb closed_ then setext body else None), cur s with
    | Some lvl, OPara rls rpos =>
        let content := rstrip (concat (map (fun l => l ++ [10%N]) (rev (List.tl rls))) ++ hd [] rls) in
        {| fs := push_child (NLeaf (BHead lvl content (HSetext (rev rpos) off ind body)) (csl s) ln false) (fs s); cur := ONone; csl := 0; cel := 0; cllb := false |}
    | _, _ =>
    if (negb indented) && tbreak body then add_leaf_node ln (BBreak off ind body) ln closes
    else
    match (if negb indented then list_marker body else None) with
    | Some (ord, d, start, mlen) =>
        let after := dropn mlen body in
        let blank_item := is_blank after in
        let spaces := lead sp after in
        if (cont_para && negb closed_) && (blank_item || (ord && negb (N.eqb start 1))) then finish_default
        else
          let pad := if blank_item then S mlen else if 5 <=? spaces then S mlen else mlen + spaces in
          let rest' := if blank_item then [] else dropn (pad - mlen) after in
          let s1 := closes in
          let fs1 := fs s1 in
          let same := match top_kind fs1 with KList o' d' _ => Bool.eqb o' ord && N.eqb d' d | _ => false end in
          let fs2 := if same then fs1 else {| fk := KList ord d start; fch := []; fsl := ln; fllb := false |} :: leave_list (ln-1) fs1 in
          let fs3 := {| fk := KItem (ind + pad); fch := []; fsl := ln; fllb := false |} :: fs2 in
          starts_loop full fuel' ln {| fs := fs3; cur := ONone; csl := 0; cel := 0; cllb := false |} 0 true false false true rest'
    | None =>
      if indented && (negb tip_para) && negb blank then
        let s1 := closes in {| fs := leave_list (ln-1) (fs s1); cur := OICode [dropn 4 rest] []; csl := ln; cel := ln; cllb := false |}
      else finish_default
    end end end end
  end.

Definition step0 (s:st) (lnline : nat * str) : st :=
  let '(ln, line) := lnline in
  let ofs := rev (fs s) in
  let curopen := negb (match cur s with ONone => true | _ => false end) in
  let '(m, rest) := match_frames ofs curopen line in
  let total := length ofs in
  let um := total - m in
  let allf := Nat.eqb um 0 in
  let cont_list := is_list_kind (fk (nth (m-1) ofs {| fk := KDoc; fch := []; fsl := 0; fllb := false |})) && negb allf in
  if allf then
    match cur s with
    | OFence c n ind info rls off cl =>
        if fence_close c n rest then close_leaf {| fs := fs s; cur := OFence c n ind info rls off true; csl := csl s; cel := ln; cllb := false |}
        else {| fs := fs s; cur := OFence c n ind info (dropn (Nat.min ind (lead sp rest)) rest :: rls) off cl; csl := csl s; cel := ln; cllb := false |}
    | OICode rls pend =>
        if is_blank rest then {| fs := fs s; cur := OICode rls (dropn 4 rest :: pend); csl := csl s; cel := cel s; cllb := cllb s |}
        else if 4 <=? lead sp rest then {| fs := fs s; cur := OICode (dropn 4 rest :: pend ++ rls) []; csl := csl s; cel := ln; cllb := false |}
        else starts_loop (length line) (S (length rest)) ln s 0 false false false false rest
    | OPara _ _ =>
        if is_blank rest then starts_loop (length line) (S (length rest)) ln s 0 false false false false rest
        else starts_loop (length line) (S (length rest)) ln s 0 false true false true rest
    | ONone => starts_loop (length line) (S (length rest)) ln s 0 false false (is_list_kind (top_kind (fs s))) true rest
    end
  else starts_loop (length line) (S (length rest)) ln s um false false cont_list false rest.


(* flag pass (cmark 0.29 add_text_to_container): computed from the pre-state and the match result *)
Definition clear_flags (fs:list frame) : list frame := map (fun f => {| fk := fk f; fch := fch f; fsl := fsl f; fllb := false |}) fs.
Definition set_head_child_llb (f:frame) : frame :=
  match fch f with n :: r => {| fk := fk f; fch := set_llb n true :: r; fsl := fsl f; fllb := fllb f |} | [] => f end.
Fixpoint set_nth_frame (k:nat) (g:frame -> frame) (fs:list frame) : list frame :=
  match k, fs with 0, f :: r => g f :: r | S k', f :: r => f :: set_nth_frame k' g r | _, [] => [] end.
Definition is_fence (o:open) := match o with OFence _ _ _ _ _ _ _ => true | _ => false end.
Definition is_icode (o:open) := match o with OICode _ _ => true | _ => false end.
Definition is_none (o:open) := match o with ONone => true | _ => false end.
Definition pre_blank_flags (s:st) (ln:nat) (line:str) : st :=
  (* applied BEFORE step0 on a blank-rest line: marks the last child of the last matched container, then the container itself *)
  let ofs := rev (fs s) in
  let curopen := negb (is_none (cur s)) in
  let '(m, rest) := match_frames ofs curopen line in
  let total := length ofs in
  if negb (is_blank rest) then
    let um := total - m in
    {| fs := (fix go (i:nat) (l:list frame) : list frame := match l with [] => [] | f :: r => (if um <=? i then {| fk := fk f; fch := fch f; fsl := fsl f; fllb := false |} else f) :: go (S i) r end) 0 (fs s);
       cur := cur s; csl := csl s; cel := cel s; cllb := cllb s |}
  else
    let um := total - m in  (* frames innermost-first: index um is the last matched frame *)
    let leaf_matched := Nat.eqb um 0 && (is_fence (cur s) || is_icode (cur s)) in
    if leaf_matched then
      (* container is the leaf: icode gets llb, fence not; ancestors cleared *)
      {| fs := clear_flags (fs s); cur := cur s; csl := csl s; cel := cel s; cllb := is_icode (cur s) |}
    else
      let fs0 := clear_flags (fs s) in
      (* last child of the container *)
      let '(fs1, cl) :=
         if 0 <? um then (set_nth_frame (um - 1) (fun f => {| fk := fk f; fch := fch f; fsl := fsl f; fllb := true |}) fs0, false)
         else if curopen then (fs0, true)
         else (set_nth_frame 0 set_head_child_llb fs0, false) in
      let cont := nth um fs1 {| fk := KDoc; fch := []; fsl := 0; fllb := false |} in
      let has_child := negb (is_nil (fch cont)) || (0 <? um) || (Nat.eqb um 0 && curopen) in
      let v := match fk cont with
               | KQuote => false
               | KItem _ => negb (negb has_child && Nat.eqb (fsl cont) ln)
               | _ => true end in
      {| fs := set_nth_frame um (fun f => {| fk := fk f; fch := fch f; fsl := fsl f; fllb := v |}) fs1; cur := cur s; csl := csl s; cel := cel s; cllb := cl |}.
Definition step (s:st) (lnline : nat * str) : st :=
  let '(ln, line) := lnline in
  let s1 := pre_blank_flags s ln line in
  let s2 := step0 s1 (ln, line) in
  (* a blank remainder after a freshly opened item on this line: cmark sets the item's flag false (start_line = line) - already false *)
  s2.
Fixpoint number (n:nat) (l:list str) : list (nat*str) := match l with [] => [] | x::r => (n,x) :: number (S n) r end.
Definition parse_doc (ls:list str) : list node :=
  let s := fold_left step (number 1 ls) {| fs := [{| fk := KDoc; fch := []; fsl := 1; fllb := false |}]; cur := ONone; csl := 0; cel := 0; cllb := false |} in
  let n := length ls in
  let s1 := close_leaf s in
  match close_n (length (fs s1) - 1) n (fs s1) with
  | f :: _ => rev (fch f)
  | [] => [] end.

(* HTML *)
Definition lit (l:list nat) : str := map N.of_nat l.
Definition esc1 (c:N) : str :=
  if N.eqb c 60 then lit [38;108;116;59] else if N.eqb c 62 then lit [38;103;116;59]
  else if N.eqb c 38 then lit [38;97;109;112;59] else if N.eqb c 34 then lit [38;113;117;111;116;59] else [c].
Definition esc (s:str) : str := flat_map esc1 s.
Definition nl : str := [10%N].
Definition tag (open_:bool) (name:str) : str := [60%N] ++ (if open_ then [] else [47%N]) ++ name ++ [62%N].
Definition digit (n:nat) : N := N.of_nat (48 + n).
Fixpoint para_lines (ls:list str) : str :=
  match ls with
  | [] => []
  | [l] => esc (rstrip l)
  | l :: r => (if 2 <=? lead sp (rev l) then esc (rstrip l) ++ lit [60;98;114;32;47;62] else esc (rstrip l)) ++ nl ++ para_lines r
  end.

(* ---- inline content of paragraphs and headings: code spans (spec 6.1), hard and soft line breaks, text.
   Every other inline construct is excluded from F. ---- *)
Fixpoint join_lines (ls : list str) : str := match ls with [] => [] | [l] => l | l :: r => l ++ 10%N :: join_lines r end.
(* the text up to the next backtick run of exactly n backticks: (content, rest after that run) *)
Fixpoint find_close (fuel n : nat) (s acc : str) : option (str * str) :=
  match fuel with
  | 0 => None
  | S f =>
    match s with
    | [] => None
    | c :: r =>
        if N.eqb c bt then
          let k := lead bt s in
          if Nat.eqb k n then Some (rev acc, dropn k s)
          else find_close f n (dropn k s) (rev (firstn k s) ++ acc)
        else find_close f n r (c :: acc)
    end
  end.
Definition code_content (c : str) : str :=
  let c1 := map (fun x => if N.eqb x 10 then sp else x) c in
  match c1, rev c1 with
  | a :: _, b :: _ => if is_sp a && is_sp b && negb (is_blank c1) then removelast (List.tl c1) else c1
  | _, _ => c1
  end.
Definition code_open : str := lit [60;99;111;100;101;62].
Definition code_end : str := lit [60;47;99;111;100;101;62].
Definition br_ : str := lit [60;98;114;32;47;62].
Fixpoint repeat_c (c : N) (n : nat) : str := match n with 0 => [] | S m => c :: repeat_c c m end.
(* pend = spaces seen and not yet emitted *)
Fixpoint inl (fuel : nat) (s : str) (pend : nat) : str :=
  match fuel with
  | 0 => []
  | S f =>
    match s with
    | [] => []                                            (* trailing spaces of the last line are dropped *)
    | c :: r =>
        if is_sp c then inl f r (S pend)
        else if N.eqb c 10 then (if 2 <=? pend then br_ else []) ++ nl ++ inl f (lstrip r) 0
        else if N.eqb c bt then
          let k := lead bt s in
          match find_close (length s) k (dropn k s) [] with
          | Some (content, rest) => repeat_c sp pend ++ code_open ++ esc (code_content content) ++ code_end ++ inl f rest 0
          | None => repeat_c sp pend ++ repeat_c bt k ++ inl f (dropn k s) 0
          end
        else repeat_c sp pend ++ esc1 c ++ inl f r 0
    end
  end.

(* ---- emphasis and strong emphasis (spec 6.2): delimiter runs of * and _ with their flanking, then the delimiter-stack
   algorithm of the specification's appendix.  ASCII only: white space is space, tab, newline and the ends of the text;
   punctuation is ASCII punctuation. ---- *)
Definition is_ws_o (o : option N) : bool := match o with None => true | Some c => N.eqb c 32 || N.eqb c 10 || N.eqb c 9 end.
Definition is_punct (c : N) : bool :=
  ((33 <=? c) && (c <=? 47) || (58 <=? c) && (c <=? 64) || (91 <=? c) && (c <=? 96) || (123 <=? c) && (c <=? 126))%N.
Definition is_punct_o (o : option N) : bool := match o with None => false | Some c => is_punct c end.
Inductive itok := TTxt (h : str) | TDelim (c : N) (n : nat) (co cc : bool).
(* numeric character references (spec 2.5): &#1234567; (1-7 digits) and &#x10FFFF; (1-6 hex digits); named references
   are outside F *)
Definition is_hex (c : N) : bool := is_digit c || ((65 <=? c) && (c <=? 70))%N || ((97 <=? c) && (c <=? 102))%N.
Definition hex_val (c : N) : N := if is_digit c then (c - 48)%N else if (c <=? 70)%N then (c - 55)%N else (c - 87)%N.
Fixpoint take_hex (s : str) : str := match s with c :: r => if is_hex c then c :: take_hex r else [] | [] => [] end.
Fixpoint hex_of (acc : N) (s : str) : N := match s with c :: r => hex_of (acc * 16 + hex_val c)%N r | [] => acc end.
Definition ref_char (v : N) : N :=
  if N.eqb v 0 || ((55296 <=? v) && (v <=? 57343))%N || (1114112 <=? v)%N then 65533%N else v.
(* s is what follows the ampersand *)
Definition num_ref (s : str) : option (N * str) :=
  match s with
  | 35%N :: x :: r' =>
      if N.eqb x 120 || N.eqb x 88 then
        let ds := take_hex r' in
        if (1 <=? length ds) && (length ds <=? 6) then
          match dropn (length ds) r' with 59%N :: rest => Some (ref_char (hex_of 0 ds), rest) | _ => None end
        else None
      else
        let ds := take_digits (x :: r') in
        if (1 <=? length ds) && (length ds <=? 7) then
          match dropn (length ds) (x :: r') with 59%N :: rest => Some (ref_char (num_of 0 ds), rest) | _ => None end
        else None
  | _ => None
  end.
Definition flanking (c : N) (prev next : option N) : bool * bool :=
  let left := negb (is_ws_o next) && (negb (is_punct_o next) || is_ws_o prev || is_punct_o prev) in
  let right := negb (is_ws_o prev) && (negb (is_punct_o prev) || is_ws_o next || is_punct_o next) in
  if N.eqb c star then (left, right)
  else (left && (negb right || is_punct_o prev), right && (negb left || is_punct_o next)).
Definition txt_sp (pend : nat) : list itok := match pend with 0 => [] | _ => [TTxt (repeat_c sp pend)] end.
Fixpoint itoks (fuel : nat) (prev : option N) (s : str) (pend : nat) : list itok :=
  match fuel with
  | 0 => []
  | S f =>
    match s with
    | [] => []
    | c :: r =>
        if is_sp c then itoks f (Some c) r (S pend)
        else if N.eqb c 10 then TTxt ((if 2 <=? pend then br_ else []) ++ nl) :: itoks f (Some c) (lstrip r) 0
        else if N.eqb c bt then
          let k := lead bt s in
          match find_close (length s) k (dropn k s) [] with
          | Some (content, rest) => txt_sp pend ++ TTxt (code_open ++ esc (code_content content) ++ code_end) :: itoks f (Some bt) rest 0
          | None => txt_sp pend ++ TTxt (repeat_c bt k) :: itoks f (Some bt) (dropn k s) 0
          end
        else if N.eqb c star || N.eqb c us then
          let k := lead c s in
          let rest := dropn k s in
          let '(co, cc) := flanking c prev (match rest with x :: _ => Some x | [] => None end) in
          txt_sp pend ++ TDelim c k co cc :: itoks f (Some c) rest 0
        else if N.eqb c 38 then
          match num_ref r with
          | Some (ch, rest) => txt_sp pend ++ TTxt (esc1 ch) :: itoks f (Some 59%N) rest 0
          | None => txt_sp pend ++ TTxt (esc1 c) :: itoks f (Some c) r 0
          end
        else txt_sp pend ++ TTxt (esc1 c) :: itoks f (Some c) r 0
    end
  end.

Inductive sitem := SHtml (h : str) | SDel (c : N) (n orig : nat) (co cc : bool).
Definition flat_item (i : sitem) : str := match i with SHtml h => h | SDel c n _ _ _ => repeat_c c n end.
Definition odd_match (c_co cc' : bool) (orig' orig : nat) : bool :=
  (c_co || cc') && Nat.eqb ((orig' + orig) mod 3) 0 && negb (Nat.eqb (orig' mod 3) 0 && Nat.eqb (orig mod 3) 0).
(* the nearest opener below the top of the stack that matches a closer (c, orig, can-open) *)
Fixpoint find_opener (c : N) (orig : nat) (c_co : bool) (st above : list sitem) : option (list sitem * (nat * nat * bool * bool) * list sitem) :=
  match st with
  | [] => None
  | SDel c' n' o' co' cc' :: r =>
      if N.eqb c c' && co' && negb (odd_match c_co cc' o' orig) then Some (above, (n', o', co', cc'), r)
      else find_opener c orig c_co r (SDel c' n' o' co' cc' :: above)
  | it :: r => find_opener c orig c_co r (it :: above)
  end.
Definition em_open (two : bool) : str := if two then lit [60;115;116;114;111;110;103;62] else lit [60;101;109;62].
Definition em_close (two : bool) : str := if two then lit [60;47;115;116;114;111;110;103;62] else lit [60;47;101;109;62].
Fixpoint close_delim (fuel : nat) (st : list sitem) (c : N) (n orig : nat) (co cc : bool) : list sitem :=
  match fuel with
  | 0 => st
  | S f =>
    if Nat.eqb n 0 then st
    else match find_opener c orig co st [] with
         | None => (if co then SDel c n orig co cc else SHtml (repeat_c c n)) :: st
         | Some (inner, (n', o', co', cc'), below) =>
             let two := (2 <=? n) && (2 <=? n') in
             let use := if two then 2 else 1 in
             let node := SHtml (em_open two ++ concat (map flat_item inner) ++ em_close two) in
             let below' := if Nat.eqb (n' - use) 0 then below else SDel c (n' - use) o' co' cc' :: below in
             close_delim f (node :: below') c (n - use) orig co cc
         end
  end.
Definition push_tok (st : list sitem) (t : itok) : list sitem :=
  match t with
  | TTxt h => SHtml h :: st
  | TDelim c n co cc =>
      if cc then close_delim (S n) st c n n co cc
      else (if co then SDel c n n co cc else SHtml (repeat_c c n)) :: st
  end.
Definition inline_html (s : str) : str :=
  concat (map flat_item (rev (fold_left push_tok (itoks (S (length s)) None s 0) []))).

Definition p_ : str := lit [112]. Definition h_ n : str := [104%N; digit n].
Definition pre_open : str := lit [60;112;114;101;62;60;99;111;100;101].
Definition code_close : str := lit [60;47;99;111;100;101;62;60;47;112;114;101;62].
Fixpoint first_word (s:str) : str := match s with [] => [] | c::r => if is_sp c then [] else c :: first_word r end.
Fixpoint sp_nl (s cur:str) : list str := match s with [] => [rev cur] | x::r => if N.eqb x 10 then rev cur :: sp_nl r [] else sp_nl r (x::cur) end.
Definition html_leaf (tight:bool) (b:block) : str :=
  match b with
  | BPara ls _ => if tight then inline_html (join_lines ls) else tag true p_ ++ inline_html (join_lines ls) ++ tag false p_
  | BHead n c _ => tag true (h_ n) ++ inline_html c ++ tag false (h_ n)
  | BBreak _ _ _ => lit [60;104;114;32;47;62]
  | BCode info ls _ =>
      pre_open ++ (match first_word info with [] => [] | w => lit [32;99;108;97;115;115;61;34;108;97;110;103;117;97;103;101;45] ++ esc w ++ [34%N] end) ++ [62%N]
      ++ flat_map (fun l => esc l ++ nl) ls ++ code_close
  end.
Fixpoint nat_str (fuel:nat) (n:N) (acc:str) : str :=
  match fuel with 0 => acc | S f => let acc' := (48 + N.modulo n 10)%N :: acc in if N.eqb (N.div n 10) 0 then acc' else nat_str f (N.div n 10) acc' end.
Fixpoint html_node (tight:bool) (n:node) {struct n} : str :=
  match n with
  | NLeaf b _ _ _ => html_leaf tight b ++ nl
  | NCont k ch _ _ t _ =>
    let kids tt := (fix go (l:list node) : str := match l with [] => [] | x :: r => html_node tt x ++ go r end) ch in
    match k with
    | KQuote => lit [60;98;108;111;99;107;113;117;111;116;101;62] ++ nl ++ kids false ++ lit [60;47;98;108;111;99;107;113;117;111;116;101;62] ++ nl
    | KList ord _ start =>
        (if ord then (if N.eqb start 1 then lit [60;111;108;62] else lit [60;111;108;32;115;116;97;114;116;61;34] ++ nat_str 12 start [] ++ lit [34;62])
         else lit [60;117;108;62]) ++ nl ++ kids t ++ (if ord then lit [60;47;111;108;62] else lit [60;47;117;108;62]) ++ nl
    | KItem _ => lit [60;108;105;62] ++ kids tight ++ lit [60;47;108;105;62] ++ nl
    | KDoc => kids false
    end
  end.
Definition html (ls:list str) : str := concat (map (html_node false) (parse_doc ls)).

(* ---- the fragment F: what the model covers ---- *)
Definition excluded_char (c : N) : bool :=
  N.eqb c 92 || N.eqb c 33 || N.eqb c 60 || N.eqb c 91 || N.eqb c 13.
(* a tab only between two letters or digits: there it is a character of the text like any other - it is neither indentation nor the
   white space behind a marker, at the end of a line or next to a delimiter run, which is where CommonMark gives tabs a width *)
Definition is_alnum_c (c : N) : bool := (((48 <=? c) && (c <=? 57)) || ((65 <=? c) && (c <=? 90)) || ((97 <=? c) && (c <=? 122)))%N.
Fixpoint tab_ok (prev : option N) (s : str) : bool :=
  match s with
  | [] => true
  | c :: r =>
    (if N.eqb c 9 then match prev, r with Some p, n :: _ => is_alnum_c p && is_alnum_c n | _, _ => false end else true) && tab_ok (Some c) r
  end.
(* a backtick is allowed only in a line that consists of backticks and an info word (a fence line) *)
Definition backtick_ok (line : str) : bool :=
  negb (existsb (N.eqb bt) line) || (let b := lstrip line in (3 <=? lead bt b) && negb (existsb (N.eqb bt) (dropn (lead bt b) b))).
(* the flanking rules of emphasis use Unicode white space and punctuation; the model knows the ASCII classes only *)
(* an ampersand only as the start of a numeric character reference (named references need the entity table), and not on a
   fence line (the info string is not modelled with references) *)
Fixpoint amp_ok (s : str) : bool :=
  match s with
  | [] => true
  | c :: r => if N.eqb c 38 then (match r with 35%N :: _ => amp_ok r | _ => false end) else amp_ok r
  end.
Definition fence_line (line : str) : bool := let b := lstrip line in (3 <=? lead bt b) || (3 <=? lead tilde b).
Definition line_in_F (line : str) : bool :=
  negb (existsb excluded_char line) && tab_ok None line && amp_ok line && negb (existsb (N.eqb 38) line && fence_line line) &&
  (negb (existsb (fun c => N.eqb c star || N.eqb c us) line) || forallb (fun c => N.ltb c 128) line).
Definition in_F (ls : list str) : bool := forallb line_in_F ls.
