(* C06 - the documented trigger conditions of the rules, stated over the lines of the document and the block structure
   the CommonMark spec model CM gives it (Spec/CMBlock.v).  Written from newdocs/src/plugins/rule_md*.md, not from the
   rule implementations.  Each rule yields the line numbers at which it must report (`must`) and the line numbers about
   which the documentation says nothing definite (`open`); every other line must not be reported.  Where the documentation
   does not say at which line of a multi-line construct the report is placed, the convention is stated at the rule. *)
From Coq Require Import List NArith Bool Arith.
Require Import PV.Spec.CMBlock.
Import ListNotations.

Record leaf := mkleaf { lb : block; lsl : nat; lel : nat; lpath : list nk }.

Fixpoint flat (path : list nk) (n : node) {struct n} : list leaf :=
  match n with
  | NLeaf b s e _ => [mkleaf b s e path]
  | NCont k ch _ _ _ _ =>
      (fix go (l : list node) : list leaf := match l with [] => [] | x :: r => flat (path ++ [k]) x ++ go r end) ch
  end.
Definition leaves (ls : list str) : list leaf := flat_map (flat []) (parse_doc ls).

Definition covers (l : leaf) (ln : nat) : bool := (lsl l <=? ln) && (ln <=? lel l).
Definition leaf_at (lvs : list leaf) (ln : nat) : option leaf := find (fun l => covers l ln) lvs.
Definition line_at (ls : list str) (ln : nat) : str := nth (ln - 1) ls [].
Definition lnums (ls : list str) : list nat := seq 1 (length ls).
Definition is_code (l : leaf) : bool := match lb l with BCode _ _ _ => true | _ => false end.
Definition is_head (l : leaf) : bool := match lb l with BHead _ _ _ => true | _ => false end.
Definition is_fenced (l : leaf) : bool := match lb l with BCode _ _ (CFence _ _ _ _ _) => true | _ => false end.
(* a line that belongs to no leaf: a blank line (possibly behind container markers) *)
Definition blank_at (lvs : list leaf) (ln : nat) : bool := match leaf_at lvs ln with None => true | Some _ => false end.
Definition trailing_sp (s : str) : nat := lead sp (rev s).
Definition last_char (s : str) : option N := match rev s with c :: _ => Some c | [] => None end.
Definition mem_n (x : nat) (l : list nat) : bool := existsb (Nat.eqb x) l.
Definition mem_c (x : N) (l : list N) : bool := existsb (N.eqb x) l.

Record verdict := mkv { must : list nat; open_ : list nat }.
Definition only (l : list nat) : verdict := mkv l [].

(* ---------------------------------------------------------------- MD047: the document ends with a newline character.
   `ls` are the pieces of the text between newline characters, so the text ends with a newline iff the last piece is empty. *)
Definition md047 (pieces : list str) : verdict :=
  match rev pieces with
  | [] => mkv [] []
  | last :: r => if is_nil last then only [] else if is_nil r && is_blank last then mkv [] [1] else only [length pieces]
  end.

(* ---------------------------------------------------------------- MD009: trailing spaces, outside code blocks *)
Record c009 := mk009 { br_spaces : nat; strict9 : bool }.
Definition md009 (c : c009) (ls : list str) (lvs : list leaf) : verdict :=
  only (filter (fun ln =>
    let k := trailing_sp (line_at ls ln) in
    (1 <=? k) && negb (match leaf_at lvs ln with Some l => is_code l | None => false end)
    && (strict9 c || negb (Nat.eqb k (br_spaces c)))) (lnums ls)).

(* ---------------------------------------------------------------- MD010: hard tabs.  Every line with a tab; with code_blocks off the
   lines of a code block are exempt (the fence lines of a fenced block are left open: a tab can only stand in the info string) *)
Definition has_tab_c (s : str) : bool := existsb (N.eqb 9) s.
Definition md010 (code_blocks : bool) (ls : list str) (lvs : list leaf) : verdict :=
  let tabbed := filter (fun ln => has_tab_c (line_at ls ln)) (lnums ls) in
  if code_blocks then only tabbed
  else mkv (filter (fun ln => negb (match leaf_at lvs ln with Some l => is_code l | None => false end)) tabbed)
           (filter (fun ln => match leaf_at lvs ln with
                              | Some l => match lb l with
                                          | BCode _ _ (CFence _ _ _ _ closed) => Nat.eqb ln (lsl l) || (closed && Nat.eqb ln (lel l))   (* the last line is a fence line only when the fence is closed *)
                                          | _ => false end
                              | None => false end) tabbed).

(* ---------------------------------------------------------------- MD013: line length *)
Record c013 := mk013 { line_length : nat; code_len : nat; head_len : nat; code_on : bool; head_on : bool; strict13 : bool }.
Definition limit13 (c : c013) (lvs : list leaf) (ln : nat) : option nat :=
  match leaf_at lvs ln with
  | Some l => if is_code l then (if code_on c then Some (code_len c) else None)
              else if is_head l then (if head_on c then Some (head_len c) else None)
              else Some (line_length c)
  | None => Some (line_length c)
  end.
Definition md013 (c : c013) (ls : list str) (lvs : list leaf) : verdict :=
  only (filter (fun ln =>
    let line := line_at ls ln in
    match limit13 c lvs ln with
    | None => false
    | Some n => (n <? length line) && (strict13 c || existsb is_sp (dropn n line))
    end) (lnums ls)).

(* ---------------------------------------------------------------- MD012: consecutive blank lines.
   Convention (not in the documentation): one report per run, at its last line.  A run in which some line is blank only
   behind container markers (">" alone) may be counted per container: such runs are left open.  `blank` decides whether a
   line is blank, `marker` whether it is blank behind markers. *)
Fixpoint runs12 (maxb : nat) (blank marker : nat -> bool) (lns : list nat) (run : list nat) : list nat * list nat :=
  let close r := match r with
                 | [] => ([], [])
                 | last :: _ => if existsb marker r then ([], r) else if maxb <? length r then ([last], []) else ([], [])
                 end in
  match lns with
  | [] => close run
  | ln :: r =>
    if blank ln then runs12 maxb blank marker r (ln :: run)
    else let '(m, o) := close run in let '(m', o') := runs12 maxb blank marker r [] in (m ++ m', o ++ o')
  end.
Definition md012 (maxb : nat) (ls : list str) (lvs : list leaf) (tail_in_code : bool) (nlines : nat) : verdict :=
  let blank ln := blank_at lvs ln && negb (tail_in_code && (nlines <? ln)) in
  let marker ln := blank ln && negb (is_blank (line_at ls ln)) in
  let '(m, o) := runs12 maxb blank marker (lnums ls) [] in mkv m o.

(* ---------------------------------------------------------------- headings *)
Record hd := mkhd { h_lvl : nat; h_content : str; h_src : hsrc; h_sl : nat; h_el : nat; h_path : list nk }.
Definition headings (lvs : list leaf) : list hd :=
  flat_map (fun l => match lb l with BHead n c h => [mkhd n c h (lsl l) (lel l) (lpath l)] | _ => [] end) lvs.
(* the line a heading is reported at: the line of an ATX heading; the underline of a setext heading (the line PyMarkdown's
   setext token carries; the documentation shows no line numbers) *)
Definition h_line (h : hd) : nat := h_el h.

(* MD001: the level increases by more than one *)
Fixpoint md001_go (prev : option nat) (hs : list hd) : list nat :=
  match hs with
  | [] => []
  | h :: r => (match prev with Some p => if S p <? h_lvl h then [h_line h] else [] | None => [] end) ++ md001_go (Some (h_lvl h)) r
  end.
Definition md001 (lvs : list leaf) : verdict := only (md001_go None (headings lvs)).

(* MD018: no space after the hashes at the start of a paragraph line *)
Definition md018_line (body : str) : option bool :=   (* Some true: must, Some false: must not, None: open *)
  let k := lead hash body in
  if (1 <=? k) && (k <=? 6) then
    match dropn k body with
    | [] => Some false
    | c :: _ => if is_sp c then Some false
                else if existsb (N.eqb bt) body then None
                else match last_char (rstrip body) with Some x => if N.eqb x hash then Some false else Some true | None => Some false end
    end
  else Some false.
Fixpoint md018_para (ln : nat) (lines : list str) (pos : list (nat*nat)) : list nat * list nat :=
  match lines, pos with
  | l :: r, (_, ind) :: pr =>
      let '(m, o) := md018_para (S ln) r pr in
      if 4 <=? ind then (m, if (1 <=? lead hash l) then ln :: o else o)
      else match md018_line l with Some true => (ln :: m, o) | Some false => (m, o) | None => (m, ln :: o) end
  | _, _ => ([], [])
  end.
Definition md018 (lvs : list leaf) : verdict :=
  let rs := map (fun l => match lb l with
                          | BPara lines pos =>
                              let '(m, o) := md018_para (lsl l) lines pos in
                              (* a code span may run over several lines of the paragraph *)
                              if existsb (existsb (N.eqb bt)) lines then ([], m ++ o) else (m, o)
                          | _ => ([], []) end) lvs in
  mkv (flat_map fst rs) (flat_map snd rs).

(* MD019: more than one space after the hashes of an ATX heading *)
Definition md019 (lvs : list leaf) : verdict :=
  let hs := headings lvs in
  only (flat_map (fun h => match h_src h with
                           | HAtx _ _ body => let after := dropn (lead hash body) body in
                                              if (2 <=? lead sp after) && negb (is_blank after) then [h_line h] else []
                           | _ => [] end) hs).

(* MD023: a heading does not start at the beginning of the line (of its container's content) *)
Definition md023 (lvs : list leaf) : verdict :=
  only (flat_map (fun h => match h_src h with
                           | HAtx _ ind _ => if 1 <=? ind then [h_line h] else []
                           | HSetext pos _ uind _ => if existsb (fun p => 1 <=? snd p) pos || (1 <=? uind) then [h_line h] else []
                           end) (headings lvs)).

(* MD025: more than one heading of the top level *)
Fixpoint md025_go (lvl : nat) (seen : bool) (hs : list hd) : list nat :=
  match hs with
  | [] => []
  | h :: r => if Nat.eqb (h_lvl h) lvl then (if seen then [h_line h] else []) ++ md025_go lvl true r else md025_go lvl seen r
  end.
Definition md025 (lvl : nat) (lvs : list leaf) : verdict := only (md025_go lvl false (headings lvs)).

(* MD026: the heading text ends with a punctuation character *)
Definition md026 (punct : list N) (lvs : list leaf) : verdict :=
  only (flat_map (fun h => match last_char (h_content h) with Some c => if mem_c c punct then [h_line h] else [] | None => [] end) (headings lvs)).

(* MD024: a heading with the text of an earlier heading *)
Fixpoint md024_go (seen : list str) (hs : list hd) : list nat :=
  match hs with
  | [] => []
  | h :: r => (if existsb (fun s => if list_eq_dec N.eq_dec s (h_content h) then true else false) seen then [h_line h] else [])
              ++ md024_go (h_content h :: seen) r
  end.
Definition md024 (lvs : list leaf) : verdict := only (md024_go [] (headings lvs)).
(* siblings_only / allow_different_nesting: only a heading of the same level under the same parent heading counts; a heading
   of level L starts a new family for every deeper level *)
Fixpoint md024s_go (seen : list (nat * str)) (hs : list hd) : list nat :=
  match hs with
  | [] => []
  | h :: r =>
    let seen' := filter (fun p => fst p <=? h_lvl h) seen in
    (if existsb (fun p => Nat.eqb (fst p) (h_lvl h) && (if list_eq_dec N.eq_dec (snd p) (h_content h) then true else false)) seen' then [h_line h] else [])
    ++ md024s_go ((h_lvl h, h_content h) :: seen') r
  end.
Definition md024s (lvs : list leaf) : verdict := only (md024s_go [] (headings lvs)).

(* MD003: heading style *)
Inductive hstyle := SAtx | SAtxClosed | SSetext.
Definition hstyle_eqb (a b : hstyle) : bool := match a, b with SAtx, SAtx | SAtxClosed, SAtxClosed | SSetext, SSetext => true | _, _ => false end.
Definition style_of (h : hd) : hstyle :=
  match h_src h with
  | HSetext _ _ _ _ => SSetext
  | HAtx _ _ body =>
      (* closed: the heading line ends with a closing sequence of hashes that CommonMark removes *)
      let after := dropn (lead hash body) body in
      let rb := rev (rstrip after) in
      let k := lead hash rb in
      if (1 <=? k) && (match dropn k rb with [] => true | c :: _ => is_sp c end) && negb (is_nil after) then SAtxClosed else SAtx
  end.
Inductive c003 := K3Consistent | K3Fixed (s : hstyle) | K3SetextWith (s : hstyle).
Definition md003 (c : c003) (lvs : list leaf) : verdict :=
  let hs := headings lvs in
  match c with
  | K3Fixed s => only (flat_map (fun h => if hstyle_eqb (style_of h) s then [] else [h_line h]) hs)
  | K3Consistent => match hs with [] => only [] | h0 :: r => only (flat_map (fun h => if hstyle_eqb (style_of h) (style_of h0) then [] else [h_line h]) r) end
  | K3SetextWith s => only (flat_map (fun h => if h_lvl h <=? 2 then (if hstyle_eqb (style_of h) SSetext then [] else [h_line h])
                                               else (if hstyle_eqb (style_of h) s then [] else [h_line h])) hs)
  end.

(* MD022: blank lines around headings.  Must: fewer blank lines than configured next to a heading that has other content
   on that side inside the same container.  Open: more blank lines than configured; the first/last element of a container. *)
Fixpoint count_blank_up (lvs : list leaf) (ln : nat) (fuel : nat) : nat :=
  match fuel with 0 => 0 | S f => if (1 <=? ln) && blank_at lvs ln then S (count_blank_up lvs (ln - 1) f) else 0 end.
Fixpoint count_blank_down (lvs : list leaf) (n : nat) (ln : nat) (fuel : nat) : nat :=
  match fuel with 0 => 0 | S f => if (ln <=? n) && blank_at lvs ln then S (count_blank_down lvs n (S ln) f) else 0 end.
Definition same_path (a b : list nk) : bool := Nat.eqb (length a) (length b).
Definition md022 (above below : nat) (ls : list str) (lvs : list leaf) : verdict :=
  let n := length ls in
  let per h :=
    let up := count_blank_up lvs (h_sl h - 1) n in
    let dn := count_blank_down lvs n (S (h_el h)) n in
    let prev_ln := h_sl h - 1 - up in
    let next_ln := S (h_el h) + dn in
    let prev_ok := match leaf_at lvs prev_ln with Some l => same_path (lpath l) (h_path h) | None => false end in
    let next_ok := match leaf_at lvs next_ln with Some l => same_path (lpath l) (h_path h) | None => false end in
    (* a neighbouring line that is blank only behind container markers: the documentation does not say whether it counts *)
    let mk_up := existsb (fun ln => negb (is_blank (line_at ls ln))) (seq (S prev_ln) up) in
    let mk_dn := existsb (fun ln => negb (is_blank (line_at ls ln))) (seq (S (h_el h)) dn) in
    let bad_up := (1 <=? prev_ln) && (up <? above) && negb mk_up in
    let bad_dn := (next_ln <=? n) && (dn <? below) && negb mk_dn in
    let open_up := (above <? up) || (bad_up && negb prev_ok) || mk_up in
    let open_dn := (below <? dn) || (bad_dn && negb next_ok) || ((n <? next_ln) && (dn <? below)) || mk_dn in
    (if (bad_up && prev_ok) || (bad_dn && next_ok) then [h_line h] else [], if open_up || open_dn then [h_line h] else []) in
  let rs := map per (headings lvs) in
  mkv (flat_map fst rs) (flat_map snd rs).

(* MD041: the first element of the document is a heading of the top level.  Convention: reported at the first line of
   that element. *)
Definition md041 (lvl : nat) (nodes : list node) : verdict :=
  match nodes with
  | [] => only []
  | NLeaf (BHead n _ _) _ el _ :: _ => if Nat.eqb n lvl then only [] else only [el]
  | NLeaf _ sl _ _ :: _ => only [sl]
  | NCont _ _ sl _ _ _ :: _ => only [sl]
  end.

(* ---------------------------------------------------------------- code blocks *)
(* MD040: a fenced code block without a language *)
Definition md040 (lvs : list leaf) : verdict :=
  only (flat_map (fun l => match lb l with BCode info _ (CFence _ _ _ _ _) => if is_blank info then [lsl l] else [] | _ => [] end) lvs).

(* MD046: code block style; true = fenced *)
Definition code_styles (lvs : list leaf) : list (nat * bool) :=
  flat_map (fun l => match lb l with BCode _ _ CInd => [(lsl l, false)] | BCode _ _ (CFence _ _ _ _ _) => [(lsl l, true)] | _ => [] end) lvs.
Definition md046 (style : option bool) (lvs : list leaf) : verdict :=
  let cs := code_styles lvs in
  match style, cs with
  | Some s, _ => only (flat_map (fun p => if Bool.eqb (snd p) s then [] else [fst p]) cs)
  | None, [] => only []
  | None, (_, s) :: r => only (flat_map (fun p => if Bool.eqb (snd p) s then [] else [fst p]) r)
  end.

(* MD048: fence character *)
Definition fence_chars (lvs : list leaf) : list (nat * N) :=
  flat_map (fun l => match lb l with BCode _ _ (CFence c _ _ _ _) => [(lsl l, c)] | _ => [] end) lvs.
Definition md048 (style : option N) (lvs : list leaf) : verdict :=
  let cs := fence_chars lvs in
  match style, cs with
  | Some s, _ => only (flat_map (fun p => if N.eqb (snd p) s then [] else [fst p]) cs)
  | None, [] => only []
  | None, (_, s) :: r => only (flat_map (fun p => if N.eqb (snd p) s then [] else [fst p]) r)
  end.

(* MD031: fenced code blocks surrounded by blank lines.  Must: a non-blank line of the same container directly before the
   opening fence or directly after the closing fence.  Open: a neighbouring line of another container. *)
Definition md031 (ls : list str) (lvs : list leaf) : verdict :=
  let n := length ls in
  (* the line next to a fence: a line of a leaf, a blank line, or a line with container markers only *)
  let side (l : leaf) (ln rep : nat) : list nat * list nat :=
    if (ln <? 1) || (n <? ln) then ([], [])
    else match leaf_at lvs ln with
         | Some p => if same_path (lpath p) (lpath l) then ([rep], []) else ([], [rep])
         | None => if is_blank (line_at ls ln) then ([], []) else ([], [rep])   (* container markers only: not said *)
         end in
  let per l :=
    match lb l with
    | BCode _ _ (CFence _ _ _ _ closed) =>
        let up := side l (lsl l - 1) (lsl l) in
        (* a fence that its container closes has no closing line: whether and where the missing blank line behind it is reported is not said *)
        let dn := if closed then side l (S (lel l)) (lel l)
                  else if (n <? S (lel l)) || is_blank (line_at ls (S (lel l))) then ([], []) else ([], [lel l; S (lel l)]) in
        (fst up ++ fst dn, snd up ++ snd dn)
    | _ => ([], [])
    end in
  let rs := map per lvs in
  mkv (flat_map fst rs) (flat_map snd rs).

(* MD035: thematic break style; the text of a break is the line without the white space around it *)
Definition breaks (lvs : list leaf) : list (nat * str) :=
  flat_map (fun l => match lb l with BBreak _ _ body => [(lsl l, rstrip body)] | _ => [] end) lvs.
Definition str_eqb (a b : str) : bool := if list_eq_dec N.eq_dec a b then true else false.
Definition md035 (style : option str) (lvs : list leaf) : verdict :=
  let bs := breaks lvs in
  match style, bs with
  | Some s, _ => only (flat_map (fun p => if str_eqb (snd p) s then [] else [fst p]) bs)
  | None, [] => only []
  | None, (_, s) :: r => only (flat_map (fun p => if str_eqb (snd p) s then [] else [fst p]) r)
  end.

(* ---------------------------------------------------------------- lists *)
Record lst := mklst { l_ord : bool; l_delim : N; l_sl : nat; l_el : nat; l_path : list nk }.
Fixpoint lists_of (path : list nk) (n : node) {struct n} : list lst :=
  match n with
  | NLeaf _ _ _ _ => []
  | NCont k ch sl el _ _ =>
      (match k with KList o d _ => [mklst o d sl el path] | _ => [] end) ++
      (fix go (l : list node) : list lst := match l with [] => [] | x :: r => lists_of (path ++ [k]) x ++ go r end) ch
  end.
Definition all_lists (ls : list str) : list lst := flat_map (lists_of []) (parse_doc ls).
Definition list_depth (l : lst) : nat := length (filter is_list_kind (l_path l)).

(* MD004: the marker of every unordered list (a change of marker starts a new list in CommonMark) *)
Inductive c004 := K4Consistent | K4Fixed (c : N) | K4Sublist.
Fixpoint md004_go (seen : list (nat * N)) (ls : list lst) : list nat :=
  match ls with
  | [] => []
  | l :: r =>
    match find (fun p => Nat.eqb (fst p) (list_depth l)) seen with
    | Some (_, c) => (if N.eqb c (l_delim l) then [] else [l_sl l]) ++ md004_go seen r
    | None => md004_go ((list_depth l, l_delim l) :: seen) r
    end
  end.
Definition md004 (c : c004) (lsts : list lst) : verdict :=
  let bl := filter (fun l => negb (l_ord l)) lsts in
  match c with
  | K4Fixed ch => only (flat_map (fun l => if N.eqb (l_delim l) ch then [] else [l_sl l]) bl)
  | K4Consistent => match bl with [] => only [] | l0 :: r => only (flat_map (fun l => if N.eqb (l_delim l) (l_delim l0) then [] else [l_sl l]) r) end
  | K4Sublist => only (md004_go [] bl)
  end.

(* MD032: lists surrounded by blank lines; a list directly inside a list item is exempt.  Reported at the list (the
   harness counts a report on any line of the list or on the line after it for the list). *)
Definition in_item (l : lst) : bool := match rev (l_path l) with KItem _ :: _ => true | _ => false end.
Definition md032_side (ls : list str) (lvs : list leaf) (l : lst) (ln : nat) : bool * bool :=
  if (ln <? 1) || (length ls <? ln) then (false, false)
  else match leaf_at lvs ln with
       | Some p => if same_path (lpath p) (l_path l) then (true, false) else (false, true)
       | None => if is_blank (line_at ls ln) then (false, false) else (false, true)
       end.
Definition md032_per (ls : list str) (lvs : list leaf) (l : lst) : list nat * list nat :=
  if in_item l then ([], [])
  else let '(m1, o1) := md032_side ls lvs l (l_sl l - 1) in
       let '(m2, o2) := md032_side ls lvs l (S (l_el l)) in
       (* a list that ends with an empty item: its last line shows a marker only, left open like other marker-only lines *)
       let '(m2, o2) := if blank_at lvs (l_el l) then (false, m2 || o2) else (m2, o2) in
       (if m1 || m2 then [l_sl l] else [], if o1 || o2 then [l_sl l] else []).
Definition md032 (ls : list str) (lvs : list leaf) (lsts : list lst) : verdict :=
  let rs := map (md032_per ls lvs) lsts in
  mkv (flat_map fst rs) (flat_map snd rs).

(* ---------------------------------------------------------------- all rules on one document.
   `pieces` = the text split at newline characters (so a text ending in a newline has a last empty piece, which the rules
   see as a last, blank, line); the block structure is CM's parse of the lines of the text. *)
Definition lines_of_pieces (ps : list str) : list str := match rev ps with [] :: r => rev r | _ => ps end.

(* ---------------------------------------------------------------- positions of leaf blocks (C05): kind, line, column *)
Definition leaf_pos (l : leaf) : option (nat * nat * nat) :=
  match lb l with
  | BPara _ ((off, ind) :: _) => Some (0, lsl l, S (off + ind))
  | BHead _ _ (HAtx off ind _) => Some (1, lsl l, S (off + ind))
  | BHead _ _ (HSetext ((off, ind) :: _) _ _ _) => Some (2, lsl l, S (off + ind))
  | BBreak off ind _ => Some (3, lsl l, S (off + ind))
  | BCode _ _ (CFence _ _ off ind _) => Some (4, lsl l, S (off + ind))
  | _ => None
  end.
Definition leaf_positions (pieces : list str) : list (nat * nat * nat) :=
  flat_map (fun l => match leaf_pos l with Some p => [p] | None => [] end) (leaves (lines_of_pieces pieces)).
Definition style3 (k : nat) : c003 :=
  match k with 1 => K3Fixed SAtx | 2 => K3Fixed SAtxClosed | 3 => K3Fixed SSetext | 4 => K3SetextWith SAtx | 5 => K3SetextWith SAtxClosed | _ => K3Consistent end.
Definition run_rules (p : list nat) (punct : str) (hr : str) (pieces : list str) : list (nat * verdict) :=
  let lvs := leaves (lines_of_pieces pieces) in
  let lsts := all_lists (lines_of_pieces pieces) in
  let g i := nth i p 0 in
  let b i := Nat.eqb (g i) 1 in
  let tail_in_code := match leaf_at lvs (length (lines_of_pieces pieces)) with
                      | Some l => match lb l with
                                  | BCode _ _ (CFence _ _ _ _ false) =>
                                      (* ... unless the fence stands in a block quote: the empty piece has no marker, the quote and the fence end before it *)
                                      forallb (fun k => match k with KQuote => false | _ => true end) (lpath l)
                                  | _ => false end
                      | None => false end in
  [ (0, only (flat_map (fun h => match h_src h with HSetext _ _ _ _ => [h_sl h; h_el h] | _ => [] end) (headings lvs)));
    (1, md001 lvs);
    (3, md003 (style3 (g 13)) lvs);
    (4, md004 (match g 16 with 1 => K4Fixed star | 2 => K4Fixed 43%N | 3 => K4Fixed dash | 4 => K4Sublist | _ => K4Consistent end) lsts);
    (9, md009 (mk009 (g 0) (b 1)) pieces lvs);
    (10, md010 (b 18) pieces lvs);
    (12, md012 (g 8) pieces lvs tail_in_code (length (lines_of_pieces pieces)));
    (13, md013 (mk013 (g 2) (g 3) (g 4) (b 5) (b 6) (b 7)) pieces lvs);
    (18, md018 lvs);
    (19, md019 lvs);
    (22, md022 (g 9) (g 10) pieces lvs);
    (23, md023 lvs);
    (24, if Nat.eqb (g 17) 1 then md024s lvs else md024 lvs);
    (25, md025 (g 11) lvs);
    (26, md026 punct lvs);
    (31, md031 pieces lvs);
    (32, md032 pieces lvs lsts);
    (33, only (flat_map (fun l => if in_item l then [] else [l_sl l; l_el l]) lsts));
    (35, md035 (if is_nil hr then None else Some hr) lvs);
    (40, md040 lvs);
    (41, md041 (g 12) (parse_doc (lines_of_pieces pieces)));
    (46, md046 (match g 14 with 1 => Some true | 2 => Some false | _ => None end) lvs);
    (47, md047 pieces);
    (48, md048 (match g 15 with 1 => Some bt | 2 => Some tilde | _ => None end) lvs) ].
