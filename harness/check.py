#!/venv/bin/python
"""check.py <ID> [--tier quick|thorough] [--replay FILE]"""
import argparse
import importlib
import json
import os
import sys

sys.path.insert(0, os.path.dirname(os.path.abspath(__file__)))
import core  # noqa: E402


def main():
    ap = argparse.ArgumentParser()
    ap.add_argument("pid")
    ap.add_argument("--tier", default=os.environ.get("VERIF_TIER", "quick"), choices=["quick", "thorough"])
    ap.add_argument("--replay")
    a = ap.parse_args()
    seed = int(os.environ.get("VERIF_SEED", "0") or 0)
    mod = importlib.import_module("props." + a.pid.lower())
    if a.replay:
        rep = json.load(open(a.replay))
        sys.exit(mod.replay(rep) if hasattr(mod, "replay") else core_replay(rep))
    ctx = core.Ctx(a.pid.upper(), a.tier, seed)
    try:
        rc = mod.run(ctx)
    except Exception as e:  # a harness failure must not look like a pass
        import traceback
        traceback.print_exc()
        ctx.broke(f"harness error: {type(e).__name__}: {e}")
        rc = ctx.finish(level="proof", rule="(harness error)")
    sys.exit(rc)


def core_replay(rep):
    print(json.dumps(rep, indent=1)[:4000])
    return 0


if __name__ == "__main__":
    main()
