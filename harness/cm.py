"""The CommonMark spec model (coq/Spec/CMBlock.v, extracted) and helpers shared by C03, C06, C08, C20."""
import json
import os
import re

import core
import extract


def lines_of_text(t):
    """the CommonMark notion of the lines of a text: no empty piece after a final newline"""
    if t == "":
        return []
    ls = t.split("\n")
    if ls[-1] == "":
        ls = ls[:-1]
    return ls


def cm_html_many(docs):
    """-> list of (in_F, html) from the extracted model"""
    reqs = []
    for d in docs:
        ls = lines_of_text(d)
        reqs.append("CM " + str(len(ls)) + " " + " ".join(extract.enc_str(l) for l in ls))
    out = []
    for ans in extract.run_lines(reqs):
        if ans.startswith("ERR"):
            out.append((False, None))
            continue
        parts = ans.split(" ")
        out.append((parts[0] == "1", "".join(chr(int(x)) for x in parts[1:] if x)))
    return out


def norm_html(h):
    """insignificant whitespace between block tags: newlines next to a tag outside <pre>, and the final newline"""
    parts = re.split(r"(<pre>.*?</pre>)", h, flags=re.S)
    out = []
    for i, p in enumerate(parts):
        if i % 2 == 0:
            p = re.sub(r"\n+(?=<)", "", p)
            p = re.sub(r"(?<=>)\n+", "", p)
        out.append(p)
    return "".join(out).strip("\n")


def spec_examples():
    p = os.path.join(core.VERIF, "third_party", "commonmark.json")
    return json.load(open(p, encoding="utf-8"))
