"""Shared machinery of the verification harness.

Every check is `check.py <ID> --tier quick|thorough`.  A property module calls

    ctx.prove(...)        build the Coq cone of the property, count theorems
    ctx.correspond(...)   model (evaluated in Coq / extracted binary) vs implementation
    ctx.explore(...)      the property itself evaluated on the implementation

and `ctx.finish()` turns what was collected into evidence, KNOWN-FINDING /
VIOLATION lines and the exit status.
"""
from __future__ import annotations

import fcntl
import hashlib
import json
import os
import random
import re
import shutil
import subprocess
import sys
import tempfile
import time
from concurrent.futures import ThreadPoolExecutor

VERIF = os.path.dirname(os.path.dirname(os.path.abspath(__file__)))
REPO = os.environ.get("VERIF_REPO", "/repo")
COQ = os.path.join(VERIF, "coq")
EVID = os.path.join(VERIF, "evidence")
REPLAY = os.path.join(EVID, "replay")
PY = "/venv/bin/python"
NPROC = max(2, min(16, os.cpu_count() or 4))

os.environ.setdefault("PYTHONHASHSEED", "0")
os.environ["PYTHONPATH"] = REPO
os.environ["COLUMNS"] = "300"
os.environ["PYMARKDOWN_VERIF"] = "1"
if REPO not in sys.path:
    sys.path.insert(0, REPO)
TP = os.path.join(VERIF, "third_party")
if TP not in sys.path:
    sys.path.append(TP)

FORBIDDEN = re.compile(
    r"\b(Admitted|admit|Axiom|Axioms|Parameter|Parameters|Conjecture|Admit Obligations)\b|Unset Guard|bypass_check|type-in-type|impredicative-set"
)


def sh(cmd, timeout=900, cwd=None, inp=None, env=None):
    p = subprocess.run(
        cmd, shell=isinstance(cmd, str), cwd=cwd, input=inp, capture_output=True,
        text=True, timeout=timeout, env=env,
    )
    return p.returncode, p.stdout, p.stderr


# --------------------------------------------------------------------------------------
# Coq literals


def cN(n: int) -> str:
    return f"{n}%N"


def cZ(n: int) -> str:
    return f"({n})%Z"


def cnat(n: int) -> str:
    return f"{n}%nat"


def cbool(b) -> str:
    return "true" if b else "false"


def cstr(s: str) -> str:
    """Python str -> list N of code points."""
    if not s:
        return "(@nil N)"
    return "[" + ";".join(str(ord(c)) for c in s) + "]%N"


def clist(items, ty=None) -> str:
    items = list(items)
    if not items:
        return f"(@nil {ty})" if ty else "[]"
    return "[" + "; ".join(items) + "]"


def copt(x, ty=None) -> str:
    if x is None:
        return f"(@None {ty})" if ty else "None"
    return f"(Some {x})"


def cpair(*xs) -> str:
    return "(" + ", ".join(xs) + ")"


# --------------------------------------------------------------------------------------
# Coq build


class CoqBuild:
    """Regenerates Gen/, builds the project with make -k, reports what compiled."""

    def __init__(self):
        self.log = ""
        self.gen_errors: dict[str, str] = {}
        self.ok_files: set[str] = set()
        self.failed_files: dict[str, str] = {}
        self.forbidden: list[str] = []

    def run(self, timeout=1500):
        from translate import regen_all

        os.makedirs(os.path.join(COQ, "Gen"), exist_ok=True)
        lock = open(os.path.join(COQ, ".lock"), "w")
        fcntl.flock(lock, fcntl.LOCK_EX)
        try:
            self.gen_errors = regen_all(REPO, os.path.join(COQ, "Gen"))
            files = self.project_files()
            with open(os.path.join(COQ, "_CoqProject"), "w") as f:
                f.write("-Q . PV\n-arg -w -arg -notation-overridden,-deprecated-hint-without-locality,-deprecated-syntactic-definition\n" + "\n".join(files) + "\n")
            rc, out, err = sh("coq_makefile -f _CoqProject -o Makefile.coq", cwd=COQ)
            if rc != 0:
                self.log = out + err
                return self
            rc, out, err = sh(
                f"timeout {timeout} make -k -j{NPROC} -f Makefile.coq 2>&1", cwd=COQ, timeout=timeout + 30
            )
            self.log = out
            # what make would still have to build = what did not compile (directly or through a dependency)
            _, pend, _ = sh(f"make -n -k -f Makefile.coq 2>/dev/null | grep -o 'COQC [^ ]*\\.v' || true", cwd=COQ)
            pending = {l.split()[1] for l in pend.split("\n") if l.strip()}
            for f in files:
                vo = os.path.join(COQ, f[:-2] + ".vo")
                if os.path.exists(vo) and f not in pending:
                    self.ok_files.add(f)
                else:
                    self.failed_files[f] = self._err_for(f)
            self.forbidden = scan_forbidden()
        finally:
            fcntl.flock(lock, fcntl.LOCK_UN)
            lock.close()
        return self

    def _err_for(self, f):
        m = re.search(r'File "\./' + re.escape(f) + r'", line (\d+).*?\n(.*?)(?=\nmake|\nCOQC|\Z)', self.log, re.S)
        return (m.group(0)[:600] if m else "not built (a dependency failed)")

    @staticmethod
    def project_files():
        out = []
        for d in ("Base", "Gen", "Model", "Spec", "Proofs", "Props", "Extract"):
            p = os.path.join(COQ, d)
            if os.path.isdir(p):
                for fn in sorted(os.listdir(p)):
                    if fn.endswith(".v"):
                        out.append(f"{d}/{fn}")
        return out


def scan_forbidden():
    hits = []
    for d, _, fns in os.walk(COQ):
        if "_cases" in d:
            continue
        for fn in fns:
            if fn.endswith(".v"):
                p = os.path.join(d, fn)
                txt = open(p, encoding="utf-8").read()
                txt = re.sub(r"\(\*.*?\*\)", "", txt, flags=re.S)
                for i, line in enumerate(txt.split("\n"), 1):
                    if FORBIDDEN.search(line):
                        hits.append(f"{os.path.relpath(p, COQ)}:{i}: {line.strip()[:80]}")
    return hits


def theorems_of(props_file):
    """Theorem names and the Print Assumptions output for Props/<id>.v (compiled by make;
    output re-captured by a direct coqc run, which is cheap because dependencies are built)."""
    src = open(os.path.join(COQ, props_file), encoding="utf-8").read()
    src_nc = re.sub(r"\(\*.*?\*\)", "", src, flags=re.S)
    names = re.findall(r"^\s*(?:Theorem|Corollary)\s+([A-Za-z0-9_']+)", src_nc, re.M)
    return names


def print_assumptions(props_file, timeout=600):
    rc, out, err = sh(f"timeout {timeout} coqc -Q . PV -w none {props_file} 2>&1", cwd=COQ, timeout=timeout + 10)
    res = {}
    if rc != 0:
        return None, out + err
    # output blocks: "Closed under the global context" or "Axioms:\n..." in order of Print Assumptions
    blocks = re.split(r"(?m)^(?=Closed under the global context|Axioms:)", out)
    blocks = [b.strip() for b in blocks if b.strip().startswith(("Closed", "Axioms:"))]
    src = open(os.path.join(COQ, props_file), encoding="utf-8").read()
    src = re.sub(r"\(\*.*?\*\)", "", src, flags=re.S)
    order = re.findall(r"Print Assumptions\s+([A-Za-z0-9_'.]+)\s*\.", src)
    for n, b in zip(order, blocks):
        res[n] = re.sub(r"\s+", " ", b)[:400]
    return res, out


# --------------------------------------------------------------------------------------
# Evaluating model functions inside Coq (cases.v + vm_compute)


def coq_eval(requires, defs, exprs, tag="cases", timeout=600, shard=400):
    """Evaluate each Coq expression in `exprs` (strings) with vm_compute; returns list of
    the printed result strings (whitespace-normalised, type stripped)."""
    os.makedirs(os.path.join(COQ, "_cases"), exist_ok=True)
    shards = [exprs[i:i + shard] for i in range(0, len(exprs), shard)] or [[]]

    def one(ix_sh):
        ix, exs = ix_sh
        name = f"{tag}_{os.getpid()}_{ix}"
        path = os.path.join(COQ, "_cases", name + ".v")
        with open(path, "w") as f:
            f.write("From Coq Require Import List NArith ZArith Bool.\nImport ListNotations.\n")
            for r in requires:
                f.write(f"Require Import {r}.\n")
            f.write(defs + "\n")
            for i, e in enumerate(exs):
                f.write(f'Eval vm_compute in (@id nat {i}).\nEval vm_compute in ({e}).\n')
        rc, out, err = sh(f"timeout {timeout} coqc -Q .. PV -w none {name}.v 2>&1", cwd=os.path.join(COQ, "_cases"), timeout=timeout + 10)
        for ext in (".v", ".vo", ".vok", ".vos", ".glob", ".aux"):
            for p in (path[:-2] + ext, os.path.join(COQ, "_cases", "." + name + ext)):
                if os.path.exists(p):
                    os.remove(p)
        if rc != 0:
            raise RuntimeError("coq_eval failed: " + (out + err)[-1500:])
        parts = re.split(r"(?m)^\s*= ", out)
        vals = []
        for p in parts[1:]:
            p = re.sub(r"\s+", " ", p).strip()
            # strip trailing ": type"
            j = p.rfind(" : ")
            vals.append(p[:j].strip() if j >= 0 else p)
        # vals alternate: index marker, value
        res = vals[1::2]
        if len(res) != len(exs):
            raise RuntimeError(f"coq_eval: expected {len(exs)} results, got {len(res)}: {out[-800:]}")
        return res

    with ThreadPoolExecutor(NPROC) as ex:
        rs = list(ex.map(one, enumerate(shards)))
    return [v for r in rs for v in r]


def parse_coq_nat_list(s):
    s = s.strip()
    s = re.sub(r"%(nat|N|Z)", "", s)
    if s in ("[]", "nil"):
        return []
    assert s.startswith("[") and s.endswith("]"), s
    return [int(x) for x in s[1:-1].split(";") if x.strip()]


def coq_mismatches(requires, defs, fn, cases, tag, eqb=None, shard=300):
    """cases: list of (coq_input_expr, coq_expected_expr).  Returns indices where the model
    function `fn` applied to the input differs from expected, decided inside Coq by `eqb`
    (a Coq term of type T -> T -> bool)."""
    exprs = []
    groups = [cases[i:i + shard] for i in range(0, len(cases), shard)]
    for g in groups:
        lst = clist(f"({a}, {b})" for a, b in g)
        exprs.append(
            f"let cs := {lst} in map fst (filter (fun p => negb ({eqb} ({fn} (fst (snd p))) (snd (snd p)))) (combine (seq 0 (length cs)) cs))"
        )
    res = coq_eval(requires, defs, exprs, tag=tag, shard=1)
    bad = []
    for gi, r in enumerate(res):
        bad += [gi * shard + i for i in parse_coq_nat_list(r)]
    return bad


# --------------------------------------------------------------------------------------
# Known findings


def load_known():
    """known_findings.json (hand-written groups) + findings/<pid>.json (member lists written by the
    maintenance command harness/triage.py, reviewed and committed; never written by a check)."""
    p = os.path.join(VERIF, "known_findings.json")
    if not os.path.exists(p):
        return {"findings": [], "fixed": []}
    k = json.load(open(p, encoding="utf-8"))
    fd = os.path.join(VERIF, "findings")
    if os.path.isdir(fd):
        for fn in sorted(os.listdir(fd)):
            if fn.endswith(".json"):
                k["findings"] += json.load(open(os.path.join(fd, fn), encoding="utf-8")).get("findings", [])
    return k


def key_of(inp) -> str:
    return json.dumps(inp, sort_keys=True, ensure_ascii=True)


# --------------------------------------------------------------------------------------
# Context


class Ctx:
    def __init__(self, pid, tier, seed):
        self.pid, self.tier, self.seed = pid, tier, seed
        self.t0 = time.time()
        self.rng = random.Random(seed)
        self.obligations = 0
        self.discharged = 0
        self.theorems: dict[str, str] = {}
        self.breaks: list[str] = []       # theorem / translator / correspondence that no longer checks
        self.violations: list[dict] = []  # {"unit":..., "input":..., "what":...}
        self.evaluations = 0
        self.nontrivial: set[str] = set()
        self.samples: list = []
        self.hist: dict[str, int] = {}
        self.corr_cases = 0
        self.units: dict[str, dict] = {}
        self.notes: list[str] = []
        self.trusted: list[str] = []
        self.build: CoqBuild | None = None
        known = load_known()
        self.known_groups = [f for f in known.get("findings", []) if f.get("property") == pid]
        self.known_keys: dict[str, dict] = {}
        for g in self.known_groups:
            for m in g.get("members", []):
                self.known_keys[key_of([g.get("unit"), m])] = g
        self.known_hit: dict[str, int] = {}
        self.triage: list[dict] = []

    # ---- proof part
    def prove(self, props_file, needs):
        """props_file: 'Props/C18.v'; needs: list of project files whose success the property needs
        (its dependency cone as far as Gen/Model/Proofs go)."""
        if self.build is None:
            self.build = CoqBuild().run()
        b = self.build
        names = theorems_of(props_file)
        self.obligations += len(names)
        bad = [f for f in needs + [props_file] if f not in b.ok_files]
        for g, e in b.gen_errors.items():
            if any(n.endswith(g) for n in needs):
                self.breaks.append(f"translator for {g} failed: {e[:300]}")
        if b.forbidden:
            self.breaks.append("forbidden construct in the Coq tree: " + "; ".join(b.forbidden[:5]))
        if bad:
            for f in bad:
                self.breaks.append(f"Coq file {f} no longer checks: {b.failed_files.get(f, '?')[:400]}")
            return False
        pa, out = print_assumptions(props_file)
        if pa is None:
            self.breaks.append(f"{props_file} no longer checks: {out[-400:]}")
            return False
        for n in names:
            self.theorems[n] = pa.get(n, "(no Print Assumptions line)")
            if n not in pa:
                self.breaks.append(f"{props_file}: theorem {n} has no Print Assumptions line")
        if not b.forbidden:
            self.discharged += len(names)
        return True

    # ---- bookkeeping for exploration
    def count(self, n=1, kind=None):
        self.evaluations += n
        if kind:
            self.hist[kind] = self.hist.get(kind, 0) + n

    def seen(self, key):
        self.nontrivial.add(hashlib.sha1(key_of(key).encode()).hexdigest()[:16])

    def sample(self, s, cap=8):
        if len(self.samples) < cap:
            self.samples.append(s)

    def unit(self, name, **kw):
        u = self.units.setdefault(name, {})
        for k, v in kw.items():
            if isinstance(v, int) and isinstance(u.get(k), int):
                u[k] += v
            else:
                u[k] = v

    def violation(self, unit, inp, what, extra=None, group=None):
        """A concrete failing input for the property (on the implementation).
        group: signature used only by the maintenance command triage.py to sort findings into groups."""
        k = key_of([unit, inp])
        g = self.known_keys.get(k)
        if os.environ.get("VERIF_TRIAGE"):
            self.triage.append({"unit": unit, "input": inp, "what": what, "group": group or unit, "known": g["id"] if g else None})
        if g is not None:
            self.known_hit[g["id"]] = self.known_hit.get(g["id"], 0) + 1
            return False
        self.violations.append({"unit": unit, "input": inp, "what": what, "extra": extra})
        return True

    def broke(self, what):
        self.breaks.append(what)

    # ---- final
    def finish(self, level="proof", rule="", assumptions=None, extra_cov=None):
        os.makedirs(REPLAY, exist_ok=True)
        for f in os.listdir(REPLAY):
            if f.startswith(self.pid + "-"):
                os.remove(os.path.join(REPLAY, f))
        lines = []
        for g in self.known_groups:
            n = self.known_hit.get(g["id"], 0)
            if n or g.get("always_print"):
                lines.append(f"KNOWN-FINDING: property={self.pid} {g['id']}: {g['desc']} ({n} listed inputs reproduced this run)")
        nviol = 0
        shown = {}
        for v in self.violations:
            sig = (v["unit"], v["what"][:60])
            shown[sig] = shown.get(sig, 0) + 1
            if shown[sig] > 3 or nviol >= 12:
                continue
            nviol += 1
            path = os.path.join(REPLAY, f"{self.pid}-{nviol}.json")
            json.dump({"property": self.pid, "kind": "failing-input", **v,
                       "breaks": self.breaks[:10]}, open(path, "w"), indent=1, ensure_ascii=True, default=str)
            lines.append(f"VIOLATION property={self.pid} replay={path}")
        if self.breaks and not self.violations:
            path = os.path.join(REPLAY, f"{self.pid}-broken.json")
            json.dump({"property": self.pid, "kind": "no-longer-checks", "what": self.breaks[:20],
                       "note": "a proof obligation, translator or model/implementation correspondence no longer checks; the search over the implementation found no input on which the property itself fails"},
                      open(path, "w"), indent=1, default=str)
            lines.append(f"VIOLATION property={self.pid} replay={path} no-failing-input-found")
        cov = {
            "obligations": self.obligations,
            "discharged": self.discharged,
            "checker_cmd": "coq_makefile -f _CoqProject -o Makefile.coq && make -f Makefile.coq (coqc 8.16.1, full .vo build) ; coqc Props/%s.v for Print Assumptions" % self.pid,
            "trusted_base": [
                "Coq 8.16.1 kernel + vm_compute (no native_compute)",
                "theorems and their axioms: " + "; ".join(f"{k}: {v}" for k, v in self.theorems.items()),
            ] + self.trusted,
            "evaluations": self.evaluations,
            "distinct_nontrivial": len(self.nontrivial),
            "rule": rule,
            "samples": self.samples or ["(none)"],
            "traces_validated_against_impl": self.corr_cases,
            "input_distribution": self.hist,
            "units": self.units,
            "broken": self.breaks[:20],
            "known_findings_reproduced": self.known_hit,
            "unlisted_violations": len(self.violations),
            "notes": self.notes,
        }
        if extra_cov:
            cov.update(extra_cov)
        ev = {
            "property_id": self.pid,
            "tier": self.tier,
            "seed": self.seed,
            "level": level,
            "coverage": cov,
            "assumptions": assumptions or [],
            "wall_s": round(time.time() - self.t0, 1),
            "violations": len(self.violations) + (1 if self.breaks and not self.violations else 0),
        }
        os.makedirs(EVID, exist_ok=True)
        json.dump(ev, open(os.path.join(EVID, f"{self.pid}.json"), "w"), indent=1, ensure_ascii=True, default=str)
        if os.environ.get("VERIF_TRIAGE"):
            json.dump(self.triage, open(os.environ["VERIF_TRIAGE"], "w"), ensure_ascii=True)
        for l in lines:
            print(l)
        bad = bool(self.violations or self.breaks)
        print(f"[{self.pid}] tier={self.tier} obligations={self.obligations} discharged={self.discharged} "
              f"evaluations={self.evaluations} corr={self.corr_cases} violations={len(self.violations)} breaks={len(self.breaks)} "
              f"wall={ev['wall_s']}s")
        return 1 if bad else 0


# --------------------------------------------------------------------------------------
# scratch dirs


class Scratch:
    def __init__(self, prefix="pv-"):
        self.prefix = prefix

    def __enter__(self):
        self.d = tempfile.mkdtemp(prefix=self.prefix)
        return self.d

    def __exit__(self, *a):
        shutil.rmtree(self.d, ignore_errors=True)
