"""Observes the main loop of the block pass without editing pymarkdown: sys.setprofile records, for one parse,
the arguments of __parse_blocks_pass_next_line (what is delivered, with which line number and flags) and of
__handle_parse_increment_line (what the handler answered: lines to deliver again, force flag)."""
import sys

import impl


def observe(doc, cpu_budget=4.0):
    dels, resps = [], []

    def prof(frame, event, arg):
        if event != "call":
            return
        name = frame.f_code.co_name
        if name == "__parse_blocks_pass_next_line":
            loc = frame.f_locals
            dels.append((loc.get("next_line_in_document"), loc.get("line_number"), bool(loc.get("did_start_close")), bool(loc.get("ignore_link_definition_start"))))
        elif name == "__handle_parse_increment_line":
            rq = frame.f_locals.get("requeue_line_info")
            if rq is None or not rq.lines_to_requeue:
                resps.append(None)
            else:
                # requeue.insert(0, i) for each i in order: they are delivered again in reverse order of the list
                resps.append((list(reversed(rq.lines_to_requeue)), bool(rq.force_ignore_first_as_lrd)))
    t = impl.tokenizer()
    sys.setprofile(prof)
    try:
        st = impl.parse(doc, cpu_budget=cpu_budget)[0]
    finally:
        sys.setprofile(None)
    return st, dels, resps
