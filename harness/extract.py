"""Builds the extracted model runner coq/Extract/_build/pvmodel (Extract.v -> pvmodel.ml + driver.ml, ocamlfind ocamlopt)
and talks to it over its line protocol."""
import os
import shutil
import subprocess

import core

BUILD = os.path.join(core.COQ, "Extract", "_build")
BIN = os.path.join(BUILD, "pvmodel")


def build():
    src_ml = os.path.join(core.COQ, "pvmodel.ml")
    if not os.path.exists(src_ml):
        # Extract.v is compiled by the project make; run it directly if the file is not there yet
        rc, out, err = core.sh("timeout 600 coqc -Q . PV -w none Extract/Extract.v", cwd=core.COQ)
        if rc != 0:
            raise RuntimeError("extraction failed: " + (out + err)[-800:])
    os.makedirs(BUILD, exist_ok=True)
    stamp = os.path.join(BUILD, ".stamp")
    newest = max(os.path.getmtime(p) for p in (src_ml, os.path.join(core.COQ, "Extract", "driver.ml")))
    if os.path.exists(BIN) and os.path.exists(stamp) and os.path.getmtime(stamp) >= newest:
        return BIN
    for f in ("pvmodel.ml", "pvmodel.mli"):
        shutil.copy(os.path.join(core.COQ, f), os.path.join(BUILD, f))
    shutil.copy(os.path.join(core.COQ, "Extract", "driver.ml"), os.path.join(BUILD, "driver.ml"))
    rc, out, err = core.sh("timeout 600 ocamlfind ocamlopt -O3 -w -a pvmodel.mli pvmodel.ml driver.ml -o pvmodel 2>&1 || timeout 600 ocamlfind ocamlopt -w -a pvmodel.mli pvmodel.ml driver.ml -o pvmodel 2>&1", cwd=BUILD)
    if not os.path.exists(BIN):
        raise RuntimeError("ocaml build failed: " + (out + err)[-1500:])
    open(stamp, "w").write("ok")
    return BIN


def run_lines(lines, timeout=1200):
    """send request lines, get answer lines (same length)"""
    b = build()
    p = subprocess.run([b], input="\n".join(lines) + "\n", capture_output=True, text=True, timeout=timeout, env=dict(os.environ, OCAMLRUNPARAM="l=8G"))
    out = p.stdout.split("\n")
    if out and out[-1] == "":
        out = out[:-1]
    if len(out) != len(lines):
        raise RuntimeError(f"pvmodel answered {len(out)} lines for {len(lines)} requests (rc {p.returncode}): {p.stderr[-400:]}")
    return out


def enc_str(s):
    return f"{len(s)} " + " ".join(str(ord(c)) for c in s) if s else "0"
