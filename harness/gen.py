"""Deterministic document spaces (finite enumerations ordered by size) shared by the checks."""
import itertools
import random

V_LEAF = ["a", "", "# a", "#a", "## a #", "#", "    a", "  a", "```", "~~~", "```py", "````", "---", "===", "***",
          "* * *", "a  ", "   b", " ", "     c", "=", "--", "### a ##  "]
V_CONT = ["a", "", "- a", "1. a", "> a", "  a", "    a", "  - b", "   c", "> - a", "- > a", "```", "---", "-", ">", "     d"]
V_INLINE = ["*a*", "**a** b", "`a`", "[a](/u)", "![a](/u)", "a\\", "<b>x</b>", "a &amp; b", "<http://a.b>", "_a_ *b", "a `b", "[a]: /u", "[a]"]
V_MORE = ["+ a", "* a", "2) a", ">a", "> > a", "#  a", "a\t", "\ta", "1.  a", "10. x", "  # a", "a ", "<!-- c -->", "- [ ] a", "| a |", "Setext", "~~a~~"]
V_ALL = list(dict.fromkeys(V_LEAF + V_CONT + V_INLINE + V_MORE))
A_CHAR = ["a", " ", "\n", "-", ">", "#", "`", "*", "1", "."]


def d_line(vocab, k, final_newline=(True, False)):
    """all documents of 1..k lines over vocab, each with/without final newline"""
    for n in range(1, k + 1):
        for ls in itertools.product(vocab, repeat=n):
            body = "\n".join(ls)
            for fn in final_newline:
                d = body + ("\n" if fn else "")
                if d:
                    yield d


def d_char(alpha, n):
    for m in range(1, n + 1):
        for cs in itertools.product(alpha, repeat=m):
            yield "".join(cs)


def uniq(it):
    seen = set()
    for d in it:
        if d not in seen:
            seen.add(d)
            yield d


def sample(seq, n, seed):
    seq = list(seq)
    if len(seq) <= n:
        return seq
    r = random.Random(seed)
    return r.sample(seq, n)


POOL = [  # documents that between them exercise every rule / parser feature with cross-line state
    "# a\n\n### b\n", "# a\n\n# a\n", "a\n===\n\nb\n---\n", "#  a\n", "#a\n", "# a #\n", "#  a  #\n", " # a\n",
    "# a\ntext\n", "text\n# a\n", "# a.\n", "- a\n* b\n", "- a\n   - b\n", "1. a\n1. b\n3. c\n", "10. x\n", "-  a\n", "- a\n- b\ntext\n",
    "a  \nb\n", "a\tb\n", "a\n\n\nb\n", "a" * 90 + "\n", "a $ b\n", "```\ncode\n```\n", "text\n```\ncode\n```\ntext\n", "    code\n\n```\nx\n```\n",
    "```py\nx\n```\n\n~~~\ny\n~~~\n", "a <b>c</b>\n", "http://a.b\n", "---\n\n***\n", "> a\n\n> b\n", ">  a\n", "**a**\n", "** a **\n", "` a `\n",
    "[ a ](/u)\n", "[a]()\n", "![](/u)\n", "*a* _b_\n", "**a** __b__\n", "# a\n", "# a", "a\n", "text [a][b]\n\n[b]: /u\n", "[b]: /u\n\n[b]: /v\n",
    "| a | b |\n|---|---|\n| c | d |\n", "- [ ] a\n", "<!-- pyml disable-next-line md019-->\n#  a\n", "a\n<!-- pyml disable-num-lines 2 md009-->\nb  \nc   \n",
    "javascript is fun\n", "# A\n\n## b\n\n## b\n", "+ a\n+ b\n\n* c\n", "1. a\n\n   ```\n   x\n   ```\n", "> - a\n>   b\n", "a\\\nb\n", "\n# a\n",
    "<p>x</p>\n\ntext\n", "text[^1]\n", "þ ü 艨\n", "# a\r\n\r\nb\r\n",
]

# one or two trigger lines per rule (lines that make the rule report, or nearly so)
TRIG = [
    "### b", "# a", "## b #", "* x", "- x", "+ x", "  - y", "   - z", "- a  ", "a  ", "a   ", "a\tb", "\tq", "[a]()", "a" * 82, "$ ls",
    "#b", "#  b", "# b #", "#b#", "#  b  #", "  # b", "# b.", "# b?", ">  q", "> q", "1. a", "3. a", "2) a", "-   w", "1.  w", "```", "~~~", "```sh",
    "<b>x</b>", "http://a.example", "see http://a.example and http://b.example here", "https://c.example.", "***", "---", "**a**", "** a **", "__ a __", "` a `",
    "[ a ](/u)", "[a](#b)", "[a]( /u )", "![](/u)", "![a](/u)", "    code", "javascript", "*a*", "_a_", "[a][b]", "[b]: /u", "[b]: /v", "| a | b |", "|---|---|",
    "a <!-- c --> b", "a\\", "&amp;", "<!-- pyml disable-next-line md009-->",
]


def d_trig():
    """documents made of repeated / paired trigger lines, inside one paragraph and as separate blocks"""
    for t in TRIG:
        for d in (t, t + "\n" + t, t + "\n" + t + "\n" + t, "x\n" + t + "\n" + t, t + "\n\n" + t, "x\ny " + t + " and " + t + " z\n" + t):
            yield d + "\n"
    for a in TRIG:
        for b in TRIG:
            if a != b:
                yield a + "\n" + b + "\n"
                yield a + "\n\n" + b + "\n"
                yield "Intro\n" + a + "\nand " + b + " end\n"


def d_trig_small():
    for t in TRIG:
        for d in (t, t + "\n" + t, t + "\n" + t + "\n" + t, "x\n" + t + "\n" + t, t + "\n\n" + t, "x\ny " + t + " and " + t + " z\n" + t):
            yield d + "\n"


_CORPUS = None


def repo_corpus(repo="/repo"):
    """the project's own test documents: every string bound to `source_markdown` in test/**/*.py (deduplicated, in file order)"""
    global _CORPUS
    if _CORPUS is not None:
        return _CORPUS
    import ast
    import glob
    import os
    out = {}
    for p in sorted(glob.glob(os.path.join(repo, "test", "**", "*.py"), recursive=True)):
        try:
            tree = ast.parse(open(p, encoding="utf-8").read())
        except Exception:
            continue
        def const(e):
            if isinstance(e, ast.Constant) and isinstance(e.value, str):
                return e.value
            if isinstance(e, ast.Call) and isinstance(e.func, ast.Attribute) and e.func.attr == "replace" and len(e.args) == 2:
                b, x, y = const(e.func.value), const(e.args[0]), const(e.args[1])
                if None not in (b, x, y):
                    return b.replace(x, y)
            return None

        for n in ast.walk(tree):
            s = None
            if isinstance(n, ast.Assign) and len(n.targets) == 1 and isinstance(n.targets[0], ast.Name) and n.targets[0].id in ("source_markdown", "source_file_contents"):
                s = const(n.value)
            elif isinstance(n, ast.keyword) and n.arg in ("source_file_contents", "source_markdown"):
                s = const(n.value)
            if s and s.strip() and len(s) < 3000:
                out.setdefault(s, os.path.relpath(p, repo))
    for p in sorted(glob.glob(os.path.join(repo, "test", "resources", "**", "*.md"), recursive=True)):
        try:
            s = open(p, encoding="utf-8").read()
        except Exception:
            continue
        if s.strip() and len(s) < 3000:
            out.setdefault(s, os.path.relpath(p, repo))
    _CORPUS = list(out)
    return _CORPUS


EMPH = ["*", "**", "_", "__", "a", " "]


def d_emph(n):
    """inline delimiter-run documents: sequences of <= n symbols over {*, **, _, __, a, space}"""
    for m in range(1, n + 1):
        for cs in itertools.product(EMPH, repeat=m):
            s = "".join(cs)
            if s.strip():
                yield s
