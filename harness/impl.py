"""Drivers for the real code in /repo (always the current working tree)."""
from __future__ import annotations

import contextlib
import io
import multiprocessing as mp
import os
import signal
import sys

from core import REPO, NPROC, VERIF

PLUGDIR = os.path.join(VERIF, "harness", "plugins")


# --------------------------------------------------------------------------------------
# worker pool (fork): every worker imports pymarkdown from /repo itself


def _init_worker():
    sys.setrecursionlimit(10000)


def pmap(fn, items, procs=None, chunksize=None):
    items = list(items)
    if not items:
        return []
    procs = min(procs or NPROC, len(items))
    if procs <= 1:
        return [fn(x) for x in items]
    cs = chunksize or max(1, min(64, len(items) // (procs * 8) or 1))
    ctx = mp.get_context("fork")
    with ctx.Pool(procs, initializer=_init_worker) as p:
        return p.map(fn, items, chunksize=cs)


# --------------------------------------------------------------------------------------
# CLI in-process


class _Timeout(BaseException):
    pass


def _alarm(*_a):
    raise _Timeout()


def run_cli(argv, cwd=None, stdin_text=None, env=None, timeout=60, lint=None):
    """PyMarkdownLint().main(argv) in-process (on the object `lint` when one is given).  Returns (exit_code, stdout, stderr)."""
    from pymarkdown.main import PyMarkdownLint

    old_cwd = os.getcwd()
    old_env = {}
    so, se = io.StringIO(), io.StringIO()
    old_stdin = sys.stdin
    code = None
    try:
        if cwd:
            os.chdir(cwd)
        for k, v in (env or {}).items():
            old_env[k] = os.environ.get(k)
            if v is None:
                os.environ.pop(k, None)
            else:
                os.environ[k] = v
        if stdin_text is not None:
            sys.stdin = io.StringIO(stdin_text)
        signal.signal(signal.SIGALRM, _alarm)
        signal.setitimer(signal.ITIMER_REAL, timeout)
        try:
            with contextlib.redirect_stdout(so), contextlib.redirect_stderr(se):
                try:
                    (lint or PyMarkdownLint()).main(list(argv))
                    code = 0
                except SystemExit as e:
                    code = e.code if isinstance(e.code, int) else (0 if e.code is None else 1)
        except _Timeout:
            code = "TIMEOUT"
        finally:
            signal.setitimer(signal.ITIMER_REAL, 0)
    finally:
        sys.stdin = old_stdin
        os.chdir(old_cwd)
        for k, v in old_env.items():
            if v is None:
                os.environ.pop(k, None)
            else:
                os.environ[k] = v
    return code, so.getvalue(), se.getvalue()


def run_cli_sub(argv, cwd=None, stdin_bytes=None, env=None, timeout=120):
    """python -m pymarkdown in a child process."""
    import subprocess

    e = dict(os.environ)
    e["PYTHONPATH"] = REPO
    for k, v in (env or {}).items():
        if v is None:
            e.pop(k, None)
        else:
            e[k] = v
    p = subprocess.run(["/venv/bin/python", "-m", "pymarkdown", *argv], cwd=cwd, input=stdin_bytes,
                       capture_output=True, timeout=timeout, env=e)
    return p.returncode, p.stdout.decode("utf-8", "replace"), p.stderr.decode("utf-8", "replace")


# --------------------------------------------------------------------------------------
# parser / generators directly

_TK = {}


def tokenizer(config=None):
    key = repr(sorted((config or {}).items()))
    if key in _TK:
        return _TK[key]
    from application_properties import ApplicationProperties
    from pymarkdown.extension_manager.extension_manager import ExtensionManager
    from pymarkdown.general.main_presentation import MainPresentation
    from pymarkdown.general.tokenized_markdown import TokenizedMarkdown

    t = TokenizedMarkdown()
    p = ApplicationProperties()
    if config:
        p.load_from_dict(config)
    em = ExtensionManager(MainPresentation())
    em.initialize(None, p)
    em.apply_configuration()
    t.apply_configuration(p, em)
    _TK[key] = t
    return t


def parse(src, config=None, cpu_budget=4.0, eos=False):
    """-> ("ok", tokens) | ("timeout", None) | ("exc", "Type: msg @ module.func")"""
    t = tokenizer(config)
    signal.signal(signal.SIGVTALRM, _alarm)
    signal.setitimer(signal.ITIMER_VIRTUAL, cpu_budget)
    try:
        toks = t.transform(src, show_debug=False, do_add_end_of_stream_token=eos)
        signal.setitimer(signal.ITIMER_VIRTUAL, 0)
        return "ok", toks
    except _Timeout:
        return "timeout", None
    except BaseException as e:  # noqa
        signal.setitimer(signal.ITIMER_VIRTUAL, 0)
        return "exc", exc_signature(e)
    finally:
        signal.setitimer(signal.ITIMER_VIRTUAL, 0)


def exc_signature(e):
    """Exception type + innermost pymarkdown frame (module.function), never a line number."""
    import traceback

    cause = e
    while cause.__cause__ is not None:
        cause = cause.__cause__
    tb = traceback.extract_tb(cause.__traceback__)
    where = "?"
    for fr in reversed(tb):
        if "/pymarkdown/" in fr.filename:
            where = os.path.basename(fr.filename)[:-3] + "." + fr.name
            break
    return f"{type(cause).__name__}@{where}"


def to_html(tokens):
    from pymarkdown.transform_gfm.transform_to_gfm import TransformToGfm
    return TransformToGfm().transform(tokens)


def to_markdown(tokens):
    from pymarkdown.transform_markdown.transform_to_markdown import TransformToMarkdown
    return TransformToMarkdown().transform(tokens)


def markdown_it_html(src):
    from markdown_it import MarkdownIt
    global _MDIT
    try:
        md = _MDIT
    except NameError:
        md = _MDIT = MarkdownIt("commonmark")
    return md.render(src)


# --------------------------------------------------------------------------------------
# API in-process


def api():
    from pymarkdown.api import PyMarkdownApi
    return PyMarkdownApi()
