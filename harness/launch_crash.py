"""Child-process launcher with crash injection in the write-back of a fixed file (not part of /repo).
usage: launch_crash.py <point> <argv...>     point: none | before | after-open | chunk:<k> | before-replace | after-replace
The process dies with os._exit(99) at the chosen point.  Only standard-library functions are wrapped
(shutil.copyfile / shutil.copyfileobj / os.replace); pymarkdown itself is not edited."""
import os
import shutil
import sys

point = sys.argv[1]
argv = sys.argv[2:]
shutil._USE_CP_SENDFILE = False       # force the portable read/write loop so that "after each part" is meaningful
if hasattr(shutil, "_HAS_FCOPYFILE"):
    shutil._HAS_FCOPYFILE = False
shutil.COPY_BUFSIZE = 4

_orig_copyfile = shutil.copyfile
_orig_copyfileobj = shutil.copyfileobj
_orig_replace = os.replace
_target = os.environ.get("PV_CRASH_TARGET", "")      # only the write-back to this file name is attacked


def _is_target(dst):
    return bool(_target) and os.path.basename(str(dst)).endswith(_target) or (not _target)


def copyfile(src, dst, *a, **k):
    if point == "before" and _is_target(dst):
        os._exit(99)
    state["dst"] = dst
    try:
        return _orig_copyfile(src, dst, *a, **k)
    finally:
        state["dst"] = None


state = {"dst": None}


def copyfileobj(fsrc, fdst, length=0):
    attacked = state["dst"] is not None and _is_target(state["dst"]) and os.environ.get("PV_CRASH_PHASE", "writeback") == "writeback"
    if attacked and point == "after-open":
        os._exit(99)
    n = 0
    while True:
        buf = fsrc.read(4)
        if not buf:
            break
        fdst.write(buf)
        fdst.flush()
        n += 1
        if attacked and point == f"chunk:{n}":
            os._exit(99)


def replace(src, dst, *a, **k):
    if point == "before-replace" and _is_target(dst):
        os._exit(99)
    r = _orig_replace(src, dst, *a, **k)
    if point == "after-replace" and _is_target(dst):
        os._exit(99)
    return r


shutil.copyfile = copyfile
shutil.copyfileobj = copyfileobj
os.replace = replace
from pymarkdown.main import PyMarkdownLint  # noqa: E402

PyMarkdownLint().main(argv)
