"""Writes MANIFEST.json from the table below (kept in one place so it stays valid)."""
import json
import os

V = os.path.dirname(os.path.dirname(os.path.abspath(__file__)))
CHECKS = {}


def chk(pid, category, text, note, technique, design):
    CHECKS[pid] = {
        "property_id": pid,
        "quick_cmd": f"./check {pid} --tier quick",
        "thorough_cmd": f"./check {pid} --tier thorough",
        "evidence_file": f"/verif/evidence/{pid}.json",
        "replay_cmd_template": f"./check {pid} --replay {{path}}",
        "engine": "coq-model-and-correspondence",
        "level_claimed": {"category": category, "text": text, "design_ref": design},
        "level_note": note,
        "technique": technique,
    }


chk("C18", "proof",
    "Theorems (Coq, closed under the global context) over a model whose tables are regenerated from return_code_helper.py, "
    "user-guide.md and main.py on every run: code table = documented table; for every mode, continue-on-error flag and list of "
    "per-file outcomes the final category follows the precedence system-error > fixed > triggered > success; an error in a processed "
    "file is never masked; every path to exit (incl. exits before the scheme is known) returns the documented code. The hand-written "
    "loop model (Model/Runner.v) is tied to the code by evaluating it in Coq on every CLI run of an enumerated scenario space "
    "(outcome vectors of <=3 files x scan/fix x continue-on-error x 6 scheme selections, plus ~55 non-scanning paths) and comparing "
    "exit status and output events.",
    "Trusted: Coq kernel + vm_compute, the three translators, the fault plug-in, the in-process CLI driver; per-file outcomes are "
    "treated as independent (C13). Modelled rather than verified: argparse, plug-in/extension sub-commands (by category only).",
    "Coq proof over translated tables + hand model; correspondence by vm_compute on enumerated CLI scenarios",
    "DESIGN.md section 4 C18")

chk("C07", "proof",
    "Proved (Coq, closed under the global context) over Gen/FailureLt.v, which is regenerated from plugin_scan_failure.py::__lt__, "
    "plugin_scan_context.py (collection/sorted()/clear shape) and rule_plugin.py (position arithmetic) on every run: the comparison IS the "
    "documented order (line, column, rule id) and a strict weak order; for every list of collected failures and every suppression predicate the "
    "printed list is sorted, is a permutation of the unsuppressed collected failures (each printed exactly as often as reported) and does not "
    "depend on the order in which rules reported; report positions follow token positions. Tied to the code by the translator plus a "
    "correspondence run that pushes random report scripts through the real engine. NOT proved: absence of rule crashes and range/uniqueness "
    "of what the 46 rules report for every document - that part is exploration (enumerated document spaces x default/all/each rule alone).",
    "Trusted: Coq kernel + vm_compute, translator failure_lt.py/pyexpr.py, scripted reporter plug-in, API driver. Columns are judged against "
    "the tab-expanded line. Modelled rather than verified: the rules themselves (explored only).",
    "Coq proof over translated comparison + sort model; correspondence by vm_compute; enumeration of documents for rule behaviour",
    "DESIGN.md section 4 C07")

chk("C20", "proof",
    "Proved (Coq, closed under the global context): (1) over the table of inline-handler registrations regenerated from "
    "inline_handler_helper.py::initialize and emphasis_helper.py::initialize on every run (with the guard of each registration): every "
    "registration made under an extension switch is for a character of that extension's class and no unconditional registration is; "
    "hence, for arbitrary handlers and any other switches, the scan of a text without the extension's characters calls the same handlers "
    "at the same places with the extension on and off, and with the extension off its characters are no stop characters at all; "
    "(2) over the hand model Model/FrontMatter.v of process_header_if_present (PyYAML's verdict a parameter): a recognised header is "
    "exactly opening line + collected lines + first closing line at the start of the document, the block pass continues with exactly the "
    "remaining lines numbered from the length of the block plus one; an unrecognised header consumes nothing. The models are tied to the "
    "code by comparing the handler dictionary under all 64 switch subsets and the header decision on enumerated line lists (vm_compute). "
    "What the handlers and the block-level hooks (pragmas, task list items, raw-HTML filter) do is outside the models: inertness of the "
    "whole parser is decided by enumeration only (every document under all 64 subsets against the subset restricted to the extensions "
    "whose syntax occurs; plain CommonMark with everything off against the spec model CM and markdown-it; document sequences on one tokenizer).",
    "Trusted: Coq kernel + vm_compute, translator inline_triggers.py, the hand model of the front-matter loop (checked by correspondence), "
    "PyYAML as the oracle for valid YAML, the hand-written reading of 'contains the extension's syntax', the spec model CM and markdown-it-py as references.",
    "Coq proof over regenerated registration table + hand model; correspondence by vm_compute; exhaustive differential over switch subsets",
    "DESIGN.md section 4 C20")

chk("C19", "proof",
    "Proved (Coq, closed under the global context) for every directory tree, flag setting and argument list, over the hand model "
    "Model/Discover.v (determine_files_to_scan with os.path/os.walk/glob semantics): selected paths strictly sorted without repetition; "
    "exactly the union of what each argument designates; invariant under permutation of the arguments; error iff some argument alone fails "
    "(missing, ineligible named file, glob without match) and then nothing is selected; every selected path is an existing file with an "
    "eligible extension. Two clauses of the property are REFUTED on the faithful model with vm_compute witnesses (one file under two "
    "spellings is selected twice; selecting no file ends in SUCCESS) and are listed as known findings. The model is tied to the code by "
    "evaluating it in Coq on every --list-files run of an enumerated space (5 trees x all single and paired arguments x flags).",
    "Trusted: Coq kernel + vm_compute, the hand model of os.path/os.walk/glob (checked only by correspondence), the in-process CLI driver, "
    "the independent Python reference used to judge violations. Outside the model: symlinks, '..', absolute paths, '[' inside glob patterns.",
    "Coq proof over hand model; correspondence by vm_compute on enumerated trees x argument lists",
    "DESIGN.md section 4 C19")

chk("C17", "proof",
    "Proved (Coq, closed under the global context) over Model/Config.v and the rule table regenerated from every rule_*.py on every run "
    "(ids, names, defaults, configuration items with types, defaults and validators): for every stack of layers a key has the value of the "
    "most specific layer that mentions it (load order project file, default file, --config, --set); for every rule and every stack that "
    "addresses it through one identifier, enabled = command line (disable before enable), else the most specific layer's boolean `enabled`, "
    "else the default - and a non-boolean value there stops a strict run; renaming the identifier to any other identifier of the rule changes "
    "neither the enabled state nor any setting; a wrongly typed or rejected value falls back to the default (lenient) or is a configuration "
    "error (strict); no identifier belongs to two rules; every default is valid. Tied to the code by the translator and by evaluating the model "
    "on every `plugins list`/`plugins info` run of an enumerated space (3^4 layer states x cli x identifiers x strict x file formats, present-but-"
    "silent layers, mixed identifiers; every configuration item of every rule x in-range/out-of-range/wrong-type x lenient/strict).",
    "Trusted: Coq kernel + vm_compute, translator rule_table.py, hand model of application_properties' flat map and getters (checked by "
    "correspondence), in-process CLI driver. Outside the model: 4 opaque validators, string-list getters, extension settings.",
    "Coq proof over hand model + translated rule table; correspondence by vm_compute on enumerated layer stacks",
    "DESIGN.md section 4 C17")

chk("C14", "proof",
    "Proved (Coq, closed under the global context) over the hand model Model/Lifecycle.v of the dispatcher (per-callback lists, context maps) and "
    "of the scan and fix drivers: for every set of enabled plug-ins with distinct ids, every token stream and every list of lines, an enabled "
    "plug-in sees exactly Start, every token once in order, every line once in order with its number and text, Complete(lines+1), restricted to "
    "the callbacks it defines; a plug-in that is not enabled sees nothing; several files concatenate; in both phases of every fix pass a fixer of "
    "the pass's level sees this shape with the fixing context, a collector of a higher level with the collecting context, a plug-in without fix "
    "support nothing. The model is tied to the code by evaluating it in Coq against the interleaved call log of generated recorder plug-ins "
    "(ids sorting first/last, levels 0,1,2,3,5, with/without next_line, token-only, disabled, not fix-capable) for 18 documents and 1-3 files.",
    "Trusted: Coq kernel + vm_compute, recorder generator, in-process CLI driver. Interpretation: a 'pass' is one phase (the token phase of fix "
    "mode delivers no lines by design) and in the line phase a plug-in is handed the line as left by the plug-ins dispatched before it. "
    "Modelled rather than verified: which passes run (C09), file contents between passes.",
    "Coq proof over hand model; correspondence by vm_compute on recorder call logs",
    "DESIGN.md section 4 C14")

chk("C12", "proof",
    "Proved (Coq, closed under the global context) for arbitrary plug-ins (any state type, step function and reports), any enabled set with "
    "distinct ids and any event sequence, over the engine model Model/Dispatch.v: what a plug-in reports inside a set equals what it reports "
    "alone; adding or removing other plug-ins changes nothing for it; a plug-in that is not enabled contributes nothing. The model's premise - "
    "private per-instance state, unmodified payload - is itself checked on every run: the obligation no_shared_state over Gen/SharedState.v "
    "(regenerated by static analysis of every rule and helper class: class-level or module-level mutable state), recorders dispatched first "
    "and last seeing identical tokens with every rule enabled, and the union law evaluated on the implementation (all rules, default set, each "
    "of the 46 rules alone, default minus each) over the repository's own test corpus and trigger-line documents.",
    "Trusted: Coq kernel, translator shared_state.py (syntactic analysis: aliasing through other objects is not seen), recorder plug-ins, API "
    "driver. The engine model abstracts rules completely; that real rules are isolated is established by the three checks above, not proved.",
    "Coq proof over abstract engine; generated no-shared-state obligation; union law by enumeration",
    "DESIGN.md section 4 C12")

chk("C15", "proof",
    "Proved (Coq, closed under the global context) over Model/Runner.v (the per-file loop and its error handling, shared with C18) for every "
    "mode, flag and list of per-file outcomes: a failure in any processed file ends the run in the system-error category; under continue-on-"
    "error the output with a failing file is the output without it plus that file's own events (every other file as if it were absent); without "
    "it the run stops at the first failing file; the error names the file for plug-in failures, undecodable files and (under continue-on-error) "
    "parser failures - refuted, with witness, for a parser failure without continue-on-error (known finding). Over Model/WriteBack.v: the "
    "write-back protocol of the repaired code (sibling file + os.replace) leaves the old or the new content whenever the process dies, for every "
    "content, partition into parts and crash point; the protocol before the repair (copy over the destination) is refuted. Tied to the code by "
    "fault enumeration: outcome vectors of <=3 files incl. a parser crash after a pragma line, a fault at every callback invocation of every file "
    "position, scan/fix, with/without continue-on-error, each compared with the run without the failing file; process death at every step of the "
    "write-back in a child process; temp and working directories listed after every run.",
    "Trusted: Coq kernel + vm_compute, fault plug-in, crash launcher (wraps shutil/os functions only), in-process CLI driver. Modelled rather "
    "than verified: OS file semantics (rename atomicity is assumed by the model's Rename step), what happens inside a pass.",
    "Coq proof over hand models; correspondence and fault enumeration at every callback invocation and write-back step",
    "DESIGN.md section 4 C15")

chk("C10", "proof",
    "Proved (Coq, closed under the global context) over Model/FixPass.v (which passes write back, per-file flag, 'Fixed:' lines, category via the "
    "translated final_category and the Runner model) for every original content and every sequence of passes whatever they compute: bytes "
    "changed implies announced; no pass registering a fix implies byte-identical; 'Fixed: f' exactly for files some pass wrote back; the error-"
    "free run ends in fixed-at-least-one-file iff something is announced; the API's files_fixed is that list under either scheme. The converse "
    "(announced implies bytes differ) is shown NOT to follow from the bookkeeping (witness) and is decided on the implementation by enumeration, "
    "as are 'a file without a fix-capable failure stays identical' and the read-only clause (SHA-1/mtime of working and temp directories around 18 "
    "non-fixing commands). Model tied to the code by feeding it the pass-level facts printed by the project's own fix-debug switches and "
    "comparing final bytes, announcements and exit status, for both return-code schemes, single files and sets of 2-3 files.",
    "Trusted: Coq kernel + vm_compute, the parser of the -x-fix-debug output, in-process CLI/API driver. Modelled rather than verified: what a "
    "pass computes; OS effects.",
    "Coq proof over hand model; correspondence from the fix-debug trace; enumeration for the converse and read-only clauses",
    "DESIGN.md section 4 C10")

chk("C16", "proof",
    "Proved (Coq, closed under the global context) over Model/IO.v for every text: the file provider (readlines, terminator stripping, the "
    "appended empty line with its initial True) and the in-memory provider (repeated split) both yield exactly split on LF of the text as read; "
    "universal-newline reading is idempotent, so the lines seen through a file, through scan_string/fix_string (temporary file) and through "
    "scan-stdin (text-mode stdin, then temporary file) are the same; CR-LF line ends give the same lines as LF; a final newline adds exactly one "
    "empty last line. Tied to the code by evaluating the model on every string over {a, LF, CR} up to length 6 (quick) / 8 (thorough) against "
    "both providers (exhaustive). That the same lines yield the same failures and fixed text through the four scan and three fix entry points, for "
    "four rule selections, eight diagnostic option sets and under a C locale, is explored on pool + repository-corpus documents (incl. CR-LF conversions).",
    "Trusted: Coq kernel + vm_compute, in-process CLI/API drivers, the stdin emulation (universal-newline TextIOWrapper) and the child-process "
    "runs under LC_ALL=C. Modelled rather than verified: Python text-mode I/O, argparse, the API's argument builder (differential only).",
    "Coq proof over hand model of the I/O pipeline; exhaustive small-string correspondence; entry-point differential",
    "DESIGN.md section 4 C16")

chk("C11", "proof",
    "Proved (Coq, closed under the global context) over Model/Pragma.v for every list of parsed pragmas (one per source line), every line and "
    "rule id: a failure is suppressed iff some pragma covers its line and names its rule through an identifier that resolved; disable-next-line "
    "covers exactly the following line and disable-num-lines N exactly the following N lines; a malformed pragma (command not understood, bad "
    "or missing count, no identifier that resolves) suppresses nothing and is reported; the output with pragmas is the output without them "
    "minus the suppressed failures (over the Report model of C07). The literal clause 'a malformed pragma suppresses nothing' is refuted for "
    "pragmas mixing resolvable and unresolvable ids (witness; known finding). The text layer of the model (recognition, command/count/id "
    "parsing against the translated rule table) is tied to the code by evaluating it on generated pragma lines against the parser's pragma "
    "token, the reported pragma errors and the surviving failures. 'Invisible to the parser' is NOT proved: it is decided by enumeration "
    "(every insertion point of a pragma line into all 2- and 3-line documents over a template vocabulary, tokens compared after shifting).",
    "Trusted: Coq kernel + vm_compute, translator rule_table.py, direct parser call and API driver. Outside the model: counts that only "
    "Python's int() accepts (underscores, non-ASCII digits).",
    "Coq proof over hand model (tables + suppression); text-layer correspondence; enumeration for parser invisibility",
    "DESIGN.md section 4 C11")

chk("C09", "proof",
    "Proved (Coq, closed under the global context) over Model/FixSched.v with documents, passes and collectors abstract: whatever the rules do, "
    "the levels that are run strictly increase (no level twice), there are at most as many passes as levels, and the loop always ends; under "
    "four explicit hypotheses about the rules (a pass resolves its own level; nothing to fix means untouched; a pass creates no work for lower "
    "levels; collectors see the document the pass leaves) one run from the lowest level leaves nothing fixable and a second run changes nothing; "
    "without the first hypothesis the claim is refuted (witness) - the abstract shape of '10. x'. The levels come from the translated rule table. "
    "The scheduler model is tied to the code by generated trigger plug-ins at levels 0,1,2,3,4,5,9 whose triggers are driven by the document: "
    "the sequence of levels handed a fixing context must be the model's. The hypotheses are NOT proved for the 21 fix-capable rules: the "
    "conclusion itself (fix twice, scan in between) is evaluated on the implementation for the default set, every rule alone and all 210 pairs "
    "over 158 documents, and for a file processed after a file that failed in a lower or later pass.",
    "Trusted: Coq kernel + vm_compute, translator rule_table.py, trigger/fault plug-ins, in-process CLI driver. The property as stated (for all "
    "documents) is not established: five groups of known findings show it fails on the pinned tree.",
    "Coq proof of the scheduler (unconditional bounds; conditional fixed point); plug-in driven correspondence; pairwise enumeration",
    "DESIGN.md section 4 C09")

chk("C13", "proof",
    "Proved (Coq, closed under the global context) for ANY rule - values, events, outputs and step function abstract - whose callbacks write "
    "only fields that starting_new_file re-initialises: the output for a file is the same after any two histories of files and equals the "
    "output of processing the file alone (Model/History.v). The hypothesis is discharged rule by rule from Gen/RuleFields.v, regenerated on every "
    "run by a syntactic analysis of every rule class: the written-but-not-reset fields must be exactly the eight reviewed ones; and the per-"
    "document re-initialisations outside the rules (suppression tables of the plug-in manager, pragma lines and token list of the tokenizer, "
    "link-definition and inline-handler tables) must be present and unconditional. What the analysis cannot see (the eight fields, helper "
    "objects, parser internals) is decided by histories on the implementation: every ordered pair and sampled triples of a 29 (quick) / 74 "
    "(thorough) document pool through one scan and one fix invocation, and a reused API object, each file compared with processing it alone.",
    "Trusted: Coq kernel, translator rule_fields.py (syntactic; aliasing unseen), in-process CLI/API drivers. The theorem is about the abstract "
    "rule; that each real rule meets its frame condition is taken from the syntactic analysis plus the histories, not proved.",
    "Coq proof over abstract rule state; generated reset obligations; history enumeration",
    "DESIGN.md section 4 C13")

chk("C04", "proof",
    "Proved (Coq, closed under the global context): the stack automaton wf_check accepts EXACTLY the flattenings of forests that respect the "
    "class discipline (containers hold containers and leaf blocks, leaf blocks and inline elements hold only inline tokens, a new-list-item only "
    "directly inside a list) and in which every end token names the position of its start token - completeness and soundness for every forest "
    "and every stream, generically in the kinds and in the 'may appear under' relation. What is proved is that the oracle means what the property "
    "says. That the parser emits an accepted stream for every document is NOT proved: the extracted oracle (re-evaluated in Coq on 150 streams "
    "per run) is run over the token streams of enumerated document spaces (60-template line vocabulary to 2 lines, container/inline templates "
    "to 3 lines, 12-character alphabet to length 4, trigger-line pairs, delimiter-run strings to 7 symbols, the repository's own test corpus), and, "
    "with every extension switched on, over tilde-run strings in and around links and emphasis, task lists, autolinks, raw HTML and front matter.",
    "Trusted: Coq kernel, extraction (ExtrOcamlBasic only) + driver.ml + OCaml compiler, the token abstraction harness/tokabs.py, direct parser call.",
    "Certified oracle (Coq soundness/completeness proof) run by extraction over enumerated document spaces",
    "DESIGN.md section 4 C04")

chk("C05", "proof",
    "Proved (Coq, closed under the global context): (1) the arithmetic under every inline position - calculate_deltas and its application move "
    "a position exactly as reading the consumed text character by character does, for every text and start position; (2) the oracle pos_ok holds "
    "exactly when the line exists, the column lies within it or one past its end, and the source shows the element's opening text there; the "
    "order check means what it says. That every token of every document satisfies the oracle is NOT proved: the extracted oracle (mirrored in "
    "Python and compared on every token) is run over every positioned token of enumerated document spaces, among them multi-line inline "
    "elements (wrapped link/image destinations incl. non-ASCII, escaped and angle-bracket forms, multi-line code spans, raw HTML, emphasis, hard "
    "breaks) in paragraphs, block quotes and list items. calc_deltas is tied to ParserHelper.calculate_deltas on every string over {a, LF} to length 7/10. "
    "(3) the tab kernel (Model/Tabs.v): the loop of TabHelper.detabify_string computes the character-wise expansion to four-column tab stops for every text and starting column, "
    "the result has no tab and the length calculate_length reports, and expansion composes along the line; tied to detabify_string / calculate_length on every string with a tab over {a, b, space, tab} to length 5/7 from columns 0-5.",
    "Trusted: Coq kernel + vm_compute, extraction + driver.ml, the position abstraction harness/posabs.py (expected opening text per token kind). "
    "Leaf-block positions are also compared with the spec model CM's (Spec/RuleSpec.v leaf_positions) on the C03 spaces; every position reported by a heading rule must be a position some token carries.",
    "Certified position oracle + proved delta arithmetic; extraction; enumeration of positioned tokens",
    "DESIGN.md section 4 C05")

chk("C02", "other",
    "PARTIAL. The property (for all documents, regenerate(parse d) = d) is NOT proved: it is a statement about the parser and the 5 000-line "
    "regenerator, for which no faithful Coq model exists here. Proved (Coq, closed under the global context) are three mechanism kernels. The "
    "in-band marker codec of ParserHelper (Model/Codec.v, tied to eight ParserHelper functions on every string over the marker alphabet up to "
    "length 4/5): for every text the parser can write - literal text without ESC, backslash escapes, replacements, empty replacements - "
    "remove_all gives exactly the source text and resolve_all exactly the rendered text; refuted for a literal ESC before another control "
    "character. And two global passes of the regenerator: taking the pragma lines out of any document (any recogniser, either prefix) and putting them back the way "
    "__handle_pragma_processing does returns the document, unless what is left is a single empty line (refuted with witness: known finding); the "
    "marker-character strip is the identity exactly on text without the three characters (refuted otherwise: known finding). The splice model is "
    "tied to the code by evaluating it against the regenerated text of every document of <= 4/5 lines over five line kinds. The property itself "
    "is decided by enumeration of the identity oracle over the C04 document spaces, multi-line inline elements with indented continuation lines "
    "in paragraphs/quotes/lists, delimiter runs and Unicode/control-character documents; 600+ failing inputs of the pinned tree are listed as "
    "known findings in nine groups.",
    "Trusted: Coq kernel + vm_compute (kernels), direct parser/regenerator calls. Not modelled: the per-token rehydrate handlers, "
    "TransformContainers. The codec model is structurally recursive where the code works on indices (equivalence checked exhaustively, not proved).",
    "Coq proofs of three kernels (marker codec, pragma splice, marker strip); identity oracle by enumeration (category 'other': the verdict for the property rests on enumeration)",
    "DESIGN.md section 4 C02")

chk("C01", "other",
    "PARTIAL. The per-line block handler (the container/leaf/inline code) is an ORACLE of the model; that it returns, and returns without an "
    "internal error, for every document is not proved - it is decided by enumeration with a CPU budget, and fails on the pinned tree for about "
    "1 800 listed inputs in 16 groups (one infinite loop, internal errors around tabs after container markers, '[' before container changes, "
    "pending link reference definitions in containers). Proved (Coq, closed under the global context) about the main loop around the handler: "
    "every execution on N lines, whatever the handler answers within the requeue contract, takes at most (2N+2)(N+2)+N+1 steps (strictly "
    "decreasing measure); every line is handed to the handler with its true line number whatever was requeued, including a requeue from the "
    "closing step. The model and the contract are tied to the code by observing the loop with sys.setprofile on every document of a link-"
    "reference-definition vocabulary: the contract must hold and the model's deliveries must equal the observed ones. 'Small polynomial' is a "
    "measurement: Python call counts on 16 scalable families at n, 2n, 4n (largest exponent observed about 1.9).",
    "Trusted: Coq kernel + vm_compute, the sys.setprofile monitor, the CPU-time budget mechanism. Oracles: parse_line_for_container_blocks, "
    "__close_open_blocks, the inline pass.",
    "Coq proof of the driver loop under a monitored contract; enumeration with CPU budget; scaling measurement (category 'other')",
    "DESIGN.md section 4 C01")

chk("C03", "other",
    "PARTIAL. 'A specification-compliant parser' is made precise by the Gallina specification model CM (Spec/CMBlock.v: the CommonMark block "
    "structure - leaf blocks, block quotes, lists, tight/loose - plus code spans, emphasis (delimiter-stack algorithm) and numeric character references, written from the specification and the reference strategy, not from PyMarkdown), "
    "on the fragment F of documents (a tab only between two letters or digits; no links, images, raw HTML, named entities or backslash escapes; with code spans, emphasis and numeric character references). Theorems (Coq, closed) are about CM: its renderer's escaping lets no raw tag or "
    "attribute character through; documents of F contain none of the excluded characters. CM itself is validated on every run against the 348 "
    "CommonMark 0.31.2 examples inside F (all agree) and against the vendored markdown-it-py. That PyMarkdown refines CM is NOT proved: rendered "
    "HTML (up to newlines next to tags) is compared on every document of <= 3 lines over a 23-template leaf vocabulary and a 16-template container "
    "vocabulary, all 4-line container documents, an extended 2-line space, delimiter runs to 6 symbols, emphasis in blocks and numeric references; on a disagreement markdown-it-py arbitrates. About 3 100 failing "
    "inputs of the pinned tree are listed as known findings. The fuel of the block phase is proved adequate (cm_fuel_adequate). "
    "Two kernels of the link machinery are modelled as the code is written and proved: Model/LinkDest.v (__encode_link_destination: the loop computes the character-wise normalisation, "
    "the result is attribute-safe ASCII for all Unicode input, existing percent escapes stay wherever they stand) and Model/LinkLabel.v (normalize_link_label is a one-pass normal form, idempotent, "
    "insensitive to ASCII case and to the kind and amount of white space; add_link_definition / look_up_link: the first definition with a matching label wins) - tied by calling the real functions on every short string over "
    "12-character alphabets and on random definition scripts (vm_compute), and by link / image / definition documents. A third kernel, Model/ThematicBreak.v, proves that is_thematic_break answers exactly as the sentence of CommonMark 4.1 for every indentation (tabs by their width) and rest of the line, tied on every line of <= 6 characters over {-, *, _, space, tab, a} and on those lines as documents. A fourth, Model/AtxOpen.v, does the same for is_atx_heading and CommonMark 4.2 (lines of <= 7 characters over {#, space, tab, a}). A fifth, Model/AppendText.v, proves that the loop of InlineHelper.append_text appends exactly the specification renderer's escaping and that, with the text signature, the C02 codec recovers the source and resolves to the escaped text (strings of <= 6 characters over 7). Outside F and these kernels (the rest of link and image parsing, HTML, named entities, backslash escapes, tabs) nothing is claimed.",
    "Trusted: Coq kernel, extraction + driver.ml, the spec model as a specification (validated, not verified), markdown-it-py (vendored) as arbiter, norm_html.",
    "Gallina spec model of CommonMark blocks (validated on spec examples) + refinement by HTML comparison on enumerated documents (category 'other')",
    "DESIGN.md section 4 C03")

chk("C06", "other",
    "PARTIAL. 'The documented trigger condition' is made precise by the Gallina specification Spec/RuleSpec.v: for 22 rules (MD001, MD003, MD004, MD009, MD010, "
    "MD012, MD013, MD018, MD019, MD022, MD023, MD024, MD025, MD026, MD031, MD032, MD035, MD040, MD041, MD046, MD047, MD048) a function from the lines of the "
    "document, the block structure the spec model CM gives them and the rule's own configuration to the lines that must be reported and the lines "
    "about which the documentation (newdocs/src/plugins/rule_md*.md) says nothing definite. It is written from the documentation, not from the rule "
    "implementations. Theorems (Coq, closed) are about the specification: MD013 reports a line exactly when it is longer than the limit of its "
    "category and (unless strict) has a space past it, never in a switched-off category, monotonically in the limits when strict; MD009 exactly the "
    "lines outside code blocks with a positive number of trailing spaces other than br_spaces; MD012 only blank lines; MD047 never on a text ending "
    "in a newline and always at the last line otherwise; MD001 only at headings of level >= 2; MD010 exactly the lines with a tab, and with code_blocks off never a content line of a code block. That each rule implements its specification is NOT "
    "proved: the reported lines are compared on documents of <= 3 lines over a 44-template vocabulary (headings, long lines, trailing spaces, fences, "
    "breaks, containers), 30 000 4-line documents, the general vocabulary and 8 000 documents with tabs between letters (in paragraphs, indented and fenced code, fences closed by the end of their container), under 6 configurations that move every documented configuration item, "
    "restricted to documents of the fragment F whose block structure PyMarkdown gets right (the property's premise). Failing inputs of the pinned "
    "tree are listed as known findings; two defects were repaired (a697cd3, f5b9cc5).",
    "Trusted: Coq kernel, extraction + driver.ml, the specification as a reading of the documentation (stated conventions for the reported line of "
    "multi-line constructs; open corners are never counted), the spec model CM, PyMarkdownApi.scan_string.",
    "Gallina specification of 22 rules over the CM block structure + comparison of reported lines on enumerated documents and configurations (category 'other')",
    "DESIGN.md section 4 C06")

chk("C08", "proof",
    "PARTIAL. Proved (Coq, closed under the global context) over the hand model Model/Replace.v of file_scan_helper.py::__apply_replacement_fix: a "
    "token-range replacement keeps every token in front of and behind the range, in order, with only the line number changed; and for every "
    "dictionary of pragma lines, end line and positive or negative change in the number of lines (no pragma inside the removed lines) the loop "
    "that moves the pragma lines yields exactly the dictionary with every pragma behind the range moved by that change - none lost, overwritten or "
    "left behind. The processing order matters: the order used before the repair f3ff20a is refuted by a vm_compute witness. The model is tied to "
    "the code by calling __apply_replacement_fix directly on real token lists with random ranges, replacement tokens and pragma dictionaries "
    "(vm_compute). What the fixing rules request and what the Markdown regenerator writes is NOT modelled: that a whole fix run changes style only "
    "is decided by comparing a fingerprint (block order and nesting, text words, code lines, link targets, raw HTML and comments; heading level, "
    "list numbers, tight/loose, emphasis markers, white space and seams between lists dropped) of the original and the fixed file through "
    "markdown-it-py, on enumerated documents under the default rule set and under each fix-capable rule alone. Failing inputs of the pinned tree "
    "(the two quoted in the property among them) are listed as known findings.",
    "Trusted: Coq kernel + vm_compute, the hand model (checked by correspondence), markdown-it-py (vendored) as the independent renderer, the "
    "fingerprint's list of documented normalisations.",
    "Coq proof over hand model of the replacement kernel; correspondence by direct calls; fingerprint differential through an independent renderer",
    "DESIGN.md section 4 C08")

NOT_YET = {}


def main():
    props = [json.loads(l)["id"] for l in open(os.path.join(V, "properties.jsonl"))]
    man = {
        "version": 1,
        "setup_cmd": "cd /verif && /venv/bin/python harness/setup.py",
        "hooks": {
            "guard": "PYMARKDOWN_VERIF",
            "enable": "no hook in /repo is needed: recorder and fault plug-ins are loaded with --add-plugin from /verif/harness/plugins; checks export PYMARKDOWN_VERIF=1 for uniformity",
            "baseline_off_cmd": "cd /repo && /venv/bin/python -m pytest -ra -q -p no:cacheprovider --timeout=900 --continue-on-collection-errors",
            "source_commits": [],
            "add_only": True,
        },
        "engines": [{
            "name": "coq-model-and-correspondence",
            "path": "/verif/harness/check.py",
            "serves_properties": sorted(CHECKS),
            "kind_free_text": "Coq 8.16.1 models + theorems (coq/), translators regenerating coq/Gen from /repo on every run, correspondence of hand-written models against the implementation (vm_compute cases / extracted OCaml runner), enumeration-based search for failing inputs",
        }],
        "checks": [CHECKS[p] for p in props if p in CHECKS],
        "not_applicable": [{"property_id": p, "reason": NOT_YET.get(p, "check not built yet in this round (planned in DESIGN.md section 7); not claimed")}
                           for p in props if p not in CHECKS],
        "notes": "fix: commits in /repo (genuine defects repaired) are listed under 'fixed' in known_findings.json; they are unguarded by design. See DESIGN.md.",
    }
    json.dump(man, open(os.path.join(V, "MANIFEST.json"), "w"), indent=1)


if __name__ == "__main__":
    main()
