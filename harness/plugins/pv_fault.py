"""Fault-injecting rule plug-in (loaded with --add-plugin by the verification harness; not part of /repo).

PV_FAULT = JSON object
   {"cb": "start"|"token"|"line"|"complete"|"content",   "ctx": "fix" (optional: count only calls made with a fixing context),
    "file": substring of context.scan_file (token/line/complete/content) or null,
    "nth":  1-based index of the invocation of that callback for that file since the most recent
            starting_new_file (for "start": index of the starting_new_file call in the process)}
"content": raise in next_token at the first text token containing PLUGINFAIL (file-content driven).
Declares plugin_supports_fix so that it also takes part in fix mode (PV_FAULT_LEVEL, default 1).
"""
import json
import os

from pymarkdown.plugin_manager.plugin_details import PluginDetailsV2
from pymarkdown.plugin_manager.rule_plugin import RulePlugin


class InjectedFault(Exception):
    pass


class PvFault(RulePlugin):
    def __init__(self):
        super().__init__()
        self.starts = 0
        self.counts = {}

    def get_details(self):
        return PluginDetailsV2(
            plugin_name="pv-fault",
            plugin_id=os.environ.get("PV_FAULT_ID", "zzx999").upper(),
            plugin_enabled_by_default=True,
            plugin_description="verification fault injector",
            plugin_version="0.0.1",
            plugin_interface_version=2,
            plugin_supports_fix=os.environ.get("PV_FAULT_FIX", "1") == "1",
            plugin_fix_level=int(os.environ.get("PV_FAULT_LEVEL", "1")),
        )

    @staticmethod
    def _spec():
        s = os.environ.get("PV_FAULT")
        return json.loads(s) if s else None

    def _hit(self, cb, scan_file, context=None):
        spec = self._spec()
        if not spec or spec.get("cb") != cb:
            return
        if spec.get("ctx") == "fix" and not (context is not None and context.in_fix_mode):
            return          # only invocations made with a fixing context count (i.e. the pass of this plug-in's own level)
        if spec.get("file") and spec["file"] not in (scan_file or ""):
            return
        k = (cb, scan_file)
        self.counts[k] = self.counts.get(k, 0) + 1
        if self.counts[k] == int(spec.get("nth", 1)):
            raise InjectedFault(f"injected fault in {cb} #{self.counts[k]}")

    def starting_new_file(self):
        self.starts += 1
        self.counts = {}
        spec = self._spec()
        if spec and spec.get("cb") == "start" and self.starts == int(spec.get("nth", 1)):
            raise InjectedFault("injected fault in starting_new_file")

    def next_token(self, context, token):
        spec = self._spec()
        if spec and spec.get("cb") == "content":
            if token.is_text and "PLUGINFAIL" in token.token_text:
                raise InjectedFault("injected fault on PLUGINFAIL")
            return
        self._hit("token", context.scan_file, context)

    def next_line(self, context, line):
        self._hit("line", context.scan_file, context)

    def completed_file(self, context):
        self._hit("complete", context.scan_file, context)
