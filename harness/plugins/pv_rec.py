"""Recording rule plug-in (loaded with --add-plugin by the verification harness; not part of /repo).

Environment (read at import/instantiation time and at call time):
  PV_REC_ID      plug-in id (default zzz999)            PV_REC_NAME   plug-in name
  PV_REC_FIX     "1": plugin_supports_fix               PV_REC_LEVEL  fix level (default 1)
  PV_REC_LOG     path of the log file (appended)        PV_REC_DEFAULT "0": disabled by default
Every callback appends one JSON line.
"""
import json
import os

from pymarkdown.plugin_manager.plugin_details import PluginDetailsV2
from pymarkdown.plugin_manager.rule_plugin import RulePlugin


def _w(rec):
    p = os.environ.get("PV_REC_LOG")
    if p:
        with open(p, "a", encoding="utf-8") as f:
            f.write(json.dumps(rec) + "\n")


def _tok(token):
    d = {"s": str(token), "l": token.line_number, "c": token.column_number, "id": id(token)}
    sm = getattr(token, "start_markdown_token", None) if token.is_end_token else None
    if sm is not None:
        d["start"] = id(sm)
    return d


class PvRec(RulePlugin):
    def get_details(self):
        return PluginDetailsV2(
            plugin_name=os.environ.get("PV_REC_NAME", "pv-recorder"),
            plugin_id=os.environ.get("PV_REC_ID", "zzz999").upper(),
            plugin_enabled_by_default=os.environ.get("PV_REC_DEFAULT", "1") == "1",
            plugin_description="verification recorder",
            plugin_version="0.0.1",
            plugin_interface_version=2,
            plugin_supports_fix=os.environ.get("PV_REC_FIX", "0") == "1",
            plugin_fix_level=int(os.environ.get("PV_REC_LEVEL", "1")),
        )

    def starting_new_file(self):
        _w({"cb": "start"})

    def next_token(self, context, token):
        _w({"cb": "token", "file": context.scan_file, "fix": context.in_fix_mode,
            "linepass": context.is_during_line_pass, "tok": _tok(token)})

    def next_line(self, context, line):
        _w({"cb": "line", "file": context.scan_file, "fix": context.in_fix_mode,
            "linepass": context.is_during_line_pass, "n": context.line_number, "line": line})

    def completed_file(self, context):
        _w({"cb": "complete", "file": context.scan_file, "fix": context.in_fix_mode,
            "linepass": context.is_during_line_pass, "n": context.line_number})
