"""Recording rule plug-in that defines only the token callback (see pv_rec.py)."""
import json
import os

from pymarkdown.plugin_manager.plugin_details import PluginDetailsV2
from pymarkdown.plugin_manager.rule_plugin import RulePlugin


class PvRectok(RulePlugin):
    def get_details(self):
        return PluginDetailsV2(
            plugin_name=os.environ.get("PV_RECTOK_NAME", "pv-recorder-tok"),
            plugin_id=os.environ.get("PV_RECTOK_ID", "zzy999").upper(),
            plugin_enabled_by_default=True,
            plugin_description="verification recorder (tokens only)",
            plugin_version="0.0.1",
            plugin_interface_version=2,
            plugin_supports_fix=os.environ.get("PV_RECTOK_FIX", "0") == "1",
            plugin_fix_level=int(os.environ.get("PV_RECTOK_LEVEL", "1")),
        )

    def next_token(self, context, token):
        p = os.environ.get("PV_REC_LOG")
        if p:
            with open(p, "a", encoding="utf-8") as f:
                f.write(json.dumps({"cb": "token", "who": "rectok", "file": context.scan_file, "fix": context.in_fix_mode,
                                    "linepass": context.is_during_line_pass, "tok": {"s": str(token)}}) + "\n")
