"""Scripted reporter (loaded with --add-plugin by the verification harness; not part of /repo).
PV_SCRIPT = JSON list of [line, col, rule_id, extra]; every entry is handed to context.add_triggered_rule in that
order from completed_file, so what is printed shows the engine's collection/sorting/printing of arbitrary reports."""
import json
import os

from pymarkdown.plugin_manager.plugin_details import PluginDetailsV2
from pymarkdown.plugin_manager.rule_plugin import RulePlugin


class PvScript(RulePlugin):
    def get_details(self):
        return PluginDetailsV2(
            plugin_name="pv-script", plugin_id="PVS999", plugin_enabled_by_default=True,
            plugin_description="verification scripted reporter", plugin_version="0.0.1", plugin_interface_version=2,
        )

    def completed_file(self, context):
        for line, col, rid, extra in json.loads(os.environ.get("PV_SCRIPT", "[]")):
            context.add_triggered_rule(context.scan_file, line, col, rid, "n-" + rid.lower(), "desc", extra or None, False)
