"""Abstraction of token positions for the Coq oracle pos_ok (part of the trusted base): what the source must show at
the (line, column) of each kind of token."""
BULLETS = "-+*"
OPEN = {  # token_name -> ("chars", "...") | ("digit",) | ("nonblank",) | ("any",) | ("li",)
    "atx": ("chars", "#"), "setext": ("chars", "-="), "tbreak": ("chars", "-*_"), "fcode-block": ("chars", "`~"), "html-block": ("chars", "<"),
    "para": ("nonblank",), "block-quote": ("chars", ">"), "ulist": ("chars", BULLETS), "olist": ("digit",), "li": ("chars", BULLETS + "0123456789"),
    "link-ref-def": ("chars", "["), "emphasis": ("chars", "*_"), "link": ("chars", "["), "image": ("chars", "!"), "raw-html": ("chars", "<"),
    "icode-span": ("chars", "`"), "uri-autolink": ("chars", "<"), "email-autolink": ("chars", "<"), "hard-break": ("chars", "\\ "),
    "icode-block": ("any",), "BLANK": ("any",), "text": ("any",), "front-matter": ("chars", "-"), "table": ("any",),
}


def positions(tokens):
    """-> list of (token_name, opening spec, line, col, is_block) for tokens that carry a position"""
    out = []
    for t in tokens:
        if t.is_end_token or t.line_number <= 0:
            continue
        name = t.token_name
        spec = OPEN.get(name, ("any",))
        cls = t._MarkdownToken__token_class.value
        out.append((name, spec, t.line_number, t.column_number, cls in (0, 1)))
        if name == "setext":
            out.append(("setext-original", ("nonblank",), t.original_line_number, t.original_column_number, False))
    return out


def py_pos_ok(lines, spec, l, c, tabs=False):
    if not (1 <= l <= len(lines)):
        return False
    line = lines[l - 1].expandtabs(4) if tabs else lines[l - 1]
    if not (1 <= c <= len(line) + 1):
        return False
    ch = line[c - 1] if c <= len(line) else None
    if spec[0] == "chars":
        return ch is not None and ch in spec[1]
    if spec[0] == "digit":
        return ch is not None and ch.isdigit() and ch.isascii()
    if spec[0] == "nonblank":
        return ch is not None and ch not in " \t"
    return True
