"""C01 - parsing is total: every document tokenizes, and in bounded time."""
import math
import sys

import core
import drivermon
import gen
import impl
from core import cZ, cbool, clist, cstr
from props import c04

V_NEST = ["  - a", "- 1)", "- -", "1. - a", "- 1. a", " - a", "   - a", "- a", "1) a", "* - 1.", "- > 1)", "> - 1)", "    - a", "-", "1)", "a"]
V_LRD = ["[a]: /u", "[a]:", "/u", "\"t\"", "\"t", "[a", "a", "", "> [a]: /u", "- [a]:", "  [b]: /v 'x'", "[a]: /u \"t\"", "]: x", "[a]: </u", "# h"]


def _status(doc):
    st, x = impl.parse(doc, cpu_budget=3.0)
    if st == "ok":
        return "ok", None
    return st, x


def _monitor(doc):
    st, dels, resps = drivermon.observe(doc)
    return st, dels, resps


FAMILIES = {
    "nested-quotes": lambda n: ">" * n + " a\n",
    "nested-lists": lambda n: "".join("  " * i + "- a\n" for i in range(n)),
    "paragraph-lines": lambda n: "a b c\n" * n,
    "blank-lines": lambda n: "\n" * n,
    "headings": lambda n: "# h\n\n" * n,
    "emphasis-delimiters": lambda n: "*a " * n + "\n",
    "unmatched-stars": lambda n: "*" * n + "a\n",
    "backticks": lambda n: "`a" * n + "\n",
    "open-brackets": lambda n: "[" * n + "a\n",
    "links": lambda n: "[a](/u) " * n + "\n",
    "pending-lrd-lines": lambda n: "[a]:\n" + "\n".join("/u" + str(i) for i in range(1)) + "\n\"t" + "\nx" * n + "\n",
    "lrd-definitions": lambda n: "".join(f"[a{i}]: /u{i}\n" for i in range(n)) + "\n[a1]\n",
    "list-items": lambda n: "- a\n" * n,
    "quote-lines-lazy": lambda n: "> a\n" + "b\n" * n,
    "fenced-code-lines": lambda n: "```\n" + "x\n" * n + "```\n",
    "html-blocks": lambda n: "<div>\nx\n</div>\n\n" * n,
}


def _work(job):
    fam, n = job
    doc = FAMILIES[fam](n)
    cnt = [0]

    def prof(frame, event, arg):
        if event == "call":
            cnt[0] += 1
    t = impl.tokenizer()
    sys.setprofile(prof)
    try:
        st = impl.parse(doc, cpu_budget=120.0)[0]
    finally:
        sys.setprofile(None)
    return st, cnt[0], len(doc)


def run(ctx):
    ctx.prove("Props/C01.v", ["Model/Driver.v", "Proofs/DriverProofs.v"])
    # ---- (1) the loop against the model and the requeue contract, on documents that requeue
    lrd = list(gen.d_line(V_LRD, 3, final_newline=(True,))) + list(gen.d_line(V_LRD[:8], 4, final_newline=(True,)))
    mdocs = lrd if ctx.tier == "thorough" else gen.sample(lrd, 1500, ctx.seed) + list(gen.d_line(V_LRD, 2, final_newline=(True, False)))
    mdocs += gen.sample(gen.repo_corpus(core.REPO), 300 if ctx.tier == "quick" else 3000, ctx.seed + 1)
    mres = impl.pmap(_monitor, mdocs, chunksize=32)
    cases, nreq = [], 0
    for d, (st, dels, resps) in zip(mdocs, mres):
        ctx.count(1, "driver-monitor")
        if st != "ok":
            continue
        src = d.split("\n")
        inp = {"doc": d}
        last_rank, ok = 0, True
        obs = []
        for i, (line, num, closing, ign) in enumerate(dels):
            r = resps[i] if i < len(resps) else None
            if not closing:
                obs.append((num, line, ign))
                if not (1 <= num <= len(src)) or src[num - 1] != line:
                    ctx.violation("line-number", inp, f"line {line!r} is handed to the block handler as line {num}; the source has {src[num-1] if 1 <= num <= len(src) else None!r} there", group="line-number")
                    ok = False
            if r is not None:
                nreq += 1
                ls, force = r
                cur = num - 1 if closing else num
                ls_eff = ls[1:] if closing and ls and ls[0] == "" else ls          # the closing step drops the leading empty marker
                k = len(ls_eff)
                target = cur - k + 1
                rank = 2 * target + (1 if force else 0)
                if not (k >= 1 and target >= 1 and src[target - 1:cur] == ls_eff):
                    ctx.broke(f"requeue contract (text): at line {cur} the handler gives back {ls_eff!r}, the source lines there are {src[max(0,target-1):cur]!r} (document {d!r})")
                    ok = False
                if rank <= last_rank:
                    ctx.broke(f"requeue contract (progress): a request to go back to line {target} (force={force}) follows one of rank {last_rank} (document {d!r})")
                    ok = False
                last_rank = rank
        if any(r is not None for r in resps):
            ctx.seen(d)
        if ok and resps:
            # the script for the model: one answer per loop iteration, in order
            sc = []
            for i, (line, num, closing, ign) in enumerate(dels):
                r = resps[i] if i < len(resps) else None
                if r is None:
                    sc.append("Normal")
                else:
                    ls = r[0][1:] if closing and r[0] and r[0][0] == "" else r[0]
                    sc.append(f"Requeue {clist((cstr(x) for x in ls), 'str')} {cbool(r[1])}")
            exp = clist((f"({cZ(n)}, {cstr(l)}, {cbool(g)})" for n, l, g in obs), "(Z * str * bool)")
            cases.append((f"({clist(sc, 'resp')}, {clist((cstr(x) for x in src), 'str')})", exp))
    ctx.unit("driver", runs=len(mdocs), requeues_observed=nreq)
    if "Model/Driver.v" in ctx.build.ok_files and cases:
        defs = ("Definition d_eqb (a b : Z * str * bool) := let '(n1, l1, g1) := a in let '(n2, l2, g2) := b in (Z.eqb n1 n2 && str_eqb l1 l2 && Bool.eqb g1 g2)%bool.\n"
                "Definition obs (c : list resp * list str) := deliveries (fst c) (start (snd c)).\n")
        pick = cases if len(cases) < 2500 else gen.sample(cases, 2500, ctx.seed)
        bad = core.coq_mismatches(["PV.Base.Str", "PV.Model.Driver"], defs, "obs", pick, "c01", eqb="(list_eqb d_eqb)", shard=150)
        ctx.corr_cases += len(pick)
        for b in bad[:5]:
            ctx.broke(f"model/implementation correspondence (Model/Driver.v deliveries) differs: {pick[b][0][:300]}")
    # ---- (2) totality on the implementation: no internal error, no time-out
    sp = c04.spaces(ctx)
    em = sp.pop("emphasis-runs(7)")
    sp["emphasis-runs"] = gen.sample(em, 8000 if ctx.tier == "quick" else 80000, ctx.seed + 3 if ctx.tier == "quick" else 99)
    sp["lrd-vocabulary"] = gen.sample(lrd, 1500, ctx.seed + 4) if ctx.tier == "quick" else lrd
    nest = list(gen.d_line(V_NEST, 2)) + list(gen.d_line(V_NEST[:9], 3, final_newline=(True,)))
    sp["nested-markers"] = gen.sample(nest, 600, ctx.seed + 6) if ctx.tier == "quick" else nest
    # tabs inside paragraphs that also hold inline elements, followed by repetitions of the element's last character
    ti = []
    for pre in ("a\t", "a \tb ", "\ta ", "a\t\t", "- a\t", "> a\t"):
        for el in ("[l](/u)", "![i](/u)", "&amp;", "<b>", "<http://a.b>", "\\)", "*e*", "`c`", "**s**", "[r][r]"):
            for k in range(0, 4):
                for tail in ("", " x", "\nb"):
                    ti.append(pre + el + el[-1] * k + tail)
                    ti.append(pre + "(" * k + el + ")" * k + tail)
    sp["tab-with-inline"] = list(gen.uniq(ti))
    tabs = list(gen.d_char(["a", " ", "\n", "-", ">", "\t", "1", ".", "["], 5))
    sp["tab-alphabet(9,5)"] = gen.sample(tabs, 3000, ctx.seed + 5) if ctx.tier == "quick" else tabs
    # long runs inside every inline construct that is recognised by a regular expression or a scanning loop: a candidate
    # that almost matches must be rejected in time (catastrophic backtracking shows here as a timeout)
    stress = []
    for n in (24, 40, 64):
        a = "a" * n
        stress += [f"<a@{a}_>", f"<a@{a}.{a}_>", f"<a.b@{a}>", f"<http://{a} x>", f"<ht{a}:/x y>", f"<{a}", f"<a {'b ' * (n // 2)}", f"<a {a}='", f"<!--{'-' * n}", f"<?{a}", f"<![CDATA[{a}",
                   f"&{a};", f"&#{'1' * n};", f"&#x{'f' * n};", "[" * n, "[" * n + "]" * n, f"[{a}]({a} \"{a}", f"[{a}]: <{a}", f"[{a}]: /u '{a}", "*" * n + "a", "*a" * n, "_a_" * n, "`" * n + "a", "`a" * n,
                   "\\" * n, f"![{'[' * n}", f"{'> ' * n}a", f"{'- ' * (n // 2)}a", f"www.{a}_", f"{a}@{a}_", f"http://{a}<"]
    sp["inline-stress"] = list(gen.uniq(stress))
    # very long runs of ordinary characters (digits, letters, spaces) where a line may start a list item, a heading underline or
    # plain text: "documents of every length" - nothing may depend on a run being short
    longrun = []
    for ch in "7a0 1":
        for suffix in ("", ". item", ") item", ".", " x"):
            for prefix in ("", "text\n", "- ", "> ", "1. ", "    "):
                longrun.append(prefix + ch * 5000 + suffix)
    sp["long-runs(5000)"] = list(gen.uniq(longrun)) if ctx.tier == "thorough" else list(gen.uniq(longrun))[::3]
    docs, origin = [], []
    for name, ds in sp.items():
        for d in ds:
            docs.append(d)
            origin.append(name)
    res = impl.pmap(_status, docs, chunksize=128)
    for d, o, (st, x) in zip(docs, origin, res):
        ctx.count(1, o)
        if st == "ok":
            continue
        if st == "timeout":
            ctx.violation("total", {"doc": d}, "parsing does not return within 3 CPU seconds", group="timeout")
        else:
            ctx.violation("total", {"doc": d}, f"parsing fails with an internal error: {x}", group="error-" + x.replace("AssertionError@", "assert-").replace("@", "-"))
    ctx.sample({"doc": docs[9], "status": res[9][0]})
    # ---- (3) work grows polynomially: deterministic call counts on scalable families at n, 2n, 4n
    sizes = (20, 40, 80) if ctx.tier == "quick" else (25, 50, 100, 200)
    jobs = [(f, n) for f in FAMILIES for n in sizes]
    wres = impl.pmap(_work, jobs, chunksize=1)
    table = {}
    for (f, n), (st, w, size) in zip(jobs, wres):
        ctx.count(1, "scaling")
        table.setdefault(f, []).append((n, w, st))
    expo = {}
    for f, rows in table.items():
        if any(st != "ok" for _, _, st in rows):
            ctx.violation("scaling", {"family": f, "sizes": [n for n, _, _ in rows]}, f"a document of the family does not parse: {[(n, st) for n, _, st in rows]}", group="scaling-error-" + f)
            continue
        es = [math.log2(rows[i + 1][1] / rows[i][1]) for i in range(len(rows) - 1)]
        expo[f] = round(max(es), 2)
        if max(es) > 3.3:
            ctx.violation("scaling", {"family": f, "sizes": [n for n, _, _ in rows]}, f"work grows faster than cubic: calls {[w for _, w, _ in rows]} (exponent {max(es):.2f})", group="scaling-" + f)
    ctx.unit("scaling", exponents=expo)
    ctx.trusted += [
        "the per-line handler and the final close are oracles of the driver model; what they answer is observed with sys.setprofile (harness/drivermon.py) and (a) checked against the requeue contract, (b) fed to Model/Driver.v whose deliveries must equal the observed ones (vm_compute)",
        "totality of the handler for all documents is NOT proved: enumeration with a 3 s CPU budget per document (ITIMER_VIRTUAL raising a BaseException the parser cannot swallow)",
        "the polynomial bound is a measurement (number of Python function calls at n, 2n, 4n on 16 scalable families, exponent <= 3.3), not a theorem",
    ]
    return ctx.finish(
        level="other",
        extra_cov={"exhaustive": ctx.tier == "thorough", "explanation": "the loop around the handler is proved to terminate in O(N^2) handler calls under the requeue contract, and to number lines truly (obligations/discharged); the verdict for the property itself (the handler returns, without internal error, in polynomial work) comes from enumeration and measurement"},
        rule="(1) all documents of <= 3 lines over a 15-template link-reference-definition vocabulary (+ 8 templates to 4 lines) and sampled repository documents under the loop monitor; (2) the C04 document spaces + delimiter runs + the LRD vocabulary + all strings of <= 5 characters over a 9-character alphabet with tab and '[' + 90 inline stress documents (runs of 24/40/64 characters inside every inline construct) + 150 (quick 50) documents with a run of 5000 digits, letters or spaces in list-start, continuation and plain positions; (3) 16 scalable families; quick = seed-selected subsets; non-trivial = a run in which lines were requeued; distinct by document",
        assumptions=["'small polynomial' is read as exponent <= 3.3 on the measured families"],
    )
