"""C02 - the token stream is lossless: Markdown regenerated from tokens equals the source."""
import core
import gen
import impl
from core import cZ, clist, cstr
from props import c04, c05

PRAG = ["<!-- pyml disable-next-line md001-->", "<!--- pyml disable-next-line md001-->", "<!--\tpyml disable-next-line md001-->"]


def _regen(doc):
    st, toks = impl.parse(doc)
    if st != "ok":
        return "noparse", None
    try:
        return "ok", impl.to_markdown(toks)
    except BaseException as e:  # noqa
        return "exc", impl.exc_signature(e)


def more_multiline():
    """multi-line inline elements whose continuation lines are indented"""
    for ind in ("", " ", "  ", "   "):
        for body in ("``\nfoo\n{i}``", "`a\n{i}b`", "[t\n{i}u](/u)", "[t](\n{i}/u)", "*a\n{i}b*", "<b\n{i}c>", "a\\\n{i}b", "a  \n{i}b", "![t\n{i}u](/u \"x\n{i}y\")"):
            for pre in ("", "> ", "- ", "1. "):
                pad = " " * len(pre) if pre in ("- ", "1. ") else pre
                t = body.replace("\n", "\n" + pad).replace("{i}", ind)
                yield pre + t + "\n"
                yield pre + "x " + t + " y\n"


CODEC_FNS = {
    "remove_backspaces": ("_ParserHelper__remove_backspaces_from_text", "fun s => Some (remove_char c_bs None s)"),
    "resolve_noops": ("resolve_noops_from_text", "fun s => Some (remove_char c_noop None s)"),
    "resolve_escapes": ("_ParserHelper__resolve_escapes_from_text", "fun s => Some (resolve_escapes None s)"),
    "resolve_backspaces": ("resolve_backspaces_from_text", "resolve_bs []"),
    "replacement_markers": ("_ParserHelper__resolve_replacement_markers_from_text", "replace_markers false MNormal None"),
    "references": ("_ParserHelper__resolve_references_from_text", "replace_markers true MNormal None"),
    "remove_all": ("remove_all_from_text", "remove_all"),
    "resolve_all": ("resolve_all_from_text", "resolve_all"),
}


def _codec_call(job):
    """(function name, string) -> result | None (ValueError / IndexError / assertion) | 'HANG' (no answer within 50 ms)"""
    import signal
    from pymarkdown.general.parser_helper import ParserHelper as PH
    name, strs = job
    f = getattr(PH, CODEC_FNS[name][0])

    class TO(BaseException):
        pass

    def alarm(*a):
        raise TO()
    signal.signal(signal.SIGALRM, alarm)
    out = []
    for s in strs:
        signal.setitimer(signal.ITIMER_REAL, 0.05)
        try:
            out.append(f(s))
        except (ValueError, IndexError, AssertionError):
            out.append(None)
        except TO:
            out.append("HANG")
        finally:
            signal.setitimer(signal.ITIMER_REAL, 0)
    return out


def _codec(ctx):
    import itertools
    import random
    alpha = ["a", "\\", "\x08", "\x07", "\x03", "\x05"]
    n = 4 if ctx.tier == "quick" else 5
    strs = [""] + ["".join(t) for k in range(1, n + 1) for t in itertools.product(alpha, repeat=k)]
    if "Model/Codec.v" not in ctx.build.ok_files:
        return
    defs = "Definition o_eqb (a b : option str) := match a, b with Some x, Some y => str_eqb x y | None, None => true | _, _ => false end.\n"
    hangs = 0
    for name, (pyname, model) in CODEC_FNS.items():
        chunks = [strs[i:i + 400] for i in range(0, len(strs), 400)]
        res = [r for ch in impl.pmap(_codec_call, [(name, c) for c in chunks], chunksize=1) for r in ch]
        cases, keep = [], []
        for s, r in zip(strs, res):
            ctx.count(1, "codec/" + name)
            if name in ("resolve_backspaces", "resolve_all") and s.startswith("\x08"):
                hangs += r == "HANG"
                continue  # outside the model: text[:-1] wraps around when the BS is the first character (the parser never writes that)
            if r == "HANG":
                ctx.broke(f"ParserHelper.{pyname} does not return on {s!r}")
                continue
            cases.append((core.cstr(s), "None" if r is None else f"(Some {core.cstr(r)})"))
            keep.append(s)
        bad = core.coq_mismatches(["PV.Base.Str", "PV.Model.Codec"], defs + f"Definition f := {model}.\n", "f", cases, "c02codec", eqb="o_eqb", shard=400)
        ctx.corr_cases += len(cases)
        for i in bad[:4]:
            ctx.broke(f"model/implementation correspondence (Model/Codec.v {name}) differs on {keep[i]!r}")
    ctx.unit("codec", strings=len(strs), functions=len(CODEC_FNS), hangs_on_leading_backspace=hangs)
    # the kernel's theorem on the implementation: random well-formed piece lists
    from pymarkdown.general.parser_helper import ParserHelper as PH
    rnd = random.Random(ctx.seed)
    lit = ["a", "b c", "\x08", "x\x07", "\x03y", "\x02", "\\", "*", ""]
    for _ in range(400 if ctx.tier == "quick" else 4000):
        enc, src, out = "", "", ""
        for _ in range(rnd.randint(1, 6)):
            k = rnd.randrange(4)
            if k == 0:
                s = rnd.choice(lit)
                enc += PH.escape_special_characters(s); src += s; out += s
            elif k == 1:
                c = rnd.choice("*_\\[a")
                enc += "\\\x08" + c; src += "\\" + c; out += c
            elif k == 2:
                o, r = rnd.choice(["&amp;", "&#35;", "x"]), rnd.choice(["&", "#", "yz"])
                enc += PH.create_replacement_markers(o, r); src += o; out += r
            else:
                o = rnd.choice(["&#0;", "q"])
                enc += PH.create_replace_with_nothing_marker(o); src += o
        ctx.count(1, "codec/pieces")
        if PH.remove_all_from_text(enc) != src or PH.resolve_all_from_text(enc) != out:
            ctx.violation("codec", {"encoded": enc}, f"remove_all gives {PH.remove_all_from_text(enc)!r} (source {src!r}), resolve_all gives {PH.resolve_all_from_text(enc)!r} (text {out!r})", group="codec")


def run(ctx):
    ctx.prove("Props/C02.v", ["Model/Splice.v", "Proofs/SpliceProofs.v", "Model/Codec.v", "Proofs/CodecProofs.v"])
    sp = c04.spaces(ctx)
    em = sp.pop("emphasis-runs(7)")
    sp["emphasis-runs"] = em if ctx.tier == "quick" else gen.sample(em, 60000, 99)
    mi = list(gen.uniq(list(c05.multi_inline()) + list(more_multiline())))
    sp["multi-line-inline"] = mi if ctx.tier == "thorough" else gen.sample(mi, 600, ctx.seed + 7)
    uni = ["þ\n", "a þ b\n", "艨\n", "艩 x\n", "# þing\n", "- þ\n", "ü é ñ\n", "a b\n", " x\n", "a\x08b\n", "\\\x08\n", "    a\x08b\n", "\x05&amp;\n", "a\x05b\n", "a\x07b\n", "a\x03b\n", "a\x02b\n"]
    sp["unicode-and-control"] = uni
    docs, origin = [], []
    for name, ds in sp.items():
        for d in ds:
            if "\r" in d:
                continue
            docs.append(d)
            origin.append(name)
    res = impl.pmap(_regen, docs, chunksize=128)
    for d, o, (st, m) in zip(docs, origin, res):
        ctx.count(1, o)
        if st == "noparse":
            ctx.unit("skipped", documents_that_do_not_parse=1)
            continue
        if len(d) > 8:
            ctx.seen(d)
        if st == "exc":
            ctx.violation("regenerate", {"doc": d}, f"regeneration raises {m}", group="raises-" + m.split("@")[-1])
        elif m != d:
            k = next((i for i, (a, b) in enumerate(zip(m, d)) if a != b), min(len(m), len(d)))
            ctx.violation("regenerate", {"doc": d}, f"regenerated text differs at offset {k}: {m!r}", group="differs-" + ("marker-char" if any(c in d for c in "þ艨艩") else "control-char" if any(ord(c) < 9 for c in d) else "tab" if "\t" in d else "other"))
    ctx.sample({"doc": docs[11], "regenerated_equal": res[11][1] == docs[11]})
    # ---- pragma splice: the model on the implementation's own strip / re-insert (documents of <= 5 lines over 5 line kinds)
    lines5 = ["a", "", PRAG[0], PRAG[1], "- b"]
    import itertools
    pdocs = ["\n".join(c) for n in range(1, 6 if ctx.tier == "thorough" else 5) for c in itertools.product(lines5, repeat=n)]
    # three and more pragma lines with text between them (the re-insertion counts lines from the previous pragma on)
    for n in (6, 7):
        for bits in itertools.product((0, 1), repeat=n):
            if sum(bits) >= 3 and bits[0] == 0:
                pdocs.append("\n".join((PRAG[i % 2] if b else "ab"[i % 2]) for i, b in enumerate(bits)) + "\n")
    pdocs = list(dict.fromkeys(pdocs))
    pres = impl.pmap(_regen, pdocs, chunksize=128)
    cases = []
    for d, (st, m) in zip(pdocs, pres):
        ctx.count(1, "pragma-splice")
        if st != "ok":
            continue
        if PRAG[0] in d or PRAG[1] in d:
            ctx.seen(["splice", d])
        if m != d:
            ctx.violation("regenerate", {"doc": d}, f"pragma lines are not put back where they were: {m!r}", group="differs-pragma")
        # model: strip with the recogniser of Model/Pragma.v, reinsert, compare with the implementation's result
        cases.append((clist((cstr(l) for l in d.split("\n")), "str"), clist((cstr(l) for l in m.split("\n")), "str")))
    if "Model/Splice.v" in ctx.build.ok_files:
        defs = ("Definition isp (l : str) := match is_pragma_line l with Some _ => true | None => false end.\n"
                "Definition alt (l : str) := match is_pragma_line l with Some b => b | None => false end.\n"
                "Definition obs (d : list str) := let '(ls, ps) := strip isp alt d in reinsert ls ps.\n")
        bad = core.coq_mismatches(["PV.Base.Str", "PV.Model.Pragma", "PV.Model.Splice"], defs, "obs", cases, "c02", eqb="(list_eqb str_eqb)", shard=200)
        ctx.corr_cases += len(cases)
        for b in bad[:5]:
            ctx.broke(f"model/implementation correspondence (Model/Splice.v strip/reinsert) differs on {pdocs[b]!r}: implementation regenerates {pres[b][1]!r}")
    # ---- the marker codec: Model/Codec.v against ParserHelper on every string over the marker alphabet
    _codec(ctx)
    ctx.trusted += [
        "direct calls TokenizedMarkdown.transform and TransformToMarkdown.transform; the identity oracle regenerate(parse d) == d",
        "correspondence: Model/Splice.v strip/reinsert with the pragma recogniser of Model/Pragma.v (vm_compute) vs the regenerated text of every document of <= 4 (quick) / 5 (thorough) lines over {text, blank, pragma, alternate-prefix pragma, list item}",
        "NOT modelled: the in-band marker codec of ParserHelper (escape / backspace / replacement markers), the per-token rehydrate handlers, TransformContainers",
    ]
    return ctx.finish(
        level="other",
        extra_cov={"exhaustive": ctx.tier == "thorough", "explanation": "two regenerator kernels are Coq theorems (obligations/discharged); the verdict for the property itself comes from enumerating the identity oracle regenerate(parse d) == d over the stated spaces"},
        rule="regenerate(parse d) == d for every document of the C04 spaces, multi-line inline elements with indented continuation lines in paragraphs, quotes and lists, delimiter runs, 17 Unicode / control-character documents; pragma-splice documents; quick = seed-selected subsets; non-trivial = a document of more than 8 characters; distinct by document",
        assumptions=["documents that do not parse are C01's business", "lossless_full (for all documents) is not proved: only the pragma splice and the marker strip are theorems"],
    )
