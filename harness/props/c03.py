"""C03 - the parse conforms to CommonMark: rendered HTML matches a compliant parser (the spec model CM) on the fragment F."""
import itertools
import re

import core
import cm
import gen
import impl


def _py_html(doc):
    st, toks = impl.parse(doc)
    if st != "ok":
        return None
    try:
        return impl.to_html(toks)
    except BaseException as e:  # noqa
        return "EXC:" + impl.exc_signature(e)


def _mdit(doc):
    try:
        return impl.markdown_it_html(doc if doc.endswith("\n") else doc + "\n")
    except BaseException as e:  # noqa
        return "EXC:" + type(e).__name__


def spaces(ctx):
    leaf = list(gen.d_line(gen.V_LEAF, 3))
    cont3 = list(gen.d_line(gen.V_CONT, 3))
    cont4 = list(gen.d_line(gen.V_CONT, 4, final_newline=(True,)))
    code = ["`a`", "`` ` ``", "` a `", "`a", "a`", "``", "` `", "`  a  `", "x `b` y", "`` a", "a ``", "`a  ", "  b`", "# `h`", "- `c`", "> `q`", "```", "a"]
    codes = list(gen.d_line(code, 2)) + list(gen.d_line(code[:9], 3, final_newline=(True,)))
    more = list(gen.d_line(gen.V_CONT + ["+ a", "2) a", ">a", "> > a", "1. a", "10. x", "  # a", "   > b", "    - c", "## h", "a  ", "~~~"], 2))
    em = list(gen.uniq(gen.d_emph(6)))
    eml = ["*a*", "**a** b", "_a_ *b", "a*", "*", "* a", "***", "# *h*", "> _q_", "- **l**", "a", "", "__a__b", "*a", "b*", "_ _", "**"]
    emb = list(gen.d_line(eml, 3, final_newline=(True,)))
    refs = ["&#35;", "&#x41;", "&#X41;", "&#x0000041;", "&#x000041;", "&#1234567;", "&#12345678;", "&#x;", "&#;", "&#0;", "&#xD800;", "&#x110000;", "&#60;b&#62;", "&#34;",
            "a &#65; b", "&#42;a&#42;", "*&#65;*", "`&#65;`", "    &#65;", "# &#65;", "- &#65;", "> &#x263A;", "&#65", "&# 65;", "&#x41g;", "&#x00000041;", "&#000065;", "a", ""]
    refd = list(gen.d_line(refs, 2))
    # lists nested to depth three: every sequence of three to five items whose depth never grows by more than one, with and
    # without a blank line in front of each item (tight / loose at every level), bullet and ordered, some items opening a quote
    nest = []
    for n in (3, 4, 5):
        for depths in itertools.product((0, 1, 2), repeat=n - 1):
            ds = (0,) + depths
            if any(ds[i + 1] > ds[i] + 1 for i in range(n - 1)):
                continue
            for blanks in itertools.product((False, True), repeat=n - 1):
                for marker, width in (("-", 2), ("1.", 3)):
                    ls = []
                    for i, dep in enumerate(ds):
                        if i and blanks[i - 1]:
                            ls.append("")
                        ls.append(" " * (width * dep) + marker + " " + "abcde"[i])
                    nest.append("\n".join(ls) + "\n")
            if n <= 4:
                ls = [" " * (2 * dep) + ("- > " if i == 0 else "- ") + "abcde"[i] for i, dep in enumerate(ds)]
                nest.append("\n".join(ls) + "\n")
    nest = list(gen.uniq(nest))
    if ctx.tier == "quick":
        return {"nested-lists(5)": gen.sample(nest, 1500, ctx.seed + 6), "V_leaf<=3": gen.sample(leaf, 4000, ctx.seed), "V_cont<=3": gen.sample(cont3, 4000, ctx.seed + 1), "V_cont=4": gen.sample(cont4, 3000, ctx.seed + 2), "V_cont+<=2": more, "code-spans": codes,
                "emphasis-runs(6)": gen.sample(em, 4000, ctx.seed + 3), "emphasis-in-blocks<=3": gen.sample(emb, 3000, ctx.seed + 4), "numeric-references<=2": refd}
    return {"nested-lists(5)": nest, "V_leaf<=3": leaf, "V_cont<=3": cont3, "V_cont=4": cont4, "V_cont+<=2": more, "code-spans": codes, "emphasis-runs(6)": em, "emphasis-in-blocks<=3": emb, "numeric-references<=2": refd}


def _enc_call(strs):
    from pymarkdown.links.link_parse_helper import LinkParseHelper
    f = getattr(LinkParseHelper, "_LinkParseHelper__encode_link_destination")
    out = []
    for s in strs:
        try:
            out.append(f(s))
        except BaseException as e:  # noqa
            out.append("EXC:" + type(e).__name__)
    return out


def _mdit_norm(s):
    try:
        from markdown_it.common.normalize_url import normalizeLink
        return normalizeLink(s).replace("&", "&amp;")
    except BaseException:  # noqa
        return None


def _linkdest(ctx):
    """the link-destination kernel: LinkParseHelper.__encode_link_destination vs Model/LinkDest.v encode_impl on every string over
    an alphabet of specials, hex digits, a non-hex letter, a space, a sign, a quote and non-ASCII characters; then whole
    documents whose destinations come from the same strings, rendered and compared with what `enc` demands"""
    import html
    import itertools
    if "Model/LinkDest.v" not in ctx.build.ok_files:
        return
    alpha = ["a", "%", "2", "F", "g", " ", "\u00e9", "&", "+", '"', "\u0661", "\u20ac"]
    n = 3 if ctx.tier == "quick" else 4
    strs = [""] + ["".join(t) for k in range(1, n + 1) for t in itertools.product(alpha, repeat=k)]
    strs += ["".join(t) for t in itertools.product(["%", "2", "c", "x", "&"], repeat=5)] + ["/a\U0001f600%zz%%41", "foo%20b\u00e4", "%e9%E9%eG", "a" * 40 + "%4"]
    strs = list(dict.fromkeys(strs))
    chunks = [strs[i:i + 500] for i in range(0, len(strs), 500)]
    got = [r for ch in impl.pmap(_enc_call, chunks, chunksize=1) for r in ch]
    defs = "Definition o_eqb (a b : option str) := match a, b with Some x, Some y => str_eqb x y | None, None => true | _, _ => false end.\n"
    cases = [(core.cstr(s), f"(Some {core.cstr(r)})" if not r.startswith("EXC:") else "None") for s, r in zip(strs, got)]
    bad = core.coq_mismatches(["PV.Base.Str", "PV.Model.LinkDest"], defs, "encode_impl", cases, "c03ld", eqb="o_eqb", shard=500)
    ctx.corr_cases += len(cases)
    for _ in strs:
        ctx.count(1, "link-destination/kernel")
    if bad:
        want = core.coq_eval(["PV.Base.Str", "PV.Model.LinkDest"], "", [f"enc {core.cstr(strs[i])}" for i in bad[:40]], tag="c03ldw")
        shown = 0
        for i, w in zip(bad[:40], want):
            model = "".join(chr(int(x)) for x in __import__("re").findall(r"\d+", w))
            # the failing input: the reference normalisation (markdown-it's normalizeLink) sides with the model
            if _mdit_norm(strs[i]) == model:
                ctx.violation("link-destination", {"destination": strs[i]}, f"the destination is normalised to {got[i]!r}; the reference normalisation (Model/LinkDest.v enc = markdown-it normalizeLink) gives {model!r}", group="linkdest")
                shown += 1
        if not shown:
            ctx.broke(f"model/implementation correspondence (Model/LinkDest.v encode_impl) differs on {strs[bad[0]]!r}: implementation {got[bad[0]]!r}")
    # whole documents: inline link, angle-bracket destination, image, reference definition
    dests = [s for s in strs if len(s) <= 3 and s and not any(c in s for c in ' "&\\<>()') and not s.startswith("%") or s in ("x%20", "/x%41", "%20", "a%2", "a%+1", "%\u06612", "\u00e9%e9")]
    if ctx.tier == "quick":
        dests = gen.sample(dests, 250, ctx.seed)
    forms = [("[t]({})\n", '<p><a href="{}">t</a></p>'), ("[t](<{}>)\n", '<p><a href="{}">t</a></p>'), ("![i](/{})\n", '<p><img src="/{}" alt="i" /></p>'),
             ("[t]\n\n[t]: /p{}\n", '<p><a href="/p{}">t</a></p>')]
    docs = [(fm.format(d), d, ex) for d in dests for fm, ex in forms]
    encs = core.coq_eval(["PV.Base.Str", "PV.Model.LinkDest"], "", [f"enc {core.cstr(d)}" for d in dests], tag="c03lde")
    encd = {d: "".join(chr(int(x)) for x in __import__("re").findall(r"\d+", w)) for d, w in zip(dests, encs)}
    pyh = impl.pmap(_py_html, [d[0] for d in docs], chunksize=64)
    for (doc, d, ex), ph in zip(docs, pyh):
        ctx.count(1, "link-destination/document")
        ctx.seen(doc)
        want = ex.format(encd[d])
        if ph is None or ph.startswith("EXC:"):
            continue
        if cm.norm_html(ph) != want:
            mh = _mdit(doc)
            if cm.norm_html(mh) == want:
                ctx.violation("link-destination", {"doc": doc}, f"PyMarkdown renders {cm.norm_html(ph)!r}; the normalisation model and markdown-it both give {want!r}", group="linkdest-doc")
            else:
                ctx.unit("link-destination", documents_outside_the_link_forms=1)   # the destination does not parse as one in this form (markdown-it agrees)
    ctx.unit("link-destination", kernel_strings=len(strs), documents=len(docs))


def _label_call(strs):
    from pymarkdown.links.link_parse_helper import LinkParseHelper
    return [LinkParseHelper.normalize_link_label(s) for s in strs]


def _defs_call(scripts):
    """a script: list of ('add', label, value) | ('look', label) on a freshly initialised LinkParseHelper, as the parser uses it"""
    from pymarkdown.links.link_parse_helper import LinkParseHelper
    from pymarkdown.links.link_reference_titles import LinkReferenceTitles
    out = []
    for sc in scripts:
        LinkParseHelper.initialize()
        res = []
        for op in sc:
            if op[0] == "add":
                LinkParseHelper.add_link_definition(LinkParseHelper.normalize_link_label(op[1]), LinkReferenceTitles(op[2], ""))
            else:
                ix, link, _ = LinkParseHelper.look_up_link(op[1], 7, "x")
                res.append(None if ix == -1 else link)
        out.append(res)
    LinkParseHelper.initialize()
    return out


def _linklabel(ctx):
    """the label kernel: normalize_link_label vs Model/LinkLabel.v norm_impl on every string over letters of both cases and all
    six white-space characters; add_link_definition / look_up_link scripts vs build / look_up; documents with several
    definitions for one label in different spellings"""
    import itertools
    import random
    if "Model/LinkLabel.v" not in ctx.build.ok_files:
        return
    alpha = ["a", "B", "b", " ", "\t", "\n", "\x0b", "\x0c", "\r", "Z", "1", "]"]
    n = 3 if ctx.tier == "quick" else 4
    strs = [""] + ["".join(t) for k in range(1, n + 1) for t in itertools.product(alpha, repeat=k)]
    strs += ["".join(t) for t in itertools.product(["a", "B", " ", "\t"], repeat=6)] + ["  Foo \t\n BAR  baz ", "A" * 30 + " " * 5 + "b"]
    strs = list(dict.fromkeys(strs))
    chunks = [strs[i:i + 800] for i in range(0, len(strs), 800)]
    got = [r for ch in impl.pmap(_label_call, chunks, chunksize=1) for r in ch]
    cases = [(core.cstr(s), core.cstr(r)) for s, r in zip(strs, got)]
    bad = core.coq_mismatches(["PV.Base.Str", "PV.Model.LinkLabel"], "", "norm_impl", cases, "c03ll", eqb="str_eqb", shard=800)
    ctx.corr_cases += len(cases)
    for _ in strs:
        ctx.count(1, "link-label/kernel")
    for i in bad[:5]:
        # is the property itself broken on this label?  two spellings of one label (CommonMark: case, kind and amount of white space) must normalise alike
        s0 = strs[i]
        twin = " " + s0.upper().replace(" ", "\t ") + "\n"
        if _label_call([s0]) != _label_call([twin]) and s0.strip(" \t\n\x0b\x0c\r"):
            ctx.violation("link-label", {"label": s0, "other_spelling": twin}, f"two spellings of one label are normalised to {_label_call([s0])[0]!r} and {_label_call([twin])[0]!r}", group="linklabel")
        else:
            ctx.broke(f"model/implementation correspondence (Model/LinkLabel.v norm_impl) differs on {s0!r}: implementation {got[i]!r}")
    # the map of definitions
    rnd = random.Random(ctx.seed + 41)
    labels = ["foo", "Foo", " FOO ", "foo  bar", "Foo\tBAR", "foo\nbar", "b", "B ", "", "  ", "\t", "x]"]
    scripts = []
    for _ in range(300 if ctx.tier == "quick" else 3000):
        sc = []
        for _ in range(rnd.randint(1, 6)):
            sc.append(("add", rnd.choice(labels), "/u" + str(len(sc))) if rnd.random() < 0.6 else ("look", rnd.choice(labels)))
        sc.append(("look", rnd.choice(labels)))
        scripts.append(sc)
    sres = [r for ch in impl.pmap(_defs_call, [scripts[i:i + 100] for i in range(0, len(scripts), 100)], chunksize=1) for r in ch]
    defs = ("Inductive op := Add (l v : str) | Look (l : str).\n"
            "Fixpoint runops (d : defmap str) (ops : list op) : list (option str) := match ops with [] => [] | Add l v :: r => runops (add_def str d (norm_impl l, v)) r | Look l :: r => look_up str d l :: runops d r end.\n"
            "Definition o_eqb (a b : option str) := match a, b with Some x, Some y => str_eqb x y | None, None => true | _, _ => false end.\n"
            "Definition run0 (ops : list op) := runops [] ops.\n")
    cases = []
    for sc, r in zip(scripts, sres):
        ops = core.clist((f"Add {core.cstr(o[1])} {core.cstr(o[2])}" if o[0] == "add" else f"Look {core.cstr(o[1])}" for o in sc), "op")
        cases.append((ops, core.clist(("None" if x is None else f"(Some {core.cstr(x)})" for x in r), "(option str)")))
        ctx.count(1, "link-label/definition-script")
    bad = core.coq_mismatches(["PV.Base.Str", "PV.Model.LinkLabel"], defs, "run0", cases, "c03ld2", eqb="(list_eqb o_eqb)", shard=300)
    ctx.corr_cases += len(cases)
    for i in bad[:4]:
        ctx.broke(f"model/implementation correspondence (Model/LinkLabel.v add_def / look_up) differs on the script {scripts[i]}: implementation {sres[i]}")
    # documents: two or three definitions of one label in different spellings, used through a fourth spelling
    sp = ["foo", "Foo", "FOO", "foo bar", "Foo  BAR", "foo\tbar", "Foo\n bar", "b", "B"]
    docs = []
    for a, b, u in itertools.product(sp, repeat=3):
        docs.append((f"[{a}]: /1\n[{b}]: /2\n\n[{u}]\n", (a, b, u)))
    if ctx.tier == "quick":
        docs = gen.sample(docs, 200, ctx.seed)
    pyh = impl.pmap(_py_html, [d[0] for d in docs], chunksize=64)
    norm = dict(zip(sp, _label_call(sp)))
    for (doc, (a, b, u)), ph in zip(docs, pyh):
        ctx.count(1, "link-label/document")
        ctx.seen(doc)
        want_target = "/1" if norm[u] == norm[a] else "/2" if norm[u] == norm[b] else None
        if ph is None or ph.startswith("EXC:"):
            continue
        has = re.findall(r'href="([^"]*)"', ph)
        if (has[:1] or [None])[0] != want_target:
            mh = _mdit(doc)
            if (re.findall(r'href="([^"]*)"', mh)[:1] or [None])[0] == want_target:
                ctx.violation("link-label", {"doc": doc}, f"the reference resolves to {has[:1]} ; the first definition with a matching label (model and markdown-it) is {want_target}", group="linklabel-doc")
            else:
                ctx.broke(f"link-label documents: model {want_target}, PyMarkdown {has[:1]}, markdown-it differs from the model on {doc!r}")
    ctx.unit("link-label", kernel_strings=len(strs), definition_scripts=len(scripts), documents=len(docs))


def _tb_call(lines):
    from pymarkdown.leaf_blocks.thematic_leaf_block_processor import ThematicLeafBlockProcessor as T
    out = []
    for ln in lines:
        k = len(ln) - len(ln.lstrip(" \t"))
        try:
            out.append(T.is_thematic_break(ln, k, ln[:k]))
        except BaseException as e:  # noqa
            out.append(("EXC:" + type(e).__name__, None))
    return out


def _first_is_break(doc):
    st, toks = impl.parse(doc)
    if st != "ok":
        return None
    return bool(toks) and toks[0].is_thematic_break


def _thematic(ctx):
    """the thematic-break kernel: is_thematic_break vs Model/ThematicBreak.v tb_impl on every line over {-, *, _, space, tab, a};
    then the same lines as one-line documents: the first token is a thematic break exactly when the specification says so"""
    import itertools
    if "Model/ThematicBreak.v" not in ctx.build.ok_files:
        return
    n = 4 if ctx.tier == "quick" else 6
    lines = ["".join(t) for k in range(1, n + 1) for t in itertools.product("-*_ \ta", repeat=k)]
    if ctx.tier == "quick":
        lines += gen.sample(["".join(t) for t in itertools.product("-*_ \ta", repeat=5)], 1500, ctx.seed)
    lines = [l for l in lines if l.strip(" \t")] + ["    ---", " \t---", "  \t- - -", "-" * 40, "- " * 20, "*\t*\t*\t", "_ _ _ _ a"]
    lines = list(dict.fromkeys(lines))
    got = [r for ch in impl.pmap(_tb_call, [lines[i:i + 2000] for i in range(0, len(lines), 2000)], chunksize=1) for r in ch]
    defs = ("Definition lead_blank (s : str) : nat := (fix f (s : str) : nat := match s with c :: r => if is_blank_c c then S (f r) else O | [] => O end) s.\n"
            "Definition run_tb (ln : str) := let k := lead_blank ln in tb_impl ln k (taken k ln) false true.\n"
            "Definition spec_tb (ln : str) := let k := lead_blank ln in tb_spec (taken k ln) (dropn k ln).\n"
            "Definition r_eqb (a b : option (N * nat)) := match a, b with Some (c, i), Some (d, j) => N.eqb c d && Nat.eqb i j | None, None => true | _, _ => false end.\n")
    cases = []
    for ln, (c, e) in zip(lines, got):
        ctx.count(1, "thematic-break/kernel")
        cases.append((core.cstr(ln), "None" if c is None or str(c).startswith("EXC:") else f"(Some ({ord(c)}%N, {e}%nat))"))
    bad = core.coq_mismatches(["PV.Base.Str", "PV.Model.Tabs", "PV.Model.ThematicBreak"], defs, "run_tb", cases, "c03tb", eqb="r_eqb", shard=1500)
    ctx.corr_cases += len(cases)
    spec = core.coq_eval(["PV.Base.Str", "PV.Model.Tabs", "PV.Model.ThematicBreak"], defs, [f"spec_tb {core.cstr(ln)}" for ln in lines], tag="c03tbs", shard=1500)
    spec = [x.strip() == "true" for x in spec]
    for i in bad[:6]:
        # the failing input: the line as a document, judged by the specification predicate and by markdown-it
        mh = _mdit(lines[i] + "\n")
        if ("<hr" in mh) == spec[i] and (got[i][0] is not None) != spec[i]:
            ctx.violation("thematic-break", {"line": lines[i]}, f"is_thematic_break answers {got[i]!r}; CommonMark 4.1 (Model/ThematicBreak.v tb_spec, and markdown-it) says {'a break' if spec[i] else 'no break'}", group="thematic-break")
        else:
            ctx.broke(f"model/implementation correspondence (Model/ThematicBreak.v tb_impl) differs on {lines[i]!r}: implementation {got[i]!r}")
    docs = [ln + "\n" for ln in lines] if ctx.tier == "thorough" else [ln + "\n" for ln in gen.sample(lines, 1500, ctx.seed)]
    isb = impl.pmap(_first_is_break, docs, chunksize=128)
    sp = dict(zip(lines, spec))
    for d, b in zip(docs, isb):
        ctx.count(1, "thematic-break/document")
        ctx.seen(d)
        if b is None:
            continue
        if b != sp[d[:-1]]:
            mh = _mdit(d)
            if ("<hr" in mh) == sp[d[:-1]]:
                ctx.violation("thematic-break", {"doc": d}, f"the one-line document {'is' if b else 'is not'} parsed as a thematic break; the specification predicate and markdown-it say {'break' if sp[d[:-1]] else 'no break'}", group="thematic-break-doc")
            else:
                ctx.unit("thematic-break", documents_where_another_block_takes_the_line=1)
    ctx.unit("thematic-break", lines=len(lines), documents=len(docs))


def _atx_call(lines):
    from pymarkdown.leaf_blocks.atx_leaf_block_processor import AtxLeafBlockProcessor as A
    out = []
    for ln in lines:
        k = len(ln) - len(ln.lstrip(" \t"))
        try:
            out.append(A.is_atx_heading(ln, k, ln[:k]))
        except BaseException as e:  # noqa
            out.append(("EXC:" + type(e).__name__, None, None, None))
    return out


def _first_is_atx(doc):
    st, toks = impl.parse(doc)
    if st != "ok":
        return None
    return (toks[0].hash_count if toks and toks[0].is_atx_heading else 0)


def _atx(ctx):
    """the ATX kernel: is_atx_heading vs Model/AtxOpen.v atx_impl on every line over {#, space, tab, a}; the same lines as
    one-line documents: the first token is an ATX heading of the level the specification gives, or none"""
    import itertools
    if "Model/AtxOpen.v" not in ctx.build.ok_files:
        return
    n = 5 if ctx.tier == "quick" else 7
    lines = ["".join(t) for k in range(1, n + 1) for t in itertools.product("# \ta", repeat=k)]
    # every number of hashes around the limit behind every indentation, whatever follows
    lines += [ind + "#" * k + tail for ind in ("", " ", "  ", "   ", "    ", "\t", " \t") for k in range(1, 9) for tail in ("", " a", "\ta", "a", " ", " a #", "#a")]
    lines = [l for l in lines if "#" in l] + ["#" * 6 + " a", "#" * 7 + " a", "   " + "#" * 6, "    # a", " \t# a", "#\ta #", "######\t"]
    lines = list(dict.fromkeys(lines))
    got = [r for ch in impl.pmap(_atx_call, [lines[i:i + 4000] for i in range(0, len(lines), 4000)], chunksize=1) for r in ch]
    defs = ("Definition lead_blank (s : str) : nat := (fix f (s : str) : nat := match s with c :: r => if is_blank_c c then S (f r) else O | [] => O end) s.\n"
            "Definition run_atx (ln : str) := let k := lead_blank ln in atx_impl ln k (taken k ln) false.\n"
            "Definition spec_atx (ln : str) := let k := lead_blank ln in if atx_spec (taken k ln) (dropn k ln) then length (run_of is_hash (dropn k ln)) else O.\n"
            "Definition r_eqb (a b : option (nat * nat * str)) := match a, b with Some (i, h, w), Some (j, g, v) => Nat.eqb i j && Nat.eqb h g && str_eqb w v | None, None => true | _, _ => false end.\n")
    cases = []
    for ln, r in zip(lines, got):
        ctx.count(1, "atx/kernel")
        cases.append((core.cstr(ln), f"(Some ({r[1]}%nat, {r[2]}%nat, {core.cstr(r[3])}))" if r[0] is True else "None"))
    bad = core.coq_mismatches(["PV.Base.Str", "PV.Model.Tabs", "PV.Model.AtxOpen"], defs, "run_atx", cases, "c03atx", eqb="r_eqb", shard=2500)
    ctx.corr_cases += len(cases)
    spec = [int(x) for x in core.coq_eval(["PV.Base.Str", "PV.Model.Tabs", "PV.Model.AtxOpen"], defs, [f"spec_atx {core.cstr(ln)}" for ln in lines], tag="c03atxs", shard=2500)]
    import re as _re
    for i in bad[:6]:
        mh = _mdit(lines[i] + "\n")
        m = _re.match(r"<h(\d)", mh)
        lvl = int(m.group(1)) if m else 0
        if lvl == spec[i] and (got[i][2] or 0) != spec[i]:
            ctx.violation("atx", {"line": lines[i]}, f"is_atx_heading answers {got[i]!r}; CommonMark 4.2 (Model/AtxOpen.v atx_spec, and markdown-it) gives level {spec[i]} (0 = no heading)", group="atx")
        else:
            ctx.broke(f"model/implementation correspondence (Model/AtxOpen.v atx_impl) differs on {lines[i]!r}: implementation {got[i]!r}")
    docs = [ln + "\n" for ln in (lines if ctx.tier == "thorough" else gen.sample(lines, 1500, ctx.seed))]
    lv = impl.pmap(_first_is_atx, docs, chunksize=128)
    sp = dict(zip(lines, spec))
    for d, b in zip(docs, lv):
        ctx.count(1, "atx/document")
        ctx.seen(d)
        if b is None:
            continue
        if b != sp[d[:-1]]:
            mh = _mdit(d)
            m = _re.match(r"<h(\d)", mh)
            if (int(m.group(1)) if m else 0) == sp[d[:-1]]:
                ctx.violation("atx", {"doc": d}, f"the one-line document starts with an ATX heading of level {b} (0 = none); the specification predicate and markdown-it say {sp[d[:-1]]}", group="atx-doc")
            else:
                ctx.unit("atx", documents_where_markdown_it_differs_from_the_predicate=1)
    ctx.unit("atx", lines=len(lines), documents=len(docs))


def _at_call(strs):
    from pymarkdown.inline.inline_helper import InlineHelper
    from pymarkdown.general.parser_helper import ParserHelper
    out = []
    for s in strs:
        try:
            a = InlineHelper.append_text("x", s, add_text_signature=False)
            b = InlineHelper.append_text("", s)
            out.append((a, b, ParserHelper.remove_all_from_text(b), ParserHelper.resolve_all_from_text(b)))
        except BaseException as e:  # noqa
            out.append(("EXC:" + type(e).__name__, "", "", ""))
    return out


def _append_text(ctx):
    """the escaping kernel: InlineHelper.append_text (with and without the signature) vs Model/AppendText.v append_impl on every
    string over the four escaped characters, a letter, a space and a non-ASCII letter; and the property on the implementation:
    the codec recovers the source from the signed text and resolves it to the escaped text"""
    import html
    import itertools
    if "Model/AppendText.v" not in ctx.build.ok_files:
        return
    n = 4 if ctx.tier == "quick" else 6
    strs = [""] + ["".join(t) for k in range(1, n + 1) for t in itertools.product('a<>&" é', repeat=k)]
    got = [r for ch in impl.pmap(_at_call, [strs[i:i + 2000] for i in range(0, len(strs), 2000)], chunksize=1) for r in ch]
    defs = ("Definition obs (s : str) := (append_impl [120%N] s false, append_impl [] s true).\n"
            "Definition o_eqb (a b : option str) := match a, b with Some x, Some y => str_eqb x y | None, None => true | _, _ => false end.\n"
            "Definition obs_eqb (a b : option str * option str) := o_eqb (fst a) (fst b) && o_eqb (snd a) (snd b).\n")
    cases = []
    for s, (a, b, src, res) in zip(strs, got):
        ctx.count(1, "append-text/kernel")
        cases.append((core.cstr(s), f"(Some {core.cstr(a)}, Some {core.cstr(b)})" if not a.startswith("EXC:") else "(None, None)"))
        if not a.startswith("EXC:") and (src != s or res != html.escape(s, quote=True).replace("&#x27;", "'") or a != "x" + res):
            ctx.violation("append-text", {"text": s}, f"append_text gives {a!r} / {b!r}; the codec recovers {src!r} and resolves to {res!r}", group="append-text")
    bad = core.coq_mismatches(["PV.Base.Str", "PV.Model.Codec", "PV.Model.AppendText"], defs, "obs", cases, "c03at", eqb="obs_eqb", shard=1500)
    ctx.corr_cases += len(cases)
    for i in bad[:5]:
        ctx.broke(f"model/implementation correspondence (Model/AppendText.v append_impl) differs on {strs[i]!r}: implementation {got[i][:2]!r}")
    ctx.unit("append-text", strings=len(strs))


def run(ctx):
    ctx.prove("Props/C03.v", ["Model/Codec.v", "Proofs/CodecProofs.v", "Model/AppendText.v", "Proofs/AppendTextProofs.v", "Model/AtxOpen.v", "Proofs/AtxOpenProofs.v", "Model/Tabs.v", "Proofs/TabsProofs.v", "Model/ThematicBreak.v", "Proofs/ThematicBreakProofs.v", "Model/LinkLabel.v", "Proofs/LinkLabelProofs.v", "Spec/CMBlock.v", "Proofs/CMProofs.v", "Proofs/CMFuel.v", "Proofs/CMInlineProofs.v", "Model/LinkDest.v", "Proofs/LinkDestProofs.v", "Extract/Extract.v"])
    # ---- (0) the spec model itself: the CommonMark examples inside F, and markdown-it on a sample
    exs = [e for e in cm.spec_examples() if "\t" not in e["markdown"]]
    res = cm.cm_html_many([e["markdown"] for e in exs])
    n_in, bad_ex = 0, []
    for e, (inf, h) in zip(exs, res):
        if not inf:
            continue
        n_in += 1
        ctx.count(1, "spec-example")
        if cm.norm_html(h) != cm.norm_html(e["html"]):
            bad_ex.append(e["example"])
    if bad_ex:
        ctx.broke(f"the spec model CM disagrees with the CommonMark examples {bad_ex[:10]} (of {n_in} inside F)")
    ctx.unit("spec_model_validation", commonmark_examples_in_F=n_in, disagreeing=len(bad_ex))
    # ---- (1) refinement: PyMarkdown's HTML = CM's HTML on F
    sp = spaces(ctx)
    docs, origin = [], []
    for name, ds in sp.items():
        for d in ds:
            docs.append(d)
            origin.append(name)
    cmres = cm.cm_html_many(docs)
    keep = [i for i, (inf, h) in enumerate(cmres) if inf and h is not None]
    pyres = impl.pmap(_py_html, [docs[i] for i in keep], chunksize=128)
    dis = []
    for i, ph in zip(keep, pyres):
        ctx.count(1, origin[i])
        if ph is None:
            ctx.unit("skipped", documents_that_do_not_parse=1)
            continue
        if docs[i].count("\n") >= 2:
            ctx.seen(docs[i])
        if ph.startswith("EXC:"):
            ctx.violation("html", {"doc": docs[i]}, f"rendering to HTML raises {ph[4:]}", group="html-raises")
            continue
        if cm.norm_html(ph) != cm.norm_html(cmres[i][1]):
            dis.append((i, ph))
    # three-way: ask markdown-it about every disagreement, and about a sample of agreements (validation of CM)
    mi = impl.pmap(_mdit, [docs[i] for i, _ in dis], chunksize=64)
    cm_wrong = 0
    for (i, ph), mh in zip(dis, mi):
        a, b, c = cm.norm_html(ph), cm.norm_html(cmres[i][1]), cm.norm_html(mh)
        if c == b:
            ctx.violation("html", {"doc": docs[i]}, f"PyMarkdown renders {a!r}; the spec model and markdown-it both give {b!r}", group="html-" + _shape(a, b))
        elif c == a:
            cm_wrong += 1
            ctx.broke(f"the spec model CM disagrees with both PyMarkdown and markdown-it on {docs[i]!r}: CM {b!r}, they {a!r}")
        else:
            # three different answers: decided by the spec text; markdown-it is known to deviate on empty items followed by blank lines
            ctx.violation("html", {"doc": docs[i]}, f"PyMarkdown renders {a!r}; the spec model {b!r}; markdown-it {c!r}", group="html-threeway")
    sample = gen.sample([i for i in keep if i not in {j for j, _ in dis}], 1500 if ctx.tier == "quick" else 8000, ctx.seed + 5)
    mi2 = impl.pmap(_mdit, [docs[i] for i in sample], chunksize=64)
    mdiff = [docs[i] for i, mh in zip(sample, mi2) if cm.norm_html(mh) != cm.norm_html(cmres[i][1])]
    ctx.unit("spec_model_validation", markdown_it_sample=len(sample), markdown_it_differs=len(mdiff), examples=mdiff[:5], cm_wrong_in_threeway=cm_wrong)
    ctx.corr_cases += len(keep)
    _linkdest(ctx)
    _linklabel(ctx)
    _thematic(ctx)
    _atx(ctx)
    _append_text(ctx)
    ctx.sample({"doc": docs[keep[5]], "html": cmres[keep[5]][1]})
    ctx.trusted += [
        "the spec model coq/Spec/CMBlock.v is a specification written from the CommonMark text (validated each run against the CommonMark 0.31.2 examples inside F and against the vendored markdown-it-py on a sample); it is NOT a model of PyMarkdown",
        "extraction + driver.ml; norm_html (newlines next to tags outside <pre>)",
        "link destinations: Model/LinkDest.v encode_impl (vm_compute) vs LinkParseHelper.__encode_link_destination called directly on every string over a 12-character alphabet up to a length; whole link / image / definition documents vs the href the model demands (markdown-it asked on a difference)",
        "link labels: Model/LinkLabel.v norm_impl / add_def / look_up (vm_compute) vs LinkParseHelper.normalize_link_label on every string over a 12-character alphabet up to a length, and vs add_link_definition / look_up_link on random scripts; documents with two definitions of one label in different spellings",
        "thematic breaks: Model/ThematicBreak.v tb_impl (vm_compute) vs ThematicLeafBlockProcessor.is_thematic_break on every line over {-, *, _, space, tab, a} up to a length; the same lines as one-line documents vs tb_spec",
        "ATX openings: Model/AtxOpen.v atx_impl (vm_compute) vs AtxLeafBlockProcessor.is_atx_heading on every line with a # over {#, space, tab, a} up to a length; the same lines as one-line documents vs atx_spec",
        "escaping: Model/AppendText.v append_impl (vm_compute) vs InlineHelper.append_text with and without the signature, and ParserHelper.remove_all_from_text / resolve_all_from_text on its result, on every string over {a, <, >, &, \", space, e-acute} up to a length",
        "on a disagreement markdown-it-py is asked: only PyMarkdown-vs-(CM = markdown-it) counts as a violation with a two-party witness; CM-vs-both breaks the check (spec model at fault)",
    ]
    return ctx.finish(
        level="other",
        extra_cov={"exhaustive": ctx.tier == "thorough", "explanation": "theorems are about the spec model CM (escape safety, tag balance of its renderer, fragment membership); that PyMarkdown refines CM is decided by comparing rendered HTML on enumerated documents of the fragment F"},
        rule="all documents of <= 3 lines over a 23-template leaf vocabulary and over a 16-template container vocabulary, 4-line container documents, 2-line documents over an extended container vocabulary, lists nested to depth three (3-5 items, tight / loose at every level, bullet and ordered), restricted to the fragment F (a tab only between letters or digits, no link / HTML / escape characters); the link-destination kernel on all strings of <= 4 (quick 3) characters over a 12-character alphabet + 5-character strings over 5, and link/image/definition documents built from them; the label kernel on all strings of <= 4 (quick 3) characters over letters of both cases and the six white-space characters, 300 / 3000 definition scripts, 200 / 729 documents with competing definitions; the thematic-break kernel on all lines of <= 4 (+ 1500 of 5) / 6 characters over {-, *, _, space, tab, a} and those lines as documents; the ATX kernel on all lines of <= 5 / 7 characters over {#, space, tab, a} and structured lines of 1-8 hashes behind every indentation; the escaping kernel on all strings of <= 4 / 6 characters over 7; quick = seed-selected subsets; non-trivial = a document of 3+ lines; distinct by document",
        assumptions=["outside F (links apart from their destination, HTML blocks, backslash escapes, named references, tabs) nothing is claimed",
                     "documents that do not parse are C01's business"],
    )


def _shape(a, b):
    import re
    ta, tb = re.findall(r"</?[a-z0-9]+", a), re.findall(r"</?[a-z0-9]+", b)
    if ta == tb:
        return "text"
    for x, y in zip(ta, tb):
        if x != y:
            return (x + "-vs-" + y).replace("<", "").replace("/", "end")
    return "length"
