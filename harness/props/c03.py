"""C03 - the parse conforms to CommonMark: rendered HTML matches a compliant parser (the spec model CM) on the fragment F."""
import core
import cm
import gen
import impl


def _py_html(doc):
    st, toks = impl.parse(doc)
    if st != "ok":
        return None
    try:
        return impl.to_html(toks)
    except BaseException as e:  # noqa
        return "EXC:" + impl.exc_signature(e)


def _mdit(doc):
    try:
        return impl.markdown_it_html(doc if doc.endswith("\n") else doc + "\n")
    except BaseException as e:  # noqa
        return "EXC:" + type(e).__name__


def spaces(ctx):
    leaf = list(gen.d_line(gen.V_LEAF, 3))
    cont3 = list(gen.d_line(gen.V_CONT, 3))
    cont4 = list(gen.d_line(gen.V_CONT, 4, final_newline=(True,)))
    code = ["`a`", "`` ` ``", "` a `", "`a", "a`", "``", "` `", "`  a  `", "x `b` y", "`` a", "a ``", "`a  ", "  b`", "# `h`", "- `c`", "> `q`", "```", "a"]
    codes = list(gen.d_line(code, 2)) + list(gen.d_line(code[:9], 3, final_newline=(True,)))
    more = list(gen.d_line(gen.V_CONT + ["+ a", "2) a", ">a", "> > a", "1. a", "10. x", "  # a", "   > b", "    - c", "## h", "a  ", "~~~"], 2))
    em = list(gen.uniq(gen.d_emph(6)))
    eml = ["*a*", "**a** b", "_a_ *b", "a*", "*", "* a", "***", "# *h*", "> _q_", "- **l**", "a", "", "__a__b", "*a", "b*", "_ _", "**"]
    emb = list(gen.d_line(eml, 3, final_newline=(True,)))
    refs = ["&#35;", "&#x41;", "&#X41;", "&#x0000041;", "&#x000041;", "&#1234567;", "&#12345678;", "&#x;", "&#;", "&#0;", "&#xD800;", "&#x110000;", "&#60;b&#62;", "&#34;",
            "a &#65; b", "&#42;a&#42;", "*&#65;*", "`&#65;`", "    &#65;", "# &#65;", "- &#65;", "> &#x263A;", "&#65", "&# 65;", "&#x41g;", "&#x00000041;", "&#000065;", "a", ""]
    refd = list(gen.d_line(refs, 2))
    if ctx.tier == "quick":
        return {"V_leaf<=3": gen.sample(leaf, 4000, ctx.seed), "V_cont<=3": gen.sample(cont3, 4000, ctx.seed + 1), "V_cont=4": gen.sample(cont4, 3000, ctx.seed + 2), "V_cont+<=2": more, "code-spans": codes,
                "emphasis-runs(6)": gen.sample(em, 4000, ctx.seed + 3), "emphasis-in-blocks<=3": gen.sample(emb, 3000, ctx.seed + 4), "numeric-references<=2": refd}
    return {"V_leaf<=3": leaf, "V_cont<=3": cont3, "V_cont=4": cont4, "V_cont+<=2": more, "code-spans": codes, "emphasis-runs(6)": em, "emphasis-in-blocks<=3": emb, "numeric-references<=2": refd}


def _enc_call(strs):
    from pymarkdown.links.link_parse_helper import LinkParseHelper
    f = getattr(LinkParseHelper, "_LinkParseHelper__encode_link_destination")
    out = []
    for s in strs:
        try:
            out.append(f(s))
        except BaseException as e:  # noqa
            out.append("EXC:" + type(e).__name__)
    return out


def _mdit_norm(s):
    try:
        from markdown_it.common.normalize_url import normalizeLink
        return normalizeLink(s).replace("&", "&amp;")
    except BaseException:  # noqa
        return None


def _linkdest(ctx):
    """the link-destination kernel: LinkParseHelper.__encode_link_destination vs Model/LinkDest.v encode_impl on every string over
    an alphabet of specials, hex digits, a non-hex letter, a space, a sign, a quote and non-ASCII characters; then whole
    documents whose destinations come from the same strings, rendered and compared with what `enc` demands"""
    import html
    import itertools
    if "Model/LinkDest.v" not in ctx.build.ok_files:
        return
    alpha = ["a", "%", "2", "F", "g", " ", "\u00e9", "&", "+", '"', "\u0661", "\u20ac"]
    n = 3 if ctx.tier == "quick" else 4
    strs = [""] + ["".join(t) for k in range(1, n + 1) for t in itertools.product(alpha, repeat=k)]
    strs += ["".join(t) for t in itertools.product(["%", "2", "c", "x", "&"], repeat=5)] + ["/a\U0001f600%zz%%41", "foo%20b\u00e4", "%e9%E9%eG", "a" * 40 + "%4"]
    strs = list(dict.fromkeys(strs))
    chunks = [strs[i:i + 500] for i in range(0, len(strs), 500)]
    got = [r for ch in impl.pmap(_enc_call, chunks, chunksize=1) for r in ch]
    defs = "Definition o_eqb (a b : option str) := match a, b with Some x, Some y => str_eqb x y | None, None => true | _, _ => false end.\n"
    cases = [(core.cstr(s), f"(Some {core.cstr(r)})" if not r.startswith("EXC:") else "None") for s, r in zip(strs, got)]
    bad = core.coq_mismatches(["PV.Base.Str", "PV.Model.LinkDest"], defs, "encode_impl", cases, "c03ld", eqb="o_eqb", shard=500)
    ctx.corr_cases += len(cases)
    for _ in strs:
        ctx.count(1, "link-destination/kernel")
    if bad:
        want = core.coq_eval(["PV.Base.Str", "PV.Model.LinkDest"], "", [f"enc {core.cstr(strs[i])}" for i in bad[:40]], tag="c03ldw")
        shown = 0
        for i, w in zip(bad[:40], want):
            model = "".join(chr(int(x)) for x in __import__("re").findall(r"\d+", w))
            # the failing input: the reference normalisation (markdown-it's normalizeLink) sides with the model
            if _mdit_norm(strs[i]) == model:
                ctx.violation("link-destination", {"destination": strs[i]}, f"the destination is normalised to {got[i]!r}; the reference normalisation (Model/LinkDest.v enc = markdown-it normalizeLink) gives {model!r}", group="linkdest")
                shown += 1
        if not shown:
            ctx.broke(f"model/implementation correspondence (Model/LinkDest.v encode_impl) differs on {strs[bad[0]]!r}: implementation {got[bad[0]]!r}")
    # whole documents: inline link, angle-bracket destination, image, reference definition
    dests = [s for s in strs if len(s) <= 3 and s and not any(c in s for c in ' "&\\<>()') and not s.startswith("%") or s in ("x%20", "/x%41", "%20", "a%2", "a%+1", "%\u06612", "\u00e9%e9")]
    if ctx.tier == "quick":
        dests = gen.sample(dests, 250, ctx.seed)
    forms = [("[t]({})\n", '<p><a href="{}">t</a></p>'), ("[t](<{}>)\n", '<p><a href="{}">t</a></p>'), ("![i](/{})\n", '<p><img src="/{}" alt="i" /></p>'),
             ("[t]\n\n[t]: /p{}\n", '<p><a href="/p{}">t</a></p>')]
    docs = [(fm.format(d), d, ex) for d in dests for fm, ex in forms]
    encs = core.coq_eval(["PV.Base.Str", "PV.Model.LinkDest"], "", [f"enc {core.cstr(d)}" for d in dests], tag="c03lde")
    encd = {d: "".join(chr(int(x)) for x in __import__("re").findall(r"\d+", w)) for d, w in zip(dests, encs)}
    pyh = impl.pmap(_py_html, [d[0] for d in docs], chunksize=64)
    for (doc, d, ex), ph in zip(docs, pyh):
        ctx.count(1, "link-destination/document")
        ctx.seen(doc)
        want = ex.format(encd[d])
        if ph is None or ph.startswith("EXC:"):
            continue
        if cm.norm_html(ph) != want:
            mh = _mdit(doc)
            if cm.norm_html(mh) == want:
                ctx.violation("link-destination", {"doc": doc}, f"PyMarkdown renders {cm.norm_html(ph)!r}; the normalisation model and markdown-it both give {want!r}", group="linkdest-doc")
            else:
                ctx.unit("link-destination", documents_outside_the_link_forms=1)   # the destination does not parse as one in this form (markdown-it agrees)
    ctx.unit("link-destination", kernel_strings=len(strs), documents=len(docs))


def run(ctx):
    ctx.prove("Props/C03.v", ["Spec/CMBlock.v", "Proofs/CMProofs.v", "Proofs/CMFuel.v", "Proofs/CMInlineProofs.v", "Model/LinkDest.v", "Proofs/LinkDestProofs.v", "Extract/Extract.v"])
    # ---- (0) the spec model itself: the CommonMark examples inside F, and markdown-it on a sample
    exs = [e for e in cm.spec_examples() if "\t" not in e["markdown"]]
    res = cm.cm_html_many([e["markdown"] for e in exs])
    n_in, bad_ex = 0, []
    for e, (inf, h) in zip(exs, res):
        if not inf:
            continue
        n_in += 1
        ctx.count(1, "spec-example")
        if cm.norm_html(h) != cm.norm_html(e["html"]):
            bad_ex.append(e["example"])
    if bad_ex:
        ctx.broke(f"the spec model CM disagrees with the CommonMark examples {bad_ex[:10]} (of {n_in} inside F)")
    ctx.unit("spec_model_validation", commonmark_examples_in_F=n_in, disagreeing=len(bad_ex))
    # ---- (1) refinement: PyMarkdown's HTML = CM's HTML on F
    sp = spaces(ctx)
    docs, origin = [], []
    for name, ds in sp.items():
        for d in ds:
            docs.append(d)
            origin.append(name)
    cmres = cm.cm_html_many(docs)
    keep = [i for i, (inf, h) in enumerate(cmres) if inf and h is not None]
    pyres = impl.pmap(_py_html, [docs[i] for i in keep], chunksize=128)
    dis = []
    for i, ph in zip(keep, pyres):
        ctx.count(1, origin[i])
        if ph is None:
            ctx.unit("skipped", documents_that_do_not_parse=1)
            continue
        if docs[i].count("\n") >= 2:
            ctx.seen(docs[i])
        if ph.startswith("EXC:"):
            ctx.violation("html", {"doc": docs[i]}, f"rendering to HTML raises {ph[4:]}", group="html-raises")
            continue
        if cm.norm_html(ph) != cm.norm_html(cmres[i][1]):
            dis.append((i, ph))
    # three-way: ask markdown-it about every disagreement, and about a sample of agreements (validation of CM)
    mi = impl.pmap(_mdit, [docs[i] for i, _ in dis], chunksize=64)
    cm_wrong = 0
    for (i, ph), mh in zip(dis, mi):
        a, b, c = cm.norm_html(ph), cm.norm_html(cmres[i][1]), cm.norm_html(mh)
        if c == b:
            ctx.violation("html", {"doc": docs[i]}, f"PyMarkdown renders {a!r}; the spec model and markdown-it both give {b!r}", group="html-" + _shape(a, b))
        elif c == a:
            cm_wrong += 1
            ctx.broke(f"the spec model CM disagrees with both PyMarkdown and markdown-it on {docs[i]!r}: CM {b!r}, they {a!r}")
        else:
            # three different answers: decided by the spec text; markdown-it is known to deviate on empty items followed by blank lines
            ctx.violation("html", {"doc": docs[i]}, f"PyMarkdown renders {a!r}; the spec model {b!r}; markdown-it {c!r}", group="html-threeway")
    sample = gen.sample([i for i in keep if i not in {j for j, _ in dis}], 1500 if ctx.tier == "quick" else 8000, ctx.seed + 5)
    mi2 = impl.pmap(_mdit, [docs[i] for i in sample], chunksize=64)
    mdiff = [docs[i] for i, mh in zip(sample, mi2) if cm.norm_html(mh) != cm.norm_html(cmres[i][1])]
    ctx.unit("spec_model_validation", markdown_it_sample=len(sample), markdown_it_differs=len(mdiff), examples=mdiff[:5], cm_wrong_in_threeway=cm_wrong)
    ctx.corr_cases += len(keep)
    _linkdest(ctx)
    ctx.sample({"doc": docs[keep[5]], "html": cmres[keep[5]][1]})
    ctx.trusted += [
        "the spec model coq/Spec/CMBlock.v is a specification written from the CommonMark text (validated each run against the CommonMark 0.31.2 examples inside F and against the vendored markdown-it-py on a sample); it is NOT a model of PyMarkdown",
        "extraction + driver.ml; norm_html (newlines next to tags outside <pre>)",
        "link destinations: Model/LinkDest.v encode_impl (vm_compute) vs LinkParseHelper.__encode_link_destination called directly on every string over a 12-character alphabet up to a length; whole link / image / definition documents vs the href the model demands (markdown-it asked on a difference)",
        "on a disagreement markdown-it-py is asked: only PyMarkdown-vs-(CM = markdown-it) counts as a violation with a two-party witness; CM-vs-both breaks the check (spec model at fault)",
    ]
    return ctx.finish(
        level="other",
        extra_cov={"exhaustive": ctx.tier == "thorough", "explanation": "theorems are about the spec model CM (escape safety, tag balance of its renderer, fragment membership); that PyMarkdown refines CM is decided by comparing rendered HTML on enumerated documents of the fragment F"},
        rule="all documents of <= 3 lines over a 23-template leaf vocabulary and over a 16-template container vocabulary, 4-line container documents, 2-line documents over an extended container vocabulary, restricted to the fragment F (no tabs, no inline markup characters); the link-destination kernel on all strings of <= 4 (quick 3) characters over a 12-character alphabet + 5-character strings over 5, and link/image/definition documents built from them; quick = seed-selected subsets; non-trivial = a document of 3+ lines; distinct by document",
        assumptions=["outside F (links apart from their destination, HTML blocks, backslash escapes, named references, tabs) nothing is claimed",
                     "documents that do not parse are C01's business"],
    )


def _shape(a, b):
    import re
    ta, tb = re.findall(r"</?[a-z0-9]+", a), re.findall(r"</?[a-z0-9]+", b)
    if ta == tb:
        return "text"
    for x, y in zip(ta, tb):
        if x != y:
            return (x + "-vs-" + y).replace("<", "").replace("/", "end")
    return "length"
