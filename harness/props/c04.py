"""C04 - the token stream is well-formed: balanced, properly nested, class-respecting."""
import core
import extract
import gen
import impl
import tokabs


ALL_EXT = {"extensions": {e: {"enabled": True} for e in ("front-matter", "markdown-strikethrough", "markdown-task-list-items", "markdown-extended-autolinks",
                                                          "markdown-disallow-raw-html", "linter-pragmas")}}


def _abs(doc):
    if isinstance(doc, tuple):          # (document, "ext"): every extension switched on
        st, toks = impl.parse(doc[0], config=ALL_EXT, eos=True)
    else:
        st, toks = impl.parse(doc, eos=True)
    if st != "ok":
        return None
    return tokabs.abstract(toks)


def ext_docs():
    """documents full of the extensions' syntax, for the parse with every extension on: strikethrough runs in and around links,
    images and emphasis, task list items, extended autolinks, raw HTML of the disallowed kind, front matter"""
    import itertools
    out = []
    atoms = ["~~", "~", "a", " ", "*", "[", "](/u)", "x"]
    for k in (3, 4, 5):
        for t in itertools.product(atoms, repeat=k):
            s = "".join(t)
            if "~" in s and s.strip():
                out.append(s)
    out += ["[see ~~this](/u) page~~", "~~see [this~~ page](/u)", "![~~i](/u)~~", "~~a *b~~ c*", "*a ~~b* c~~", "[~~a~~](/u)", "[a~~][r]~~\n\n[r]: /u", "- [ ] a\n- [x] b\n  - [ ] c", "- [ ]\n- [x]", "1. [ ] ~~a~~",
            "www.a.b/c~~d~~", "a@b.c ~~x~~", "http://a.b/~~x", "<title>~~a</title>~~", "<script>x</script> ~~y~~", "---\nt: v\n---\n~~a~~ [ ] www.x.y", "> - [ ] ~~q~~\n> www.a.b", "~~a\nb~~", "~~a~~~b~~~", "~~~\ncode\n~~~"]
    return list(dict.fromkeys(out))


def _nest(prefixes):
    first, cont = "", ""
    for p in prefixes:
        first += p
        cont += p if p == "> " else " " * len(p)
    return first, cont


def spaces(ctx):
    import itertools
    s1 = list(gen.uniq(list(gen.POOL) + list(gen.d_line(gen.V_ALL, 2))))
    s2 = list(gen.d_line(gen.V_CONT + gen.V_INLINE[:6], 3))
    s3 = list(gen.d_char(gen.A_CHAR + ["\t", "["], 4))
    s4 = list(gen.uniq(gen.d_trig()))
    s5 = list(gen.uniq(gen.d_emph(7)))
    s6 = gen.repo_corpus(core.REPO)
    # a link reference definition that starts inside a freshly opened list and fails (the rewind of the parser state), and empty
    # list items inside containers
    lrdl = ["- a", "* [foo]:", "+ [foo]:", "1. [foo]:", "[foo]:", "", "abc", "/url", "- [foo]:", "[foo]: /u \"t", "> [foo]:"]
    s7 = list(gen.d_line(lrdl, 4, final_newline=(True,)))
    ei = ["> - a", "> -", "> 1. a", "> 2.", "> 3. c", "- a", "-", "  -", "> > -", "- > -", "1.", "> -  ", "a", ""]
    s8 = list(gen.d_line(ei, 3))
    # a link reference definition that spans lines and is abandoned, inside container contexts with history (a nested
    # container already closed, a sibling list, a quote inside an item): the rewind restores the stack and the token list
    s9 = []
    for prelude, pre in (("", ""), ("> a\n>\n", "> "), ("> > inner\n>\n> outer\n>\n", "> "), ("- a\n\n", "  "), ("- a\n  - b\n\n", "  "), ("> - a\n>\n", "> "), ("- > q\n\n", "  "), ("1. a\n\n   > q\n\n", "   ")):
        for lrd in (["[foo]:", "/url 'abc", "def"], ["[foo]:", "/url", "'abc"], ["[foo]: /url 'abc", "def"], ["[foo", "bar]: /url 'abc", "def"], ["[foo]:", "", "x"], ["[foo]: /url \"t", "u", "v\" w"]):
            for end in ("\nmore\n", "more\n", ""):
                s9.append(prelude + "".join(pre + l + "\n" for l in lrd) + end)
    s9 = list(gen.uniq(s9))
    # leaves below up to four nested containers, opened on one line and continued on the next
    s10 = []
    for depth in (1, 2, 3, 4):
        for ps in itertools.product(("> ", "- ", "1. "), repeat=depth):
            first, cont = _nest(ps)
            for leaf in (("```sh", "$ ls"), ("a", "b *e*"), ("# h", "t `c`"), ("    code", "    more"), ("*e* [l](/u)", "x ![i](/v)")):
                s10.append(first + leaf[0] + "\n" + cont + leaf[1] + "\n")
    s10 = list(gen.uniq(s10))
    if ctx.tier == "quick":
        return {"pool+D_line(V_ALL,2)": gen.sample(s1, 2500, ctx.seed), "D_line(cont+inline,3)": gen.sample(s2, 2500, ctx.seed + 1), "D_char(12,4)": gen.sample(s3, 1500, ctx.seed + 2),
                "trigger-lines": gen.sample(s4, 1500, ctx.seed + 3), "emphasis-runs(7)": gen.sample(s5, 12000, ctx.seed + 4), "repository-corpus": gen.sample(s6, 1500, ctx.seed + 5),
                "lrd-in-lists(4)": gen.sample(s7, 2000, ctx.seed + 6), "empty-items(3)": gen.sample(s8, 1500, ctx.seed + 7), "lrd-abandoned-in-containers": s9, "nested-containers(4)": s10}
    return {"pool+D_line(V_ALL,2)": s1, "D_line(cont+inline,3)": s2, "D_char(12,4)": s3, "trigger-lines": s4, "emphasis-runs(7)": s5, "repository-corpus": s6, "lrd-in-lists(4)": s7, "empty-items(3)": s8,
            "lrd-abandoned-in-containers": s9, "nested-containers(4)": s10}


def run(ctx):
    ctx.prove("Props/C04.v", ["Model/WF.v", "Proofs/WFProofs.v", "Extract/Extract.v"])
    sp = spaces(ctx)
    ex = ext_docs()
    sp["all-extensions-on"] = [(d, "ext") for d in (ex if ctx.tier == "thorough" else gen.sample(ex, 3000, ctx.seed + 11))]
    docs, origin = [], []
    for name, ds in sp.items():
        for d in ds:
            docs.append(d)
            origin.append(name)
    abss = impl.pmap(_abs, docs, chunksize=128)
    lines, idx = [], []
    for i, a in enumerate(abss):
        ctx.count(1, origin[i])
        if a is None:
            ctx.unit("skipped", documents_that_do_not_parse=1)        # C01
            continue
        lines.append(tokabs.wf_line(a))
        idx.append(i)
    try:
        answers = extract.run_lines(lines)
    except Exception as e:
        ctx.broke(f"the extracted oracle could not be run: {e}")
        answers = []
    kinds = set()
    for i, ans in zip(idx, answers):
        a = abss[i]
        if len(a) > 6:
            ctx.seen(docs[i])
        kinds.update(t[3] for t in a)
        mirror = tokabs.py_stream_ok(a)
        if ans not in ("0", "1"):
            ctx.broke(f"oracle error on {docs[i]!r}: {ans}")
        elif ans == "0":
            where = mirror if mirror else (None, "(the Python mirror accepts the stream)")
            bad = a[where[0]][3] if where[0] is not None and where[0] < len(a) else "end"
            ctx.violation("wf", {"doc": docs[i]} if not isinstance(docs[i], tuple) else {"doc": docs[i][0], "extensions": "all enabled"}, f"the stream is rejected at token #{where[0]}: {where[1]}; stream {[('/' if t[0] == 1 else '') + t[3] for t in a]}", group="wf-" + bad)
        if (ans == "1") != (mirror is None):
            ctx.broke(f"the Python mirror and the extracted oracle disagree on {docs[i]!r}")
    ctx.corr_cases += len(answers)
    ctx.sample({"doc": docs[idx[3]], "stream": [("/" if t[0] == 1 else "") + t[3] for t in abss[idx[3]]], "accepted": answers[3] if answers else None})
    ctx.unit("streams", checked=len(answers), token_kinds_seen=sorted(kinds))
    # a sample of the extracted binary's answers is re-evaluated inside Coq (the extraction itself is cross-checked)
    if answers and "Model/WF.v" in ctx.build.ok_files:
        import re
        pick = list(range(0, len(idx), max(1, len(idx) // 150)))[:150]

        def coq_tok(t):
            shape, cls, ref, name = t
            k = f"(mkKind {core.cstr(name)} {['CCont', 'CLeaf', 'CInl', 'CSpecial'][cls]})"
            return f"TStart {k}" if shape == 0 else f"TEnd {k} {ref}%nat" if shape == 1 else f"TAtom {k}"
        cases = [(core.clist((coq_tok(t) for t in abss[idx[j]]), "ptok"), core.cbool(answers[j] == "1")) for j in pick]
        bad = core.coq_mismatches(["PV.Base.Str", "PV.Model.WF"], "", "stream_ok", cases, "c04", eqb="Bool.eqb", shard=50)
        for b in bad[:5]:
            ctx.broke(f"extracted oracle and in-Coq evaluation disagree on document {docs[idx[pick[b]]]!r}")
    ctx.trusted += [
        "the token abstraction harness/tokabs.py (shape from requires_end_token except new-list-item, class from the token class, back-pointer by object identity)",
        "extraction (ExtrOcamlBasic only) + Extract/driver.ml + ocamlfind ocamlopt; 150 answers per run are re-evaluated in Coq with vm_compute",
        "direct call of TokenizedMarkdown.transform with the end-of-stream token (what the rules receive minus the pragma token)",
    ]
    return ctx.finish(
        level="proof",
        rule="every token stream of: pool + all 2-line documents over a 60-template vocabulary, 3-line container/inline documents, 12-character alphabet strings of length <= 4, trigger-line pairs, delimiter-run strings (<= 7 symbols over {*, **, _, __, a, space}), the repository's own test documents; with every extension switched on: all strings of 3-5 atoms over {~~, ~, a, space, *, [, ](/u), x} that contain a tilde + 20 documents of task lists, autolinks, raw HTML and front matter; quick = seed-selected subsets; non-trivial = a stream of more than 6 tokens; distinct by document",
        assumptions=["documents that do not parse are C01's business", "that every document yields an accepted stream is established by running the proved oracle over the enumerated spaces, not proved"],
        extra_cov={"exhaustive": ctx.tier == "thorough"},
    )
