"""C05 - token positions are true: line/column point at the element in the source."""
import core
import extract
import gen
import impl
import posabs
from props import c04

CODE = {"chars": 0, "digit": 1, "nonblank": 2, "any": 3, "linestart": 4, "chars-after-spaces": 5}
SPEC = dict(posabs.OPEN)
SPEC["html-block"] = ("chars-after-spaces", "<")          # an HTML block keeps its indentation as content: the token points at column 1 + container prefix

# multi-line inline elements followed by position-carrying inline content (the property: "after multi-line inline elements")
def multi_inline():
    dests = ["/u", "/café", "/a\\_b", "<http://x.y/z>", "/u \"ti\"", "/u 'a\nb'"]
    posts = [" *e*", " `c`", " <b>", " x", " [m](/v)", " ![i](/w)", ""]
    pres = ["", "p ", "> ", "- ", "1. ", "# "]
    for pre in pres:
        for post in posts:
            for d in dests:
                yield f"{pre}[t]({d}){post}\n"
                if not pre.startswith("#"):
                    pad = " " * len(pre) if pre in ("- ", "1. ") else pre if pre == "> " else ""
                    yield f"{pre}[t](\n{pad}{d}){post}\n"
                    yield f"{pre}[t\n{pad}u]({d}){post}\n"
                    yield f"{pre}![t](\n{pad}{d}){post}\n"
            if not pre.startswith("#"):
                pad = " " * len(pre) if pre in ("- ", "1. ") else pre if pre == "> " else ""
                yield f"{pre}`a\n{pad}b`{post}\n"
                yield f"{pre}<b\n{pad}c=\"d\">{post}\n"
                yield f"{pre}*a\n{pad}b*{post}\n"
                yield f"{pre}a\\\n{pad}b{post}\n"


def hard_break_then_multiline():
    """a line ending in a hard break, then an inline element that spans lines whose last line is indented differently, then
    more inline content on that line"""
    for pre in ("", "> ", "- "):
        pad = " " * len(pre) if pre == "- " else pre
        for hb in ("\\", "  "):
            for elem in ("<span\n{i}class='x'>", "[t](\n{i}/u)", "![t](\n{i}/u)", "[t\n{i}u](/v)", "`a\n{i}b`"):
                for ind in ("", " ", "    "):
                    for post in (" then *one*", " `c`", " x", " [m](/w)"):
                        yield f"{pre}first{hb}\n{pad}second " + elem.replace("{i}", pad + ind) + post + "\n"


def _pos(doc):
    st, toks = impl.parse(doc, eos=True)
    if st != "ok":
        return None
    out = []
    prev_name, fence_ws = None, 0
    for t in toks:
        if (t.is_end_token and hasattr(t, "start_markdown_token")) or t.line_number <= 0:
            continue
        name = t.token_name
        cls = t._MarkdownToken__token_class.value
        if cls == 3:
            continue
        spec = SPEC.get(name, ("any",))
        if name == "text" and prev_name == "fcode-block" and t.token_text and t.token_text[0] not in " \n\t\\&\x05\x07\x08" and ord(t.token_text[0]) < 128:
            # the content of a fenced block: the token points at its first character - or, when the fence itself is indented,
            # at the start of the indentation that is taken off the content lines
            # (the same when the first content line has leading spaces of its own: they are content, the token points at them)
            own_ws = (getattr(t, "extracted_whitespace", "") or "").split("\n")[0]
            spec = ("chars", t.token_text[0]) if not fence_ws and not own_ws else ("chars-after-spaces", t.token_text[0])
        prev_name = name
        if name == "fcode-block":
            fence_ws = len(getattr(t, "extracted_whitespace", "") or "")
        out.append((name, spec, t.line_number, t.column_number, cls in (0, 1)))
        if name == "setext":
            out.append(("setext-original", ("nonblank",), t.original_line_number, t.original_column_number, False))
    return out


def _leafpos(doc):
    """-> (html, [(kind, line, column)]) for paragraphs, headings, breaks and fenced blocks, in document order"""
    st, toks = impl.parse(doc)
    if st != "ok":
        return None
    try:
        html = impl.to_html(toks)
    except BaseException:  # noqa
        return None
    out = []
    for t in toks:
        if t.is_paragraph:
            out.append((0, t.line_number, t.column_number))
        elif t.is_atx_heading:
            out.append((1, t.line_number, t.column_number))
        elif t.is_setext_heading:
            out.append((2, t.original_line_number, t.original_column_number))
        elif t.is_thematic_break:
            out.append((3, t.line_number, t.column_number))
        elif t.is_fenced_code_block:
            out.append((4, t.line_number, t.column_number))
    return html, out


def enc(doc, toks, tabs=False):
    lines = [(l.expandtabs(4) if tabs else l) for l in doc.split("\n")]
    parts = ["POS", str(len(lines))] + [extract.enc_str(l) for l in lines]
    for name, spec, l, c, blk in toks:
        parts.append(str(CODE[spec[0]]))
        if spec[0] in ("chars", "chars-after-spaces"):
            parts.append(extract.enc_str(spec[1]))
        parts += [str(l), str(c), "1" if blk else "0"]
    return " ".join(parts)


def _tab_call(jobs):
    from pymarkdown.general.tab_helper import TabHelper
    out = []
    for s, d in jobs:
        try:
            out.append((TabHelper.detabify_string(s, d), TabHelper.calculate_length(s, d)))
        except BaseException as e:  # noqa
            out.append(("EXC:" + type(e).__name__, -1))
    return out


def _tabs(ctx):
    """the tab kernel: TabHelper.detabify_string / calculate_length vs Model/Tabs.v detab_impl / calc_length on every string over
    {a, b, space, tab} up to a length, from every starting column 0..5; and the property on the implementation: the result
    has no tab and is as long as calculate_length says"""
    import itertools
    if "Model/Tabs.v" not in ctx.build.ok_files:
        return
    n = 5 if ctx.tier == "quick" else 7
    strs = [""] + ["".join(t) for k in range(1, n + 1) for t in itertools.product("ab \t", repeat=k) if "\t" in t]
    strs += ["ab  c", "no tabs here", "\t" * 9, " \t  \t   \t    \tx", "a" * 17 + "\t" + "b" * 5 + " \t"]
    jobs = [(s, d) for s in strs for d in range(6)]
    got = [r for ch in impl.pmap(_tab_call, [jobs[i:i + 1000] for i in range(0, len(jobs), 1000)], chunksize=1) for r in ch]
    defs = ("Definition obs (sd : str * N) := (detab_impl (fst sd) (snd sd), calc_length (fst sd) (snd sd)).\n"
            "Definition obs_eqb (a b : option str * N) := match fst a, fst b with Some x, Some y => str_eqb x y | None, None => true | _, _ => false end && N.eqb (snd a) (snd b).\n")
    cases = []
    for (s, d), (t, ln) in zip(jobs, got):
        ctx.count(1, "tabs/kernel")
        cases.append((f"({core.cstr(s)}, {d}%N)", f"({'None' if t.startswith('EXC:') else '(Some ' + core.cstr(t) + ')'}, {max(ln, 0)}%N)"))
        if not t.startswith("EXC:") and ("\t" in t or len(t) != ln):
            ctx.violation("tabs", {"text": s, "start": d}, f"detabify_string gives {t!r} (length {len(t)}), calculate_length {ln}", group="tabs")
    bad = core.coq_mismatches(["PV.Base.Str", "PV.Model.Tabs"], defs, "obs", cases, "c05tab", eqb="obs_eqb", shard=1000)
    ctx.corr_cases += len(cases)
    for i in bad[:5]:
        ctx.broke(f"model/implementation correspondence (Model/Tabs.v detab_impl / calc_length) differs on {jobs[i]!r}: implementation {got[i]!r}")
    ctx.unit("tabs", strings=len(strs), cases=len(jobs))


HEADING_RULES = ("MD001", "MD003", "MD022", "MD024", "MD025", "MD041")    # rules that report at a heading token, without a column of their own


def _report_positions(doc):
    """-> (reports of the heading rules [(line, col, rule)], positions carried by tokens {(line, col)}) | None"""
    st, toks = impl.parse(doc)
    if st != "ok":
        return None
    from pymarkdown.api import PyMarkdownApi, PyMarkdownApiException
    try:
        r = PyMarkdownApi().scan_string(doc)
    except PyMarkdownApiException:
        return None
    pos = set()
    for t in toks:
        if t.line_number > 0:
            pos.add((t.line_number, t.column_number))
        if t.is_setext_heading:
            pos.add((t.original_line_number, t.original_column_number))
    return [(f.line_number, f.column_number, f.rule_id.upper()) for f in r.scan_failures if f.rule_id.upper() in HEADING_RULES], sorted(pos)


def _reports(ctx):
    """every file:line:column a user sees is copied from the numbers of a token: headings of both styles at every small indentation of
    text and underline, in quotes and list items, arranged so that the heading rules fire on them"""
    import itertools
    docs = []
    for pre, cont in (("", ""), ("> ", "> "), ("- ", "  "), ("1. ", "   ")):
        for ti, ui in itertools.product(range(4), repeat=2):
            h = f"{pre}{' ' * ti}Same\n{cont}{' ' * ui}----\n"
            h2 = f"{cont}{' ' * ti}Same\n{cont}{' ' * ui}====\n"
            docs += [f"# t\n\n{h}{cont}\n{h.replace(pre, cont, 1) if pre else h}", f"{h}{cont}text\n{h2}", f"{pre}text\n{h2}{cont}\n{cont}{' ' * ti}### x\n"]
        for ti in range(4):
            docs += [f"{pre}{' ' * ti}# a\n{cont}\n{cont}{' ' * ti}### b\n{cont}{' ' * ti}# a\n", f"{pre}text\n{cont}{' ' * ti}## a #\n{cont}text\n"]
    docs = list(dict.fromkeys(docs))
    for d, r in zip(docs, impl.pmap(_report_positions, docs, chunksize=16)):
        ctx.count(1, "report-positions")
        if r is None:
            continue
        reps, pos = r
        if reps:
            ctx.seen(["reports", d])
        pos = {tuple(p) for p in pos}
        for (l, c, rid) in reps:
            if (l, c) not in pos:
                near = sorted(p for p in pos if p[0] == l)
                ctx.violation("report-position", {"doc": d, "rule": rid}, f"{rid} is reported at {l}:{c}; no token carries that position (tokens on that line: {near})", group="report-position-" + rid)
    ctx.unit("report-positions", documents=len(docs))


def run(ctx):
    ctx.prove("Props/C05.v", ["Model/Pos.v", "Proofs/PosProofs.v", "Model/Tabs.v", "Proofs/TabsProofs.v", "Extract/Extract.v"])
    _tabs(ctx)
    _reports(ctx)
    sp = c04.spaces(ctx)
    sp.pop("emphasis-runs(7)", None)
    mi = list(gen.uniq(list(multi_inline()) + list(hard_break_then_multiline())))
    sp["multi-line-inline"] = mi if ctx.tier == "thorough" else gen.sample(mi, 900, ctx.seed + 7)
    em = list(gen.uniq(gen.d_emph(5)))
    sp["emphasis-runs(5)"] = em if ctx.tier == "thorough" else gen.sample(em, 1500, ctx.seed + 8)
    docs, origin = [], []
    for name, ds in sp.items():
        for d in ds:
            if "\r" in d:
                continue
            docs.append(d)
            origin.append(name)
    poss = impl.pmap(_pos, docs, chunksize=128)
    lines, idx = [], []
    for i, p in enumerate(poss):
        ctx.count(1, origin[i])
        if p is None:
            ctx.unit("skipped", documents_that_do_not_parse=1)
            continue
        lines.append(enc(docs[i], p))
        idx.append(i)
        if "\t" in docs[i]:
            lines.append(enc(docs[i], p, tabs=True))
            idx.append(-i - 1)
    try:
        answers = extract.run_lines(lines)
    except Exception as e:
        ctx.broke(f"the extracted oracle could not be run: {e}")
        answers = []
    by_doc = {}
    for j, ans in zip(idx, answers):
        if ans.startswith("ERR"):
            ctx.broke(f"oracle error: {ans}")
            continue
        bits, mono = ans.split(" ") if " " in ans else ("", ans.strip())
        by_doc.setdefault(j if j >= 0 else -j - 1, {})["tab" if j < 0 else "raw"] = (bits, mono)
    ntok, tabneeded, kinds = 0, 0, {}
    for i, r in by_doc.items():
        p = poss[i]
        bits, mono = r["raw"]
        tb = r.get("tab", (None, None))[0]
        if len(p) > 3:
            ctx.seen(docs[i])
        for k, (name, spec, l, c, blk) in enumerate(p):
            ntok += 1
            kinds[name] = kinds.get(name, 0) + 1
            ok = bits[k] == "1"
            if not ok and tb is not None and tb[k] == "1":
                ok = True
                tabneeded += 1
            # cross-check with the Python mirror
            mirror = posabs.py_pos_ok(docs[i].split("\n"), spec if spec[0] != "chars-after-spaces" else ("any",), l, c) if spec[0] != "chars-after-spaces" else None
            if mirror is not None and (bits[k] == "1") != mirror:
                ctx.broke(f"the Python mirror and the extracted oracle disagree on {docs[i]!r} token {name} ({l},{c})")
            if not ok:
                ctx.violation("position", {"doc": docs[i]}, f"token {name} carries ({l},{c}); the source there does not show its opening text (line: {docs[i].split(chr(10))[l-1] if 1 <= l <= docs[i].count(chr(10)) + 1 else None!r})", group="position-" + name)
                break
        if mono != "1":
            ctx.violation("order", {"doc": docs[i]}, f"block tokens are not in non-decreasing line order: {[(n, l) for (n, s, l, c, b) in p if b]}", group="order")
    ctx.corr_cases += len(by_doc)
    ctx.unit("tokens", positioned_tokens_checked=ntok, needed_tab_stop_reading=tabneeded, by_kind=kinds)
    ctx.sample({"doc": docs[idx[2]], "positions": [(n, l, c) for (n, s, l, c, b) in poss[idx[2]]][:8]})
    # the arithmetic kernel against ParserHelper.calculate_deltas (marker-free text): every string over {a, LF} up to length 7
    from pymarkdown.general.parser_helper import ParserHelper
    strs = [""] + list(gen.d_char(["a", "\n"], 7 if ctx.tier == "quick" else 10))
    cases = []
    for s in strs:
        dl, dc = ParserHelper.calculate_deltas(s)
        cases.append((core.cstr(s), f"({core.cZ(dl)}, {core.cZ(dc)})"))
        ctx.count(1, "calculate_deltas")
    if "Model/Pos.v" in ctx.build.ok_files:
        bad = core.coq_mismatches(["PV.Base.Str", "PV.Model.Pos"], "Definition zz_eqb (a b : Z * Z) := (Z.eqb (fst a) (fst b) && Z.eqb (snd a) (snd b))%bool.\n", "calc_deltas", cases, "c05", eqb="zz_eqb", shard=300)
        ctx.corr_cases += len(cases)
        for b in bad[:5]:
            ctx.broke(f"model/implementation correspondence (Model/Pos.v calc_deltas) differs on {strs[b]!r}")
    # ---- leaf-block positions against the spec model CM (documents of the fragment F whose structure PyMarkdown gets right)
    import cm
    from props import c03
    bdocs = []
    for name, ds in c03.spaces(ctx).items():
        bdocs += ds if ctx.tier == "thorough" or len(ds) < 3000 else gen.sample(ds, 3000, ctx.seed + 11)
    bdocs = list(gen.uniq(bdocs))
    cmres = cm.cm_html_many(bdocs)
    keep = [i for i, (inf, h) in enumerate(cmres) if inf and h is not None]
    pyres = impl.pmap(_leafpos, [bdocs[i] for i in keep], chunksize=128)
    reqs = ["LEAFPOS " + str(len(bdocs[i].split("\n"))) + " " + " ".join(extract.enc_str(x) for x in bdocs[i].split("\n")) for i in keep]
    try:
        nsh = 8
        ans = [None] * len(reqs)
        for k, out in enumerate(impl.pmap(extract.run_lines, [reqs[k::nsh] for k in range(nsh)], procs=nsh, chunksize=1)):
            ans[k::nsh] = out
    except Exception as e:
        ctx.broke(f"the extracted spec model could not be run: {e}")
        ans = []
    nb = 0
    for i, pr, a in zip(keep, pyres, ans):
        if pr is None or a.startswith("ERR"):
            continue
        html, mine = pr
        if cm.norm_html(html) != cm.norm_html(cmres[i][1]):
            continue  # the block structure differs: C03's business
        spec_pos = [tuple(int(x) for x in t.split(",")) for t in a.split(" ", 1)[1].split(";") if t] if " " in a else []
        ctx.count(1, "leaf-positions-vs-spec-model")
        nb += 1
        if len(spec_pos) > 1:
            ctx.seen(["leafpos", bdocs[i]])
        if mine != spec_pos:
            diff = next(((x, y) for x, y in zip(mine + [None] * 9, spec_pos + [None] * 9) if x != y), None)
            ctx.violation("leaf-position", {"doc": bdocs[i]}, f"leaf blocks (kind, line, column) {mine} but the spec model places them at {spec_pos} (kinds: 0 paragraph, 1 atx, 2 setext start, 3 break, 4 fence); first difference {diff}", group="leafpos-" + str((diff[0] or diff[1])[0] if diff else "x"))
    ctx.corr_cases += nb
    ctx.unit("leaf-positions", documents_compared=nb)
    ctx.trusted += [
        "leaf-block positions: the spec model CM (Spec/CMBlock.v records the container offset and indentation of every leaf; Spec/RuleSpec.v leaf_positions), compared only where the rendered structure agrees",
        "the position abstraction harness/posabs.py (expected opening text per token kind; an HTML block may be indented: its token points at the start of the raw line)",
        "extraction + driver.ml; the Python mirror of pos_ok is compared with the extracted oracle on every token",
        "columns: a token in a document with tabs is accepted if it is right either as a code-point index or in the 4-column tab-stop reading (counted in units.tokens.needed_tab_stop_reading)",
    ]
    return ctx.finish(
        level="proof",
        rule="leaf-block positions against the spec model on the C03 document spaces; every positioned token of the C04 document spaces (without the long delimiter-run space) + multi-line inline elements (links/images with wrapped destinations incl. non-ASCII and escaped, multi-line code spans, raw HTML, emphasis, hard breaks; in paragraphs, quotes, lists) + delimiter runs to 5 symbols; quick = seed-selected subsets; non-trivial = a document with more than 3 positioned tokens; distinct by document",
        assumptions=["documents that do not parse are C01's business", "that every token of every document satisfies the oracle is established by enumeration, not proved"],
        extra_cov={"exhaustive": ctx.tier == "thorough"},
    )
