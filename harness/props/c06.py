"""C06 - rule verdicts match the documented condition (Spec/RuleSpec.v over the block structure of the spec model CM)."""
import collections
import itertools
import zlib

import cm
import core
import extract
import gen
import impl

RULES = [1, 3, 4, 9, 10, 12, 13, 18, 19, 22, 23, 24, 25, 26, 31, 32, 35, 40, 41, 46, 47, 48]
HEADING_RULES = {1, 3, 22, 23, 24, 25, 26, 41}
STYLE3 = {"consistent": 0, "atx": 1, "atx_closed": 2, "setext": 3, "setext_with_atx": 4, "setext_with_atx_closed": 5}
DEFAULT = {
    "md009": {"br_spaces": 2, "strict": False},
    "md010": {"code_blocks": True},
    "md013": {"line_length": 80, "code_block_line_length": 80, "heading_line_length": 80, "code_blocks": True, "headings": True, "strict": False},
    "md012": {"maximum": 1},
    "md022": {"lines_above": 1, "lines_below": 1},
    "md025": {"level": 1},
    "md041": {"level": 1},
    "md003": {"style": "consistent"},
    "md046": {"style": "consistent"},
    "md048": {"style": "consistent"},
    "md026": {"punctuation": ".,;:!。，；：！"},
    "md035": {"style": "consistent"},
    "md004": {"style": "consistent"},
    "md024": {"siblings_only": False},
}


def _cfg(**over):
    c = {k: dict(v) for k, v in DEFAULT.items()}
    for k, v in over.items():
        c[k].update(v)
    return c


CONFIGS = {
    "default": _cfg(),
    "short": _cfg(md013={"line_length": 20, "code_block_line_length": 10, "heading_line_length": 30}, md012={"maximum": 2}, md009={"br_spaces": 3},
                  md025={"level": 2}, md041={"level": 2}, md003={"style": "atx"}, md046={"style": "fenced"}, md048={"style": "tilde"},
                  md035={"style": "---"}, md026={"punctuation": ".?"}, md004={"style": "asterisk"}, md022={"lines_above": 0, "lines_below": 1}),
    "strict": _cfg(md013={"line_length": 15, "code_blocks": False, "headings": False, "strict": True}, md009={"strict": True}, md010={"code_blocks": False}, md012={"maximum": 0},
                   md003={"style": "setext_with_atx"}, md046={"style": "indented"}, md048={"style": "backtick"}, md035={"style": "***"}, md004={"style": "sublist"},
                   md022={"lines_above": 2, "lines_below": 0}),
    "code-low": _cfg(md013={"line_length": 30, "code_block_line_length": 12, "heading_line_length": 30}, md010={"code_blocks": False}, md003={"style": "setext"}, md022={"lines_above": 1, "lines_below": 2}, md004={"style": "plus"}, md024={"siblings_only": True}),
    "head-low": _cfg(md013={"line_length": 30, "code_block_line_length": 30, "heading_line_length": 12, "code_blocks": True}, md003={"style": "atx_closed"}, md004={"style": "dash"}),
    "closed": _cfg(md013={"line_length": 25, "code_block_line_length": 40, "heading_line_length": 18}, md003={"style": "setext_with_atx_closed"}, md009={"br_spaces": 0}, md024={"siblings_only": True}),
}

W = ["# a", "## b", "### c.", "#d", "#  e", " # f", "a", "", "long line with words xx", "averyveryverylongwordwithoutspaces", "tail  ", "tail ", "tail   ",
     "```", "```py", "~~~", "    code", "    long code line with words", "---", "***", "- - -", "===", "a b c d e f g h i j", "- item", "> quote", "1. one",
     "``` ", "# a #", "## long heading with words yy", "  - sub", "   text", "# a", "Setext", "> # q", "- ## l", "  ", "##", "+ p", "* s", "  + t", "## a", "### a", "#### d", "##### e"]


def spec_params(c):
    p = [c["md009"]["br_spaces"], int(c["md009"]["strict"]),
         c["md013"]["line_length"], c["md013"]["code_block_line_length"], c["md013"]["heading_line_length"], int(c["md013"]["code_blocks"]), int(c["md013"]["headings"]), int(c["md013"]["strict"]),
         c["md012"]["maximum"], c["md022"]["lines_above"], c["md022"]["lines_below"], c["md025"]["level"], c["md041"]["level"],
         STYLE3[c["md003"]["style"]], {"consistent": 0, "fenced": 1, "indented": 2}[c["md046"]["style"]], {"consistent": 0, "backtick": 1, "tilde": 2}[c["md048"]["style"]],
         {"consistent": 0, "asterisk": 1, "plus": 2, "dash": 3, "sublist": 4}[c["md004"]["style"]], int(c["md024"]["siblings_only"]), int(c["md010"]["code_blocks"])]
    hr = "" if c["md035"]["style"] == "consistent" else c["md035"]["style"]
    return " ".join(map(str, p)) + " " + extract.enc_str(c["md026"]["punctuation"]) + " " + extract.enc_str(hr)


def _scan(job):
    doc, cname = job
    from pymarkdown.api import PyMarkdownApi, PyMarkdownApiException
    api = PyMarkdownApi()
    c = CONFIGS[cname]
    for rule, items in c.items():
        for k, v in items.items():
            name = f"plugins.{rule}.{k}"
            if isinstance(v, bool):
                api.set_boolean_property(name, v)
            elif isinstance(v, int):
                api.set_integer_property(name, v)
            else:
                api.set_string_property(name, v)
    try:
        r = api.scan_string(doc)
    except PyMarkdownApiException as e:
        return "err", str(e)[:200]
    except BaseException as e:  # noqa
        return "exc", f"{type(e).__name__}: {e}"[:200]
    out = collections.defaultdict(set)
    for f in r.scan_failures:
        out[int(f.rule_id[2:])].add(f.line_number)
    return "ok", {k: sorted(v) for k, v in out.items()}


def _py_html(doc):
    st, toks = impl.parse(doc)
    if st != "ok":
        return None
    try:
        return impl.to_html(toks)
    except BaseException:  # noqa
        return None


def parse_answer(ans):
    inf, rest = ans.split(" ", 1)
    res = {}
    for part in rest.split(";"):
        rid, v = part.split(":")
        m, o = v.split("|")
        res[int(rid)] = ([int(x) for x in m.split(",") if x], set(int(x) for x in o.split(",") if x))
    return inf == "1", res


def spaces(ctx):
    d2 = list(gen.d_line(W, 2))
    d3 = list(gen.d_line(W, 3, final_newline=(True,)))
    d4 = gen.sample(list(gen.d_line(W[:30], 4, final_newline=(True,))), 30000, 11)
    va = list(gen.d_line(gen.V_ALL, 3, final_newline=(True,)))
    # tabs between letters (the only tabs of the fragment), in paragraphs, in indented and fenced code, in fences that the end of their
    # container closes: the documents of MD010 and its code_blocks item
    T = ["a\tb", "  a\tb", "- ```", "> ```", "> a\tb", "```", "~~~text", "    c\td", "text", "", "- x", "1. ```", "   p\tq", "# h\ti", "after", "> x"]
    tabs = list(gen.d_line(T, 3, final_newline=(True,))) + gen.sample(list(gen.d_line(T, 4, final_newline=(True,))), 6000, 13)
    tabs = [d for d in tabs if "\t" in d]
    if ctx.tier == "quick":
        # W=3 below: every 3-line document that ends in a setext underline candidate, and a sample of the others
        key = [d for d in tabs if d.count("\n") <= 3 and any(t in d for t in ("- ```", "> ```", "1. ```"))]      # a fence opened inside a container, a tab somewhere
        return {"tabs<=4": list(gen.uniq(key + gen.sample(tabs, 800, ctx.seed + 3))), "W<=2": d2, "W=3": list(gen.uniq([d for d in d3 if d.endswith("\n===\n") or d.endswith("\n---\n")] + gen.sample(d3, 3000, ctx.seed))), "W=4": gen.sample(d4, 1500, ctx.seed + 1), "V_all<=3": gen.sample(va, 2500, ctx.seed + 2)}
    return {"tabs<=4": tabs, "W<=2": d2, "W=3": d3, "W=4": d4, "V_all<=3": va}


def run(ctx):
    ctx.prove("Props/C06.v", ["Spec/CMBlock.v", "Spec/RuleSpec.v", "Proofs/RuleSpecProofs.v", "Extract/Extract.v"])
    sp = spaces(ctx)
    docs, origin = [], []
    for name, ds in sp.items():
        for d in ds:
            docs.append(d)
            origin.append(name)
    # the fragment, and the documents on which PyMarkdown's block structure is the spec model's (C03 is the premise of C06)
    cmres = cm.cm_html_many(docs)
    keep = [i for i, (inf, h) in enumerate(cmres) if inf and h is not None]
    pyh = impl.pmap(_py_html, [docs[i] for i in keep], chunksize=128)
    good = [i for i, ph in zip(keep, pyh) if ph is not None and cm.norm_html(ph) == cm.norm_html(cmres[i][1])]
    ctx.unit("documents", enumerated=len(docs), in_fragment=len(keep), structure_agrees_with_spec_model=len(good))
    cnames = list(CONFIGS)
    jobs = []
    for i in good:
        n_other = len(cnames) - 1
        k = zlib.crc32(docs[i].encode("utf-8", "surrogatepass"))        # the two extra configurations of a document do not depend on the seed ...
        if origin[i] in ("W<=2", "tabs<=4"):
            cs = cnames if ctx.tier == "thorough" or origin[i] == "W<=2" else ["default", "strict", "code-low"]
        elif ctx.tier == "thorough":
            # every configuration for the short documents; the default and two others (fixed per document) for the rest
            cs = ["default", cnames[1 + k % n_other], cnames[1 + (k % n_other + 1 + (k // 7) % (n_other - 1)) % n_other]]
        else:
            # ... the quick tier takes one of the two, chosen by the seed: every quick case is a thorough case whatever the seed
            two = [cnames[1 + k % n_other], cnames[1 + (k % n_other + 1 + (k // 7) % (n_other - 1)) % n_other]]
            cs = ["default", two[(k // 3 + ctx.seed) % 2]]
        for c in cs:
            jobs.append((i, c))
    reqs = []
    for i, c in jobs:
        pieces = docs[i].split("\n")
        reqs.append("RULES " + spec_params(CONFIGS[c]) + " " + str(len(pieces)) + " " + " ".join(extract.enc_str(x) for x in pieces))
    nshard = 16
    shards = [reqs[k::nshard] for k in range(nshard)]
    answers = [None] * len(reqs)
    for k, out in enumerate(impl.pmap(extract.run_lines, shards, procs=nshard, chunksize=1)):
        answers[k::nshard] = out
    scans = impl.pmap(_scan, [(docs[i], c) for i, c in jobs], chunksize=64)
    reported = set()
    for (i, c), ans, (st, rep) in zip(jobs, answers, scans):
        d = docs[i]
        if ans.startswith("ERR"):
            ctx.broke(f"the rule specification failed on {d!r}: {ans}")
            continue
        if st != "ok":
            ctx.unit("skipped", scan_failed=1)
            continue
        _, spec = parse_answer(ans)
        ctx.count(1, origin[i] + "/" + c)
        ctx.corr_cases += 1
        interesting = False
        spans = _pairs(spec[0][0])
        for rid in RULES:
            must, open_ = set(spec[rid][0]), spec[rid][1]
            got = set(rep.get(rid, []))
            if rid in HEADING_RULES:
                # the documentation does not say at which line of a setext heading a report is placed: any of its lines counts
                got = {next((b for a, b in spans if a <= x <= b), x) for x in got}
            if rid == 32:
                # ... nor at which line of a list: a report on a line of the list or on the line after it counts for the list
                lspans = _pairs(spec[33][0])
                got = {next((a for a, b in lspans if a <= x <= b), next((a for a, b in lspans if x == b + 1), x)) for x in got}
            if must or got:
                interesting = True
            missed = sorted(must - got)
            spurious = sorted(got - must - open_)
            vkey = (rid, d, c if f"md{rid:03d}" in DEFAULT else "any")
            if (missed or spurious) and vkey not in reported:
                reported.add(vkey)
                what = []
                if missed:
                    what.append(f"no report at line(s) {missed} where the documented condition holds")
                if spurious:
                    what.append(f"report at line(s) {spurious} where the documented condition does not hold")
                ctx.violation(f"md{rid:03d}", {"doc": d, "config": c if f"md{rid:03d}" in DEFAULT else "any"}, f"MD{rid:03d} ({_cfg_of(rid, c)}): " + "; ".join(what) + f" (reported {sorted(got)}, documented {sorted(must)}, unspecified {sorted(open_)})",
                              group=f"md{rid:03d}-" + ("missed" if missed else "spurious"))
        if interesting:
            ctx.seen([d, c])
    ctx.sample({"doc": docs[good[7]], "config": "default", "spec": {k: sorted(set(v[0])) for k, v in parse_answer(answers[[j for j, (i, c) in enumerate(jobs) if i == good[7]][0]])[1].items() if v[0]}})
    ctx.trusted += [
        "Spec/RuleSpec.v is a specification written from newdocs/src/plugins/rule_md*.md (22 rules), over the block structure of the spec model CM; it is NOT a model of the rule implementations. Where the documentation leaves the reported line or a corner open, the line is listed as unspecified and never counted",
        "extraction + driver.ml; PyMarkdownApi.scan_string with the rules' configuration set through the API",
        "only documents inside the fragment F on which PyMarkdown's HTML equals the spec model's are judged (the property's own premise)",
    ]
    return ctx.finish(
        level="other",
        rule="documents of <= 3 lines over a 44-template vocabulary of headings, long lines, trailing spaces, fences, breaks and containers, a fixed 30000-document sample of 4-line documents, 3-line documents over the general 60-template vocabulary, documents of <= 4 lines over a 16-template vocabulary with tabs between letters (paragraphs, indented and fenced code, fences closed by the end of their container); documents of <= 2 lines under all 6 configurations (default + 5 that move every documented configuration item), the others under the default and two more; quick = seed-selected subsets, each document under the default and one other configuration; non-trivial = a case in which some rule reports or must report; distinct by (document, configuration)",
        assumptions=["inside F (no inline markup, no HTML, tabs only between letters or digits, no link definitions); rules MD042, MD045 are outside this specification", "md013.stern, md009.list_item_empty_lines, md003.allow-setext-update and front-matter titles are not varied"],
        extra_cov={"exhaustive": ctx.tier == "thorough", "explanation": "theorems are about the specification (what its verdicts mean, for all documents); that each rule implements its specification is decided by comparing reported lines on enumerated documents and configurations"},
    )


def _pairs(flat):
    return list(zip(flat[0::2], flat[1::2]))


def _cfg_of(rid, c):
    k = f"md{rid:03d}"
    return f"{c}: {CONFIGS[c][k]}" if k in CONFIGS[c] else c
