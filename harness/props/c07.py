"""C07 - scan never fails internally; reports in range, unique, ordered, deterministic."""
import json
import os
import re

import core
import gen
import impl
from core import Scratch, cZ, clist, cstr

SCRIPT = ["--add-plugin", os.path.join(impl.PLUGDIR, "pv_script.py")]
RIDS = ["MD001", "MD010", "md009", "PVS999", "MD1", "ZZ"]
LINE_RE = re.compile(r"^(.*?):(\d+):(\d+): ([A-Za-z]{2,3}\d{1,3}|ZZ): desc(?: \[(.*)\])? \((.*)\)$")


def gen_script(rng, n):
    out = []
    for _ in range(n):
        out.append([rng.randrange(1, 4), rng.randrange(1, 4), rng.choice(RIDS), rng.choice(["", "", "x", "Expected: 1; Actual: 2"])])
    if n >= 2 and rng.random() < 0.4:  # exact duplicates and same-key entries
        out.append(list(out[0]))
    return out


def _run_script(script):
    with Scratch("pv-c07-") as d:
        open(os.path.join(d, "f.md"), "w").write("# a\n")
        code, out, err = impl.run_cli(SCRIPT + ["scan", "f.md"], cwd=d, env={"PV_SCRIPT": json.dumps(script)})
        code2, out2, err2 = impl.run_cli(SCRIPT + ["scan", "f.md"], cwd=d, env={"PV_SCRIPT": json.dumps(script)})
    return code, out, err, (code2, out2, err2) == (code, out, err)


def coq_failure(line, col, rid, extra):
    return f"(mkF [] {cZ(line)} {cZ(col)} {cstr(rid)} {cstr(extra)})"


# ---------------------------------------------------------------- exploration on documents

_RULES = None


def all_rule_ids():
    global _RULES
    if _RULES is None:
        from translate.rule_table import read_rules
        _RULES = sorted(r["id"] for r in read_rules(core.REPO))
    return _RULES


def scan_doc(job):
    """job = (doc, config) ; config: 'default' | 'all' | 'only:mdNNN'"""
    doc, config = job
    from pymarkdown.api import PyMarkdownApi, PyMarkdownApiException

    def once():
        api = PyMarkdownApi()
        if config == "all":
            for other in all_rule_ids():        # there is no enable wildcard
                api.enable_rule_by_identifier(other)
        elif config.startswith("only:"):
            for other in all_rule_ids():        # "-d *" would win over "-e"
                if other != config[5:]:
                    api.disable_rule_by_identifier(other)
            api.enable_rule_by_identifier(config[5:])
        try:
            r = api.scan_string(doc)
            return "ok", [(f.line_number, f.column_number, f.rule_id, f.extra_error_information or "") for f in r.scan_failures], \
                [(p.line_number, p.pragma_error) for p in r.pragma_errors]
        except PyMarkdownApiException as e:
            return "err", str(e)[:300], None
        except BaseException as e:  # noqa
            return "exc", f"{type(e).__name__}: {e}"[:300], None

    return once(), once()


def _twice_in_one_run(job):
    """the same bytes under two names in one scan, a file full of pragmas aimed at the document's own failures between them"""
    doc, fails = job
    from pymarkdown.api import PyMarkdownApi, PyMarkdownApiException
    nl = max(l for l, _, _ in fails)
    mid = []
    for ln in range(1, nl):
        ids = sorted({r.lower() for l, _, r in fails if l == ln + 1})
        mid.append(f"<!-- pyml disable-next-line {','.join(ids)}-->" if ids else "x")
    with core.Scratch("pv-c07t-") as d:
        for n, t in (("f1.md", doc), ("f2.md", "\n".join(mid + ["y"]) + "\n"), ("f3.md", doc)):
            open(os.path.join(d, n), "w", encoding="utf-8", newline="").write(t)
        try:
            r = PyMarkdownApi().scan_path(d)
        except PyMarkdownApiException as e:
            return "err", str(e)[:200]
        per = {}
        for f in r.scan_failures:
            per.setdefault(os.path.basename(f.scan_file), []).append((f.line_number, f.column_number, f.rule_id, f.extra_error_information or ""))
    return "ok", per.get("f1.md", []), per.get("f3.md", [])


def check_doc_result(ctx, doc, config, res, parse_ok):
    (st, fs, _), second = res
    inp = {"doc": doc, "config": config}
    if (st, fs) != second[:2]:
        ctx.violation("determinism", inp, f"two scans differ: {fs!r} vs {second[1]!r}")
        return
    if st != "ok":
        if "BadTokenizationError" in fs or "tokeniz" in fs.lower():
            return  # C01's business: the property quantifies over parseable documents
        if not parse_ok:
            return
        m = re.search(r"Plugin id '(\w+)'", fs)
        ctx.violation("plugin-error", inp, f"scan failed: {fs}", group="plugin-error-" + (m.group(1) if m else "other"))
        return
    lines = doc.split("\n")
    for (l, c, rid, extra) in fs:
        if not (1 <= l <= len(lines)):
            ctx.violation("range", inp, f"{rid} reported line {l}; the document has {len(lines)} lines", group=f"range-line-{rid}")
        elif not (1 <= c <= len(lines[l - 1].expandtabs(4)) + 1):
            ctx.violation("range", inp, f"{rid} reported column {c} on line {l} of length {len(lines[l-1])}", group=f"range-col-{rid}")
    keys = [(l, c, rid.upper()) for (l, c, rid, _) in fs]
    if keys != sorted(keys):
        ctx.violation("order", inp, f"reports not ordered by (line, column, rule id): {keys}")
    if len(set(fs)) != len(fs):
        dup = sorted({f[2] for f in fs if fs.count(f) > 1})
        ctx.violation("unique", inp, f"a failure is printed more than once: {fs}", group="unique-" + "-".join(dup))


def _parses(doc):
    return impl.parse(doc)[0] == "ok"


def run(ctx):
    ctx.prove("Props/C07.v", ["Gen/FailureLt.v", "Base/Sort.v", "Base/StrOrder.v", "Model/Report.v", "Proofs/ReportProofs.v"])
    # ---- (1) correspondence of Model/Report.v: arbitrary report sequences through the real engine
    nscripts = 250 if ctx.tier == "quick" else 1500
    scripts = [gen_script(ctx.rng, ctx.rng.randrange(0, 7)) for _ in range(nscripts)]
    scripts += [[[2, 1, "MD010", ""], [1, 3, "MD001", ""], [1, 3, "MD001", "x"], [1, 2, "md009", ""], [1, 3, "MD001", ""]]]
    res = impl.pmap(_run_script, scripts)
    cases = []
    for sc, (code, out, err, same) in zip(scripts, res):
        ctx.count(1, f"script/len{len(sc)}")
        ctx.seen(sc)
        if not same:
            ctx.violation("determinism", {"script": sc}, "two identical runs printed different output")
        got = []
        for line in out.split("\n"):
            if not line.strip():
                continue
            m = LINE_RE.match(line)
            if not m:
                ctx.broke(f"unparsed scan output line {line!r} (stderr {err[-200:]!r})")
                continue
            got.append((int(m.group(2)), int(m.group(3)), m.group(4), m.group(5) or ""))
        want_code = 1 if sc else 0
        if code != want_code:
            ctx.broke(f"script run exit {code}, expected {want_code}: {err[-300:]}")
        # log_scan_failure upper-cases the id on output: the model sorts what was collected; compare modulo case
        cases.append((clist((coq_failure(*e) for e in sc), "failure"),
                      clist((coq_failure(l, c, rid, ex) for (l, c, rid, ex) in got), "failure")))
    ctx.sample({"script": scripts[-1], "stdout": res[-1][1]})
    if "Model/Report.v" in ctx.build.ok_files:
        defs = ("Definition up (c : N) : N := if (N.leb 97 c && N.leb c 122)%bool then (c - 32)%N else c.\n"
                "Definition upf (f : failure) := mkF (f_file f) (f_line f) (f_col f) (map up (f_rid f)) (f_extra f).\n")
        bad = core.coq_mismatches(["PV.Base.Str", "PV.Gen.FailureLt", "PV.Model.Report"], defs,
                                  "(fun rs => map upf (printed (fun _ => false) rs))", cases, "c07",
                                  eqb="(list_eqb failure_eqb)")
        ctx.corr_cases += len(cases)
        for i in bad[:10]:
            ctx.broke(f"model/implementation correspondence (Model/Report.v printed) differs on script {scripts[i]}: impl printed {res[i][1]!r}")
            # is it a property violation on the implementation?  (order / multiplicity)
            got = [LINE_RE.match(l) for l in res[i][1].split("\n") if l.strip()]
            keys = [(int(m.group(2)), int(m.group(3)), m.group(4).upper()) for m in got if m]
            if keys != sorted(keys):
                ctx.violation("order", {"script": scripts[i]}, f"reports not ordered by (line, column, rule id): {keys}")
            if sorted(keys) != sorted((l, c, r.upper()) for (l, c, r, _) in scripts[i]):
                ctx.violation("unique", {"script": scripts[i]}, f"collected reports and printed reports differ as multisets: {keys}")
    # ---- (2) the property itself on documents
    s1 = list(gen.uniq(list(gen.POOL) + list(gen.d_line(gen.V_ALL, 2))))
    s2 = list(gen.d_line(gen.V_CONT + gen.V_INLINE[:6], 3))
    s3 = list(gen.d_char(gen.A_CHAR + ["\t", "["], 4))
    s4 = list(gen.uniq(gen.d_trig()))
    small = list(gen.uniq(list(gen.POOL) + list(gen.d_line(gen.V_ALL, 1)) + list(gen.d_trig_small())))
    # a multi-line inline element (its line ending inside the element) followed, in the same paragraph, by lines on which
    # line-start rules look at the paragraph's per-line leading white space
    ml = []
    for pre in ("", "> ", "- ", "1. "):
        pad = " " * len(pre) if pre in ("- ", "1. ") else pre
        for elem in ("abc ` code\n{i}` def", "x [t\n{i}u](/v) y", "x *a\n{i}b* y", "x <b\n{i}c='d'> y", "abc\\\n{i}def"):
            for ind in ("", " ", "   "):
                for tail in ("#a", "  #a", "#a#", "a  b", "* a *", "http://x.y"):
                    ml.append(pre + elem.replace("{i}", pad + ind) + "\n" + pad + tail + "\n")
    small += ml
    # character references to line ends and other control characters inside paragraphs and headings
    small += ["foo&#10;&#10;bar\n", "foo&#10; \n and \n&#10;bar\n", "# a&#10;b\n", "- a&#10;b\n#c\n", "a&#13;b\n", "a&#9;b\n", "> x&#10;#y\n"]
    if ctx.tier == "quick":  # a seed-selected subset of the space the thorough tier walks completely
        docs = list(gen.uniq(small + gen.sample(s1, 1500, ctx.seed) + gen.sample(s2, 1200, ctx.seed + 1) + gen.sample(s3, 600, ctx.seed + 2) + gen.sample(s4, 1500, ctx.seed + 3)))
        alone_docs = small
    else:
        docs = list(gen.uniq(small + s1 + s2 + s3 + s4))
        alone_docs = list(gen.uniq(small + gen.sample(s1, 600, 12345)))
    docs = [d for d in docs if d.strip()]
    alone_docs = [d for d in alone_docs if d.strip()]
    parse_ok = dict(zip(docs, impl.pmap(_parses, docs)))
    for d in alone_docs:
        parse_ok.setdefault(d, True)
    jobs = [(d, c) for d in docs for c in ("default", "all")]
    jobs += [(d, "only:" + r) for d in alone_docs for r in all_rule_ids()]
    results = impl.pmap(scan_doc, jobs, chunksize=32)
    for (d, c), r in zip(jobs, results):
        ctx.count(1, "scan/" + (c if not c.startswith("only:") else "alone"))
        if r[0][0] == "ok" and r[0][1]:
            ctx.seen([d, c])
        check_doc_result(ctx, d, c, r, parse_ok.get(d, True))
    ctx.sample({"doc": jobs[7][0], "config": jobs[7][1], "failures": results[7][0][1]})
    # the same input twice in one invocation prints the same thing
    tw = [(d, [(l, c, rid) for (l, c, rid, _) in r[0][1]]) for (d, c), r in zip(jobs, results) if c == "default" and r[0][0] == "ok" and r[0][1] and "\r" not in d]
    tw = tw[: (150 if ctx.tier == "quick" else 2500)]
    for (d, fs), r in zip(tw, impl.pmap(_twice_in_one_run, tw, chunksize=8)):
        ctx.count(1, "same-document-twice-in-one-run")
        if r[0] == "ok" and r[1] != r[2]:
            ctx.violation("determinism", {"doc": d, "config": "default", "run": "f1.md = f3.md = doc, f2.md = pragmas"}, f"the same bytes scanned twice in one run print {r[1]!r} and {r[2]!r}", group="determinism-in-one-run")
    ctx.unit("documents", docs=len(docs), alone_docs=len(alone_docs), rules=len(all_rule_ids()),
             unparseable_skipped=sum(1 for v in parse_ok.values() if not v))
    ctx.trusted += [
        "translator harness/translate/failure_lt.py (+pyexpr.py): __lt__ chain, add_triggered_rule/report_on_triggered_rules shape (fail-closed), report position arithmetic",
        "correspondence: scripted reporter plug-in pv_script.py -> real PluginScanContext/PluginManager/CLI output vs Model/Report.v `printed` (vm_compute)",
        "exploration: PyMarkdownApi.scan_string on the enumerated document spaces (default rules, all rules, each rule alone)",
    ]
    return ctx.finish(
        level="proof",
        rule="(1) random report scripts (0-7 reports, colliding keys and duplicates) through the real engine vs the Coq model; "
             "(2) documents from POOL + D_line(V_ALL,k<=2) + 3-line container/inline documents + D_char(12 chars, n<=4) + trigger-line pairs and repetitions (quick: seed-selected subset of the space thorough walks completely), scanned with default rules, all rules, and each rule alone; "
             "(3) documents with failures scanned twice in one invocation (two names, a file of pragmas aimed at the same lines and rules between them); "
             "non-trivial = a script, or a scan that reported at least one failure; distinct by input",
        assumptions=["a column is judged against the line with tabs expanded to 4-column tab stops (the unit the rules use); the property is silent on the unit",
                     "line range is judged against the lines as delivered to rules (text.split('\\n'): the empty piece after a final newline counts)",
                     "documents that do not parse are C01's business and are skipped here (counted in units.documents.unparseable_skipped)",
                     "absence of rule crashes and range of reports for ALL documents is explored, not proved; the proved part is the ordering/multiplicity/determinism of the engine and the position arithmetic"],
    )
