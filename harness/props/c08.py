import itertools
"""C08 - fix mode preserves meaning: only style changes (fingerprint through an independent renderer)."""
import html.parser
import os
import random
import re

import cm
import core
import gen
import impl
from core import Scratch, cZ, clist, cnat
from translate.rule_table import read_rules

# ------------------------------------------------------------------ fingerprint of rendered HTML


class _FP(html.parser.HTMLParser):
    """HTML -> sequence of block/inline events with the documented normalisations applied:
    heading levels, list numbers, tight/loose paragraphs, emphasis markers and white space do not count."""

    BLOCK = {"p", "blockquote", "ul", "ol", "li", "pre", "hr", "h"}

    def __init__(self):
        super().__init__(convert_charrefs=True)
        self.out = []
        self.text = []
        self.stack = []
        self.in_pre = False

    def flush(self):
        t = "".join(self.text)
        self.text = []
        if self.in_pre:
            lines = [" ".join(l.split()) for l in t.split("\n")]
            while lines and lines[-1] == "":
                lines.pop()
            self.out.append(("code", tuple(lines)))
            return
        t = t.replace("*", "").replace("_", "")
        words = t.split()
        if words:
            self.out.append(("t", " ".join(words)))

    def handle_starttag(self, tag, attrs):
        a = dict(attrs)
        if re.fullmatch(r"h[1-6]", tag):
            tag = "h"
        if tag in ("em", "strong", "br"):
            if tag == "br":          # a hard line break is an inline element of its own
                self.flush()
                self.out.append(("br",))
            return
        if tag == "code" and self.in_pre:
            return
        if tag == "p":
            self.flush()
            return  # paragraph boundaries are marked by the flush: tight and loose items compare equal
        self.flush()
        if tag == "pre":
            self.in_pre = True
            return
        if tag == "a":
            self.out.append(("a", a.get("href", ""), " ".join((a.get("title") or "").split())))
        elif tag == "img":
            self.out.append(("img", a.get("src", ""), " ".join((a.get("alt") or "").replace("*", "").replace("_", "").split()), " ".join((a.get("title") or "").split())))
        elif tag == "code":
            self.out.append(("<code",))
        elif tag in self.BLOCK:
            self.out.append(("<" + tag,))
        else:
            self.out.append(("<raw", tag))

    def handle_startendtag(self, tag, attrs):
        self.handle_starttag(tag, attrs)
        if tag not in ("br", "hr", "img"):
            self.handle_endtag(tag)

    def handle_endtag(self, tag):
        if re.fullmatch(r"h[1-6]", tag):
            tag = "h"
        if tag in ("em", "strong", "br", "img", "hr"):
            return
        if tag == "code" and self.in_pre:
            return
        if tag == "pre":
            self.flush()
            self.in_pre = False
            return
        self.flush()
        if tag == "p":
            self.out.append(("/p",))
            return
        if tag == "code":
            self.out.append(("/code",))
        elif tag in self.BLOCK or tag == "a":
            self.out.append(("/" + tag,))
        else:
            self.out.append(("/raw", tag))

    def handle_data(self, data):
        self.text.append(data)

    def handle_comment(self, data):
        self.flush()
        self.out.append(("comment", " ".join(data.split())))


def fingerprint(html_text):
    p = _FP()
    p.feed(html_text)
    p.close()
    p.flush()
    out = []
    for ev in p.out:
        # "/p" directly followed by text is a paragraph boundary; inside tight items there is none: drop the marker when
        # the next event is not text
        out.append(ev)
    # paragraph ends only matter between two texts
    res = []
    for i, ev in enumerate(out):
        if ev == ("/p",):
            nxt = next((e for e in out[i + 1:] if e != ("/p",)), None)
            if nxt is not None and nxt[0] == "t":
                res.append(("para-break",))
            continue
        res.append(ev)
    # neighbouring lists become one list when their markers are made the same (MD004, MD029): the seam does not count
    merged = []
    for ev in res:
        if merged and ev in (("<ul",), ("<ol",)) and merged[-1] == ("/" + ev[0][1:],):
            merged.pop()
            continue
        merged.append(ev)
    return merged


def _mdit(doc):
    try:
        return impl.markdown_it_html(doc)
    except BaseException as e:  # noqa
        return "EXC:" + type(e).__name__


# ------------------------------------------------------------------ implementation side


def _fix(case):
    doc, enabled, disabled = case
    argv = (["-d", ",".join(disabled)] if disabled else []) + (["-e", ",".join(enabled)] if enabled else [])
    with Scratch("pv-c08-") as d:
        p = os.path.join(d, "f.md")
        open(p, "wb").write(doc.encode("utf-8"))
        e1, o1, r1 = impl.run_cli(argv + ["fix", "f.md"], cwd=d)
        try:
            c1 = open(p, "rb").read().decode("utf-8")
        except BaseException as e:  # noqa
            c1 = None
    return e1, c1, r1[-200:]


def _judge(job):
    doc, fixed = job
    a, b = _mdit(doc), _mdit(fixed)
    if a.startswith("EXC:") or b.startswith("EXC:"):
        return None
    if a.count("<!--") != a.count("-->") or b.count("<!--") != b.count("-->"):
        return None  # an unterminated comment swallows the rest of the HTML in html.parser: cannot be judged this way
    fa, fb = fingerprint(a), fingerprint(b)
    if fa == fb:
        return True
    return [x for x in fa if x not in fb][:3], [x for x in fb if x not in fa][:3]


# ------------------------------------------------------------------ the replacement kernel, called directly


def _replace_case(seed):
    """one random call of FileScanHelper.__apply_replacement_fix on real tokens -> (input description, observed result)"""
    from pymarkdown.extensions.pragma_token import PragmaToken
    from pymarkdown.file_scan_helper import FileScanHelper
    from pymarkdown.general.position_marker import PositionMarker
    from pymarkdown.plugin_manager.replace_tokens_record import ReplaceTokensRecord
    from pymarkdown.tokens.blank_line_markdown_token import BlankLineMarkdownToken

    rng = random.Random(seed)
    nblocks = rng.randint(2, 5)
    parts = []
    for i in range(nblocks):
        parts.append(rng.choice(["a", "a\nb", "# h", "- x", "> q"]))
        parts.append("\n" * rng.randint(1, 4))
    st, toks = impl.parse("".join(parts), {"extensions": {"linter-pragmas": {"enabled": False}}})
    if st != "ok" or len(toks) < 3:
        return None
    toks = list(toks)
    ids = {id(t): i for i, t in enumerate(toks)}
    before = [(i, t.line_number, bool(t.is_end_token)) for i, t in enumerate(toks)]
    si = rng.randrange(len(toks))
    ei = rng.randrange(si, len(toks))
    if toks[ei].is_end_token and rng.random() < 0.7:
        return None
    m = rng.randint(1, 3)
    l0 = rng.randint(1, 9)
    newt = [BlankLineMarkdownToken("", PositionMarker(l0 + j, 0, "")) for j in range(m)]
    for j, t in enumerate(newt):
        ids[id(t)] = 100 + j
    last_line = max(t.line_number for t in toks)
    end_line = toks[ei].line_number
    # lines removed by the replacement: pragmas sit behind them
    a = si
    while a < ei and toks[a].is_end_token:
        a += 1
    delta = m - (toks[ei].line_number - toks[a].line_number + 1)
    cand = [k for k in range(1, last_line + 6) if not (end_line < k <= end_line - delta)]
    keys = sorted(rng.sample(cand, min(len(cand), rng.randint(0, 5))))
    prag = {}
    for j, k in enumerate(keys):
        alt = rng.random() < 0.3
        prag[-k if alt else k] = f"p{j}"
    ptok = PragmaToken(dict(prag))
    toks.append(ptok)
    ids[id(ptok)] = 999

    class Ctx:
        in_fix_mode = True
        is_during_line_pass = False

    fsh = FileScanHelper(None, None, None, False, None)
    try:
        getattr(fsh, "_FileScanHelper__apply_replacement_fix")(Ctx(), ReplaceTokensRecord("x", toks[si], toks[ei], newt), toks)
    except BaseException as e:  # noqa
        return {"seed": seed, "error": f"{type(e).__name__}: {e}"[:200]}
    after = [(ids[id(t)], t.line_number) for t in toks if not t.is_pragma]
    pr = sorted(toks[-1].pragma_lines.items())
    return {"seed": seed, "before": before, "si": si, "ei": ei, "new": [(100 + j, l0 + j) for j in range(m)], "pragmas": sorted(prag.items()), "end_line": end_line,
            "after": after, "pragmas_after": pr}


REPL_DEFS = """
Definition obs (toks : list tk) (si ei : nat) (newt : list tk) (d : dict nat) (e : Z) : list Z :=
  let r := replace_tokens toks si ei newt in
  flat_map (fun t => [Z.of_nat (t_id t); t_line t]) r ++ [(-999999)%Z] ++
  flat_map (fun p => [fst p; Z.of_nat (snd p)]) (shift_pragmas nat d e (line_delta toks si ei newt)).
"""


def run(ctx):
    ctx.prove("Props/C08.v", ["Base/Sort.v", "Model/Replace.v", "Proofs/ReplaceProofs.v"])
    # ---- (A) the replacement kernel against the model
    n = 1500 if ctx.tier == "quick" else 12000
    cases = [c for c in impl.pmap(_replace_case, [ctx.seed * 100000 + i for i in range(n)], chunksize=64) if c]
    errs = [c for c in cases if "error" in c]
    cases = [c for c in cases if "error" not in c]
    for c in errs[:3]:
        ctx.broke(f"direct call of __apply_replacement_fix failed: {c}")
    if ctx.build is not None and "Model/Replace.v" in ctx.build.ok_files and cases:
        exprs = []
        for c in cases:
            tk = lambda i, l, e: f"(mktk {cnat(i)} {cZ(l)} {'true' if e else 'false'})"  # noqa
            toks = clist((tk(i, l, e) for i, l, e in c["before"]), "tk")
            newt = clist((tk(i, l, False) for i, l in c["new"]), "tk")
            # model keys are lines, the alternate prefix is part of the value
            d = clist((f"({cZ(abs(k))}, {cnat(2 * int(v[1:]) + (1 if k < 0 else 0))})" for k, v in c["pragmas"]), "(Z * nat)")
            exprs.append(f"obs {toks} {cnat(c['si'])} {cnat(c['ei'])} {newt} {d} {cZ(c['end_line'])}")
        try:
            res = core.coq_eval(["PV.Model.Replace"], REPL_DEFS, exprs, tag="c08r", shard=150)
        except RuntimeError as e:
            res = None
            ctx.broke(f"evaluation of Model/Replace.v failed: {str(e)[-300:]}")
        if res is not None:
            nbad = 0
            for c, r in zip(cases, res):
                ctx.corr_cases += 1
                ctx.count(1, "replacement-kernel")
                allz = [int(x) for x in re.findall(r"-?\d+", re.sub(r"%[A-Za-z]+", "", r))]
                cut = allz.index(-999999)
                ta, pa = allz[:cut], allz[cut + 1:]
                model_after = list(zip(ta[0::2], ta[1::2]))
                model_pr = sorted(((-k if v % 2 else k), f"p{v // 2}") for k, v in zip(pa[0::2], pa[1::2]))
                if model_after != [tuple(x) for x in c["after"]] or model_pr != [tuple(x) for x in c["pragmas_after"]]:
                    nbad += 1
                    if nbad <= 5:
                        ctx.broke(f"model/implementation correspondence (Model/Replace.v) differs on case seed {c['seed']}: tokens {c['after'][:6]} vs model {model_after[:6]}; pragmas {c['pragmas_after']} vs model {model_pr} (before {c['pragmas']}, end line {c['end_line']})")
                # the kernel's own property on the implementation: no pragma lost
                if len(c["pragmas_after"]) != len(c["pragmas"]):
                    ctx.violation("pragma-shift", {"case_seed": c["seed"]}, f"a replacement ending at line {c['end_line']} turns the pragma lines {c['pragmas']} into {c['pragmas_after']}", group="pragma-lost")
                if c["pragmas"]:
                    ctx.seen(["repl", c["seed"]])
    # ---- (B) whole fix runs: the fingerprint of the fixed file through an independent renderer
    rules = read_rules(core.REPO)
    fixers = sorted(r["id"] for r in rules if r["fix"] and r["default"])
    allids = sorted(r["id"] for r in rules)
    pr_lines = ["a", "", "```", "x", "<!-- pyml disable-next-line md013-->", "<!--- pyml disable-next-line md009-->", "# h", "- i", "b  ", "    c"]
    # base: the same in both tiers, every configuration; extra: default configuration only; the quick tier takes prefixes of
    # the thorough tier's fixed samples so that every quick case is a thorough case
    base = list(gen.POOL) + list(gen.d_trig_small()) + list(gen.d_line(gen.V_ALL, 2, final_newline=(True,)))
    base += ["> # x\n", ">     # x\n", "#  þing\n", "a\n\n\n\n<!-- pyml disable-next-line md009-->\nb \n<!-- pyml disable-next-line md010-->\nc\n",
             "a\n```\nx\n```\n<!-- pyml disable-next-line md009-->\n<!-- pyml disable-next-line md010-->\nc\n", "a\n\n\n\n<!--- pyml disable-next-line md010-->\nb \nc\n"]
    # nested lists whose items sit at every small indentation, with and without a continuation paragraph: the documents on which
    # the list rules (MD005, MD006, MD007) move text; run under the rules alone in both tiers
    nested = []
    for outer, lo in (("- a", 2), ("1. a", 3)):
        for i1, i2, c1, c2 in itertools.product(range(lo, lo + 4), range(lo, lo + 4), (False, True), (False, True)):
            ls = [outer, " " * i1 + "- b"] + (["", " " * (i1 + 2) + "b2"] if c1 else []) + [" " * i2 + "- c"] + (["", " " * (i2 + 2) + "c2"] if c2 else [])
            nested.append("\n".join(ls) + "\n")
    # list items that hold a multi-line inline element and a second paragraph, followed by items with wide marker spacing:
    # the documents on which MD030 / MD027 count source lines per item
    for m, pad in (("-", "  "), ("1.", "   "), ("> -", "> " + "  ")):
        qp = "> " if m.startswith(">") else ""
        for ml in ("`x\n{p}y`", "*x\n{p}y*", "[x\n{p}y](/u)", "<b\n{p}c='d'>", "x\\\n{p}y"):
            for wide in ("   ", "  "):
                body = ml.replace("{p}", pad)
                nested.append(f"{m} a {body} b\n{qp}\n{pad}c\n{m}{wide}d\n{qp}\n{pad}{wide[:-1]}f\n{m} g\n")
                nested.append(f"{m} a {body} b\n{m}{wide}d\n{m} g\n")
    # multi-line setext headings and paragraphs whose lines end in 1-4 spaces (hard breaks that a white-space fix must keep)
    for k in (1, 2, 3, 4):
        for under in ("=====", "-----"):
            nested.append(f"Title first line{' ' * k}\nsecond line\n{under}\n")
            nested.append(f"> Title{' ' * k}\n> second{' ' * k}\n> third\n> {under}\n")
        nested.append(f"para one{' ' * k}\ntwo{' ' * k}\nthree\n\n- item{' ' * k}\n  more\n")
    nested = [d for d in gen.uniq(nested)]
    base = list(gen.uniq(base + nested))
    extra = gen.sample(list(gen.d_line(pr_lines, 5, final_newline=(True,))), 4000, 31)[:4000 if ctx.tier == "thorough" else 700]
    extra += gen.sample(list(gen.d_line(gen.V_ALL, 3, final_newline=(True,))), 12000, 33)[:12000 if ctx.tier == "thorough" else 1500]
    corpus = gen.repo_corpus(core.REPO)
    extra += corpus if ctx.tier == "thorough" else gen.sample(corpus, 600, ctx.seed)
    extra = [d for d in gen.uniq(extra) if d not in set(base)]
    docs = base + extra
    configs = [("default", [], [])] + [("only:" + r, [r], [x for x in allids if x != r]) for r in fixers]
    if ctx.tier == "quick":
        rnd = random.Random(ctx.seed)
        space = [(d, configs[0]) for d in docs] + [(d, rnd.choice(configs[1:])) for d in rnd.sample(base, min(len(base), 1500))]
        space += [(d, c) for d in nested for c in configs[1:] if c[0] in ("only:md005", "only:md006", "only:md007", "only:md030", "only:md027", "only:md009")]
        space = list({(d, c[0]): (d, c) for d, c in space}.values())
    else:
        space = [(d, configs[0]) for d in docs] + [(d, c) for d in base for c in configs[1:]]
    res = impl.pmap(_fix, [(d, c[1], c[2]) for d, c in space], chunksize=16)
    changed = [(d, c, fx) for (d, c), (e1, fx, err) in zip(space, res) if e1 in (0, 3) and fx is not None and fx != d]
    for (d, c), (e1, fx, err) in zip(space, res):
        ctx.count(1, "fix/" + c[0].split(":")[0] + ("/changed" if fx is not None and fx != d else ""))
    verdicts = impl.pmap(_judge, [(d, fx) for d, c, fx in changed], chunksize=32)
    for (d, c, fx), v in zip(changed, verdicts):
        ctx.seen([d, c[0]])
        if v is None or v is True:
            continue
        lost, gained = v
        ctx.violation("fingerprint", {"doc": d, "config": c[0]}, f"the fixed file {fx[:80]!r} renders differently: only in the original {lost}, only in the fixed file {gained}", group="fp-" + _shape(lost, gained))
    ctx.sample({"doc": changed[3][0], "config": changed[3][1][0], "fixed": changed[3][2]} if len(changed) > 3 else {})
    ctx.unit("fix-runs", documents=len(docs), configurations=len(configs), runs=len(space), runs_that_changed_the_file=len(changed))
    ctx.trusted += [
        "correspondence: Model/Replace.v replace_tokens / shift_pragmas (vm_compute) vs FileScanHelper.__apply_replacement_fix called directly on real token lists with random ranges, replacement tokens and pragma dictionaries",
        "independent renderer: the vendored markdown-it-py (commonmark preset); the fingerprint drops what the fixing rules are documented to normalise (heading level, list numbers, tight/loose, emphasis markers, white space, code-block language) and keeps block order and nesting, text words, code lines, link targets, raw HTML, hard line breaks and comments (pragma lines included)",
        "modelled, not verified: the token edits each fixing rule requests and the Markdown regenerator (C02) - decided by the fingerprint enumeration only",
    ]
    return ctx.finish(
        level="proof",
        rule="(A) random replacement cases drawn from one seed; (B) documents (pool, trigger documents, 2-3-line documents over the general vocabulary, 128 nested lists at every small indentation with/without continuation paragraphs and 60 lists whose items hold a multi-line inline element, a second paragraph and wide marker spacing, 5-line documents with pragma lines, repository corpus) under the default rule set and under each fix-capable rule alone; quick = seed-selected subset; non-trivial = a run in which fix changed the file; distinct by (document, configuration)",
        assumptions=["a fix run that ends in an application error is C09's and C15's business", "documents are compared through markdown-it-py only"],
        extra_cov={"exhaustive": False},
    )


def _shape(lost, gained):
    k = lambda evs: "+".join(sorted({e[0].strip("</") or "x" for e in evs}))[:30] or "none"  # noqa
    if not lost and not gained:
        return "nesting"
    return f"{k(lost)}-vs-{k(gained)}"
