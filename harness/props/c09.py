"""C09 - fix mode converges: one run reaches a fixed point with nothing fixable left."""
import itertools
import json
import os
import re

import core
import gen
import impl
from core import Scratch, cZ, clist, cnat
from translate.rule_table import read_rules

TRIG_TEMPLATE = '''
import json, os
from pymarkdown.plugin_manager.plugin_details import PluginDetailsV2
from pymarkdown.plugin_manager.rule_plugin import RulePlugin


class Trig{level}(RulePlugin):
    """fix-capable at level {level}; triggers (as a collector) on text containing T{level}; never fixes anything"""
    def get_details(self):
        return PluginDetailsV2(plugin_name="trig-{level}", plugin_id="TRG{level:03d}", plugin_enabled_by_default=True,
                               plugin_description="verification trigger", plugin_version="0.0.1", plugin_interface_version=2,
                               plugin_supports_fix=True, plugin_fix_level={level})

    def next_token(self, context, token):
        if token.is_text and "T{level}" in token.token_text:
            p = os.environ.get("PV_REC_LOG")
            if p:
                with open(p, "a") as f:
                    f.write(json.dumps({{"level": {level}, "fix": context.in_fix_mode}}) + "\\n")
            if not context.in_fix_mode and "T{level}." in token.token_text:
                self.report_next_token_error(context, token)
'''
LEVELS = [0, 1, 2, 3, 4, 5, 9]


def _sched(markers):
    with Scratch("pv-c09s-") as d:
        argv = []
        for lv in LEVELS:
            p = os.path.join(d, f"trig_{lv}.py")
            open(p, "w").write(TRIG_TEMPLATE.format(level=lv))
            argv += ["--add-plugin", p]
        # every level's plug-in logs when it sees its own marker; the marker of every level is always present so that each
        # pass can be observed; only the levels in `markers` carry the *triggering* spelling
        text = "# a\n\n" + " ".join((f"T{lv}." if lv in markers else f"T{lv}") for lv in LEVELS) + " x\n"
        open(os.path.join(d, "f.md"), "w").write(text)
        log = os.path.join(d, "log")
        code, out, err = impl.run_cli(argv + ["fix", "f.md"], cwd=d, env={"PV_REC_LOG": log})
        evs = [json.loads(l) for l in open(log)] if os.path.exists(log) else []
    return code, evs, err[-200:]


FAMILIES = [("md004", "md005", "md006", "md007", "md029", "md030", "md032"), ("md001", "md003", "md018", "md019", "md020", "md021", "md022", "md023"),
            ("md009", "md010", "md012", "md027", "md047", "md031", "md046", "md048"), ("md035", "md037", "md038", "md039", "md044")]


def _scan_ids(doc):
    with Scratch("pv-c09s-") as d:
        open(os.path.join(d, "f.md"), "wb").write(doc.encode("utf-8"))
        s, so, se = impl.run_cli(["scan", "f.md"], cwd=d)
    return sorted({x.lower() for x in re.findall(r"^f\.md:\d+:\d+: ([A-Z]+\d+):", so, re.M)})


def _converge(case):
    doc, enabled, disabled = case
    argv = (["-d", ",".join(disabled)] if disabled else []) + (["-e", ",".join(enabled)] if enabled else [])
    with Scratch("pv-c09-") as d:
        p = os.path.join(d, "f.md")
        open(p, "wb").write(doc.encode("utf-8"))
        e1, o1, r1 = impl.run_cli(argv + ["fix", "f.md"], cwd=d)
        c1 = open(p, "rb").read().decode("utf-8")
        s, so, se = impl.run_cli(argv + ["scan", "f.md"], cwd=d)
        e2, o2, r2 = impl.run_cli(argv + ["fix", "f.md"], cwd=d)
        c2 = open(p, "rb").read().decode("utf-8")
    ids = sorted(set(re.findall(r"^f\.md:\d+:\d+: ([A-Z]+\d+):", so, re.M)))
    return e1, c1, ids, e2, c2, (r1 + se)[-200:]


def run(ctx):
    ctx.prove("Props/C09.v", ["Base/RuleTypes.v", "Gen/RuleTable.v", "Model/FixSched.v", "Proofs/FixSchedProofs.v"])
    rules = read_rules(core.REPO)
    fixers = sorted(r["id"] for r in rules if r["fix"] and r["default"])
    allids = sorted(r["id"] for r in rules)
    fixable_upper = {r["id"].upper() for r in rules if r["fix"]}
    # ---- (A) the scheduler against the model, with content-driven trigger plug-ins at levels 0,1,2,3,4,5,9
    subsets = [s for n in range(0, len(LEVELS)) for s in itertools.combinations(LEVELS[1:], n)] + [tuple(LEVELS)]
    if ctx.tier == "quick":
        subsets = subsets[::2] + [(1, 3), (9,), (2, 4, 9)]
    sres = impl.pmap(_sched, subsets, chunksize=2)
    coq_cases = []
    for m, (code, evs, err) in zip(subsets, sres):
        ctx.count(1, "scheduler")
        ctx.seen(["sched", list(m)])
        if code not in (0, 3):
            ctx.broke(f"scheduler probe with markers {m} failed: exit {code} {err!r}")
            continue
        seq = []
        for e in evs:
            if e["fix"] and (not seq or seq[-1] != e["level"]) and e["level"] not in seq:
                seq.append(e["level"])
        coq_cases.append((clist((cZ(x) for x in m), "Z"), f"(Some {clist((cZ(x) for x in seq), 'Z')})"))
        # the property-level facts about the schedule
        if seq != sorted(seq) or len(set(seq)) != len(seq):
            ctx.violation("schedule", {"markers": list(m)}, f"levels run: {seq} (not strictly increasing)", group="schedule")
    ctx.sample({"markers": list(subsets[5]), "levels_run": [e for e in sres[5][1] if e["fix"]][:6]})
    if "Model/FixSched.v" in ctx.build.ok_files:
        defs = ("Definition obs (ms : list Z) : option (list Z) := option_map snd (run (fun _ (d : unit) => d) (fun L _ => ms) 10 0%Z tt).\n"
                "Definition o_eqb (a b : option (list Z)) := match a, b with Some x, Some y => list_eqb Z.eqb x y | None, None => true | _, _ => false end.\n")
        bad = core.coq_mismatches(["PV.Base.Str", "PV.Model.FixSched"], defs, "obs", coq_cases, "c09", eqb="o_eqb", shard=40)
        ctx.corr_cases += len(coq_cases)
        for i in bad[:8]:
            ctx.broke(f"model/implementation correspondence (Model/FixSched.v run) differs on trigger levels {subsets[i]}: implementation ran {coq_cases[i][1]}")
    # ---- (B) the property on the implementation
    docs = list(gen.uniq(list(gen.POOL) + gen.sample(list(gen.d_trig_small()), 90, 4711) + ["10. x\n", "a\t\n", "", "\n", "    a\n```\nx\n```\n", "1. a\n1. b\n", "- a\n  - b\n    - c\n", "#  a  #\n\n\n\nb   \n",
                          "a\tb   \n", "\ta   \n", "a\tb \n", "some\ttext   \nx\n", "- a\tb   \n", "a\tb   \n\n\n\nc \n"]))  # one line that two level-0 line fixers both rewrite
    docs += ["\n\n".join("#" * l + " " + "abc"[i] for i, l in enumerate(ls)) + "\n" for ls in itertools.product((1, 2, 3, 4, 5), repeat=3)]   # every ladder of three heading levels
    docs += ["# a\n\n#### b\n\n##### c\n\n###### d\n", "1. one\n3.  three\nx  \n", "1. one\n3.  three\n", "- a\n     - b\n\n       b2\n   - c\n\n     c2\n"]
    # neighbouring list items with different markers at different indentations (where unifying the marker changes which items are siblings)
    docs += [f"{m1} a\n{' ' * i}{m2} b\n" for m1 in "-*+" for m2 in "-*+" for i in range(4) if m1 != m2 or i]
    docs += ["* a\n* b\n - c\n - d\n", "- a\n - b\n  * c\n", "1. a\n 1. b\n", "- a\n\n * b\n"]
    docs = list(gen.uniq(docs))
    configs = [("default", [], [])]
    configs += [("only:" + r, [r], [x for x in allids if x != r]) for r in fixers]
    configs += [("pair:" + a + "+" + b, [a, b], [x for x in allids if x not in (a, b)]) for a, b in itertools.combinations(fixers, 2)]
    space = [(d, c) for d in docs for c in configs]
    if ctx.tier == "quick":
        # the default set for every document; a rule alone and the pairs within its family for the rules that fire on the document
        # (that is where two fixes can meet); a random sample of everything else
        trig = dict(zip(docs, impl.pmap(_scan_ids, docs, chunksize=16)))
        fam = {r: f for f in FAMILIES for r in f}
        want = set()
        for d in docs:
            for a in trig[d]:
                if a in fixers:
                    want.add((d, "only:" + a))
                    for b in fam.get(a, ()):
                        if b != a and b in fixers:
                            want.add((d, "pair:" + "+".join(sorted((a, b)))))
        keep = [s for s in space if s[1][0] == "default" or (s[0], s[1][0]) in want]
        rest = [s for s in space if not (s[1][0] == "default" or (s[0], s[1][0]) in want)]
        space = keep + core.random.Random(ctx.seed).sample(rest, 800)
    res = impl.pmap(_converge, [(d, c[1], c[2]) for d, c in space], chunksize=16)
    for (d, c), (e1, c1, ids, e2, c2, err) in zip(space, res):
        ctx.count(1, "converge/" + c[0].split(":")[0])
        inp = {"doc": d, "config": c[0]}
        if c1 != d:
            ctx.seen(inp)
        en = set(x.upper() for x in c[1]) if c[1] else None
        left = [i for i in ids if i in fixable_upper and (en is None or i in en)]
        if e1 == 1:
            kind = "conflict" if "in conflict" in err else "error"
            ctx.violation("fix-aborts", inp, f"the fix run ends with an application error: {err.strip()[:160]!r}", group="fix-aborts-" + kind)
            continue
        if c2 != c1:
            ctx.violation("idempotent", inp, f"a second fix run changes the file again: {c1!r} -> {c2!r}", group="not-idempotent")
        elif e2 not in (0,):
            ctx.violation("idempotent", inp, f"the second fix run ends with exit {e2} (content unchanged)", group="second-run-exit")
        if left:
            ctx.violation("leftover", inp, f"after fix the scan still reports fixable failures {left} (content {c1!r})", group="leftover-" + "-".join(left))
    # ---- (C) convergence of a file must not depend on what happened to the file processed before it
    for first in ("#  a\n\nb   \n", "# a\n"):
        for second in ("b   \n", "#  c\n\nd   \n", "a\tb\n"):
            for fault in (None, {"cb": "token", "file": "f1.md", "nth": 1, "ctx": "fix"}, {"cb": "line", "file": "f1.md", "nth": 1}):
                ctx.count(1, "converge/after-other-file")
                inp = {"docs": [first, second], "fault_in_first_file": fault}
                with Scratch("pv-c09m-") as d:
                    open(os.path.join(d, "f1.md"), "w").write(first)
                    open(os.path.join(d, "f2.md"), "w").write(second)
                    env = {"PV_FAULT": json.dumps(fault) if fault else "", "PV_FAULT_FIX": "1", "PV_FAULT_LEVEL": "1", "PV_FAULT_ID": "zzx999"}
                    base = ["--add-plugin", os.path.join(impl.PLUGDIR, "pv_fault.py"), "--continue-on-error"]
                    e1, o1, r1 = impl.run_cli(base + ["fix", "f1.md", "f2.md"], cwd=d, env=env)
                    c1 = open(os.path.join(d, "f2.md")).read()
                    s0, so, se = impl.run_cli(["scan", "f2.md"], cwd=d)
                    e2, o2, r2 = impl.run_cli(["fix", "f2.md"], cwd=d)
                    c2 = open(os.path.join(d, "f2.md")).read()
                left = [i for i in sorted(set(re.findall(r"^f2\.md:\d+:\d+: ([A-Z]+\d+):", so, re.M))) if i in fixable_upper]
                if c2 != c1 or left:
                    ctx.violation("after-other-file", inp, f"the second file is not at a fixed point after the run: {c1!r} -> {c2!r}, fixable failures left {left}", group="after-other-file")
                ctx.seen(inp)
    ctx.unit("space", documents=len(docs), configurations=len(configs))
    ctx.trusted += [
        "translator rule_table.py (fix levels of the rules)",
        "correspondence: Model/FixSched.v run (vm_compute) vs the sequence of levels whose plug-in was handed a fixing context, with generated trigger plug-ins at levels 0,1,2,3,4,5,9 whose triggers are driven by the document's content",
        "hypotheses H1-H3 of sched_fixed_point are facts about the 21 fix-capable default rules and their pairs: they are not proved; the conclusion (second run changes nothing, nothing fixable left, second run exits 0) is evaluated on the implementation for the default set, every rule alone and every pair",
    ]
    return ctx.finish(
        level="proof",
        rule=f"(A) subsets of trigger levels; (B) {len(docs)} documents (pool + 90 fixed trigger documents + 14 special) x (default set, {len(fixers)} rules alone, {len(fixers) * (len(fixers) - 1) // 2} pairs); quick = all default-set cases + 1800 seed-selected others; non-trivial = a case in which fix changed the file; distinct by input",
        assumptions=["fix, scan, fix are run on the same file with the same switches; 'fixable left' counts failures of fix-capable rules enabled in that configuration"],
        extra_cov={"exhaustive": ctx.tier == "thorough"},
    )
