"""C10 - fix reporting is truthful and scan is read-only."""
import json
import hashlib
import itertools
import os
import re

import core
import gen
import impl
from core import Scratch, cN, cbool, clist, cnat, cstr

DOCS = ["# Title\n\nsome text\n\x0c", "a\n\x0b", "```\nx\n\x0c", "a\n\x0c\x0b", "a\n \x0c", "1. one\n3.  three\nx  \n", "1. one\n3.  three\n\ty\n", "1. one\n2.  two\n3. three  \n", "# a\n", "#  a\n", "a  \n", "a   \n", "#  a\n\nb   \n", "a\tb\n", "a", "# a\n\n- x\n* y\n", "1. a\n1. b\n3. c\n", "# a\n\n### b\n", "text\n```\ncode\n```\ntext\n",
        "a\n\n\n\nb\n", "**a** __b__\n", "- a\n   - b\n", "** a **\n", "---\n\n***\n", "> a\n>  b\n", "10. x\n", "a  \nb\n", "```\nx\n```\n\n~~~\ny\n~~~\n", "", "\n", "# a #\n",
        "\ta\n", "* a\n+ b\n", "#  a  #\n", "a\n# b\n", "[ a ](/u)\n", "` a `\n", "<!-- pyml disable-next-line md019-->\n#  a\n"]
SCHEMES = {"default": [], "minimal": ["--return-code-scheme", "minimal"]}


def tree_state(*dirs):
    out = {}
    for d in dirs:
        for root, ds, fs in os.walk(d):
            for f in fs:
                p = os.path.join(root, f)
                st = os.stat(p)
                out[os.path.relpath(p, d)] = (hashlib.sha1(open(p, "rb").read()).hexdigest(), st.st_mtime_ns)
            for x in ds:
                out[os.path.relpath(os.path.join(root, x), d) + "/"] = None
    return out


def _fix_run(case):
    docs, scheme, debug = case
    with Scratch("pv-c10-") as d:
        tmpd, work = os.path.join(d, "tmp"), os.path.join(d, "w")
        os.makedirs(tmpd)
        os.makedirs(work)
        names = []
        for i, t in enumerate(docs, 1):
            n = f"f{i}.md"
            open(os.path.join(work, n), "wb").write(t.encode("utf-8"))
            names.append(n)
        # what scan says beforehand (fix-capable rules only are judged later)
        # (every file is scanned, also behind one on which the scan fails; a file whose own scan fails is not judged "clean")
        scode, sout, serr = impl.run_cli(["--continue-on-error", "scan"] + names, cwd=work)
        sout += "".join(f"\n{n}:0:0: SCANERROR0: \n" for n in names if f"'{n}'" in serr or f"{n}:" in serr)
        import tempfile
        old = tempfile.tempdir
        tempfile.tempdir = tmpd
        try:
            code, out, err = impl.run_cli(SCHEMES[scheme] + (["-x-fix-debug", "-x-fix-file-debug"] if debug else []) + ["fix"] + names, cwd=work)
        finally:
            tempfile.tempdir = old
        after = [open(os.path.join(work, n), "rb").read().decode("utf-8") for n in names]
        left = sorted(os.listdir(tmpd)) + sorted(set(os.listdir(work)) - set(names))
    return code, out, err[-300:], after, left, sout


def _api_run(case):
    doc, scheme, how = case
    from pymarkdown.api import PyMarkdownApi, PyMarkdownApiException
    with Scratch("pv-c10a-") as d:
        p = os.path.join(d, "f.md")
        open(p, "wb").write(doc.encode("utf-8"))
        api = PyMarkdownApi()
        if scheme == "minimal":
            api.set_string_property("mode.return_code_scheme", "minimal")
        try:
            if how == "path":
                r = api.fix_path(p)
                return "ok", [os.path.basename(x) for x in r.files_fixed], open(p, "rb").read().decode("utf-8")
            r = api.fix_string(doc)
            return "ok", r.was_fixed, r.fixed_file
        except PyMarkdownApiException as e:
            return "err", str(e)[:200], open(p, "rb").read().decode("utf-8")
        except BaseException as e:  # noqa
            return "exc", f"{type(e).__name__}: {e}"[:200], None


def parse_passes(out, names):
    """debug output -> {name: [ {tokens_fixed, records, out, copied} ]}"""
    res = {n: [] for n in names}
    cur, curfile = None, None
    lines = out.split("\n")
    i = 0
    while i < len(lines):
        l = lines[i]
        m = re.match(r"^--(.*)--$", l)
        if m and i + 2 < len(lines) and lines[i + 2] == "--":
            name, content = m.group(1), lines[i + 1].replace("\\n", "\n")
            if name in res:
                cur = {"tokens_fixed": False, "records": 0, "out": None, "copied": False, "tmp_blocks": 0, "apply": 0}
                res[name].append(cur)
                curfile = name
            elif cur is not None:
                cur["tmp_blocks"] += 1
                cur["out"] = content
            i += 3
            continue
        if cur is not None:
            if l.startswith("FixLineRecord("):
                cur["records"] += 1
            elif l.startswith("APPLY:") or l.startswith("REPLACE"):
                cur["apply"] += 1
            elif l.startswith("Copy ") and l.endswith(" to " + (curfile or "")):
                cur["copied"] = True
        i += 1
    for n in names:
        for p in res[n]:
            p["tokens_fixed"] = p["tmp_blocks"] >= 2
    return res


FIXABLE_IDS = None


def fixable_ids():
    global FIXABLE_IDS
    if FIXABLE_IDS is None:
        from translate.rule_table import read_rules
        FIXABLE_IDS = {r["id"].upper() for r in read_rules(core.REPO) if r["fix"]}
    return FIXABLE_IDS


def _readonly(case):
    argv, stdin = case[0], case[1]
    fault = case[2] if len(case) > 2 else None
    with Scratch("pv-c10r-") as d:
        tmpd, work = os.path.join(d, "tmp"), os.path.join(d, "w")
        os.makedirs(tmpd)
        os.makedirs(os.path.join(work, "sub"))
        for n, t in (("a.md", "#  a\n\nb   \n"), ("b.md", "# ok\n"), ("sub/c.md", "a\tb\n"), ("c.txt", "x\n")):
            open(os.path.join(work, n), "w").write(t)
        os.utime(os.path.join(work, "a.md"), ns=(10**18, 10**18))
        before = tree_state(work, tmpd)
        import tempfile
        old = tempfile.tempdir
        tempfile.tempdir = tmpd
        try:
            if fault is None:
                code, out, err = impl.run_cli(argv, cwd=work, stdin_text=stdin)
            else:
                code, out, err = impl.run_cli(["--add-plugin", os.path.join(impl.PLUGDIR, "pv_fault.py")] + argv, cwd=work, stdin_text=stdin,
                                              env={"PV_FAULT": json.dumps(fault), "PV_FAULT_FIX": "0", "PV_FAULT_ID": "zzx999"})
        finally:
            tempfile.tempdir = old
        after = tree_state(work, tmpd)
    return code, before == after, sorted(set(after) ^ set(before)) + sorted(k for k in before if k in after and before[k] != after[k])


def _lint_reuse(case):
    """one PyMarkdownLint object used for two invocations: a scan of `first`, then a fix of `second`; the fix must end as it does on a fresh object"""
    first, second, scheme = case
    from pymarkdown.main import PyMarkdownLint
    pre = list(SCHEMES[scheme])
    with Scratch("pv-c10l-") as d:
        open(os.path.join(d, "a.md"), "w", encoding="utf-8", newline="").write(first)
        open(os.path.join(d, "b.md"), "w", encoding="utf-8", newline="").write(second)
        lint = PyMarkdownLint()
        c1, _, _ = impl.run_cli(pre + ["scan", "a.md"], cwd=d, lint=lint)
        c2, o2, _ = impl.run_cli(pre + ["fix", "b.md"], cwd=d, lint=lint)
        a2 = open(os.path.join(d, "b.md"), encoding="utf-8", newline="").read()
        open(os.path.join(d, "b.md"), "w", encoding="utf-8", newline="").write(second)
        c3, o3, _ = impl.run_cli(pre + ["fix", "b.md"], cwd=d)
        a3 = open(os.path.join(d, "b.md"), encoding="utf-8", newline="").read()
    return c1, (c2, o2.count("Fixed:"), a2), (c3, o3.count("Fixed:"), a3)


def run(ctx):
    ctx.prove("Props/C10.v", ["Gen/ReturnCodes.v", "Gen/FinalCategory.v", "Model/Runner.v", "Proofs/RunnerProofs.v", "Model/FixPass.v", "Proofs/FixPassProofs.v"])
    rng = core.random.Random(ctx.seed)
    corpus = [d for d in gen.repo_corpus(core.REPO) if "\\" not in d and len(d) < 400]
    trig = list(gen.d_trig_small())
    docs = DOCS + (gen.sample(corpus, 120, ctx.seed) + gen.sample(trig, 80, ctx.seed + 1) if ctx.tier == "quick" else corpus + trig)
    docs = [d for d in dict.fromkeys(docs) if "\\" not in d and "\r" not in d]
    sets = [(d,) for d in docs] + [tuple(rng.choice(docs) for _ in range(rng.choice((2, 3)))) for _ in range(60 if ctx.tier == "quick" else 400)]
    cases = [(s, sch, True) for s in sets for sch in SCHEMES] + [(s, "default", False) for s in sets[:40]]
    res = impl.pmap(_fix_run, cases, chunksize=8)
    codes = {"default": {"fixed": 3, "ok": 0}, "minimal": {"fixed": 0, "ok": 0}}
    coq_cases = []
    for case, (code, out, err, after, left, sout) in zip(cases, res):
        ds, scheme, debug = case
        names = [f"f{i}.md" for i in range(1, len(ds) + 1)]
        ctx.count(1, f"fix/files{len(ds)}/{scheme}")
        inp = {"docs": list(ds), "scheme": scheme}
        if code == 1:                       # an application error (rule conflict, parser failure): what is reported is C15's business,
            ctx.unit("skipped", runs_with_application_error=1)   # but 'bytes change only if announced' holds for such a run as well
            said = re.findall(r"^Fixed: (f\d\.md)$", out, re.M)
            for n, t, a in zip(names, ds, after):
                if a != t and n not in said:
                    ctx.violation("announce", {"doc": t}, f"the run ended with an application error ({err.strip()[:160]!r}); the file was rewritten to {a!r} and not announced as fixed",
                                  group="announce-silent-change-on-error")
            continue
        fixed_lines = re.findall(r"^Fixed: (f\d\.md)$", out, re.M)
        changed = [n for n, t, a in zip(names, ds, after) if a != t]
        if changed:
            ctx.seen(inp)
        for n, t, a in zip(names, ds, after):
            if (n in fixed_lines) != (a != t):
                ctx.violation("announce", {"doc": t}, f"bytes changed: {a != t}; announced as fixed: {n in fixed_lines} (content afterwards {a!r})",
                              group="announce-" + ("silent-change" if a != t else "no-change"))
        want = codes[scheme]["fixed" if fixed_lines else "ok"]
        if code != want:
            ctx.violation("exit", inp, f"announced {fixed_lines} but the run ended with exit {code} (expected {want})", group="exit")
        if left:
            ctx.violation("residue", inp, f"files left behind: {left}", group="residue")
        # a file whose scan shows no failure from a fix-capable rule is left byte-identical
        for n, t, a in zip(names, ds, after):
            ids = set(re.findall(r"^" + re.escape(n) + r":\d+:\d+: ([A-Z]+\d+):", sout, re.M))
            if "SCANERROR0" in ids:
                continue
            if not (ids & fixable_ids()) and a != t:
                ctx.violation("clean-touched", {"doc": t}, f"the scan shows no failure of a fix-capable rule ({sorted(ids)}) but fix rewrites the file to {a!r}", group="clean-touched")
        # model correspondence from the pass-level debug output
        if debug:
            passes = parse_passes(out, names)
            ok = True
            for n in names:
                for p in passes[n]:
                    model_writes = p["tokens_fixed"] or p["records"] > 0
                    if model_writes != p["copied"]:
                        ctx.broke(f"pass bookkeeping differs from Model/FixPass.v pass_writes on {inp}: tokens_fixed={p['tokens_fixed']} records={p['records']} copied={p['copied']}")
                        ok = False
            if ok:
                fs = clist((f"({cN(i)}, {cstr(t)}, {clist((f'mkPass {cbool(p['tokens_fixed'])} {cnat(p['records'])} {cstr(p['out'] or '')}' for p in passes[n]), 'pass')})"
                            for i, (n, t) in enumerate(zip(names, ds), 1)), "file_in")
                exp_final = clist((f"({cN(i)}, {cstr(a)})" for i, a in enumerate(after, 1)), "(N * str)")
                exp_ann = clist((cN(int(x[1])) for x in fixed_lines), "N")
                coq_cases.append((fs, f"({exp_final}, {exp_ann}, {cbool(code == codes[scheme]['fixed'] and bool(fixed_lines))})"))
    ctx.sample({"docs": list(cases[4][0]), "scheme": cases[4][1], "exit": res[4][0], "after": res[4][3]})
    if "Model/FixPass.v" in ctx.build.ok_files and coq_cases:
        defs = ("Definition obs (fs : list file_in) := (final_contents fs, announced fs, match fix_category fs with FIXED_AT_LEAST_ONE_FILE => true | _ => false end).\n"
                "Definition pair_eqb (a b : N * str) := N.eqb (fst a) (fst b) && str_eqb (snd a) (snd b).\n"
                "Definition obs_eqb (a b : list (N * str) * list N * bool) := let '(c1, a1, x1) := a in let '(c2, a2, x2) := b in list_eqb pair_eqb c1 c2 && list_eqb N.eqb a1 a2 && Bool.eqb x1 x2.\n")
        bad = core.coq_mismatches(["PV.Base.Str", "PV.Gen.ReturnCodes", "PV.Model.FixPass"], defs, "obs", coq_cases, "c10", eqb="obs_eqb", shard=100)
        ctx.corr_cases += len(coq_cases)
        for i in bad[:8]:
            ctx.broke(f"model/implementation correspondence (Model/FixPass.v) differs on case #{i}: {coq_cases[i][0][:200]}")
    # ---- the API, both schemes
    acases = [(d, sch, how) for d in docs[:(120 if ctx.tier == "quick" else 1500)] if d.strip() for sch in SCHEMES for how in ("path", "string")]
    ares = impl.pmap(_api_run, acases, chunksize=16)
    base = {}
    for (d, sch, how), r in zip(acases, ares):
        ctx.count(1, f"api/{how}/{sch}")
        inp = {"doc": d, "scheme": sch, "api": "fix_" + how}
        if r[0] != "ok":
            continue
        if how == "path":
            changed = r[2] != d
            if changed != (r[1] == ["f.md"]):
                ctx.violation("api", inp, f"fix_path: bytes changed={changed} but files_fixed={r[1]}", group="api-path")
            base[(d, sch)] = r[2]
        else:
            if r[1] != (r[2] != d):
                ctx.violation("api", inp, f"fix_string: was_fixed={r[1]} but text changed={r[2] != d}", group="api-string")
            if (d, sch) in base and base[(d, sch)] != r[2]:
                ctx.violation("api", inp, "fix_string and fix_path produce different text", group="api-differ")
    # ---- one application object used twice: what an earlier invocation counted must not decide how a fix ends
    lcases = [(a, b, sch) for a in ("#  a\n\nb   \n", "# ok\n", "a\tb\n") for b in ("#  a\n", "# ok\n", "a   \nb", "1. a\n1. b\n3. c\n") for sch in SCHEMES]
    for (a, b, sch), (c1, second, fresh) in zip(lcases, impl.pmap(_lint_reuse, lcases, chunksize=4)):
        ctx.count(1, "reused-application-object")
        ctx.seen(["reuse", a, b, sch])
        if second != fresh:
            ctx.violation("exit", {"docs": [a, b], "scheme": sch, "history": "scan of the first file, then fix of the second, on one PyMarkdownLint object"},
                          f"the fix ends with (exit, announcements, content) {second} after a scan (exit {c1}) on the same object; on a fresh object {fresh}", group="exit-reused-object")
    # ---- scan, scan-stdin, listing and the informational sub-commands are read-only
    ro = [(["scan", "."], None), (["scan", "-r", "."], None), (["scan", "a.md", "b.md"], None), (["scan", "-l", "-r", "."], None), (["fix", "-l", "."], None),
          (["scan-stdin"], "#  a\n\nb   \n"), (["--continue-on-error", "scan-stdin"], "a\tb\n"), (["plugins", "list"], None), (["plugins", "info", "md009"], None),
          (["extensions", "list"], None), (["extensions", "info", "front-matter"], None), (["version"], None), (["scan", "missing.md"], None),
          (["--stack-trace", "scan", "a.md"], None), (["--log-level", "DEBUG", "scan", "b.md"], None), (["-d", "md009", "scan", "a.md"], None),
          (["--return-code-scheme", "minimal", "scan", "."], None), (["scan", "-ae", ".txt", "."], None)]
    # ... also when the run is cut short by a failing plug-in (with and without --continue-on-error)
    for f in ({"cb": "token", "file": None, "nth": 1}, {"cb": "line", "file": None, "nth": 2}, {"cb": "start", "file": None, "nth": 1}):
        ro += [(["scan-stdin"], "#  a\n\nb   \n", f), (["--continue-on-error", "scan-stdin"], "#  a\n\nb   \n", f), (["scan", "a.md", "b.md"], None, f),
               (["--return-code-scheme", "minimal", "scan-stdin"], "a\n", f)]
    rres = impl.pmap(_readonly, ro, chunksize=2)
    for case, (code, same, diff) in zip(ro, rres):
        argv, stdin = case[0], case[1]
        ctx.count(1, "read-only")
        ctx.seen(argv)
        if not same:
            ctx.violation("read-only", {"argv": argv, "stdin": stdin, "fault": case[2] if len(case) > 2 else None}, f"the command created, removed or modified files: {diff}", group="read-only")
    ctx.trusted += [
        "correspondence: Model/FixPass.v (vm_compute) fed with the pass-level facts printed by the project's own -x-fix-debug / -x-fix-file-debug switches (content before each pass, token fixes, FixLineRecords, temporary line file, 'Copy' line) vs the final bytes, the 'Fixed:' lines and the exit status",
        "read-only part: SHA-1 and mtime of every file in the working and temporary directories before/after each non-fixing command",
    ]
    return ctx.finish(
        level="proof",
        rule="30 hand-picked + sampled repository-corpus and trigger documents, alone and in random sets of 2-3 files, both return-code schemes, with the pass-level debug output; the API (fix_path, fix_string) under both schemes; a PyMarkdownLint object used for a scan and then a fix (24 histories); 18 non-fixing commands (and 12 of them cut short by a failing plug-in) for the read-only part; non-trivial = a run that changed some file, or a read-only command; distinct by input",
        assumptions=["runs that end with an application error are C15's business and are skipped here",
                     "'announced -> bytes differ' is not a theorem of the bookkeeping (a rule could register a fix that changes nothing): it is judged on the implementation only"],
    )
