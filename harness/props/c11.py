"""C11 - pragmas suppress exactly what they name and are invisible to the parser."""
import itertools
import re

import core
import gen
import impl
from core import cN, cZ, cbool, clist, cnat, cstr
from translate.rule_table import read_rules

BODY = ["#  a", "#  b", "#  c  ", "#  d", "t   ", ""]          # lines 2.. : md019 on four lines, md009 twice, md022/md041/... around


def pragma_lines(rules, rng, n):
    ids = [r["id"] for r in rules if r["id"] in ("md019", "md009", "md022", "md013")]
    aliases = ["no-multiple-space-atx", "no-trailing-spaces", "blanks-around-headings", "MD019", "Md009", "No-Trailing-Spaces"]
    bad = ["bogus", "md999", "", " ", "md019-", "md01 9"]
    cmds = ["disable-next-line", "disable-num-lines", "Disable-Next-Line", "DISABLE-NUM-LINES", "disable-next-lines", "enable", ""]
    counts = ["1", "2", "3", "9", "0", "-1", "+2", "x", "", "2x", "02"]
    out = []
    for _ in range(n):
        pre = rng.choice(["<!--", "<!---"])
        sp1 = rng.choice([" ", "", "  ", "\t"])
        ttl = rng.choice(["pyml ", "pyml ", "PYML ", "pyml  ", "pyml\t", "pyml"])
        cmd = rng.choice(cmds[:2] * 4 + cmds)
        k = rng.randrange(1, 4)
        idl = rng.choice([",", ", ", " ,", " , "]).join(rng.choice(ids * 3 + aliases * 2 + bad) for _ in range(k))
        mid = cmd
        if cmd.lower() == "disable-num-lines":
            mid += rng.choice([" ", "  "]) + rng.choice(counts)
        mid += rng.choice([" ", " ", "  ", ""]) + idl
        suf = rng.choice(["-->", "-->", "-->", " -->", "--->", "-->  ", "-->\t", "--> x", "->"])
        out.append(pre + sp1 + ttl + mid + suf)
    return out


FIXED_LINES = ["<!-- pyml disable-next-line md019-->", "<!--- pyml disable-next-line md019-->", "<!-- pyml disable-num-lines 2 md019-->",
               "<!-- pyml disable-next-line md019, bogus-->", "<!--- pyml disable-next-line md019--->", "<!-- pyml disable-num-lines 3 md019,md009-->",
               "<!-- pyml disable-next-line no-multiple-space-atx-->", "<!-- pyml disable-num-lines 0 md019-->", "<!-- pyml disable-num-lines md019-->",
               "<!-- pyml disable-num-lines 2-->", "<!-- pyml -->", "<!-- pyml-->", "<!--pyml disable-next-line md019-->", " <!-- pyml disable-next-line md019-->",
               "<!-- pyml disable-next-line md019 -->", "<!-- pyml disable-next-line md019-->   ", "<!-- PYML DISABLE-NEXT-LINE MD019-->", "<!-- pyml disable-next-line -->"]


def _scan(doc):
    from pymarkdown.api import PyMarkdownApi, PyMarkdownApiException
    try:
        r = PyMarkdownApi().scan_string(doc)
        return "ok", sorted((f.line_number, f.column_number, f.rule_id.lower(), f.extra_error_information or "") for f in r.scan_failures), \
            sorted((p.line_number, p.pragma_error) for p in r.pragma_errors)
    except PyMarkdownApiException as e:
        return "err", str(e)[:200], None
    except BaseException as e:  # noqa
        return "exc", f"{type(e).__name__}: {e}"[:200], None


def _recognised(doc):
    st, toks = impl.parse(doc)
    if st != "ok":
        return None
    if toks and toks[-1].is_pragma:
        return sorted(toks[-1].pragma_lines)
    return []


def _case(plines):
    """pragma lines on lines 1..k, then BODY"""
    k = len(plines)
    doc = "\n".join(list(plines) + BODY)
    base = "\n".join(BODY)
    return _scan(doc), _scan(base), _recognised(doc), k


def _tokens(doc):
    st, toks = impl.parse(doc)
    if st != "ok":
        return None
    out = []
    for t in toks:
        if t.is_pragma:
            continue
        s = str(t)
        out.append((t.line_number, t.column_number, s))
    return out


def _shift_str(s, i):
    """shift every (line,col) pair inside a serialised token whose line is > i"""
    return re.sub(r"\((\d+),(\d+)\)", lambda m: f"({int(m.group(1)) + (1 if int(m.group(1)) > i else 0)},{m.group(2)})", s)


def _invisible(case):
    doc, i, pl = case
    lines = doc.split("\n")
    nd = "\n".join(lines[:i] + [pl] + lines[i:])
    a, b = _tokens(doc), _tokens(nd)
    sa, sb = _scan(doc), _scan(nd)
    return a, b, sa, sb


def _fix_text(doc):
    import os
    from core import Scratch
    with Scratch("pv-c11f-") as d:
        p = os.path.join(d, "f.md")
        open(p, "wb").write(doc.encode("utf-8"))
        code, out, err = impl.run_cli(["fix", "f.md"], cwd=d)
        if code not in (0, 3):
            return None
        return open(p, "rb").read().decode("utf-8")


def run(ctx):
    ctx.prove("Props/C11.v", ["Base/RuleTypes.v", "Gen/RuleTable.v", "Gen/FailureLt.v", "Model/Report.v", "Model/Pragma.v", "Proofs/PragmaProofs.v"])
    rules = read_rules(core.REPO)
    idmap = {}
    for r in rules:
        for i in [r["id"]] + r["names"]:
            idmap[i] = r["id"]
    rng = core.random.Random(ctx.seed)
    pool = list(dict.fromkeys(pragma_lines(rules, core.random.Random(4242), 3000)))      # a fixed pool: quick draws from it by seed
    pool_pairs = list(zip(core.random.Random(4243).sample(pool, 600), core.random.Random(4244).sample(pool, 600)))
    gen_lines = FIXED_LINES + (rng.sample(pool, 250) if ctx.tier == "quick" else pool)
    cases = [(l,) for l in gen_lines]
    cases += (rng.sample(pool_pairs, 80) if ctx.tier == "quick" else pool_pairs)
    cases += [("<!-- pyml disable-num-lines 3 md009-->", "<!-- pyml disable-next-line md019-->"), ("<!-- pyml disable-num-lines 4 md019-->", "<!-- pyml disable-next-line md009-->"),
              ("<!-- pyml disable-next-line md019-->", "<!-- pyml disable-num-lines 2 md019,md009-->"), ("<!-- pyml disable-num-lines 2 md019-->", "<!-- pyml disable-num-lines 3 md009-->")]
    res = impl.pmap(_case, cases, chunksize=16)
    coq_cases, idx = [], []
    for ci, (pl, (with_p, base, rec, k)) in enumerate(zip(cases, res)):
        ctx.count(1, f"pragma-text/{k}")
        ctx.seen(list(pl))
        inp = {"pragma_lines": list(pl)}
        if with_p[0] != "ok" or base[0] != "ok" or rec is None:
            ctx.unit("skipped", application_errors=1)
            continue
        recognised = [(-(j + 1) in rec) or ((j + 1) in rec) for j in range(k)]
        alt = [(-(j + 1)) in rec for j in range(k)]
        if not all(recognised):
            # a line that is not taken as a pragma must not produce pragma errors
            if any(l <= k and not recognised[l - 1] for l, _ in with_p[2]):
                ctx.violation("pragma-text", inp, f"a line that is not a pragma produced a pragma error: {with_p[2]}", group="unrecognised-error")
            obs_rec = clist((f"(Some {cbool(a)})" if r else "None" for r, a in zip(recognised, alt)), "option bool")
            coq_cases.append((f"({clist((cstr(l) for l in pl), 'str')}, (@nil (Z * str)))", f"({obs_rec}, (@nil nat), (@nil bool))"))
            idx.append(ci)
            continue
        # all lines are pragmas: the property on the implementation
        _judge(ctx, list(pl), (with_p, base, rec, k), idmap)
        nerr = [sum(1 for l, _ in with_p[2] if l == j + 1) for j in range(k)]
        shifted = [(l + k, c, r, e) for (l, c, r, e) in base[1]]
        got = with_p[1]
        extra = [f for f in got if f not in shifted and f[0] > k]      # failures about the text of the pragma lines themselves (MD009, MD010 ...) are not at issue
        if extra:
            ctx.violation("others", inp, f"failures that the document without the pragma lines does not have: {extra[:3]}", group="others-extra")
        mask = [f not in got for f in shifted]
        # a pragma that is reported as malformed must suppress nothing
        if k == 1 and nerr[0] > 0 and any(mask):
            ctx.violation("malformed", inp, f"the pragma is reported ({[e for _, e in with_p[2]][:2]}) and still suppresses {[f for f, m in zip(shifted, mask) if m][:3]}", group="malformed-suppresses")
        base_fail = clist((f"({cZ(l)}, {cstr(r)})" for (l, c, r, e) in shifted), "(Z * str)")
        obs_rec = clist((f"(Some {cbool(a)})" for a in alt), "option bool")
        coq_cases.append((f"({clist((cstr(l) for l in pl), 'str')}, {base_fail})",
                          f"({obs_rec}, {clist((cnat(n) for n in nerr), 'nat')}, {clist((cbool(m) for m in mask), 'bool')})"))
        idx.append(ci)
    ctx.sample({"pragma_lines": list(cases[3]), "failures": res[3][0][1][:4], "pragma_errors": res[3][0][2]})
    if "Model/Pragma.v" in ctx.build.ok_files:
        defs = ("Definition numbered (ls : list str) : list (Z * str) := map (fun p => (Z.of_nat (fst p), snd p)) (number_from 1 ls).\n"
                "Definition rec (ls : list str) := map is_pragma_line ls.\n"
                "Definition parsed_of (ls : list str) : list parsed := flat_map (fun p => match is_pragma_line (snd p) with Some alt => [parse_pragma rules (fst p) alt (snd p)] | None => [] end) (numbered ls).\n"
                "Definition obs (c : list str * list (Z * str)) := let '(ls, fs) := c in (rec ls, if forallb (fun o => match o with Some _ => true | None => false end) (rec ls) then map n_errors (parsed_of ls) else [], "
                "if forallb (fun o => match o with Some _ => true | None => false end) (rec ls) then map (fun f => suppressed (compile (parsed_of ls)) (fst f) (snd f)) fs else []).\n"
                "Definition ob_eqb (a b : option bool) := match a, b with Some x, Some y => Bool.eqb x y | None, None => true | _, _ => false end.\n"
                "Definition obs_eqb (a b : list (option bool) * list nat * list bool) := let '(r1, e1, m1) := a in let '(r2, e2, m2) := b in list_eqb ob_eqb r1 r2 && list_eqb Nat.eqb e1 e2 && list_eqb Bool.eqb m1 m2.\n")
        bad = core.coq_mismatches(["PV.Base.Str", "PV.Base.RuleTypes", "PV.Gen.RuleTable", "PV.Model.Pragma"], defs, "obs", coq_cases, "c11", eqb="obs_eqb", shard=100)
        ctx.corr_cases += len(coq_cases)
        for j in bad[:10]:
            c = cases[idx[j]]
            ctx.broke(f"model/implementation correspondence (Model/Pragma.v) differs on pragma lines {list(c)}: impl failures {res[idx[j]][0][1][:5]} errors {res[idx[j]][0][2]} recognised {res[idx[j]][2]}")
    # ---- a pragma line is invisible: tokens and failures as if the line had been deleted, later positions shifted by one
    vocab = ["a", "", "# a", "- a", "> a", "  b", "```", "*a* `b`", "[a](/u) c", "1. a", "    c", "a  ", "===", "<b>", "[a]: /u"]
    docs = list(gen.d_line(vocab, 2, final_newline=(True,))) + list(gen.d_line(vocab[:9], 3, final_newline=(True,)))
    space = [(d, i, pl) for d in docs for i in range(0, d.count("\n") + 1) for pl in ("<!-- pyml disable-next-line md047-->", "<!--- pyml disable-num-lines 1 md047-->")]
    if ctx.tier == "quick":
        space = [s for s in space if s[0].count("\n") <= 2][::2] + rng.sample(space, 700)
    ires = impl.pmap(_invisible, space, chunksize=32)
    for (d, i, pl), (a, b, sa, sb) in zip(space, ires):
        ctx.count(1, "invisible")
        inp = {"doc": d, "insert_before_line": i + 1, "pragma": pl}
        if a is None or sa[0] != "ok":
            continue
        if b is None or sb[0] != "ok":
            ctx.violation("invisible", inp, f"with the pragma line inserted the document no longer parses/scans: {sb[1] if sb[0] != 'ok' else 'parser error'}", group="invisible-crash")
            continue
        exp = [((l + 1 if l > i else l) if l else l, c, _shift_str(s, i)) for (l, c, s) in a]
        if b != exp:
            j = next((k for k, (x, y) in enumerate(zip(b, exp)) if x != y), min(len(b), len(exp)))
            kind = (b[j][2] if j < len(b) else exp[j][2]).split("(")[0].strip("[")
            ctx.violation("invisible", inp, f"token #{j}: {b[j] if j < len(b) else None}, expected {exp[j] if j < len(exp) else None}", group="invisible-token-" + re.sub(r"[^a-z-]", "", kind))
            ctx.seen(inp)
            continue
        ctx.seen(inp)
    ctx.corr_cases += len(space)
    # ---- fix mode: every pragma line of the file is still there, in order, after `fix` (a pragma that is lost no longer suppresses)
    pr_lines = ["a", "", "```", "x", "<!-- pyml disable-next-line md013-->", "<!--- pyml disable-next-line md009-->", "<!-- pyml disable-next-line md010-->", "# h", "b  ", "    c"]
    fdocs = [d for d in gen.sample(list(gen.d_line(pr_lines, 5, final_newline=(True,))), 6000, 41)[:6000 if ctx.tier == "thorough" else 900] if "pyml" in d]
    fdocs += ["a\n```\nx\n```\n<!-- pyml disable-next-line md009-->\n<!-- pyml disable-next-line md010-->\nc\n",
              "a\n\n\n\n<!-- pyml disable-next-line md009-->\nb \n<!-- pyml disable-next-line md010-->\nc\n"]
    for d, fixed in zip(fdocs, impl.pmap(_fix_text, fdocs, chunksize=16)):
        ctx.count(1, "fix-keeps-pragmas")
        if fixed is None:
            continue
        want = [l for l in d.split("\n") if "pyml" in l]
        got = [l for l in fixed.split("\n") if "pyml" in l]
        if fixed != d:
            ctx.seen(["fixp", d])
        if want != got:
            ctx.violation("fix-keeps-pragmas", {"doc": d}, f"after fix the pragma lines are {got} (fixed file {fixed[:100]!r})", group="fix-loses-pragma")
    ctx.trusted += [
        "translator rule_table.py (ids and aliases for the pragma id lookup)",
        "correspondence: Model/Pragma.v is_pragma_line / parse_pragma / compile / suppressed / n_errors (vm_compute) vs the parser's pragma token, PyMarkdownApi pragma_errors and the failures that survive, on generated pragma lines (both prefixes, commands in several spellings, every id/alias kind, counts -1..9, blank/unknown ids, odd spacing, wrong terminators), one or two per document incl. overlapping next-line/num-lines",
        "invisibility: direct parser call and API scan with and without an inserted pragma line at every position of enumerated documents",
    ]
    return ctx.finish(
        level="proof",
        rule="(1) 18 fixed + 250 (quick) / 2500 (thorough) generated pragma lines, alone and in pairs, above a 6-line body with known failures; (2) every insertion point of 2 pragma lines into all 2-line and 3-line documents over a 15/9-template vocabulary (quick: half of the 2-line space + 700 seed-selected); non-trivial = every case; distinct by input",
        assumptions=["counts with underscores or non-ASCII digits (accepted by Python's int()) are outside the model and are not generated",
                     "the inserted pragma names md047 so that it suppresses nothing else; md047 is ignored when failures are compared"],
    )


CLEAN = re.compile(r"^<!---?\s*pyml\s+(disable-next-line|disable-num-lines\s+(\d+))\s+([a-z0-9, -]+?)\s*-->$", re.I)


def _judge(ctx, plines, r, idmap):
    """the documented semantics, read independently of the Coq model, for pragmas in the plain documented form
    whose ids all resolve: exactly the named rules on exactly the covered lines are suppressed"""
    with_p, base, rec, k = r
    cover = {}
    for j, pl in enumerate(plines, 1):
        m = CLEAN.match(pl)
        if not m:
            return
        ids = [x.strip().lower() for x in m.group(3).split(",")]
        if not all(i in idmap for i in ids):
            return
        n = int(m.group(2)) if m.group(2) else 1
        if n < 1:
            return
        for line in range(j + 1, j + n + 1):
            cover.setdefault(line, set()).update(idmap[i] for i in ids)
    shifted = [(l + k, c, rr, e) for (l, c, rr, e) in base[1]]
    want = sorted(f for f in shifted if f[2] not in cover.get(f[0], ()))
    got = sorted(f for f in with_p[1] if f[0] > k)
    if got != want:
        ctx.violation("suppress", {"pragma_lines": list(plines)}, f"reported {[f[:3] for f in got]}, the pragmas ask for {[f[:3] for f in want]}", group="suppress-exact")
