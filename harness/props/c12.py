"""C12 - rules are independent: enabling or disabling one never changes another's reports."""
import collections
import json
import os

import core
import gen
import impl
from props.c07 import all_rule_ids


def default_rules():
    from translate.rule_table import read_rules
    return sorted(r["id"] for r in read_rules(core.REPO) if r["default"]), sorted(r["id"] for r in read_rules(core.REPO))


def scan_cfg(job):
    """job = (doc, enable list or None, disable list or None, enable_all) -> ('ok', sorted failure tuples) | ('err', msg)"""
    doc, en, dis, all_ = job[:4]
    from pymarkdown.api import PyMarkdownApi, PyMarkdownApiException
    api = PyMarkdownApi()
    for name, val in (job[4] if len(job) > 4 else ()):
        if isinstance(val, bool):
            api.set_boolean_property(name, val)
        elif isinstance(val, int):
            api.set_integer_property(name, val)
        else:
            api.set_string_property(name, val)
    if all_:
        api.enable_rule_by_identifier("*")
    if dis == ["*"]:
        api.disable_rule_by_identifier("*")
    else:
        for r in dis or []:
            api.disable_rule_by_identifier(r)
    for r in en or []:
        api.enable_rule_by_identifier(r)
    try:
        r = api.scan_string(doc)
        return "ok", sorted((f.line_number, f.column_number, f.rule_id.lower(), f.extra_error_information or "") for f in r.scan_failures)
    except PyMarkdownApiException as e:
        return "err", str(e)[:200]
    except BaseException as e:  # noqa
        return "exc", f"{type(e).__name__}: {e}"[:200]


SCENARIOS = {
    "md009-list-lines": (("plugins.md009.list_item_empty_lines", True), ("plugins.md009.br_spaces", 3)),
    "front-matter-title": (("extensions.front-matter.enabled", True), ("plugins.md025.front_matter_title", "Title"), ("plugins.md041.front_matter_title", "Title")),
    "front-matter": (("extensions.front-matter.enabled", True),),
    "styles": (("plugins.md013.line_length", 20), ("plugins.md013.strict", True), ("plugins.md003.style", "setext_with_atx"), ("plugins.md004.style", "plus"),
               ("plugins.md024.siblings_only", True), ("plugins.md025.level", 2), ("plugins.md041.level", 2), ("plugins.md046.style", "fenced"), ("plugins.md035.style", "***")),
}
FM_DOCS = ["# Title\n\n- a\n   ", "# t\n\n- a\n  \n- b\n", "# t\n\n1. a\n    \n   b  \n", "# t\n\n- a\n \n  c   \nd\n", "---\nTitle: my document\n---\n\nsome text\n", "---\ntitle: x\n---\n\n# h\n", "---\nTitle: x\nSubject: y\n---\n\n# a\n\n# b\n", "---\nTITLE: x\n---\n\n## a\n\ntext  \n",
           "---\nsubject: s\nTitle: t\n---\ntext\n\n# h\n", "---\nauthor: me\n---\n\nsome text\n", "---\nTitle:\n---\n\n# h\n\n# i\n", "---\ntitle: a\nTitle: b\n---\n\ntext\n"]


def _set_args(settings):
    out = []
    for name, val in settings:
        out += ["--set", name + "=" + ("$!" + str(val) if isinstance(val, bool) else "$#" + str(val) if isinstance(val, int) else val)]
    return out


def _mutation_probe(doc, settings=()):
    """two recorders, sorted first and last among all enabled rules, must see identical tokens (no rule mutates a token in scan mode)"""
    if isinstance(doc, tuple):
        doc, settings = doc
    import recgen
    with core.Scratch("pv-c12-") as d:
        open(os.path.join(d, "f.md"), "w", encoding="utf-8", newline="").write(doc)
        a = recgen.make(d, "aaa001", callbacks=("token",))
        z = recgen.make(d, "zzz998", callbacks=("token",))
        log = os.path.join(d, "rec.log")
        code, out, err = impl.run_cli(_set_args(settings) + ["--add-plugin", a, "--add-plugin", z, "-e", ",".join(all_rule_ids()), "scan", "f.md"], cwd=d, env={"PV_REC_LOG": log})
        evs = [json.loads(l) for l in open(log, encoding="utf-8")] if os.path.exists(log) else []
    first = [(e["tok"], e["l"], e["c"]) for e in evs if e["who"] == "AAA001"]
    last = [(e["tok"], e["l"], e["c"]) for e in evs if e["who"] == "ZZZ998"]
    return code, first == last, len(first), err[-200:]


def run(ctx):
    ctx.prove("Props/C12.v", ["Model/Dispatch.v", "Proofs/DispatchProofs.v", "Gen/SharedState.v"])
    default, allr = default_rules()
    corpus = gen.repo_corpus(core.REPO)
    small = list(gen.uniq(list(gen.POOL) + list(gen.d_trig_small())))
    big = [d for d in corpus if d.count("\n") >= 8]
    if ctx.tier == "quick":
        docs = list(gen.uniq(gen.sample(small, 150, ctx.seed) + gen.sample(big, 150, ctx.seed + 1) + gen.sample(corpus, 150, ctx.seed + 2)))
    else:
        docs = list(gen.uniq(small + corpus))
    # pragmas that name several rules: whether a later-named rule is suppressed must not depend on the earlier-named ones
    multi = []
    for first in ("md002", "md041", "no-inline-html", "md013", "md999x"):
        for second, line in (("md013", "x" * 90), ("md009", "tail   "), ("md019", "#  h"), ("md033", "a <b>c</b>"), ("md034", "see http://a.b/c now"), ("md018", "#h")):
            multi.append(f"# t\n\n<!-- pyml disable-next-line {first},{second}-->\n{line}\n")
            multi.append(f"# t\n\n<!-- pyml disable-num-lines 2 {first}, {second}-->\n{line}\n{line}\n")
    # a line on which one line-phase rule fires, followed by lines on which the other line-phase rules fire: what a rule is handed
    # for a line must not depend on what another rule did with an earlier one
    long_line = "x" * 45 + " " + "y" * 45
    for first in ("\t", " \t ", "a\tb", "tail   ", "\t\t"):
        for rest in (long_line, "b\tc", "tail  ", "(http://x.y)[z]", "no newline at end"):
            multi.append("# t\n\n" + first + "\n\n" + rest + ("\n" if "no newline" not in rest else ""))
    docs = multi + docs
    docs = [d for d in docs if d.strip()]
    jobs = []
    for d in docs:
        jobs.append((d, allr, None, False))                     # all rules (there is no enable wildcard: name each)
        jobs.append((d, None, None, False))                     # default set
        for r in allr:
            jobs.append((d, [r], [x for x in allr if x != r], False))   # each rule alone ("-d *" would win over -e)
        for r in default:
            jobs.append((d, None, [r], False))                  # default minus each
    res = impl.pmap(scan_cfg, jobs, chunksize=46)
    per = 2 + len(allr) + len(default)
    for i, d in enumerate(docs):
        chunk = res[i * per:(i + 1) * per]
        all_res, def_res = chunk[0], chunk[1]
        alone = dict(zip(allr, chunk[2:2 + len(allr)]))
        minus = dict(zip(default, chunk[2 + len(allr):]))
        ctx.count(per, "scan")
        if all_res[0] != "ok" or def_res[0] != "ok":
            ctx.unit("skipped", crashing_documents=1)           # parser / rule crash: C01 / C07
            continue
        if all_res[1]:
            ctx.seen(d)
        un_all = sorted(f for r in allr if alone[r][0] == "ok" for f in alone[r][1])
        un_def = sorted(f for r in default if alone[r][0] == "ok" for f in alone[r][1])
        if any(alone[r][0] != "ok" for r in allr):
            ctx.unit("skipped", crashing_documents=1)
            continue
        if all_res[1] != un_all:
            diff = collections.Counter(all_res[1]) - collections.Counter(un_all), collections.Counter(un_all) - collections.Counter(all_res[1])
            ctx.violation("union", {"doc": d, "set": "all"}, f"all rules report {sorted(diff[0])} more and {sorted(diff[1])} less than the union of the rules alone", group="union-" + "-".join(sorted({f[2] for f in list(diff[0]) + list(diff[1])})))
        if def_res[1] != un_def:
            diff = collections.Counter(def_res[1]) - collections.Counter(un_def), collections.Counter(un_def) - collections.Counter(def_res[1])
            ctx.violation("union", {"doc": d, "set": "default"}, f"the default set reports {sorted(diff[0])} more and {sorted(diff[1])} less than the union of its rules alone", group="union-" + "-".join(sorted({f[2] for f in list(diff[0]) + list(diff[1])})))
        for r in default:
            if minus[r][0] != "ok":
                continue
            want = sorted(f for f in def_res[1] if f[2] != r)
            if minus[r][1] != want:
                ctx.violation("disable", {"doc": d, "disabled": r}, f"disabling {r} changes other rules' reports: {minus[r][1]} vs {want}", group="disable-" + r)
    ctx.sample({"doc": docs[0], "all": res[0][1][:5]})
    # ---- the same laws under configured rules and the front-matter extension (a rule may read the front matter; none may change it)
    sdocs = FM_DOCS + [d for d in multi[:6]] + gen.sample(small, 40 if ctx.tier == "quick" else 300, 17)
    sjobs = []
    for sc, settings in SCENARIOS.items():
        for d in sdocs:
            sjobs.append((d, None, None, False, settings))
            for r in default:
                sjobs.append((d, [r], [x for x in allr if x != r], False, settings))
            for r in default:
                sjobs.append((d, None, [r], False, settings))
    sres = impl.pmap(scan_cfg, sjobs, chunksize=46)
    sper = 1 + 2 * len(default)
    k = 0
    for sc in SCENARIOS:
        for d in sdocs:
            chunk = sres[k * sper:(k + 1) * sper]
            k += 1
            ctx.count(sper, "scan-configured/" + sc)
            if any(c[0] != "ok" for c in chunk):
                ctx.unit("skipped", crashing_documents=1)
                continue
            def_res = chunk[0]
            alone = dict(zip(default, chunk[1:1 + len(default)]))
            minus = dict(zip(default, chunk[1 + len(default):]))
            if def_res[1]:
                ctx.seen([sc, d])
            un_def = sorted(f for r in default for f in alone[r][1])
            if def_res[1] != un_def:
                diff = collections.Counter(def_res[1]) - collections.Counter(un_def), collections.Counter(un_def) - collections.Counter(def_res[1])
                ctx.violation("union", {"doc": d, "set": "default", "scenario": sc}, f"under {sc} the default set reports {sorted(diff[0])} more and {sorted(diff[1])} less than the union of its rules alone",
                              group="union-" + "-".join(sorted({f[2] for f in list(diff[0]) + list(diff[1])})))
            for r in default:
                want = sorted(f for f in def_res[1] if f[2] != r)
                if minus[r][1] != want:
                    ctx.violation("disable", {"doc": d, "disabled": r, "scenario": sc}, f"under {sc}, disabling {r} changes other rules' reports: {minus[r][1]} vs {want}", group="disable-" + r)
    # no rule mutates a token in scan mode
    probe_docs = docs[: (235 if ctx.tier == "quick" else 1585)]
    probe_docs = [(d, ()) for d in probe_docs] + [(d, SCENARIOS[sc]) for sc in ("front-matter-title", "front-matter") for d in FM_DOCS]
    pres = impl.pmap(_mutation_probe, probe_docs, chunksize=8)
    for (d, pset), (code, same, n, err) in zip(probe_docs, pres):
        ctx.count(1, "token-immutability")
        if code not in (0, 1) or "Error" in err:
            continue            # the scan ended in an application error (a rule raised: C07's business); the last recorder was never reached
        if not same:
            ctx.violation("mutation", {"doc": d, "settings": [list(x) for x in pset]} if pset else {"doc": d}, "the recorder dispatched last saw different tokens than the recorder dispatched first: a rule modified a token in scan mode", group="mutation")
    ctx.corr_cases += len(probe_docs)
    ctx.unit("documents", docs=len(docs), configurations_per_document=per)
    ctx.trusted += [
        "translator harness/translate/shared_state.py (static analysis of pymarkdown/plugins/**: class-level and module-level mutable state)",
        "the Coq model's premise (private state, immutable payload) is checked by: the generated obligation no_shared_state; first/last recorders seeing identical tokens; the union law evaluated on the implementation",
        "documents: the project's own test documents (test/**/*.py source_markdown / source_file_contents, test/resources/**/*.md) + trigger-line documents",
    ]
    return ctx.finish(
        level="proof",
        rule=f"per document {per} scans: all rules, default set, each of {len(allr)} rules alone, default minus each of {len(default)}; documents from the repository's own test corpus ({len(corpus)} documents; quick: 450 seed-selected incl. 150 with >= 9 lines) + trigger-line documents + 60 documents with pragmas naming two rules + 25 documents in which line-phase rules fire on successive lines; 4 configured scenarios (front matter with a configured title, front matter, non-default styles, MD009 list-item lines) x (12 front-matter and list documents + sampled small documents) x (default set, each default rule alone, default minus each); non-trivial = at least one failure reported; distinct by document",
        assumptions=["documents on which the parser or a rule crashes are skipped here (C01, C07)"],
    )
