"""C13 - results for a file do not depend on which files were processed before it."""
import itertools
import os
import re

import core
import gen
import impl
from core import Scratch

EXTRA = ["#  a\n#  b\n#  c\n#  d\n", "a   \nb   \nc   \nd   \n", "<!-- pyml disable-num-lines 3 md019,md009-->\n#  a\nb   \n", "[l]: /u\n\n[l] [m]\n", "[m]: /v\n\n[l] [m]\n",
         "# T\n\n## a\n\n## a\n", "1. a\n2. b\n", "1. a\n1. b\n", "- a\n\n* b\n", "```\nx\n```\n\n    y\n", "    y\n\n```\nx\n```\n", "*a*\n\n_b_\n", "---\ntitle: x\n---\n\n# h\n",
         "<!-- pyml disable-next-line md041-->\ntext\n", "text\n",
         # thematic breaks of one style per file (a rule that adopts the first style it sees must forget it with the file)
         "# a\n\n---\n\ntext\n\n---\n", "# b\n\n***\n\ntext\n\n***\n", "# c\n\n- x\n\n+ y\n", "# d\n\n* z\n* w\n"]


# a second configuration that switches on the rule options which make rules remember more between headings / lists
OPTIONS = ["--set", "plugins.md024.siblings_only=$!True", "--set", "plugins.md004.style=sublist", "--set", "plugins.md003.style=consistent", "-e", "md002", "-e", "md043"]
EXTRA2 = ["# t\n\n## Linux\n\n### Setup\n\n## Windows\n\n### Setup\n", "## Windows\n\n### Setup\n", "## Intro\n\n# Intro\n", "### Setup\n", "+ a\n  - b\n    * c\n", "- a\n  + b\n", "* a\n",
          "Title\n=====\n\nSub\n---\n\n### Setup\n", "# t\n\n## Windows\n"]


def _run(case):
    docs, mode = case[0], case[1]
    cfg = OPTIONS if len(case) > 2 and case[2] else []
    with Scratch("pv-c13-") as d:
        names = []
        for i, t in enumerate(docs, 1):
            n = f"f{i}.md"
            open(os.path.join(d, n), "wb").write(t.encode("utf-8"))
            names.append(n)
        code, out, err = impl.run_cli(list(case[3]) + cfg + [mode] + names if len(case) > 3 else cfg + [mode] + names, cwd=d)
        after = [open(os.path.join(d, n), "rb").read().decode("utf-8") for n in names]
    per = {n: [l for l in out.split("\n") if l.startswith(n + ":") or l == f"Fixed: {n}"] for n in names}
    perr = {n: [l for l in err.split("\n") if l.startswith(n + ":")] for n in names}
    return code, per, perr, after, bool(err.strip()) and not any(perr.values())


def _alone(case):
    doc, mode, name = case[0], case[1], case[2]
    cfg = OPTIONS if len(case) > 3 and case[3] else []
    with Scratch("pv-c13a-") as d:
        open(os.path.join(d, name), "wb").write(doc.encode("utf-8"))
        code, out, err = impl.run_cli(cfg + [mode, name], cwd=d)
        after = open(os.path.join(d, name), "rb").read().decode("utf-8")
    return code, [l for l in out.split("\n") if l.startswith(name + ":") or l == f"Fixed: {name}"], [l for l in err.split("\n") if l.startswith(name + ":")], after, bool(err.strip()) and "INLINE" not in err


def _api_reuse(pair):
    a, b = pair
    from pymarkdown.api import PyMarkdownApi, PyMarkdownApiException

    def fails(api, d):
        try:
            r = api.scan_string(d)
            return sorted((f.line_number, f.column_number, f.rule_id, f.extra_error_information or "") for f in r.scan_failures), sorted((p.line_number, p.pragma_error) for p in r.pragma_errors)
        except PyMarkdownApiException as e:
            return "err", str(e)[:100]
    api = PyMarkdownApi()
    fails(api, a)
    second = fails(api, b)
    fresh = fails(PyMarkdownApi(), b)
    return second, fresh


CRASH_DOC = "- - - - - - - - - - - - - - - - - - - - - - - - - - - - - - - - - - - - - - - - a\n"      # a known parser failure (C01)


def _api_reuse_err(case):
    """one API object: a first call that raises (missing path, undecodable file, parser failure, failing fix), then a scan of `b`"""
    kind, b = case
    from pymarkdown.api import PyMarkdownApi, PyMarkdownApiException

    def fails(api, d):
        try:
            r = api.scan_string(d)
            return sorted((f.line_number, f.column_number, f.rule_id, f.extra_error_information or "") for f in r.scan_failures), sorted((p.line_number, p.pragma_error) for p in r.pragma_errors)
        except PyMarkdownApiException as e:
            return "err", str(e)[:100]
    with core.Scratch("pv-c13e-") as d:
        api = PyMarkdownApi()
        raised = False
        try:
            if kind == "missing-path":
                api.scan_path(os.path.join(d, "nothing.md"))
            elif kind == "not-utf8":
                open(os.path.join(d, "bad.md"), "wb").write(b"# a\n\xff\xfe\n")
                api.scan_path(os.path.join(d, "bad.md"))
            elif kind == "crash-doc":
                api.scan_string(CRASH_DOC)
            elif kind == "fix-missing":
                api.fix_path(os.path.join(d, "nothing.md"))
            elif kind == "list-missing":
                api.list_path(os.path.join(d, "nothing.md"))
        except PyMarkdownApiException:
            raised = True
        second = fails(api, b)
    fresh = fails(PyMarkdownApi(), b)
    return raised, second, fresh


def run(ctx):
    ctx.prove("Props/C13.v", ["Base/StrLit.v", "Model/History.v", "Proofs/HistoryProofs.v", "Gen/RuleFields.v"])
    pool = [d for d in dict.fromkeys(EXTRA + list(gen.POOL)) if d.strip() and "\r" not in d]
    if ctx.tier == "quick":
        pool = EXTRA + gen.sample([d for d in pool if d not in EXTRA], 14, ctx.seed)
    modes = ("scan", "fix")
    alone = {}
    pool2 = EXTRA2 + EXTRA[:8]
    acases = [(d, m, n) for d in pool for m in modes for n in ("f1.md", "f2.md", "f3.md")]
    acases += [(d, m, n, True) for d in pool2 for m in modes for n in ("f1.md", "f2.md")]
    for c, r in zip(acases, impl.pmap(_alone, acases, chunksize=16)):
        alone[c] = r
    pairs = list(itertools.permutations(pool, 2)) + [(d, d) for d in pool]
    rng = core.random.Random(ctx.seed + 9)
    triples = [tuple(rng.choice(pool) for _ in range(3)) for _ in range(150 if ctx.tier == "quick" else 1500)]
    cases = [(h, m) for h in pairs + triples for m in modes]
    cases += [(h, m, True) for h in list(itertools.permutations(pool2, 2)) for m in modes]
    res = impl.pmap(_run, cases, chunksize=16)
    for case, (code, per, perr, after, generic_err) in zip(cases, res):
        h, mode = case[0], case[1]
        opt = len(case) > 2
        ctx.count(1, f"{mode}/files{len(h)}" + ("/options" if opt else ""))
        ctx.seen([list(h), mode])
        # a file on which the run stops (application error) ends the comparison there: C15's business
        for i, d in enumerate(h, 1):
            n = f"f{i}.md"
            a = alone[(d, mode, n, True) if opt else (d, mode, n)]
            if a[4]:
                break               # this file alone already ends in an application error
            if (per[n], perr[n], after[i - 1]) != (a[1], a[2], a[3]):
                what = "output" if per[n] != a[1] else "pragma errors" if perr[n] != a[2] else "content"
                ctx.violation("history", dict({"before": list(h[:i - 1]), "doc": d, "mode": mode}, **({"options": OPTIONS} if opt else {})),
                              f"{what} for the file differs from processing it alone: {per[n][:3] if what != 'content' else after[i-1]!r} vs {a[1][:3] if what != 'content' else a[3]!r}",
                              group="history-" + mode + "-" + what.replace(" ", "-"))
                break
    ctx.sample({"history": list(cases[7][0]), "mode": cases[7][1], "exit": res[7][0]})
    # ---- histories that contain a file on which processing fails, under --continue-on-error: the files behind it are processed as alone
    failing = ["    a\n```\nx\n```\n", CRASH_DOC, "1. one\n3.  three\nx  \n" if False else "   >    1.    >\n   >            item"]
    follow = ["a   \nb\n", "a\tb\n", "no newline at end", "#  a\n", "1. a\n1. b\n3. c\n", "\n\ntext\n", "- a\n\n* b\n", "text\n"] + pool[:8]
    ccases = [((f, d), m, False, ("--continue-on-error",)) for f in failing for d in follow for m in modes]
    ccases += [((f, "text\n", d), m, False, ("--continue-on-error",)) for f in failing[:1] for d in follow[:6] for m in modes]
    need = {(d, m, f"f{i}.md") for (h, m, _o, _x) in ccases for i, d in enumerate(h, 1) if i > 1}
    need = [k for k in need if k not in alone]
    for c, r in zip(need, impl.pmap(_alone, need, chunksize=8)):
        alone[c] = r
    for case, (code, per, perr, after, generic_err) in zip(ccases, impl.pmap(_run, ccases, chunksize=8)):
        h, mode = case[0], case[1]
        ctx.count(1, f"{mode}/continue-on-error/files{len(h)}")
        ctx.seen([list(h), mode, "coe"])
        for i, d in enumerate(h, 1):
            if i == 1:
                continue
            n = f"f{i}.md"
            a = alone[(d, mode, n)]
            if a[4]:
                continue
            if (per[n], perr[n], after[i - 1]) != (a[1], a[2], a[3]):
                what = "output" if per[n] != a[1] else "pragma errors" if perr[n] != a[2] else "content"
                ctx.violation("history", {"before": list(h[:i - 1]), "doc": d, "mode": mode, "options": ["--continue-on-error"]},
                              f"{what} for the file differs from processing it alone: {per[n][:3] if what != 'content' else after[i-1]!r} vs {a[1][:3] if what != 'content' else a[3]!r}",
                              group="history-coe-" + mode + "-" + what.replace(" ", "-"))
    apairs = pairs if ctx.tier == "thorough" else rng.sample(pairs, 250)
    for (a, b), (second, fresh) in zip(apairs, impl.pmap(_api_reuse, apairs, chunksize=16)):
        ctx.count(1, "api-reuse")
        if second != fresh:
            ctx.violation("api-reuse", {"before": [a], "doc": b}, f"a reused PyMarkdownApi object reports {second[0][:3] if isinstance(second[0], list) else second} after another document, a fresh one {fresh[0][:3] if isinstance(fresh[0], list) else fresh}", group="api-reuse")
    ecases = [(k, b) for k in ("missing-path", "not-utf8", "crash-doc", "fix-missing", "list-missing") for b in pool]
    for (k, b), (raised, second, fresh) in zip(ecases, impl.pmap(_api_reuse_err, ecases, chunksize=8)):
        ctx.count(1, "api-reuse-after-error/" + k + ("" if raised else "/first-call-did-not-raise"))
        ctx.seen(["api-after", k, b])
        if second != fresh:
            ctx.violation("api-reuse", {"before": [k], "doc": b}, f"a PyMarkdownApi object whose previous call failed ({k}) reports {second[0][:3] if isinstance(second[0], list) else second}, a fresh one {fresh[0][:3] if isinstance(fresh[0], list) else fresh}", group="api-reuse-after-error")
    ctx.corr_cases += len(cases)
    ctx.trusted += [
        "translator harness/translate/rule_fields.py (syntactic: writes through aliases or helper objects stored elsewhere are not seen; method calls on helper objects count as writes unless the method name looks pure)",
        "histories: every ordered pair (and sampled triples) of the pool processed by one scan / fix invocation, each file's stdout lines, pragma errors and final bytes compared with processing that file alone under the same name; reused PyMarkdownApi object",
    ]
    return ctx.finish(
        level="proof",
        rule=f"pool of {len(pool)} documents (15 chosen for dense failures, pragmas, link definitions, list/heading state + the shared pool); all ordered pairs incl. a document with itself, random triples; scan and fix; all ordered pairs of a 17-document pool under a second configuration (md024 siblings_only, md004 sublist, md002 and md043 enabled); a reused API object after another document and after a call that raised (missing path, undecodable file, parser failure, failing fix/list); histories behind a file whose processing fails (rule conflict, parser failure, rule failure) under --continue-on-error; quick = 29-document pool; non-trivial = every history; distinct by (history, mode)",
        assumptions=["the comparison of a history stops at the first file that ends the run with an application error (C15)",
                     "the eight reviewed unreset fields and everything the syntactic field analysis cannot see are covered by the histories only"],
    )
