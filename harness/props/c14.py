"""C14 - the rule engine honours the plug-in life-cycle for every file."""
import json
import os

import core
import impl
import recgen
from core import Scratch, cbool, clist, cstr, cZ, cnat
from translate.rule_table import read_rules

DOCS = {
    "empty": "", "one": "a", "one-nl": "a\n", "para": "# a\n\ntext\n", "nofinal": "# a\n\ntext", "crlf": "# a\r\n\r\nb\r\n",
    "pragma-only": "<!-- pyml disable-next-line md041-->\n", "pragma": "# a\n<!-- pyml disable-next-line md009-->\nb  \n",
    "blank": "\n", "list": "- a\n- b\n\n1. c\n", "code": "```py\nx\n```\n", "lv0": "# a\n\nb   \n", "lv1": "#  a\n", "lv01": "#  a\n\nb   \n",
    "formfeed": "# a\n\nb\x0cc\nd\u2028e\n", "lv2": "# a\n\n- x\n  * y\n", "lv012": "#  a\n\n```\nx\n```\n\n~~~\ny\n~~~\n\nb   \n", "tab": "a\tb\n", "multi": "a\n\n\n\nb\n",
    "tok-md001": "# a\n\n### b\n", "tok-md004": "- a\n* b\n\ntext  \n",
}
ALLCB = ("start", "token", "line", "complete")


def lines_of(text):
    return text.replace("\r\n", "\n").replace("\r", "\n").split("\n")


def expected_tokens(text, keep_pragma):
    st, toks = impl.parse(text.replace("\r\n", "\n").replace("\r", "\n"), eos=True)
    if st != "ok":
        return None
    if toks and toks[-1].is_pragma and not keep_pragma:
        toks = toks[:-1]
    return [str(t) for t in toks]


def _run(case):
    mode, docs, recs, extra = case     # recs: list of (pid, fix, level, callbacks, default); extra argv
    with Scratch("pv-c14-") as d:
        names = []
        for i, k in enumerate(docs, 1):
            n = f"f{i}.md"
            open(os.path.join(d, n), "wb").write(DOCS[k].encode("utf-8"))
            names.append(n)
        argv = []
        for rec in recs:
            pid, fix, level, cbs, default = rec[:5]
            argv += ["--add-plugin", recgen.make(d, pid, fix, level, cbs, default, trigger=len(rec) > 5 and rec[5])]
        log = os.path.join(d, "rec.log")
        code, out, err = impl.run_cli(argv + list(extra) + [mode] + names, cwd=d, env={"PV_REC_LOG": log})
        evs = [json.loads(l) for l in open(log, encoding="utf-8")] if os.path.exists(log) else []
        after = [open(os.path.join(d, n), "rb").read().decode("utf-8") for n in names]
    return code, evs, err[-400:], after


def coq_rule(rec):
    pid, fix, level, cbs, default = rec[:5]
    return (f"(mkRule {cstr(pid.upper())} [] {cbool(default)} {cbool(fix)} {cZ(level)} {cbool('start' in cbs)} {cbool('token' in cbs)} "
            f"{cbool('line' in cbs)} {cbool('complete' in cbs)} [])")


def coq_ev(who, kind, call):
    return f"({cstr(who)}, {kind}, {call})"


def segment_files(evs):
    """split the global log into per-file chunks: a chunk starts at a `start` that follows a complete (or at the beginning)"""
    return evs


def run(ctx):
    ctx.prove("Props/C14.v", ["Base/RuleTypes.v", "Model/Lifecycle.v", "Proofs/LifecycleProofs.v"])
    rules = read_rules(core.REPO)
    fix_levels = {r["id"].upper(): r["level"] for r in rules if r["fix"] and r["default"]}
    # ------------------------------------------------------------------ scan mode
    R_SCAN = [("aaa000", False, 1, ALLCB, True), ("zzz999", False, 1, ALLCB, True), ("mmm500", False, 1, ("token",), True),
              ("mmm600", False, 1, ("line", "complete"), True), ("ddd100", False, 1, ALLCB, False), ("eee200", True, 2, ALLCB, True)]
    keys = list(DOCS)
    scan_cases = [("scan", (k,), R_SCAN, ()) for k in keys]
    scan_cases += [("scan", (a, b), R_SCAN, ()) for a in keys[:8] for b in keys[:8]]
    rng = core.random.Random(ctx.seed)
    ntr = 40 if ctx.tier == "quick" else 400
    scan_cases += [("scan", tuple(rng.choice(keys) for _ in range(3)), R_SCAN, ()) for _ in range(ntr)]
    scan_cases += [("scan", (k,), R_SCAN, ("-d", "zzz999")) for k in keys[:6]]
    scan_cases += [("scan", (k,), R_SCAN, ("-e", "ddd100")) for k in keys[:6]]
    res = impl.pmap(_run, scan_cases, chunksize=4)
    coq_cases = []
    for case, (code, evs, err, after) in zip(scan_cases, res):
        mode, docs, recs, extra = case
        ctx.count(1, f"scan/files{len(docs)}")
        ctx.seen([docs, extra])
        inp = {"mode": mode, "docs": list(docs), "extra": list(extra)}
        enabled = sorted([r for r in recs if (r[4] and not ("-d" in extra and r[0] in extra)) or ("-e" in extra and r[0] in extra)], key=lambda r: r[0].upper())
        if code not in (0, 1):
            ctx.broke(f"scan run failed for {inp}: exit {code} {err!r}")
            continue
        # the property, judged in Python: per enabled recorder and file
        files = []
        for i, k in enumerate(docs, 1):
            files.append((f"f{i}.md", expected_tokens(DOCS[k], False), lines_of(DOCS[k])))
        for r in recs:
            pid = r[0].upper()
            mine = [e for e in evs if e["who"] == pid]
            if r not in enabled:
                if mine:
                    ctx.violation("disabled", dict(inp, plugin=pid), f"a disabled plug-in received {len(mine)} calls", group="disabled-called")
                continue
            exp = []
            for fname, toks, lines in files:
                if "start" in r[3]:
                    exp.append(("start",))
                if "token" in r[3]:
                    exp += [("token", fname, t) for t in toks]
                if "line" in r[3]:
                    exp += [("line", fname, n, l) for n, l in enumerate(lines, 1)]
                if "complete" in r[3]:
                    exp.append(("complete", fname, len(lines) + 1))
            got = [(e["cb"],) if e["cb"] == "start" else (e["cb"], e["file"], e["tok"]) if e["cb"] == "token" else
                   (e["cb"], e["file"], e["n"], e["line"]) if e["cb"] == "line" else (e["cb"], e["file"], e["n"]) for e in mine]
            if any(e.get("fix") for e in mine):
                ctx.violation("scan-shape", dict(inp, plugin=pid), "a scan-mode call was made with a fix-mode context", group="scan-ctx")
            if got != exp:
                j = next((i for i, (a, b) in enumerate(zip(got, exp)) if a != b), min(len(got), len(exp)))
                ctx.violation("scan-shape", dict(inp, plugin=pid), f"call #{j}: got {got[j] if j < len(got) else None}, the life-cycle demands {exp[j] if j < len(exp) else None} ({len(got)} calls, {len(exp)} expected)", group="scan-shape")
        # the model, on the whole interleaved log of the recorders
        cur, idx, obs = None, {}, []
        for e in evs:
            if e["cb"] == "start":
                obs.append(coq_ev(e["who"], "CScan", "Start"))
            elif e["cb"] == "token":
                k = (e["who"], e["file"])
                obs.append(coq_ev(e["who"], "CScan", f"Tok {cnat(idx.get(k, 0))}"))
                idx[k] = idx.get(k, 0) + 1
            elif e["cb"] == "line":
                obs.append(coq_ev(e["who"], "CScan", f"Line {cnat(e['n'])} {cstr(e['line'])}"))
            else:
                obs.append(coq_ev(e["who"], "CScan", f"Complete {cZ(e['n'])}"))
        fl = clist((f"({cnat(len(t))}, {clist((cstr(l) for l in ls), 'str')})" for _, t, ls in files), "(nat * list str)")
        coq_cases.append((f"({clist((coq_rule(r) for r in enabled), 'rule')}, {fl})", clist(obs, "ev")))
    ctx.sample({"scan_case": [scan_cases[3][1], list(scan_cases[3][3])], "first_events": res[3][1][:6]})
    if "Model/Lifecycle.v" in ctx.build.ok_files:
        bad = core.coq_mismatches(["PV.Base.Str", "PV.Base.RuleTypes", "PV.Model.Lifecycle"], "", "(fun c => scan_files (fst c) (snd c))", coq_cases, "c14s",
                                  eqb="(list_eqb ev_eqb)", shard=40)
        ctx.corr_cases += len(coq_cases)
        for i in bad[:8]:
            ctx.broke(f"model/implementation correspondence (Model/Lifecycle.v scan_files) differs on docs={scan_cases[i][1]} extra={scan_cases[i][3]}")
    # ------------------------------------------------------------------ fix mode
    def fix_recs(variant):
        order = ["aaa", "zzz"] if variant % 2 == 0 else ["zzz", "aaa"]
        recs = []
        for j, lv in enumerate([0, 1, 2, 3, 5]):
            cbs = ALLCB if (variant // 2 + j) % 3 != 1 else ("start", "token", "complete")
            # in half of the variants the recorder at the highest level reports a failure while collecting, so that the pass of
            # that level - the one pass without collectors - is run as well
            trig = lv == 5 and variant % 2 == 1
            recs.append((f"{order[j % 2]}{lv}0{j}", True, lv, ALLCB if trig else cbs, True) + ((True,) if trig else ()))
        recs.append(("mmm777", True, 1, ("token",), True))
        recs.append(("nnn888", False, 1, ALLCB, True))       # not fix-capable: must see nothing in fix mode
        return recs
    fix_cases = []
    for k in keys:
        for variant in range(4 if ctx.tier == "quick" else 6):
            fix_cases.append(("fix", (k,), fix_recs(variant), ()))
    fix_cases += [("fix", (a, b), fix_recs(v), ()) for v, (a, b) in enumerate([("lv01", "para"), ("para", "lv012"), ("lv1", "lv0"), ("empty", "lv2"), ("crlf", "lv01")])]
    fres = impl.pmap(_run, fix_cases, chunksize=2)
    coq2, meta2 = [], []
    for case, (code, evs, err, after) in zip(fix_cases, fres):
        mode, docs, recs, extra = case
        ctx.count(1, f"fix/files{len(docs)}")
        ctx.seen([docs, [r[0] for r in recs]])
        inp = {"mode": mode, "docs": list(docs), "recorders": [[r[0], r[2], list(r[3])] for r in recs]}
        if code not in (0, 3):
            ctx.violation("fix-run", inp, f"fix run ended with exit {code}: {err!r}", group="fix-run")
            continue
        byid = {r[0].upper(): r for r in recs}
        enabled = sorted(recs, key=lambda r: r[0].upper())
        # phases: a phase ends with the last `complete` before the next `start`
        phases, cur = [], []
        for e in evs:
            if e["cb"] == "start" and cur and cur[-1]["cb"] == "complete":
                phases.append(cur)
                cur = []
            cur.append(e)
        if cur:
            phases.append(cur)
        first_tokens = {f"f{i}.md": expected_tokens(DOCS[k], True) for i, k in enumerate(docs, 1)}
        seen_first = set()
        for ph in phases:
            fixers = sorted({e["who"] for e in ph if e.get("fix")})
            levels = {byid[w][2] for w in fixers}
            fname = next((e["file"] for e in ph if "file" in e), None)
            if len(levels) != 1:
                ctx.violation("fix-shape", inp, f"a phase has fixers of levels {sorted(levels)} (expected exactly one level): {fixers}", group="fix-levels")
                continue
            L = levels.pop()
            is_token_phase = any(e["cb"] == "complete" and e["n"] == -1 for e in ph)
            fl = [i for i, lv in fix_levels.items() if lv == L] + [r[0].upper() for r in recs if r[1] and r[2] == L]
            cl = [i for i, lv in fix_levels.items() if lv > L] + [r[0].upper() for r in recs if r[1] and r[2] > L]
            # witness: the first recorder of this phase that has every callback
            # plug-ins dispatched before the built-in rules (ids < "MD") see the line as read, those after see it as rewritten
            full = [w for w in dict.fromkeys(e["who"] for e in ph) if set(byid[w][3]) == set(ALLCB)]
            wit = next((w for w in full if w < "MD"), None) or next(iter(full), None)
            wit2 = next((w for w in full if w > "MD"), None) or wit
            tokwit = wit or next((w for w in dict.fromkeys(e["who"] for e in ph) if "token" in byid[w][3]), None)   # a pass whose only participant has no next_line
            wtoks = [e["tok"] for e in ph if e["who"] == tokwit and e["cb"] == "token"]
            wlines = [e["line"] for e in ph if e["who"] == wit and e["cb"] == "line"]
            wlines2 = [e["line"] for e in ph if e["who"] == wit2 and e["cb"] == "line"]
            if len(wlines2) != len(wlines):
                ctx.violation("fix-shape", inp, f"two recorders of one phase were handed different numbers of lines ({len(wlines)} vs {len(wlines2)})", group="fix-line-count")
                continue
            if fname and fname not in seen_first:
                seen_first.add(fname)
                if first_tokens[fname] is not None and wtoks != first_tokens[fname]:
                    ctx.violation("fix-shape", inp, f"first phase of {fname}: tokens delivered differ from the parse of the file ({len(wtoks)} vs {len(first_tokens[fname])})", group="fix-first-tokens")
            # a line phase: the tokens are the stream of the file whose lines are delivered (as seen by a recorder sorted before the rules)
            if not is_token_phase and wit is not None and wit < "MD" and wtoks and not any("\r" in DOCS[k] for k in docs):
                want = expected_tokens("\n".join(wlines), True)
                if want is not None and wtoks != want:
                    j = next((i for i, (a, b) in enumerate(zip(wtoks, want)) if a != b), min(len(wtoks), len(want)))
                    ctx.violation("fix-shape", dict(inp, level=L, phase="line"), f"line phase of {fname}: the tokens delivered are not the stream of the lines delivered ({len(wtoks)} tokens vs {len(want)}; first difference at #{j}: "
                                  f"{wtoks[j] if j < len(wtoks) else None!r} vs {want[j] if j < len(want) else None!r})", group="fix-line-phase-tokens")
            # the property per recorder
            for r in recs:
                pid = r[0].upper()
                mine = [e for e in ph if e["who"] == pid]
                role = "fix" if pid in fl else "collect" if pid in cl else None
                if role is None:
                    if mine:
                        ctx.violation("fix-shape", dict(inp, plugin=pid), f"a plug-in that takes no part in the pass received {[e['cb'] for e in mine][:5]}", group="fix-nonparticipant")
                    continue
                exp = ([("start",)] if "start" in r[3] else []) + ([("token", t) for t in wtoks] if "token" in r[3] else [])
                if not is_token_phase and "line" in r[3]:
                    exp += [("line", n, l) for n, l in enumerate(wlines if pid < "MD" else wlines2, 1)]
                if "complete" in r[3]:
                    exp.append(("complete", -1 if is_token_phase else len(wlines) + 1))
                got = [(e["cb"],) if e["cb"] == "start" else (e["cb"], e["tok"]) if e["cb"] == "token" else (e["cb"], e["n"], e["line"]) if e["cb"] == "line" else (e["cb"], e["n"]) for e in mine]
                if got != exp:
                    j = next((i for i, (a, b) in enumerate(zip(got, exp)) if a != b), min(len(got), len(exp)))
                    ctx.violation("fix-shape", dict(inp, plugin=pid, level=L, phase="token" if is_token_phase else "line"),
                                  f"{role} plug-in, call #{j}: got {got[j] if j < len(got) else None}, the life-cycle demands {exp[j] if j < len(exp) else None} ({len(got)} calls, {len(exp)} expected)",
                                  group="fix-shape-" + ("start" if (j < len(got) and got[j] == ("start",)) or (j < len(exp) and exp[j] == ("start",)) else "other"))
                bad_ctx = [e for e in mine if "fix" in e and e["fix"] != (role == "fix")]
                if bad_ctx:
                    ctx.violation("fix-shape", dict(inp, plugin=pid, level=L), f"{role} plug-in was handed the wrong kind of context in {bad_ctx[0]['cb']}", group="fix-ctx")
            # the model on the interleaved log of this phase
            idx, obs = {}, []
            for e in ph:
                kind = "CFix" if e["who"] in fl else "CReport"
                if e["cb"] == "start":
                    obs.append(coq_ev(e["who"], kind, "Start"))
                elif e["cb"] == "token":
                    obs.append(coq_ev(e["who"], "CFix" if e["fix"] else "CReport", f"Tok {cnat(idx.get(e['who'], 0))}"))
                    idx[e["who"]] = idx.get(e["who"], 0) + 1
                elif e["cb"] == "line":
                    obs.append(coq_ev(e["who"], "CFix" if e["fix"] else "CReport", f"Line {cnat(e['n'])} {cstr(e['line'])}"))
                else:
                    obs.append(coq_ev(e["who"], "CFix" if e["fix"] else "CReport", f"Complete {cZ(e['n'])}"))
            en = clist((coq_rule(r) for r in enabled), "rule")
            fls, cls = clist((cstr(i) for i in fl), "str"), clist((cstr(i) for i in cl), "str")
            if is_token_phase:
                coq2.append((f"(true, {en}, {fls}, {cls}, {cnat(len(wtoks))}, (@nil (str * str)))", clist(obs, "ev")))
            else:
                pairs = clist((f"({cstr(a)}, {cstr(b)})" for a, b in zip(wlines, wlines2)), "(str * str)")
                coq2.append((f"(false, {en}, {fls}, {cls}, {cnat(len(wtoks))}, {pairs})", clist(obs, "ev")))
            meta2.append((docs, L, is_token_phase))
    ctx.sample({"fix_case": [fix_cases[0][1], [r[0] for r in fix_cases[0][2]]], "events": len(fres[0][1])})
    if "Model/Lifecycle.v" in ctx.build.ok_files:
        defs = ("Definition phase (c : bool * list rule * list str * list str * nat * list (str * str)) := let '(tp, en, fl, cl, n, ls) := c in "
                "if tp then token_phase en fl cl n else line_phase en fl cl n (after_pivot [77;68]%N) ls.\n")
        bad = core.coq_mismatches(["PV.Base.Str", "PV.Base.RuleTypes", "PV.Model.Lifecycle"], defs, "phase", coq2, "c14f", eqb="(list_eqb ev_eqb)", shard=40)
        ctx.corr_cases += len(coq2)
        for i in bad[:8]:
            ctx.broke(f"model/implementation correspondence (Model/Lifecycle.v {'token' if meta2[i][2] else 'line'}_phase) differs on docs={meta2[i][0]} level={meta2[i][1]}")
    ctx.unit("fix", phases=len(coq2))
    ctx.trusted += [
        "recorder plug-ins generated by harness/recgen.py (ids sorting first/last, fix levels 0,1,2,3,5, with and without next_line, fix-capable or not, enabled/disabled)",
        "correspondence: Model/Lifecycle.v scan_files / token_phase / line_phase (vm_compute) vs the interleaved call log of all recorders",
        "independent facts: token streams from a direct call of the parser, lines by universal-newline splitting of the file bytes",
        "in the line phase of fix mode a plug-in is handed each line as left by the plug-ins dispatched before it (by design: line fixes are a pipeline): recorders sorted before the built-in rules must see the text as read, those sorted after see the rewritten text",
        "in fix mode the token count and lines of a phase are taken from the first full recorder of that phase (file contents between passes are not observable); the first phase of every file is compared with the direct parse",
    ]
    return ctx.finish(
        level="proof",
        rule="20 documents (empty, one line, no final newline, CR-LF, pragma-only, fixable at levels 0/1/2) x runs of 1-3 files x scan (6 recorders incl. token-only, line-only, disabled, -d/-e) and fix (7 recorders: levels 0,1,2,3,5 sorted first/last, with/without next_line, token-only, not fix-capable; 4-6 variants); non-trivial = every run; distinct by (documents, recorder set, switches)",
        assumptions=["'pass' is read as one phase: the token phase of fix mode delivers no lines and ends with completed_file(-1) by design"],
    )
