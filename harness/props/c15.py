"""C15 - failures are contained: errors are reported, never success, nothing is damaged."""
import itertools
import json
import os
import re
import subprocess

import core
import impl
from core import Scratch, cN, cbool, clist
from props import c18

CONTENT = {
    "clean": b"# a\n",
    "fixable": b"#  a\n\nb   \n",            # level 0 (MD009) and level 1 (MD019): two passes
    "trig2": b"# a\n#  b\n",                # MD019 on line 2 (where a leaked pragma of another file would bite)
    # documents that walk many rules through their states (runs of blank lines, lists, fences, quotes, repeated headings); the second
    # one starts where a rule left half-way through the first would notice (blank lines first, then list items and headings)
    "stateful": b"# a\n\n\n- x\n  - n\n    1. o\n\n```\ncode\n```\n\n\n> q\n> - r\n\n## a\n",
    "stateful2": b"\n\n- y\n  - w\n    - v\n* z\n\n1. k\n   - j\n\n## a\n\n## a\ntext\n",
    "perr": b"# a\n\nPLUGINFAIL\n",
    "terr": b"---\ntest: assert\n---\n",
    "decode": b"\xff\xfe# a\n",
}
CRASH_CANDIDATES = [b"<!-- pyml disable-next-line md019-->\n#  x\n\n> > a\n- a\n", b"<!-- pyml disable-next-line md019-->\n#  x\n\n>>\n-\n",
                    b"<!-- pyml disable-next-line md019-->\n#  x\n\n1. item\n\n\n1) \t\n", b"<!-- pyml disable-next-line md019-->\n#  x\n\n-\t\n"]
FAILING = ("perr", "terr", "crashp", "decode")
BASE = ["--add-plugin", os.path.join(impl.PLUGDIR, "pv_fault.py"), "-s", "extensions.front-matter.enabled=$!True"]
ENV_CONTENT = {"PV_FAULT": '{"cb":"content"}', "PV_FAULT_FIX": "1", "PV_FAULT_LEVEL": "1", "PV_FAULT_ID": "zzx999"}


def _run(case):
    """case = (present: list of (name, kind), mode, coe, fault_env) -> observation"""
    present, mode, coe, fenv = case
    with Scratch("pv-c15-") as d:
        tmpd = os.path.join(d, "tmp")
        os.makedirs(tmpd)
        work = os.path.join(d, "w")
        os.makedirs(work)
        for n, k in present:
            open(os.path.join(work, n), "wb").write(CONTENT[k])
        argv = BASE + (["--continue-on-error"] if coe else []) + [mode] + [n for n, _ in present]
        env = dict(fenv)
        env["TMPDIR"] = tmpd
        import tempfile
        old = tempfile.tempdir
        tempfile.tempdir = tmpd
        try:
            code, out, err = impl.run_cli(argv, cwd=work, env=env)
        finally:
            tempfile.tempdir = old
        after = {n: open(os.path.join(work, n), "rb").read() for n, _ in present}
        left = sorted(os.listdir(tmpd)) + sorted(set(os.listdir(work)) - {n for n, _ in present})
    lines = {}
    for n, _ in present:
        lines[n] = [l for l in out.split("\n") if l.startswith(n + ":") or l == f"Fixed: {n}"]
    return code, out, err, after, left, lines


def _crash(case):
    kind, point = case
    with Scratch("pv-c15c-") as d:
        tmpd = os.path.join(d, "tmp")
        os.makedirs(tmpd)
        open(os.path.join(d, "f.md"), "wb").write(CONTENT[kind])
        env = dict(os.environ, PYTHONPATH=core.REPO, TMPDIR=tmpd, PV_CRASH_TARGET="f.md")
        p = subprocess.run([core.PY, os.path.join(core.VERIF, "harness", "launch_crash.py"), point, "fix", "f.md"], cwd=d, env=env, capture_output=True, timeout=120)
        after = open(os.path.join(d, "f.md"), "rb").read()
        left = sorted(os.listdir(tmpd))
        sib = sorted(x for x in os.listdir(d) if x not in ("f.md", "tmp"))
    return p.returncode, after, left, sib, p.stderr.decode("utf-8", "replace")[-300:]


def run(ctx):
    ctx.prove("Props/C15.v", ["Gen/ReturnCodes.v", "Gen/FinalCategory.v", "Model/Runner.v", "Proofs/RunnerProofs.v", "Proofs/ContainProofs.v",
                                "Model/WriteBack.v", "Proofs/WriteBackProofs.v"])
    # a document on which the parser itself fails in the block pass after having read a pragma line
    for cand in CRASH_CANDIDATES:
        CONTENT["crashp"] = cand
        code, out, err, *_ = _run(([("f1.md", "crashp")], "scan", False, ENV_CONTENT))
        if "BadTokenizationError" in err or "Unexpected Error" in err:
            break
    else:
        CONTENT.pop("crashp")
        ctx.notes.append("no pragma+parser-crash document available on this tree: kind 'crashp' skipped")
    kinds = [k for k in ("clean", "fixable", "trig2", "perr", "terr", "crashp") if k in CONTENT]
    # failures per kind (scan, alone) for the model
    nfail = {}
    alone = {}
    for k in kinds + ["decode", "stateful", "stateful2"]:
        for mode in ("scan", "fix"):
            alone[(k, mode)] = _run(([("f1.md", k)], mode, True, ENV_CONTENT))
        nfail[k] = len(alone[(k, "scan")][5]["f1.md"])
    vecs = [v for n in (1, 2, 3) for v in itertools.product(kinds, repeat=n)]
    vecs += [v for n in (1, 2) for v in itertools.product(kinds + ["decode"], repeat=n) if "decode" in v]
    if ctx.tier == "quick":
        small = [v for v in vecs if len(v) < 3]
        big = [v for v in vecs if len(v) == 3 and any(k in FAILING for k in v)]
        vecs = small + core.random.Random(ctx.seed).sample(big, 70)
    cases, refs = [], []
    for v in vecs:
        for mode in ("scan", "fix"):
            for coe in (False, True):
                present = [(f"f{i}.md", k) for i, k in enumerate(v, 1)]
                cases.append((present, mode, coe, ENV_CONTENT))
                refs.append(([p for p in present if p[1] not in FAILING], mode, coe, ENV_CONTENT))
    # callback-position faults: the fault plug-in raises at the n-th invocation of a callback for one file
    base3 = [("f1.md", "fixable"), ("f2.md", "trig2"), ("f3.md", "fixable")]
    cbs = [("start", 1)] + [("token", n) for n in range(1, 9)] + [("line", n) for n in range(1, 5)] + [("complete", 1)]
    pos_cases = []
    for pos in (1, 2, 3):
        for cb, nth in cbs:
            if cb == "start":
                fenv = {"PV_FAULT": json.dumps({"cb": "start", "nth": pos}), "PV_FAULT_FIX": "1", "PV_FAULT_LEVEL": "1", "PV_FAULT_ID": "zzx999"}
            else:
                fenv = {"PV_FAULT": json.dumps({"cb": cb, "file": f"f{pos}.md", "nth": nth}), "PV_FAULT_FIX": "1", "PV_FAULT_LEVEL": "1", "PV_FAULT_ID": "zzx999"}
            for mode in ("scan", "fix"):
                for coe in (False, True):
                    pos_cases.append((base3, mode, coe, fenv, pos))
                    refs.append(([p for i, p in enumerate(base3, 1) if i != pos], mode, coe, ENV_CONTENT))
    # ... the same with documents that leave rules half-way through their states at the point of the fault
    base3b = [("f1.md", "stateful"), ("f2.md", "stateful2"), ("f3.md", "stateful")]
    for pos in (1, 2):
        for cb, nth in [("token", n) for n in range(1, 56)] + [("line", n) for n in (1, 3, 4, 6, 9, 12)]:
            fenv = {"PV_FAULT": json.dumps({"cb": cb, "file": f"f{pos}.md", "nth": nth}), "PV_FAULT_FIX": "1", "PV_FAULT_LEVEL": "1", "PV_FAULT_ID": "zzx999"}
            for mode in ("scan", "fix"):
                pos_cases.append((base3b, mode, True, fenv, pos))
                refs.append(([p for i, p in enumerate(base3b, 1) if i != pos], mode, True, ENV_CONTENT))
    # ... and faults that strike only in a later pass of fix mode (the pass of the plug-in's own level, 1)
    for pos in (1, 2, 3):
        for cb, nth in (("token", 1), ("token", 3), ("line", 2), ("complete", 1)):
            fenv = {"PV_FAULT": json.dumps({"cb": cb, "file": f"f{pos}.md", "nth": nth, "ctx": "fix"}), "PV_FAULT_FIX": "1", "PV_FAULT_LEVEL": "1", "PV_FAULT_ID": "zzx999"}
            for coe in (False, True):
                pos_cases.append((base3, "fix", coe, fenv, pos))
                refs.append(([p for i, p in enumerate(base3, 1) if i != pos], "fix", coe, ENV_CONTENT))
    allcases = cases + [c[:4] for c in pos_cases]
    res = impl.pmap(_run, allcases, chunksize=8)
    uniq_refs = {}
    for r in refs:
        uniq_refs.setdefault(json.dumps([r[0], r[1], r[2]]), r)
    rres = dict(zip(uniq_refs.keys(), impl.pmap(_run, list(uniq_refs.values()), chunksize=8)))
    coq_cases = []
    for ci, (case, ref, r) in enumerate(zip(allcases, refs, res)):
        present, mode, coe, fenv = case
        code, out, err, after, left, lines = r
        is_pos = ci >= len(cases)
        failing_pos = pos_cases[ci - len(cases)][4] if is_pos else None
        kinds_v = [k for _, k in present]
        inp = {"files": kinds_v, "mode": mode, "continue_on_error": coe}
        if is_pos:
            inp["fault"] = json.loads(fenv["PV_FAULT"])
        ctx.count(1, ("fault-position/" if is_pos else "vector/") + mode + ("/coe" if coe else "/stop"))
        ctx.seen(inp)
        if is_pos:
            fired = "ZZX999" in err
            if fired and inp["fault"]["cb"] == "start":      # starting_new_file has no context: the failing file is the one the error names
                m = re.search(r"f(\d)\.md", err)
                failing_pos = int(m.group(1)) if m else None
                if failing_pos is None:
                    ctx.violation("unnamed", inp, f"the error message names no file: {err.strip()[:160]!r}", group="unnamed-start")
            if not fired:
                failing_pos = None
            # the reference run: the same files without the failing one
            ref = ([p for i, p in enumerate(present, 1) if i != failing_pos], mode, coe, ENV_CONTENT)
        is_fail = [(i == failing_pos) if is_pos else (k in FAILING) for i, (_, k) in enumerate(present, 1)]
        fatal = [(k == "decode") or not coe for (_, k) in present]
        processed, stopped = [], False
        for i, f in enumerate(is_fail):
            if stopped:
                break
            processed.append(i)
            if f and (fatal[i] or (is_pos and not coe)):
                stopped = True
        any_fail = any(is_fail[i] for i in processed)
        names = [n for n, _ in present]
        # (a) never a clean or 'fixed' result
        if any_fail and code != 1:
            ctx.violation("masked", inp, f"a file failed but the run ended with exit {code}", group="masked")
        if not any_fail and code not in (0, 1, 3):
            ctx.violation("masked", inp, f"no file failed but the run ended with exit {code}: {err[-200:]!r}", group="spurious-error")
        # (b) the error names the file
        for i in processed:
            if is_fail[i] and names[i] not in err:
                k = present[i][1] if not is_pos else "plugin"
                ctx.violation("unnamed", dict(inp, failing=names[i]), f"the error message does not name the failing file {names[i]}: {err.strip()[:160]!r}",
                              group=f"unnamed-{k}-{'coe' if coe else 'stop'}")
        # (c)/(f) the other files: exactly as if the failing file were absent
        rkey = json.dumps([ref[0], ref[1], ref[2]])
        if rkey not in rres:
            rres[rkey] = _run(ref)
        rcode, rout, rerr, rafter, rleft, rlines = rres[rkey]
        for i in range(len(present)):
            n = names[i]
            if is_fail[i]:
                if after[n] != CONTENT[present[i][1]] and not is_pos:
                    ctx.violation("damage", dict(inp, file=n), "the failing file itself was modified", group="damage-failing")
                continue
            if i in processed:
                if lines[n] != rlines.get(n, []):
                    ctx.violation("others", dict(inp, file=n), f"output for {n} is {lines[n]}, without the failing file it is {rlines.get(n)}", group="others-output")
                if after[n] != rafter.get(n):
                    ctx.violation("others", dict(inp, file=n), f"content of {n} after the run differs from the run without the failing file", group="others-bytes")
            else:
                if lines[n] or after[n] != CONTENT[present[i][1]]:
                    ctx.violation("others", dict(inp, file=n), f"{n} comes after the file that stopped the run but was touched: {lines[n]}", group="after-stop")
        # (d) fix mode: untouched or completely fixed
        if mode == "fix":
            for i, (n, k) in enumerate(present):
                good = {CONTENT[k], alone[(k, "fix")][3]["f1.md"]} if (k, "fix") in alone else {CONTENT[k]}
                if after[n] not in good:
                    ctx.violation("damage", dict(inp, file=n), f"{n} is neither untouched nor completely fixed: {after[n]!r}",
                                  group="damage-partial" + ("-failing-file" if is_fail[i] else ""))
        # (e) nothing left behind
        if left:
            ctx.violation("residue", inp, f"files left behind: {left}", group="residue-" + mode)
        # model correspondence (vector cases only: the outcome of each file is known)
        if not is_pos:
            so, se, junk = c18.parse_events(out, err)
            kk = {"crashp": "terr"}
            fs = clist((f"({cN(i)}, {c18.coq_outcome(kk.get(k, k), mode, dict(nfail, trig=nfail.get('trig2', 0)) if k != 'trig2' else {'trig': nfail['trig2'], 'fixable': nfail['fixable']})})" for i, k in enumerate([('trig' if x == 'trig2' else x) for x in kinds_v], 1)), "(N * outcome)")
            # trig2 is fixable in fix mode: Done n true
            fs = clist((f"({cN(i)}, {_outcome(k, nfail)})" for i, k in enumerate(kinds_v, 1)), "(N * outcome)")
            coq_cases.append((f"(SchemeDefault, {'Scan' if mode == 'scan' else 'Fix'}, {cbool(coe)}, {fs})",
                              f"(Some ({code})%Z, {c18.coq_events(so)}, {c18.coq_events(se)})" if isinstance(code, int) else "(None, [], [])"))
    ctx.sample({"case": [allcases[5][0], allcases[5][1], allcases[5][2]], "exit": res[5][0], "stderr": res[5][2][-200:]})
    if "Model/Runner.v" in ctx.build.ok_files:
        bad = core.coq_mismatches(["PV.Gen.ReturnCodes", "PV.Model.Runner"], "", "(fun c => let '(sc, m, coe, fs) := c in observe sc m coe fs)", coq_cases, "c15", eqb="obs_eqb")
        ctx.corr_cases += len(coq_cases)
        for i in bad[:10]:
            ctx.broke(f"model/implementation correspondence (Model/Runner.v observe) differs on {allcases[i][0]} mode={allcases[i][1]} coe={allcases[i][2]}: exit {res[i][0]} stdout {res[i][1][-150:]!r} stderr {res[i][2][-150:]!r}")
    # ---- termination of the process at each step of the write-back
    final = {k: alone[(k, "fix")][3]["f1.md"] for k in ("fixable", "trig2")}
    points = ["before", "after-open"] + [f"chunk:{n}" for n in range(1, 5)] + ["before-replace", "after-replace", "none"]
    ccases = [(k, p) for k in ("fixable", "trig2") for p in points]
    cres = impl.pmap(_crash, ccases, procs=8, chunksize=1)
    for (k, p), (code, after, left, sib, err) in zip(ccases, cres):
        ctx.count(1, "crash/" + p.split(":")[0])
        ctx.seen(["crash", k, p])
        inp = {"doc": k, "crash_point": p}
        if p != "none" and code not in (99, 3):
            ctx.broke(f"crash injection {inp}: child exit {code}: {err!r}")
        if after not in (CONTENT[k], final[k]):
            ctx.violation("crash", inp, f"after the process died the file is neither untouched nor completely fixed: {after!r}",
                          group="crash-" + ("between-passes" if p == "after-replace" else "partial"))
        if p == "none" and (left or sib):
            ctx.violation("residue", inp, f"files left behind after a complete run: {left + sib}", group="residue-fix")
    ctx.corr_cases += len(ccases)
    # the write-back protocol in use is the one the model proves atomic: sibling file + os.replace (crash points exist for it)
    hit = {p: c[0] for (k, p), c in zip(ccases, cres) if k == "fixable"}
    if hit.get("before-replace") != 99 or hit.get("after-replace") != 99:
        ctx.broke("the write-back no longer goes through os.replace (crash points before/after replace were not reached): Model/WriteBack.v replace_protocol does not describe the code")
    ctx.trusted += [
        "fault plug-in harness/plugins/pv_fault.py (content-driven and n-th-invocation faults); forced parser failures: the front-matter extension's own test assertion, and a document on which the block pass itself fails after a pragma line",
        "crash injection by harness/launch_crash.py in a child process (wraps shutil.copyfile/copyfileobj and os.replace only; os._exit at the chosen point)",
        "correspondence: Model/Runner.v observe (vm_compute) vs exit status/stdout/stderr events; Model/WriteBack.v replace_protocol vs the crash points reached",
    ]
    return ctx.finish(
        level="proof",
        rule="callback-position faults also on two documents that walk the rules through their states (blank-line runs, lists, fences, quotes, repeated headings), 55 token and 6 line positions; outcome vectors of <=3 files over {clean, fixable(2 passes), trig2, plugin error, parser error, parser crash after a pragma} (+undecodable, <=2) x scan/fix x continue-on-error, each compared with the run without the failing files; "
             "a fault at every callback invocation (start, tokens 1-8, lines 1-4, completion) of each of 3 file positions x scan/fix x coe; process death at 9 points of the write-back for 2 documents; quick = all vectors <=2 + 70 seed-selected 3-vectors; non-trivial = every case; distinct by input",
        assumptions=["a crash cannot remove the sibling/temporary file it was writing: residue is judged only for runs that end normally or with a reported error",
                     "'completely fixed' is the content a fix of that file alone produces"],
        extra_cov={"exhaustive": ctx.tier == "thorough"},
    )


def _outcome(k, nfail):
    if k == "clean":
        return "Done 0%N false"
    if k in ("fixable", "trig2"):
        return f"Done {cN(nfail[k])} true"
    if k == "perr":
        return "PluginErr 0%N"
    return {"terr": "TokErr", "crashp": "TokErr", "decode": "DecodeErr"}[k]
