"""C16 - all entry points agree: file scan, stdin scan and the Python API."""
import io
import itertools
import os
import re
import subprocess
import sys

import core
import gen
import impl
from core import Scratch, cbool, clist, cstr

FAIL_RE = re.compile(r"^(.*?):(\d+):(\d+): ([A-Z]+\d+): (.*)$")
SELECTIONS = {"default": ([], []), "minus": (["md041", "md013", "md047"], []), "plus": ([], ["md002", "md006"]), "both": (["md009"], ["md002"]),
              # the same rule named on both sides (disable wins on the command line), by one identifier and by two
              "same": (["md047", "md009"], ["md047", "md002"]), "same-alias": (["md009", "first-line-heading"], ["no-trailing-spaces", "md041", "md002"])}
DIAG = [[], ["--stack-trace"], ["--log-level", "DEBUG"], ["--log-level", "INFO"], ["--log-level", "ERROR"], ["--log-level", "CRITICAL"],
        ["--stack-trace", "--log-level", "DEBUG"], ["--log-file", "log.txt", "--log-level", "DEBUG"]]


def _providers(s):
    from pymarkdown.general.source_providers import FileSourceProvider, InMemorySourceProvider
    with Scratch("pv-c16p-") as d:
        p = os.path.join(d, "f.md")
        open(p, "wb").write(s.encode("utf-8"))
        fp = FileSourceProvider(p)
        fl = []
        while True:
            l = fp.get_next_line()
            if l is None:
                break
            fl.append(l)
        flag = fp.did_final_line_end_with_newline
    mp = InMemorySourceProvider(s)
    ml = []
    while True:
        l = mp.get_next_line()
        if l is None:
            break
        ml.append(l)
    return fl, flag, ml


def _tuples(out):
    r = []
    for l in out.split("\n"):
        m = FAIL_RE.match(l)
        if m:
            r.append((int(m.group(2)), int(m.group(3)), m.group(4), m.group(5)))
    return r


def _entry(case):
    doc, sel = case
    dis, en = SELECTIONS[sel]
    argv = (["-d", ",".join(dis)] if dis else []) + (["-e", ",".join(en)] if en else [])
    from pymarkdown.api import PyMarkdownApi, PyMarkdownApiException
    res = {}
    with Scratch("pv-c16-") as d:
        p = os.path.join(d, "f.md")
        data = doc.encode("utf-8")
        open(p, "wb").write(data)
        code, out, err = impl.run_cli(argv + ["scan", "f.md"], cwd=d)
        res["cli-file"] = (code, _tuples(out))
        res["cli-file-error"] = bool(err.strip())
        old = sys.stdin
        try:
            sys.stdin = io.TextIOWrapper(io.BytesIO(data), encoding="utf-8", newline=None)
            code, out, err = impl.run_cli(argv + ["scan-stdin"], cwd=d)
        finally:
            sys.stdin = old
        res["cli-stdin"] = (code, _tuples(out))

        def api():
            a = PyMarkdownApi()
            for r in dis:
                a.disable_rule_by_identifier(r)
            for r in en:
                a.enable_rule_by_identifier(r)
            return a
        for name, fn in (("api-path", lambda: api().scan_path(p)), ("api-string", lambda: api().scan_string(doc))):
            try:
                r = fn()
                t = [(f.line_number, f.column_number, f.rule_id, f"{f.rule_description}{f.extra_error_information or ''} ({f.rule_name})") for f in r.scan_failures]
                res[name] = (1 if t else 0, t)
            except PyMarkdownApiException as e:
                res[name] = ("err", str(e)[:150])
        # the same file as the second of two files of a directory scan (the first one full of suppressing pragmas)
        dd = os.path.join(d, "dd")
        os.makedirs(dd)
        open(os.path.join(dd, "a0.md"), "w").write("<!-- pyml disable-num-lines 60 md001,md009,md010,md012,md013,md018,md019,md022,md023,md025,md031,md032,md041,md047-->\n" + "x\n" * 3)
        open(os.path.join(dd, "f.md"), "wb").write(data)
        try:
            r = api().scan_path(dd)
            t = [(f.line_number, f.column_number, f.rule_id, f"{f.rule_description}{f.extra_error_information or ''} ({f.rule_name})") for f in r.scan_failures if f.scan_file.endswith("f.md")]
            res["api-directory"] = (1 if t else 0, t)
        except PyMarkdownApiException as e:
            res["api-directory"] = ("err", str(e)[:150])
        # fix: in place vs fix_string vs fix_path
        code, out, err = impl.run_cli(argv + ["fix", "f.md"], cwd=d)
        fixed_cli = open(p, "rb").read().decode("utf-8") if code in (0, 3) else None
        open(p, "wb").write(data)
        try:
            r = api().fix_string(doc)
            fixed_str = r.fixed_file if r.was_fixed else doc
        except PyMarkdownApiException as e:
            fixed_str = None
        try:
            api().fix_path(p)
            fixed_path = open(p, "rb").read().decode("utf-8")
        except PyMarkdownApiException:
            fixed_path = None
    return res, fixed_cli, fixed_str, fixed_path


def _diag(case):
    doc, extra = case
    with Scratch("pv-c16d-") as d:
        open(os.path.join(d, "f.md"), "wb").write(doc.encode("utf-8"))
        import logging
        lvl = logging.getLogger().level
        try:
            code, out, err = impl.run_cli(list(extra) + ["scan", "f.md"], cwd=d)
        finally:
            for h in list(logging.getLogger().handlers):
                if isinstance(h, logging.FileHandler):
                    h.close()
                    logging.getLogger().removeHandler(h)
            logging.getLogger().setLevel(lvl)
    return code, out


def _locale(doc):
    """scan of a file vs scan-stdin of the same bytes in a child process under a non-UTF-8 locale"""
    with Scratch("pv-c16l-") as d:
        data = doc.encode("utf-8")
        open(os.path.join(d, "f.md"), "wb").write(data)
        env = dict(os.environ, PYTHONPATH=core.REPO, LC_ALL="C", LANG="C", PYTHONCOERCECLOCALE="0", PYTHONUTF8="0", PYTHONIOENCODING="utf-8")
        a = subprocess.run([core.PY, "-m", "pymarkdown", "scan", "f.md"], cwd=d, env=env, capture_output=True, timeout=120)
        b = subprocess.run([core.PY, "-m", "pymarkdown", "scan-stdin"], cwd=d, env=env, input=data, capture_output=True, timeout=120)
    return (a.returncode, _tuples(a.stdout.decode("utf-8", "replace"))), (b.returncode, _tuples(b.stdout.decode("utf-8", "replace"))), b.stderr.decode("utf-8", "replace")[-200:]


def run(ctx):
    ctx.prove("Props/C16.v", ["Model/IO.v", "Proofs/IOProofs.v"])
    # ---- (1) the two providers vs the model: every string of <= 6 (quick) / 8 (thorough) characters over {a, LF, CR} and of <= 4 / 5 characters over {a, LF, FF, LS, NEL}
    n = 6 if ctx.tier == "quick" else 8
    strings = [""] + list(gen.d_char(["a", "\n", "\r"], n))
    # characters that str.splitlines() (but not a text-mode read) takes for line ends: form feed, vertical tab, FS..RS, NEL, LS, PS
    strings += list(gen.d_char(["a", "\n", "\x0c", "\u2028", "\x85"], 4 if ctx.tier == "quick" else 5)) + ["a\x0bb\n", "a\x1cb\x1dc\x1ed\n", "a\u2029b"]
    strings = list(dict.fromkeys(strings))
    pres = impl.pmap(_providers, strings, chunksize=64)
    cases = []
    for s, (fl, flag, ml) in zip(strings, pres):
        ctx.count(1, "providers")
        if "\r" in s or s.count("\n") > 1:
            ctx.seen(["prov", s])
        cases.append((cstr(s), f"({clist((cstr(l) for l in fl), 'str')}, {cbool(flag)}, {clist((cstr(l) for l in ml), 'str')})"))
        # property-level: the file provider and the in-memory provider agree on the text as read
        t = s.replace("\r\n", "\n").replace("\r", "\n")
        if fl != t.split("\n"):
            ctx.violation("providers", {"text": s}, f"FileSourceProvider gives {fl}, the text has lines {t.split(chr(10))}", group="file-provider")
    if "Model/IO.v" in ctx.build.ok_files:
        defs = ("Definition obs (s : str) := (lines_from_file s, did_final_line_end_with_newline (universal s), mem_lines s).\n"
                "Definition obs_eqb (a b : list str * bool * list str) := let '(x1, y1, z1) := a in let '(x2, y2, z2) := b in list_eqb str_eqb x1 x2 && Bool.eqb y1 y2 && list_eqb str_eqb z1 z2.\n")
        bad = core.coq_mismatches(["PV.Base.Str", "PV.Model.IO"], defs, "obs", cases, "c16", eqb="obs_eqb", shard=250)
        ctx.corr_cases += len(cases)
        for i in bad[:8]:
            ctx.broke(f"model/implementation correspondence (Model/IO.v) differs on text {strings[i]!r}: providers give {pres[i]}")
    # ---- (2) the entry points on documents x rule selections
    base = ["[$5 a month][$5]\n\n[$5]: /u\n", "[$HOME]\n\n[$home]: /u\n", "# 100% {x} $y %s {0}\n\n![$i][$5]\n\n[$5]: /u '$t'\n", "a $ b %d {} \\$\n",
            # the same characters in every kind of block a debug statement may quote: fenced and indented code, headings, quotes, lists, HTML
            "```sh\n$ pip install x\n```\n", "```\ncost: $5 {x} %s\n```\n", "    $ indented {0}\n", "# $h %s\n\nSetext $ {x}\n===\n", "> $q\n> ```\n> $ in quote\n", "- $i\n  1. $j {}\n",
            "<div>\n$ html %d\n</div>\n", "`$c` *$e* [$l](/$u '$t') <$a@b.c>\n"] + list(gen.POOL) + ["# a\r\n\r\nb  \r\n", "a  \r\nb\r\n", "## T #\r\n\r\ntext\r\n", "a\rb\r", "# h\n\nþ ü 艨 text  \n", "# ü\r\n", "a\n\n\n\nb", "#  a", "\ta\r\n"]
    corpus = gen.repo_corpus(core.REPO)
    docs = base + gen.sample(corpus, 100 if ctx.tier == "quick" else 1500, ctx.seed)
    docs += [d.replace("\n", "\r\n") for d in gen.sample(corpus, 60 if ctx.tier == "quick" else 600, ctx.seed + 1)]
    docs = [d for d in dict.fromkeys(docs) if d.strip()]
    ecases = [(d, sel) for d in docs for sel in (SELECTIONS if ctx.tier == "thorough" else ["default", ["minus", "plus", "both", "same", "same-alias"][(len(d) + ctx.seed) % 5]])]
    eres = impl.pmap(_entry, ecases, chunksize=8)
    for (d, sel), (res, fcli, fstr, fpath) in zip(ecases, eres):
        ctx.count(1, "entry/" + sel)
        if res["cli-file"][1]:
            ctx.seen([d, sel])
        inp = {"doc": d, "selection": sel}
        ref = res["cli-file"]
        if ref[0] not in (0, 1) or (ref[0] == 1 and not ref[1]) or res.get("cli-file-error"):
            ctx.unit("skipped", application_errors=1)
            continue
        for k in ("cli-stdin", "api-path", "api-string", "api-directory"):
            if res[k][0] == "err":
                ctx.violation("entry", dict(inp, entry=k), f"{k} fails ({res[k][1]!r}) where the file scan reports {ref[1][:3]}", group="entry-error-" + k)
            elif res[k][1] != ref[1]:
                ctx.violation("entry", dict(inp, entry=k), f"{k} reports {res[k][1][:4]}, the file scan reports {ref[1][:4]}", group="entry-differs-" + k)
        if fcli is not None and (fstr is not None and fstr != fcli or fpath is not None and fpath != fcli):
            ctx.violation("entry-fix", inp, f"fixed text differs: in place {fcli!r}, fix_string {fstr!r}, fix_path {fpath!r}", group="entry-fix")
    ctx.sample({"doc": ecases[2][0], "selection": ecases[2][1], "cli-file": eres[2][0]["cli-file"][1][:3]})
    # ---- (3) diagnostic options change nothing but the diagnostics
    ddocs = base[:25] if ctx.tier == "quick" else base
    dcases = [(d, tuple(x)) for d in ddocs if d.strip() for x in DIAG]
    dres = impl.pmap(_diag, dcases, procs=1)      # logging configuration is process-global: run them in this process, sequentially
    ref = {}
    for (d, x), (code, out) in zip(dcases, dres):
        ctx.count(1, "diagnostics")
        if not x:
            ref[d] = (code, _tuples(out))
        elif (code, _tuples(out)) != ref[d]:
            ctx.violation("diagnostics", {"doc": d, "options": list(x)}, f"with {list(x)} the scan gives exit {code} / {_tuples(out)[:3]}, without them {ref[d][0]} / {ref[d][1][:3]}", group="diagnostics")
    # ---- (4) non-UTF-8 locale: file vs stdin
    for d in ["# þ a\n", "ü  \n", "# h\r\n\r\n艨  \r\n"]:
        a, b, err = _locale(d)
        ctx.count(1, "locale-C")
        ctx.seen(["locale", d])
        if a != b:
            ctx.violation("entry", {"doc": d, "entry": "scan-stdin under LC_ALL=C"}, f"scan gives {a}, scan-stdin gives {b} ({err!r})", group="entry-locale")
    ctx.trusted += [
        "correspondence: Model/IO.v lines_from_file / mem_lines / final-newline flag (vm_compute) vs FileSourceProvider / InMemorySourceProvider on every string over {a, LF, CR} up to the stated length (exhaustive)",
        "entry-point differential: CLI scan of a file, CLI scan-stdin (bytes through a universal-newline text wrapper, and real pipes in a child process under LC_ALL=C), API scan_path, API scan_string; CLI fix vs fix_string vs fix_path; six rule selections (two of them naming a rule on both the disable and the enable side); eight diagnostic option sets",
    ]
    return ctx.finish(
        level="proof",
        rule=f"(1) all strings of <= {n} characters over {{a, LF, CR}}; (2) pool documents incl. CR-LF, lone CR, non-ASCII, no final newline + sampled repository corpus (also converted to CR-LF) x rule selections x 4 scan entry points and 3 fix entry points; (3) diagnostic options; (4) C locale; non-trivial = a text with CR or several LF, or a document with at least one failure; distinct by input",
        assumptions=["the API refuses strings that are empty after strip(): whitespace-only documents are outside its domain and are not compared",
                     "documents on which the file scan itself ends in an application error are skipped (C01/C07/C15)"],
        extra_cov={"exhaustive": True},
    )
