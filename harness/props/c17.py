"""C17 - rule selection and settings follow the documented precedence of layers."""
import itertools
import json
import os
import re
import zlib

import core
import impl
from core import Scratch, cbool, clist, cstr, cZ
from translate.rule_table import read_rules

STATES = ["unset", "true", "false"]
INVALID = "bad"          # a string where a boolean is expected
LAYERS = ["project", "default", "config", "set"]   # lowest precedence first (load order)
FORMATS = {"json": ("cfg.json", ".pymarkdown"), "yaml": ("cfg.yaml", ".pymarkdown.yaml"), "toml": ("cfg.toml", ".pymarkdown.yml")}


def render(fmt, d):
    """d: {ident: {item: python value}} -> file text in the given format (plugins section)"""
    if fmt == "json":
        return json.dumps({"plugins": d})
    if fmt == "toml":
        out = []
        for ident, items in d.items():
            for k, v in items.items():
                out.append(f'plugins.{ident}.{k} = ' + (json.dumps(v)))
        return "\n".join(out) + "\n"
    out = ["plugins:"]
    for ident, items in d.items():
        out.append(f"  {ident}:")
        for k, v in items.items():
            out.append(f"    {k}: {json.dumps(v)}")
    return "\n".join(out) + "\n"


def pyval(state):
    return {"true": True, "false": False, INVALID: "yes"}[state]


def setarg(ident, item, v):
    if isinstance(v, bool):
        return f"plugins.{ident}.{item}=$!{v}"
    if isinstance(v, int):
        return f"plugins.{ident}.{item}=$#{v}"
    return f"plugins.{ident}.{item}={v}"


def write_layers(d, fmt, layer_items):
    """layer_items: {layer: {ident: {item: value}}}; returns argv prefix"""
    argv = []
    cfgname, defname = FORMATS[fmt]
    if layer_items.get("project"):
        body = []
        for ident, items in layer_items["project"].items():
            for k, v in items.items():
                body.append(f"plugins.{ident}.{k} = {json.dumps(v)}")
        open(os.path.join(d, "pyproject.toml"), "w").write("[tool.pymarkdown]\n" + "\n".join(body) + "\n")
    if layer_items.get("default"):
        dfmt = {"json": "json", "yaml": "yaml", "toml": "yaml"}[fmt]
        open(os.path.join(d, defname), "w").write(render(dfmt, layer_items["default"]))
    if layer_items.get("config"):
        open(os.path.join(d, cfgname), "w").write(render(fmt, layer_items["config"]))
        argv += ["--config", cfgname]
    for ident, items in (layer_items.get("set") or {}).items():
        for k, v in items.items():
            argv += ["-s", setarg(ident, k, v)]
    return argv


FILLER = ("md001", "front_matter_title", "title")   # an unrelated key: the layer exists but is silent about the probe rule


def _run_enabled(case):
    rid, idents, states, cli, strict, fmt, filler = case       # idents: per layer identifier; cli: (dis_ident|None, en_ident|None)
    with Scratch("pv-c17-") as d:
        li = {}
        for layer, ident, st in zip(LAYERS, idents, states):
            if st != "unset":
                li[layer] = {ident: {"enabled": pyval(st)}}
            elif filler:
                li[layer] = {FILLER[0]: {FILLER[1]: FILLER[2]}}
        argv = write_layers(d, fmt, li)
        if strict:
            argv = ["--strict-config"] + argv
        if cli[0]:
            argv += ["-d", cli[0]]
        if cli[1]:
            argv += ["-e", cli[1]]
        code, out, err = impl.run_cli(argv + ["plugins", "list", rid], cwd=d)
    m = re.search(r"^\s*" + rid + r"\s+.*?\s(True|False)\s+(True|False)\s", out, re.M)
    return code, (m.group(2) == "True") if m else None, err[-300:]


def spec_enabled(states, cli, default, strict, consistent=True):
    """the documented precedence; returns True/False or 'error'"""
    if cli[0]:
        return False
    if cli[1]:
        return True
    for st in reversed(states):          # most specific first
        if st == "unset":
            continue
        if st == INVALID:
            return "error" if strict else default
        return st == "true"
    return default


def coq_layers_enabled(idents, states, filler=False):
    ls = []
    for ident, st in zip(idents, states):
        if st == "unset":
            ls.append(f"[(({cstr(FILLER[0])}, {cstr(FILLER[1])}), VStr {cstr(FILLER[2])})]" if filler else "[]")
        else:
            v = "VStr [121;101;115]%N" if st == INVALID else f"VBool {cbool(st == 'true')}"
            ls.append(f"[(({cstr(ident)}, enabled_key), {v})]")
    return "[" + "; ".join(ls) + "]"


def _run_item(case):
    rid, ident, item, vals, strict, fmt = case[:6]       # vals: (config-layer value | None, set-layer value | None)
    cli_enable = len(case) > 6 and case[6]               # also enable the rule on the command line, through the same identifier
    with Scratch("pv-c17i-") as d:
        li = {}
        if vals[0] is not None:
            li["config"] = {ident: {item: vals[0]}}
        if vals[1] is not None:
            li["set"] = {ident: {item: vals[1]}}
        if len(case) > 7 and case[7]:                      # another item of the same rule, set beside it
            li.setdefault("set", {}).setdefault(ident, {})[case[7][0]] = case[7][1]
        argv = write_layers(d, fmt, li)
        if strict:
            argv = ["--strict-config"] + argv
        if cli_enable:
            argv = ["-e", ident] + argv
        code, out, err = impl.run_cli(argv + ["plugins", "info", rid], cwd=d)
    val = None
    for line in out.split("\n"):
        parts = re.split(r"\s{2,}", line.strip())
        if len(parts) >= 2 and parts[0] == item and parts[1] in ("integer", "boolean", "string"):
            val = parts[2] if len(parts) > 2 else ""
            if parts[1] == "string" and val.startswith('"'):
                val = val[1:-1] if val.endswith('"') and len(val) > 1 else val[1:] + "\u2026"   # wrapped by columnar: prefix only
    return code, val, err[-300:]


def coq_value(v):
    if v is None:
        return None
    if isinstance(v, bool):
        return f"VBool {cbool(v)}"
    if isinstance(v, int):
        return f"VInt {cZ(v)}"
    return f"VStr {cstr(v)}"


def candidates(it):
    """values to try for an item: in range, out of range, wrongly typed"""
    ty, valid, default = it["ty"], it["valid"], it["default"]
    if ty == "boolean":
        return [True, False, "yes", 3]
    if ty == "integer":
        vs = [3, 0, -1, 7, 100, "x", True]
        return vs
    vs = ["zz", 5, True]
    if valid[0] == "in":
        vs = [valid[1][0], valid[1][-1], "zz", 5]
    return vs


def show(v):
    return "True" if v is True else "False" if v is False else str(v)


def run(ctx):
    ctx.prove("Props/C17.v", ["Base/RuleTypes.v", "Gen/RuleTable.v", "Model/Config.v", "Proofs/ConfigProofs.v"])
    rules = {r["id"]: r for r in read_rules(core.REPO)}
    probes = ["md013", "md002"]                      # default-enabled / default-disabled
    # ---- (1) enabled flag: layers x cli x identifier x strict x file format
    cases = []
    layer_states = list(itertools.product(STATES, repeat=4))
    if ctx.tier == "thorough":
        layer_states = list(itertools.product(STATES + [INVALID], repeat=4))
    for rid in probes:
        r = rules[rid]
        idents_all = [r["id"]] + r["names"]
        for ident in idents_all:
            for states in layer_states:
                for cli in ((None, None), (None, ident), (ident, None), (ident, ident)):
                    for strict in (False, True):
                        fmts = list(FORMATS) if ctx.tier == "thorough" else [list(FORMATS)[(zlib.crc32(repr((states, cli, strict, ident)).encode()) + ctx.seed) % 3]]
                        for fmt in fmts:
                            fills = (False, True) if ctx.tier == "thorough" else ((zlib.crc32(repr((states, cli, ident)).encode()) + ctx.seed) % 2 == 0,)
                            for fill in fills:
                                cases.append((rid, (ident,) * 4, states, cli, strict, fmt, fill, True))
        # invalid values and mixed identifiers (outside the property's "named consistently" hypothesis: model correspondence only)
        rng = core.random.Random(ctx.seed + 5)
        pool = list(itertools.product(STATES + [INVALID], repeat=4))
        for states in (pool if ctx.tier == "thorough" else rng.sample(pool, 60)):
            for strict in (False, True):
                if INVALID in states:
                    cases.append((rid, (idents_all[0],) * 4, states, (None, None), strict, "json", False, True))
                mixed = tuple(rng.choice(idents_all) for _ in range(4))
                cases.append((rid, mixed, states, (None, None), strict, rng.choice(list(FORMATS)), rng.random() < 0.5, len(set(i for i, s in zip(mixed, states) if s != "unset")) <= 1))
    res = impl.pmap(_run_enabled, [c[:7] for c in cases], chunksize=16)
    coq_cases = []
    for case, (code, cur, err) in zip(cases, res):
        rid, idents, states, cli, strict, fmt, filler, consistent = case
        ctx.count(1, "enabled/" + ("consistent" if consistent else "mixed-idents") + ("/silent-layers" if filler else ""))
        inp = {"rule": rid, "idents": list(idents), "layers": dict(zip(LAYERS, states)), "cli_disable": cli[0], "cli_enable": cli[1], "strict": strict, "format": fmt, "unset_layers_present_but_silent": filler}
        if any(s != "unset" for s in states) or cli != (None, None):
            ctx.seen(inp)
        if consistent:
            want = spec_enabled(states, cli, rules[rid]["default"], strict)
            got = "error" if (code == 1 and cur is None) else cur
            if got != want:
                ctx.violation("enabled", inp, f"rule {rid}: ENABLED (CURRENT) = {got} (exit {code}), documented precedence gives {want}; stderr {err!r}", group="enabled")
        obs = "ConfigError" if (code == 1 and cur is None) else f"Ok {cbool(cur)}" if cur is not None else "ConfigError"
        coq_cases.append((f"({cbool(strict)}, mkCli {clist([cstr(cli[0])] if cli[0] else [], 'str')} {clist([cstr(cli[1])] if cli[1] else [], 'str')}, "
                          f"flat {coq_layers_enabled(idents, states, filler)}, rule_{rid})", f"(@{obs.split()[0]} bool{' ' + obs.split()[1] if ' ' in obs else ''})"))
    ctx.sample({"case": [list(x) if isinstance(x, tuple) else x for x in cases[len(cases) // 2]], "result": list(res[len(cases) // 2])})
    if "Model/Config.v" in ctx.build.ok_files:
        defs = ("Definition res_eqb (a b : res bool) := match a, b with Ok x, Ok y => Bool.eqb x y | ConfigError, ConfigError => true | _, _ => false end.\n"
                "Definition obs (c : bool * cli * layer * rule) := let '(s, cl, es, r) := c in rule_enabled s cl es r.\n")
        bad = core.coq_mismatches(["PV.Base.Str", "PV.Base.RuleTypes", "PV.Gen.RuleTable", "PV.Model.Config"], defs, "obs", coq_cases, "c17", eqb="res_eqb", shard=200)
        ctx.corr_cases += len(coq_cases)
        for i in bad[:10]:
            ctx.broke(f"model/implementation correspondence (Model/Config.v rule_enabled) differs on {cases[i]}: impl {res[i]}")
    # ---- (2) every configuration item of every rule: in range / out of range / wrongly typed x lenient / strict
    icases = []
    for rid, r in sorted(rules.items()):
        if not r["file"].startswith("rule_"):
            continue                      # the debug-only plug-in has no query_config: `plugins info` shows no items for it
        for it in r["items"]:
            cands = candidates(it)
            pairs = [(None, None)] + [(None, v) for v in cands] + [(v, None) for v in cands[:3]] + [(cands[0], v) for v in cands[1:3]] + [(cands[1], cands[0])]
            idents = [r["id"], r["names"][0]] if ctx.tier == "quick" else [r["id"]] + r["names"]
            for ident in idents:
                for vals in pairs:
                    for strict in (False, True):
                        fmt_ = "json" if vals[0] is None or isinstance(vals[0], (bool, int)) else "yaml"
                        icases.append((rid, ident, it["name"], vals, strict, fmt_, False))
                        if vals != (None, None) and (ctx.tier == "thorough" or (zlib.crc32(repr((rid, ident, it["name"], vals, strict)).encode()) + ctx.seed) % 3 == 0):
                            icases.append((rid, ident, it["name"], vals, strict, fmt_, True))   # the way the rule is enabled must not change where its settings are looked up
    # ... and beside every other item of the same rule set to a valid value that is not its default (an item is read and
    # validated whatever the other items of the rule say)
    for rid, r in sorted(rules.items()):
        if not r["file"].startswith("rule_"):
            continue
        for b in r["items"]:
            if b["default"] is None or b["valid"][0] == "opaque":
                continue
            if b["ty"] == "boolean":
                bval = not b["default"]
            else:
                v = b["valid"]
                ok = [c for c in candidates(b) if type(c) is type(b["default"]) and c != b["default"] and
                      (v[0] == "none" or (v[0] == "range" and (v[1] is None or v[1] <= c) and (v[2] is None or c <= v[2])) or (v[0] == "in" and c in v[1]))]
                if not ok:
                    continue
                bval = ok[0]
            for it in r["items"]:
                if it["name"] == b["name"]:
                    continue
                cands = candidates(it)
                for v in cands[:2] + cands[-2:]:
                    for strict in (False, True):
                        icases.append((rid, r["id"], it["name"], (None, v), strict, "json", False, (b["name"], bval)))
    for rid, r in sorted(rules.items()):
        for it in r["items"]:
            if it.get("conditional"):
                ctx.broke(f"rule {rid}: the configuration item {it['name']} is read on some paths only (Gen/RuleTable.v and Model/Config.v take every item of a rule as read and validated); the item cases beside the rule's boolean items look for an input")
    ires = impl.pmap(_run_item, icases, chunksize=16)
    coq2, idx2 = [], []
    for i, (case, (code, val, err)) in enumerate(zip(icases, ires)):
        rid, ident, item, vals, strict, fmt, cli_en = case[:7]
        gate = case[7] if len(case) > 7 else None
        it = next(x for x in rules[rid]["items"] if x["name"] == item)
        ctx.count(1, "item/" + it["ty"])
        inp = {"rule": rid, "ident": ident, "item": item, "config_layer": vals[0], "set_layer": vals[1], "strict": strict}
        if cli_en:
            inp["cli_enable"] = ident
        if gate:
            inp["beside"] = {gate[0]: gate[1]}
        ctx.seen(inp)
        # the documented behaviour, evaluated in Python for the modelled validators
        eff = vals[1] if vals[1] is not None else vals[0]
        tyok = eff is not None and {"boolean": isinstance(eff, bool), "integer": isinstance(eff, int) and not isinstance(eff, bool), "string": isinstance(eff, str)}[it["ty"]]
        v = it["valid"]
        if v[0] == "opaque" or it["default"] is None:
            continue
        okval = tyok and (v[0] == "none" or (v[0] == "range" and (v[1] is None or v[1] <= eff) and (v[2] is None or eff <= v[2])) or (v[0] == "in" and eff in v[1]))
        if eff is None or okval:
            want = (0, show(eff if eff is not None else it["default"]))
        else:
            want = (1, None) if strict else (0, show(it["default"]))
        got = (code, val if code == 0 else None)
        if gate:
            # beside another item only the exit status is judged: what a rule shows for an item may by design depend on its other
            # items (md024's two names of one setting, md003's allow-setext-update that only counts under the consistent style)
            if vals == (None, None):
                continue
            got, want = (got[0], None), (want[0], None)
        if got[1] is not None and got[1].endswith("\u2026") and want[1] is not None and want[1].startswith(got[1][:-1]):
            got = want
            val = want[1]
        if got != want:
            ctx.violation("item", inp, f"{rid}.{item}: exit/value {got}, documented behaviour gives {want}; stderr {err!r}", group="item-" + rid)
        if gate:
            continue
        layers = "[" + "; ".join(f"[(({cstr(ident)}, {cstr(item)}), {coq_value(x)})]" if x is not None else "[]" for x in vals) + "]"
        iti = [x["name"] for x in rules[rid]["items"]].index(item)
        if code == 0 and val is not None:
            dv = it["default"] if val == show(it["default"]) and not okval else eff if okval else it["default"]
            exp = f"Some (Ok ({coq_value(dv) or 'VOther'}))"
        else:
            exp = "Some (@ConfigError value)"
        coq2.append((f"({cbool(strict)}, flat {layers}, rule_{rid}, {iti}%nat)", exp))
        idx2.append(i)
    ctx.sample({"item_case": list(icases[3]), "result": list(ires[3])})
    if "Model/Config.v" in ctx.build.ok_files:
        defs = ("Definition value_eqb (a b : value) := match a, b with VBool x, VBool y => Bool.eqb x y | VInt x, VInt y => Z.eqb x y | VStr x, VStr y => str_eqb x y | VOther, VOther => true | _, _ => false end.\n"
                "Definition r_eqb (a b : option (res value)) := match a, b with Some (Ok x), Some (Ok y) => value_eqb x y | Some ConfigError, Some ConfigError => true | None, None => true | _, _ => false end.\n"
                "Definition obs2 (c : bool * layer * rule * nat) := let '(s, es, r, n) := c in match nth_error (r_items r) n with Some it => item_value s es r it | None => None end.\n")
        bad = core.coq_mismatches(["PV.Base.Str", "PV.Base.RuleTypes", "PV.Gen.RuleTable", "PV.Model.Config"], defs, "obs2", coq2, "c17i", eqb="r_eqb", shard=200)
        ctx.corr_cases += len(coq2)
        for j in bad[:10]:
            ctx.broke(f"model/implementation correspondence (Model/Config.v item_value) differs on {icases[idx2[j]]}: impl {ires[idx2[j]]}")
    ctx.trusted += [
        "translator harness/translate/rule_table.py (ids, names, defaults, configuration items, validators; 4 opaque validators are outside the model)",
        "correspondence: Model/Config.v rule_enabled / item_value (vm_compute) vs `plugins list` / `plugins info` in scratch directories holding pyproject.toml, .pymarkdown(.yaml/.yml), --config (json/yaml/toml), --set",
        "modelled rather than verified: file loaders of application_properties (only their merge order and overwrite semantics are modelled), argparse",
    ]
    return ctx.finish(
        level="proof",
        rule="(1) {unset,true,false}^4 layers (+invalid string values; thorough: all 4^4) x cli {none,-e,-d,both} x every identifier of a default-enabled and a default-disabled rule x strict x config format; plus mixed-identifier stacks (model correspondence only); "
             "(2) every configuration item of every rule x {in range, out of range, wrong type} in the --config and --set layers x lenient/strict x id/alias, a third of them also with the rule enabled by -e through the same identifier; non-trivial = some layer or switch set; distinct by input",
        assumptions=["`plugins list` / `plugins info` show the state the scan would use (they share __determine_if_plugin_enabled and initialize_from_config)",
                     "items with opaque validators (md025/md041 front_matter_title, md035 style, md043 headings) are compared with the model only for type errors"],
        extra_cov={"exhaustive": ctx.tier == "thorough"},
    )
