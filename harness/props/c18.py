"""C18 - exit codes follow the documented table in both schemes."""
import itertools
import os
import re

import core
import impl
from core import Scratch, cN, cbool, clist

KINDS = ["clean", "trig", "fixable", "perr", "terr", "supp", "decode"]
CONTENT = {
    "clean": b"# a\n",
    "trig": b"# a\n\na <b>x</b>\n",
    "fixable": b"#  a\n",
    "supp": b"# a\n\n<!-- pyml disable-next-line no-inline-html-->\na <b>x</b>\n",      # a failure that a pragma suppresses: nothing is reported for this file
    "perr": b"# a\n\nPLUGINFAIL\n",
    "terr": b"---\ntest: assert\n---\n",
    "decode": b"\xff\xfe# a\n",
}
BASE = ["--add-plugin", os.path.join(impl.PLUGDIR, "pv_fault.py"), "-s", "extensions.front-matter.enabled=$!True"]
ENV = {"PV_FAULT": '{"cb":"content"}', "PV_FAULT_FIX": "1", "PV_FAULT_LEVEL": "1", "PV_FAULT_ID": "zzx999"}
SCHEMES = {  # variant -> (argv prefix, scheme asked for)
    "implicit": ([], "default"),
    "arg-default": (["--return-code-scheme", "default"], "default"),
    "arg-minimal": (["--return-code-scheme", "minimal"], "minimal"),
    "set-minimal": (["-s", "mode.return_code_scheme=minimal"], "minimal"),
    "file-minimal": (["--config", "rc.json"], "minimal"),
    "arg-beats-set": (["--return-code-scheme", "default", "-s", "mode.return_code_scheme=minimal"], "default"),
}


def doc_table(repo=core.REPO):
    """The documented table, read independently of the translator (used by the Python-side oracle)."""
    txt = open(os.path.join(repo, "newdocs/src/user-guide.md"), encoding="utf-8").read()
    rows = re.findall(r"^\|\s*`([A-Z_]+)`\s*\|\s*(\d+)\s*\|\s*(\d+)\s*\|$", txt, re.M)
    return {r[0]: {"default": int(r[1]), "minimal": int(r[2])} for r in rows}


PROPERTY_TABLE = {  # the table quoted in the property statement itself
    "SUCCESS": (0, 0), "NO_FILES_TO_SCAN": (1, 0), "COMMAND_LINE_ERROR": (2, 2),
    "FIXED_AT_LEAST_ONE_FILE": (3, 0), "SCAN_TRIGGERED_AT_LEAST_ONCE": (1, 0), "SYSTEM_ERROR": (1, 1),
}


def spec_category(vec, mode, coe):
    """Python mirror of the documented precedence (independent of the Coq model)."""
    proc = []
    for k in vec:
        proc.append(k)
        if k == "decode" or (k in ("perr", "terr") and not coe):
            break
    if any(k in ("perr", "terr", "decode") for k in proc):
        return "SYSTEM_ERROR"
    if mode == "fix" and "fixable" in proc:
        return "FIXED_AT_LEAST_ONE_FILE"
    if mode == "scan" and any(k in ("trig", "fixable") for k in proc):
        return "SCAN_TRIGGERED_AT_LEAST_ONCE"
    return "SUCCESS"


def _run_vec(case):
    vec, mode, coe, variant = case
    pre, _ = SCHEMES[variant]
    with Scratch("pv-c18-") as d:
        names = []
        for i, k in enumerate(vec, 1):
            n = f"f{i}.md"
            open(os.path.join(d, n), "wb").write(CONTENT[k])
            names.append(n)
        open(os.path.join(d, "rc.json"), "w").write('{"mode": {"return_code_scheme": "minimal"}}')
        argv = BASE + pre + (["--continue-on-error"] if coe else []) + [mode] + names
        code, out, err = impl.run_cli(argv, cwd=d, env=ENV)
        after = [open(os.path.join(d, n), "rb").read() for n in names]
        left = sorted(set(os.listdir(d)) - set(names) - {"rc.json"})
    return code, out, err, after, left


def parse_events(out, err):
    so, se, junk = [], [], []
    for line in out.split("\n"):
        m = re.match(r"^f(\d)\.md:\d+:\d+: [A-Z]{2,3}\d{3}:", line)
        if m:
            f = int(m.group(1))
            if so and so[-1][0] == "F" and so[-1][1] == f:
                so[-1][2] += 1
            else:
                so.append(["F", f, 1])
            continue
        m = re.match(r"^Fixed: f(\d)\.md$", line)
        if m:
            so.append(["X", int(m.group(1))])
            continue
        if line.strip():
            junk.append("stdout: " + line)
    for line in err.split("\n"):
        m = re.match(r"^f(\d)\.md:0:0: ", line)
        if m:
            se.append(["S", int(m.group(1))])
            continue
        m = re.match(r"^\w+ encountered while scanning 'f(\d)\.md':$", line)
        if m:
            se.append(["L", int(m.group(1))])
            continue
        if line.startswith("Unexpected Error("):
            se.append(["U"])
            continue
        if line.startswith("Configuration Error:"):
            se.append(["C"])
            continue
        if line.strip() and not re.match(r"^\(\d+,\d+\): Plugin id|^An unhandled error|^\(Line \d+\): Plugin id|^'utf-8' codec|^Plugin id '", line):
            junk.append("stderr: " + line)
    return so, se, junk


def coq_events(evs):
    out = []
    for e in evs:
        if e[0] == "F":
            out.append(f"EFailures {cN(e[1])} {cN(e[2])}")
        else:
            out.append({"X": "EFixed", "S": "EShortError", "L": "ELongError"}.get(e[0], "") + (f" {cN(e[1])}" if len(e) > 1 else "")
                       if e[0] in "XSL" else {"U": "EUnexpected", "C": "EConfigError"}[e[0]])
    return clist(out, "event")


def coq_outcome(k, mode, nfail):
    if k in ("clean", "supp"):
        return "Done 0%N false"
    if k == "trig":
        return f"Done {cN(nfail['trig'])} false"
    if k == "fixable":
        return f"Done {cN(nfail['fixable'])} true"
    if k == "perr":
        return "PluginErr 0%N"
    return {"terr": "TokErr", "decode": "DecodeErr"}[k]


def other_paths():
    """(argv, stdin, path term, expected category) for every non-scanning way to reach exit."""
    P = []
    a = P.append
    a(([], None, "PNoSubcommand", "COMMAND_LINE_ERROR"))
    a((["version"], None, "PVersion", "SUCCESS"))
    a((["--bogus-argument"], None, "PArgparseError", "COMMAND_LINE_ERROR"))
    a((["scan"], None, "PArgparseError", "COMMAND_LINE_ERROR"))
    a((["fix"], None, "PArgparseError", "COMMAND_LINE_ERROR"))
    a((["scan", "-ae", "md", "d"], None, "PArgparseError", "COMMAND_LINE_ERROR"))
    a((["plugins", "info", "$$"], None, "PArgparseError", "COMMAND_LINE_ERROR"))
    a((["plugins", "list", "$$"], None, "PArgparseError", "COMMAND_LINE_ERROR"))
    a((["bogus-command"], None, "PArgparseError", "COMMAND_LINE_ERROR"))
    for sub in ("plugins", "extensions"):
        a(([sub], None, "PSubNoSub", "COMMAND_LINE_ERROR"))
        a(([sub, "list"], None, "PSubList true", "SUCCESS"))
        a(([sub, "list", "zzz*"], None, "PSubList false", "NO_FILES_TO_SCAN"))
    a((["plugins", "list", "md00?"], None, "PSubList true", "SUCCESS"))
    a((["plugins", "list", "--all"], None, "PSubList true", "SUCCESS"))
    a((["plugins", "info", "md001"], None, "PSubInfo true", "SUCCESS"))
    a((["plugins", "info", "heading-increment"], None, "PSubInfo true", "SUCCESS"))
    a((["plugins", "info", "zzz998"], None, "PSubInfo false", "NO_FILES_TO_SCAN"))
    a((["extensions", "info", "front-matter"], None, "PSubInfo true", "SUCCESS"))
    a((["extensions", "info", "nope"], None, "PSubInfo false", "NO_FILES_TO_SCAN"))
    a((["--config", "missing.json", "scan", "d"], None, "PInitError", "SYSTEM_ERROR"))
    a((["--config", "bad.json", "scan", "d"], None, "PInitError", "SYSTEM_ERROR"))
    a((["--strict-config", "-s", "plugins.md013.line_length=$#-1", "scan", "d"], None, "PInitError", "SYSTEM_ERROR"))
    a((["--strict-config", "-s", "plugins.md013.line_length=$#-1", "fix", "d"], None, "PInitError", "SYSTEM_ERROR"))
    a((["--strict-config", "-s", "extensions.front-matter.enabled=1", "scan", "d"], None, "PInitError", "SYSTEM_ERROR"))
    a((["--add-plugin", "missing.py", "scan", "d"], None, "PInitError", "SYSTEM_ERROR"))
    a((["--add-plugin", "notaplugin.py", "scan", "d"], None, "PInitError", "SYSTEM_ERROR"))
    a((["scan", "-l", "d"], None, "PListFiles 1", "SUCCESS"))
    a((["fix", "-l", "d"], None, "PListFiles 1", "SUCCESS"))
    a((["scan", "-l", "-r", "."], None, "PListFiles 2", "SUCCESS"))
    a((["scan", "-l", "e"], None, "PListFiles 0", "NO_FILES_TO_SCAN"))
    a((["scan", "-l", "d", "missing.md"], None, "PListFiles 0", "NO_FILES_TO_SCAN"))
    a((["scan", "-l", "*.zip"], None, "PListFiles 0", "NO_FILES_TO_SCAN"))
    a((["scan", "missing.md"], None, "PPathError", "NO_FILES_TO_SCAN"))
    a((["fix", "missing.md"], None, "PPathError", "NO_FILES_TO_SCAN"))
    a((["scan", "d", "missing.md"], None, "PPathError", "NO_FILES_TO_SCAN"))
    a((["scan", "e/c.txt"], None, "PPathError", "NO_FILES_TO_SCAN"))
    a((["scan", "*.zip"], None, "PPathError", "NO_FILES_TO_SCAN"))
    a((["scan", "d"], None, "PRun Scan false [(1%N, Done 0%N false)]", "SUCCESS"))
    a((["fix", "d"], None, "PRun Fix false [(1%N, Done 0%N false)]", "SUCCESS"))
    a((["scan-stdin"], "# a\n", "PStdin false (Done 0%N false)", "SUCCESS"))
    a((["scan-stdin"], "#  a\n", "PStdin false (Done 1%N false)", "SCAN_TRIGGERED_AT_LEAST_ONCE"))
    a((["scan-stdin"], "# a\n\nPLUGINFAIL\n", "PStdin false (PluginErr 0%N)", "SYSTEM_ERROR"))
    a((["--continue-on-error", "scan-stdin"], "# a\n\nPLUGINFAIL\n", "PStdin true (PluginErr 0%N)", "SYSTEM_ERROR"))
    a((["scan-stdin"], "---\ntest: assert\n---\n", "PStdin false TokErr", "SYSTEM_ERROR"))
    a((["--continue-on-error", "scan-stdin"], "---\ntest: assert\n---\n", "PStdin true TokErr", "SYSTEM_ERROR"))
    # selecting no file at all is documented as NO_FILES_TO_SCAN; the model says what the code does
    a((["scan", "e"], None, "PRun Scan false []", "NO_FILES_TO_SCAN"))
    a((["fix", "e"], None, "PRun Fix false []", "NO_FILES_TO_SCAN"))
    a((["scan", "e/*"], None, "PRun Scan false []", "NO_FILES_TO_SCAN"))
    return P


def _run_other(case):
    argv, stdin, variant = case
    pre, _ = SCHEMES[variant]
    with Scratch("pv-c18o-") as d:
        os.makedirs(os.path.join(d, "d"))
        os.makedirs(os.path.join(d, "e"))
        os.makedirs(os.path.join(d, "g"))
        open(os.path.join(d, "d", "a.md"), "w").write("# a\n")
        open(os.path.join(d, "g", "b.md"), "w").write("# a\n")
        open(os.path.join(d, "e", "c.txt"), "w").write("x\n")
        open(os.path.join(d, "bad.json"), "w").write("{not json")
        open(os.path.join(d, "notaplugin.py"), "w").write("x = 1\n")
        open(os.path.join(d, "rc.json"), "w").write('{"mode": {"return_code_scheme": "minimal"}}')
        scanning = any(a in ("scan", "fix", "scan-stdin") for a in argv)
        base = BASE if (scanning and "--add-plugin" not in argv) else (BASE[2:] if scanning else [])
        code, out, err = impl.run_cli(pre + base + argv, cwd=d, stdin_text=stdin, env=ENV)
    return code, out[:300], err[:300]


def run(ctx):
    proved = ctx.prove("Props/C18.v", ["Gen/ReturnCodes.v", "Gen/DocReturnCodes.v", "Gen/FinalCategory.v",
                                         "Model/Runner.v", "Proofs/RunnerProofs.v"])
    table = doc_table()
    # (0) the documentation must carry the table the property states
    for cat, (d0, m0) in PROPERTY_TABLE.items():
        ctx.count(1, "table-row")
        if table.get(cat) != {"default": d0, "minimal": m0}:
            ctx.violation("doc-table", cat, f"user-guide.md documents {table.get(cat)} for {cat}; the property states default={d0} minimal={m0}")
    # (1) baseline: failures per kind, single file
    nfail = {}
    for k in ("trig", "fixable"):
        code, out, err, _, _ = _run_vec(((k,), "scan", False, "implicit"))
        nfail[k] = len(re.findall(r"^f1\.md:\d+:\d+: ", out, re.M))
        if nfail[k] == 0:
            ctx.broke(f"probe document '{k}' no longer triggers a failure")
    # (2) outcome vectors
    maxlen = 3
    kinds5 = KINDS[:6]
    vecs = [v for n in range(1, maxlen + 1) for v in itertools.product(kinds5, repeat=n)]
    vecs += [v for n in range(1, 3) for v in itertools.product(KINDS, repeat=n) if "decode" in v]
    variants = list(SCHEMES) if ctx.tier == "thorough" else ["implicit", "arg-minimal", "set-minimal", "file-minimal", "arg-beats-set"]
    cases = []
    for v in vecs:
        for mode in ("scan", "fix"):
            for coe in (False, True):
                if ctx.tier == "thorough" or len(v) < 3:
                    vs = variants
                else:  # quick: every 3-vector under two seed-selected variants
                    r = ctx.rng.randrange(len(variants))
                    vs = [variants[r], variants[(r + 1 + ctx.rng.randrange(len(variants) - 1)) % len(variants)]]
                for var in vs:
                    cases.append((v, mode, coe, var))
    results = impl.pmap(_run_vec, cases)
    coq_cases = []
    for case, (code, out, err, after, left) in zip(cases, results):
        v, mode, coe, var = case
        asked = SCHEMES[var][1]
        ctx.count(1, f"{mode}/{'coe' if coe else 'stop'}/len{len(v)}")
        if any(k not in ("clean",) for k in v):
            ctx.seen([v, mode, coe, asked])
        cat = spec_category(v, mode, coe)
        want = table[cat][asked]
        inp = {"files": list(v), "mode": mode, "continue_on_error": coe, "scheme": var}
        if code != want:
            ctx.violation("exit-code", inp, f"exit code {code}, documented {want} for category {cat} under scheme {asked}",
                          {"stdout": out[-400:], "stderr": err[-400:]})
        if left:
            ctx.violation("exit-code", inp, f"files left behind: {left}")
        so, se, junk = parse_events(out, err)
        if junk:
            ctx.broke(f"unparsed output for {inp}: {junk[:3]}")
        fs = clist((f"({cN(i)}, {coq_outcome(k, mode, nfail)})" for i, k in enumerate(v, 1)), "(N * outcome)")
        sc = "SchemeDefault" if asked == "default" else "SchemeMinimal"
        coq_cases.append((f"({sc}, {'Scan' if mode == 'scan' else 'Fix'}, {cbool(coe)}, {fs})",
                          f"(Some ({code})%Z, {coq_events(so)}, {coq_events(se)})" if isinstance(code, int) else "(None, [], [])"))
    ctx.sample({"case": cases[len(cases) // 2], "result": list(results[len(cases) // 2][:3])})
    if "Model/Runner.v" in ctx.build.ok_files:
        bad = core.coq_mismatches(
            ["PV.Gen.ReturnCodes", "PV.Model.Runner"], "",
            "(fun c => let '(sc, m, coe, fs) := c in observe sc m coe fs)", coq_cases, "c18", eqb="obs_eqb")
        ctx.corr_cases += len(coq_cases)
        for i in bad[:20]:
            c = cases[i]
            ctx.broke(f"model/implementation correspondence (Model/Runner.v observe) differs on files={c[0]} mode={c[1]} coe={c[2]} scheme={c[3]}: impl exit={results[i][0]} stdout={results[i][1][-200:]!r} stderr={results[i][2][-200:]!r}")
    # (3) every other path to exit
    ocases, oexp = [], []
    for argv, stdin, term, cat in other_paths():
        for var in variants:
            ocases.append((argv, stdin, var))
            oexp.append((term, cat))
    ores = impl.pmap(_run_other, ocases)
    coq2 = []
    for (argv, stdin, var), (term, cat), (code, out, err) in zip(ocases, oexp, ores):
        asked = SCHEMES[var][1]
        ctx.count(1, "path:" + term.split()[0])
        ctx.seen([argv, stdin, asked])
        # early exits happen before the scheme is read; the documented value is the same in both schemes there
        want = table[cat][asked]
        inp = {"argv": SCHEMES[var][0] + argv, "stdin": stdin}
        if code != want:
            ctx.violation("exit-path", {"argv": argv, "stdin": stdin, "scheme": var},
                          f"exit code {code}, documented {want} for category {cat} under scheme {asked}", {"stderr": err, "argv": inp["argv"]})
        sc = "SchemeDefault" if asked == "default" else "SchemeMinimal"
        coq2.append((f"({sc}, {term})", f"(Some ({code})%Z)" if isinstance(code, int) else "None"))
    ctx.sample({"argv": ocases[5][0], "scheme": ocases[5][2], "exit": ores[5][0]})
    if "Model/Runner.v" in ctx.build.ok_files:
        bad = core.coq_mismatches(["PV.Gen.ReturnCodes", "PV.Model.Runner"], "",
                                  "(fun c => path_exit (fst c) (snd c))", coq2, "c18p", eqb="optZ_eqb")
        ctx.corr_cases += len(coq2)
        for i in bad[:20]:
            ctx.broke(f"model/implementation correspondence (Model/Runner.v path_exit) differs on argv={ocases[i][0]} scheme={ocases[i][2]}: impl exit={ores[i][0]}")
    ctx.trusted += [
        "translators harness/translate/return_codes.py, doc_return_codes.py, final_category.py (fail-closed ast/regex readers)",
        "correspondence: Model/Runner.v `observe`/`path_exit` evaluated by vm_compute on every CLI run made here",
        "fault plug-in harness/plugins/pv_fault.py; forced parser failure via the front-matter extension's own test assertion",
        "in-process driver PyMarkdownLint().main(argv) (exit status = SystemExit.code)",
    ]
    return ctx.finish(
        level="proof",
        rule="outcome vectors of <=3 files over {clean,trig,fixable,plugin-error,parser-error,pragma-suppressed} (+undecodable, <=2 files) x {scan,fix} x continue-on-error x scheme selection variants; plus every non-scanning path to exit; non-trivial = at least one non-clean file or a non-scanning path; distinct by (vector,mode,flag,scheme)",
        assumptions=["per-file outcomes are independent of the other files (C13)",
                     "the Python-side oracle spec_category mirrors the documented precedence; the Coq theorem category_precedence proves the model equal to the same precedence"],
        extra_cov={"exhaustive": ctx.tier == "thorough"},
    )
