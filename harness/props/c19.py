"""C19 - file discovery selects exactly the documented set, once each, in sorted order."""
import fnmatch
import itertools
import os
import re

import core
import impl
from core import Scratch, cbool, clist, cstr

# ---- trees: nested dicts; value None = file, dict = directory
T = {}
T["t1"] = {"a.md": None, "b.MD": None, "c.txt": None, "d": {"a.md": None, "z.md": None, "s": {"q.md": None, "r.txt": None}}, "e": {"c.txt": None}}
T["t2"] = {".h.md": None, "n[1].md": None, "n1.md": None, "x*y.md": None, "e.md.bak": None, ".hd": {"k.md": None}, "d": {}}
T["t3"] = {"d": {"d": {"a.md": None}, "a.md": None}, "a.md": None, "ab.md": None, "a": {"a.md": None, "b.txt": None}}
T["t4"] = {"m.md": {"in.md": None}, "f.txt": None, "g": {"h": {"i": {"deep.md": None}}}}
T["t5"] = {}
ARGS = {
    "t1": ["a.md", "./a.md", "b.MD", "c.txt", "d", "d/", "./d", "d/.", "d//", "d/a.md", "d//a.md", "./d/a.md", "d/s", "d/s/q.md", "e", "missing", "missing.md", "d/missing.md",
           ".", "./", "*", "*.md", "d/*", "d/*.md", "*/a.md", "?.md", "*/*", "./*", "*.zip", "d/?.md", "*/", "d/*/", "*/s/*.md", "a.md/", "d/s/", "**", "d/**", "**/a.md", "d/**/q.md", "**/q.md", "d/**/a.md"],
    "t2": [".h.md", "n[1].md", "n1.md", "x*y.md", "e.md.bak", ".hd", ".hd/k.md", "d", ".", "*", "*.md", ".*", "n?.md", "x?y.md", ".*/*", "*/k.md", "n*", "?1.md", ".hd/*"],
    "t3": ["d", "d/d", "./d/d/", "d/d/a.md", "a.md", "a", "a/a.md", "a*", "a?.md", "*/a.md", "*/*/a.md", "d/*", ".", "?", "*/d", "**/a.md", "d/**/a.md", "**/**/a.md"],
    "t4": ["m.md", "m.md/in.md", "m.md/", "f.txt", "g", "g/h/i", "g/h/i/deep.md", "*.md", "g/*", "g/*/*", "g/*/*/*", "*/*/*/*.md", ".", "**/deep.md", "g/**/deep.md", "g/**"],
    "t5": [".", "*", "missing", "*.md"],
}
EXTS = {False: ".md", True: ".txt,.md"}
CONTENT = "#  a\n"   # triggers MD019 (scan) and is fixable (fix): the file name shows up in the output


def mk(d, tree):
    for k, v in tree.items():
        p = os.path.join(d, k)
        if v is None:
            open(p, "w").write(CONTENT)
        else:
            os.makedirs(p)
            mk(p, v)


def coq_tree(tree):
    items = []
    for k, v in tree.items():
        items.append(f"File {cstr(k)}" if v is None else f"Dir {cstr(k)} {coq_tree(v)}")
    return clist(items, "node")


def all_files(tree, pre=""):
    for k, v in tree.items():
        if v is None:
            yield pre + k
        else:
            yield from all_files(v, pre + k + "/")


# ---- independent reference: the documented rules, evaluated on the real scratch directory, by location
def _seg_glob(base, segs):
    if not segs:
        return [base]
    s, rest = segs[0], segs[1:]
    out = []
    if s in ("", "."):
        return _seg_glob(base, rest) if os.path.isdir(base or ".") else []
    if "*" in s or "?" in s:
        try:
            names = sorted(os.listdir(base or "."))
        except OSError:
            return []
        for n in names:
            if n.startswith(".") and not s.startswith("."):
                continue
            if fnmatch.fnmatchcase(n, s):
                p = os.path.join(base, n) if base else n
                if rest and not os.path.isdir(p):
                    continue
                out += _seg_glob(p, rest)
        return out
    p = os.path.join(base, s) if base else s
    return _seg_glob(p, rest) if os.path.lexists(p) else []


def spec(args, recurse, exts):
    """-> (set of real paths designated, error?) by the documented rules"""
    el = lambda p: os.path.isfile(p) and any(p.endswith(e) for e in exts.split(","))  # noqa
    sel, error = set(), False

    def one(p):
        if not os.path.exists(p):
            return None
        if os.path.isdir(p):
            r = set()
            for root, dirs, fs in os.walk(p):
                for f in fs:
                    q = os.path.join(root, f)
                    if el(q):
                        r.add(os.path.realpath(q))
                if not recurse:
                    break
            return r
        return {os.path.realpath(p)} if el(p) else None

    for a in args:
        if "*" in a or "?" in a:
            g = _seg_glob("", a.split("/"))
            if not g:
                error = True
                break
            for p in g:
                sel |= one(p) or set()
        else:
            r = one(a)
            if r is None:
                error = True
                break
            sel |= r
    return (set() if error else sel), error


def _run(case):
    tname, args, recurse, ae, mode = case
    with Scratch("pv-c19-") as d:
        mk(d, T[tname])
        old = os.getcwd()
        os.chdir(d)
        try:
            want, werr = spec(args, recurse, EXTS[ae])
            want = sorted(os.path.relpath(p, os.path.realpath(d)) for p in want)
        finally:
            os.chdir(old)
        argv = [mode if mode != "list" else "scan"] + (["-l"] if mode == "list" else []) + (["-r"] if recurse else []) + (["-ae", EXTS[ae]] if ae else []) + list(args)
        code, out, err = impl.run_cli(argv, cwd=d)
        if mode == "list":
            sel = [l for l in out.split("\n") if l.strip()]
        elif mode == "scan":
            sel = [m.group(1) for m in re.finditer(r"^(.*?):\d+:\d+: MD019", out, re.M)]
        else:
            sel = [m.group(1) for m in re.finditer(r"^Fixed: (.*)$", out, re.M)]
        real = []
        for p in sel:
            real.append(os.path.relpath(os.path.realpath(os.path.join(d, p)), os.path.realpath(d)))
        left = sorted(set(all_files_on_disk(d)) - set(all_files(T[tname])))
    return code, sel, real, err[-300:], want, werr, left


def _run_again(case):
    """the same invocation twice in one process on the same paths, the tree put back in between: the files processed the second
    time are those of the first time (what the arguments designate does not depend on what an earlier invocation did)"""
    tname, args, recurse, mode = case
    with Scratch("pv-c19r-") as d:
        sels, codes = [], []
        mk(d, T[tname])
        snap = {}
        for root, _, fs in os.walk(d):
            for f in fs:
                q = os.path.join(root, f)
                if os.path.isfile(q) and not os.path.islink(q):
                    snap[q] = open(q, "rb").read()
        for _ in range(2):
            for q, b in snap.items():
                open(q, "wb").write(b)
            argv = [mode] + (["-r"] if recurse else []) + list(args)
            code, out, err = impl.run_cli(argv, cwd=d)
            sels.append(sorted(m.group(1) for m in re.finditer(r"^Fixed: (.*)$" if mode == "fix" else r"^(.*?):\d+:\d+: MD019", out, re.M)))
            codes.append(code)
    return sels, codes


def all_files_on_disk(d):
    for root, _, fs in os.walk(d):
        for f in fs:
            yield os.path.relpath(os.path.join(root, f), d)


def cases_for(ctx):
    out = []
    for t, pool in ARGS.items():
        singles = [(a,) for a in pool]
        pairs = list(itertools.product(pool, repeat=2))
        r = core.random.Random(777)
        triples = [tuple(r.choice(pool) for _ in range(3)) for _ in range(150)]
        for argl in singles + pairs + triples:
            for recurse in (False, True):
                for ae in (False, True):
                    out.append((t, argl, recurse, ae, "list"))
        for argl in singles + r.sample(pairs, min(len(pairs), 120)):
            for recurse in (False, True):
                out.append((t, argl, recurse, False, "scan"))
                out.append((t, argl, recurse, False, "fix"))
    return out


def in_domain(args):
    return not any(("*" in a or "?" in a) and "[" in a for a in args)


def run(ctx):
    ctx.prove("Props/C19.v", ["Model/Discover.v", "Proofs/DiscoverProofs.v", "Base/Sort.v", "Base/StrOrder.v", "Gen/FinalCategory.v"])
    space = cases_for(ctx)
    if ctx.tier == "quick":
        small = [c for c in space if len(c[1]) == 1]
        rest = [c for c in space if len(c[1]) > 1]
        space = small + core.random.Random(ctx.seed).sample(rest, 2500)
    res = impl.pmap(_run, space, chunksize=16)
    coq_cases = []
    idx = []
    for i, (case, (code, sel, real, err, want, werr, left)) in enumerate(zip(space, res)):
        t, args, recurse, ae, mode = case
        ctx.count(1, f"{mode}/args{len(args)}")
        inp = {"tree": t, "args": list(args), "recurse": recurse, "alt_ext": ae, "mode": mode}
        if len(args) > 1 or any(c in a for a in args for c in "*?"):
            ctx.seen(inp)
        # -- the property itself, against the independent reference
        if sorted(set(real)) != want:
            ctx.violation("selection", inp, f"selected {sorted(set(real))}, the documented rules designate {want} (error expected: {werr}); stderr {err!r}", group="selection")
        if len(set(real)) != len(real):
            ctx.violation("once", inp, f"a file is selected more than once: {sel}", group="once-" + ("spelling" if len(set(sel)) == len(sel) else "same"))
        if mode == "list" and sel != sorted(sel):
            ctx.violation("sorted", inp, f"listing not sorted: {sel}", group="sorted")
        if left:
            ctx.violation("residue", inp, f"files left behind: {left}", group="residue")
        if werr and (code != 1 or sel):
            ctx.violation("error", inp, f"an argument is in error but exit={code}, processed={sel}", group="error")
        if not werr and not want and code != 1:
            ctx.violation("no-files", inp, f"the arguments select no file at all but the run ends with exit {code} (documented: no-files-to-scan, 1)", group="no-files-" + mode)
        if not werr and want:
            exp = {"list": 0, "scan": 1, "fix": 3}[mode]
            if code != exp:
                ctx.violation("exit", inp, f"exit {code}, expected {exp}; stderr {err!r}", group="exit")
        # -- model correspondence (listing mode shows exactly the selected spellings)
        if mode == "list" and in_domain(args):
            exts = clist((cstr(e) for e in EXTS[ae].split(",")), "str")
            coq_cases.append((f"({coq_tree(T[t])}, {cbool(recurse)}, {exts}, {clist((cstr(a) for a in args), 'str')})",
                              f"({clist((cstr(s) for s in sel), 'str')}, {cbool(code != 0 and not sel and ('did not match' in err or 'does not exist' in err or 'not a valid file' in err))})"))
            idx.append(i)
    again = [(c[0], c[1], c[2], c[4]) for c in space if c[4] in ("fix", "scan") and len(c[1]) == 1][: (80 if ctx.tier == "quick" else 100000)]
    for case, (sels, codes) in zip(again, impl.pmap(_run_again, again, chunksize=8)):
        ctx.count(1, f"{case[3]}/twice-in-one-process")
        if sels[0] != sels[1] or codes[0] != codes[1]:
            ctx.violation("selection", {"tree": case[0], "args": list(case[1]), "recurse": case[2], "mode": case[3], "invocations": 2},
                          f"the second of two identical invocations in one process handles {sels[1]} (exit {codes[1]}), the first handled {sels[0]} (exit {codes[0]})", group="selection-second-invocation")
    ctx.sample({"case": space[len(space) // 3], "selected": res[len(space) // 3][1], "exit": res[len(space) // 3][0]})
    if "Model/Discover.v" in ctx.build.ok_files:
        # errors on globbed paths are printed but not fatal: the model's error flag is the fatal one, recognised by "nothing listed"
        defs = ("Definition obs (c : tree * bool * list str * list str) := let '(t, r, e, a) := c in (files t r e a, error t r e a).\n"
                "Definition obs_eqb (x y : list str * bool) := list_eqb str_eqb (fst x) (fst y) && (Bool.eqb (snd x) (snd y) || is_nil (fst x))%bool.\n")
        bad = core.coq_mismatches(["PV.Base.Str", "PV.Model.Discover"], defs, "obs", coq_cases, "c19", eqb="obs_eqb", shard=150)
        ctx.corr_cases += len(coq_cases)
        for j in bad[:10]:
            c = space[idx[j]]
            ctx.broke(f"model/implementation correspondence (Model/Discover.v discover) differs on tree={c[0]} args={c[1]} recurse={c[2]} alt_ext={c[3]}: impl listed {res[idx[j]][1]} exit {res[idx[j]][0]}")
    # API list_path agrees with --list-files
    from pymarkdown.api import PyMarkdownApi, PyMarkdownApiException
    napi = 0
    for t, pool in ARGS.items():
        with Scratch("pv-c19a-") as d:
            mk(d, T[t])
            old = os.getcwd()
            os.chdir(d)
            try:
                for a in pool:
                    for recurse in (False, True):
                        try:
                            got = list(PyMarkdownApi().list_path(a, recurse_if_directory=recurse).matching_files)
                        except PyMarkdownApiException:
                            got = []
                        code, out, err = impl.run_cli(["scan", "-l"] + (["-r"] if recurse else []) + [a], cwd=d)
                        cli = [l for l in out.split("\n") if l.strip()]
                        napi += 1
                        ctx.count(1, "api-list_path")
                        if got != cli:
                            ctx.violation("api", {"tree": t, "args": [a], "recurse": recurse}, f"list_path gives {got}, --list-files gives {cli}", group="api")
            finally:
                os.chdir(old)
    ctx.unit("api_list_path", runs=napi)
    ctx.trusted += [
        "correspondence: Model/Discover.v `discover` (vm_compute) vs `scan --list-files` on scratch directory trees (5 trees incl. hidden names, names with [ ] and *, upper-case extensions, a directory named m.md)",
        "independent Python reference of the documented rules, by real path (location), used to judge the property on the implementation",
        "modelled rather than verified: os.path.exists/isdir/isfile, os.walk, glob.glob (* and ? only; patterns with '[' are outside the model and are judged by the reference only); no symlinks, no '..', no absolute paths",
    ]
    return ctx.finish(
        level="proof",
        rule="5 fixed trees x argument lists (all singles, all ordered pairs, 150 fixed triples from a per-tree pool of 4-37 spellings/globs/missing paths) x recurse x alternate extensions for --list-files; singles + 120 pairs x recurse for scan and fix; API list_path on every single; single-argument scan / fix invocations repeated in one process with the tree put back; quick = all singles + 2500 seed-selected others; non-trivial = more than one argument or a glob; distinct by (tree,args,flags,mode)",
        assumptions=["names are judged by location (realpath) for 'once each' and by spelling for the model correspondence"],
        extra_cov={"exhaustive": ctx.tier == "thorough"},
    )
