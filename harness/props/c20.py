"""C20 - extensions are inert unless enabled and needed; front matter only shifts lines."""
import hashlib
import itertools
import re

import cm
import core
import gen
import impl
from core import cN, clist

EXTS = [  # (extension id, short name, model constructor)
    ("front-matter", "fm", "EFrontMatter"),
    ("markdown-strikethrough", "strike", "EStrike"),
    ("markdown-task-list-items", "task", "ETaskList"),
    ("markdown-extended-autolinks", "auto", "EAutolinks"),
    ("markdown-disallow-raw-html", "raw", "ERawHtml"),
    ("linter-pragmas", "pragma", "EPragmas"),
]
NAMES = [e[1] for e in EXTS]
WS = " \t\n\x0b\x0c\r"
RAW_TAGS = ("title", "textarea", "style", "xmp", "iframe", "noembed", "noframes", "script", "plaintext")


def cfg_of(mask, allow_blank=False):
    c = {"extensions": {eid: {"enabled": bool(mask >> i & 1)} for i, (eid, _, _) in enumerate(EXTS)}}
    if allow_blank:
        c["extensions"]["front-matter"]["allow_blank_lines"] = True
    return c


def names_of(mask):
    return [NAMES[i] for i in range(6) if mask >> i & 1]


def trig_mask(doc):
    """which extensions' syntax occurs in the document (the hand-written reading of 'contains its syntax')"""
    low = doc.lower()
    m = 0
    if doc.split("\n")[0].rstrip(WS) == "---":
        m |= 1
    if "~" in doc:
        m |= 2
    if re.search(r"\[[ xX]\]", doc):
        m |= 4
    if "www." in low or "http://" in low or "https://" in low or "@" in doc:
        m |= 8
    if any("<" + t in low or "</" + t in low for t in RAW_TAGS):
        m |= 16
    if "<!--" in doc and "pyml" in low:
        m |= 32
    return m


def _fresh(mask, allow_blank=False):
    """a tokenizer whose per-run state is new (the ExtensionManager is cached per configuration)"""
    t = impl.tokenizer(cfg_of(mask, allow_blank))
    key = ("em", mask, allow_blank)
    if key not in _EM:
        from application_properties import ApplicationProperties
        from pymarkdown.extension_manager.extension_manager import ExtensionManager
        from pymarkdown.general.main_presentation import MainPresentation
        p = ApplicationProperties()
        p.load_from_dict(cfg_of(mask, allow_blank))
        em = ExtensionManager(MainPresentation())
        em.initialize(None, p)
        em.apply_configuration()
        _EM[key] = (p, em)
    p, em = _EM[key]
    t.apply_configuration(p, em)
    return t


_EM = {}


def _rep(doc, mask, allow_blank=False, tok=None):
    t = tok or _fresh(mask, allow_blank)
    try:
        toks = t.transform(doc, show_debug=False)
    except BaseException as e:  # noqa
        return ("exc", impl.exc_signature(e), "")
    try:
        html = impl.to_html(toks)
    except BaseException as e:  # noqa
        html = "html-exc:" + impl.exc_signature(e)
    return ("ok", [str(x) for x in toks], html)


def _dig(rep):
    return hashlib.md5(repr(rep).encode("utf-8", "surrogatepass")).hexdigest()[:12]


def _all_masks(docs):
    out = []
    for d in docs:
        out.append([_dig(_rep(d, m)) for m in range(64)])
    return out


def _tables(mask):
    t = _fresh(mask)
    t.transform("a", show_debug=False)
    from pymarkdown.inline.inline_handler_helper import InlineHandlerHelper as H
    tab = getattr(H, "_InlineHandlerHelper__inline_character_handlers")
    starts = H.valid_inline_text_block_sequence_starts
    return sorted((ord(c), f.__qualname__.replace("InlineHandlerHelper.__", "InlineHandlerHelper.")) for c, f in tab.items()), [ord(c) for c in starts]


def _sequence(job):
    """d2 parsed after d1 on one tokenizer, against d2 on a tokenizer with new per-run state"""
    d1, d2, mask = job
    impl._TK.clear()
    t = impl.tokenizer(cfg_of(mask))
    _rep(d1, mask, tok=t)
    after = _rep(d2, mask, tok=t)
    alone = _rep(d2, mask)
    return after, alone


def yaml_ok(lines):
    import yaml
    try:
        v = yaml.load("\n".join(lines), yaml.SafeLoader)
    except yaml.MarkedYAMLError:
        return False
    return v is not None and not isinstance(v, str)


def _shift(tok_strings, k):
    out = []
    for s in tok_strings:
        if s.startswith("[pragma:"):
            out.append(re.sub(r"(?:(?<=^\[pragma:)|(?<=;))(-?)(\d+)(?=:)", lambda m: m.group(1) + str(int(m.group(2)) + k), s))
        else:
            out.append(re.sub(r"\((\d+),(\d+)\)", lambda m: f"({int(m.group(1)) + k},{m.group(2)})", s))
    return out


def _fm_case(job):
    doc, mask, allow_blank = job
    on = _rep(doc, mask | 1, allow_blank)
    return on


FM_LINES = ["---", "--- ", "a: b", "c: d", "a", "", "# h", "- x", "----", " ---", "***", "a: [", "<!-- pyml disable-next-line md001-->", "~~s~~", "x: y: z"]


def fm_docs(tier):
    docs = []
    for n in (1, 2, 3, 4):
        for ls in itertools.product(FM_LINES, repeat=n):
            if ls[0].rstrip(WS) != "---" and n > 2:
                continue
            docs.append("\n".join(ls))
            docs.append("\n".join(ls) + "\n")
    for body in (["a: b"], ["a: b", "c: d"], ["a: b", "", "c: d"]):
        for rest in (["# h", "", "p *q*"], ["- x", "  y", "", "> z"], ["---", "e: f", "---", "t"], ["<!-- pyml disable-next-line md001-->", "### j"], ["a", "===", "", "    code"]):
            docs.append("\n".join(["---"] + body + ["---"] + rest) + "\n")
    docs = list(gen.uniq(docs))
    return docs if tier == "thorough" else gen.sample(docs, 2500, 20)


def enc_lines(ls):
    return clist((clist((cN(ord(c)) for c in l), "N") for l in ls), "(list N)")


def decode(flat):
    """flat list of numbers -> ('none',) | ('token', s, cl, c, rest, n) | ('abandon', rq, rest)"""
    it = iter(flat)

    def lines():
        k = next(it)
        out = []
        for _ in range(k):
            n = next(it)
            out.append("".join(chr(next(it)) for _ in range(n)))
        return out
    tag = next(it)
    if tag == 0:
        return ("none",)
    if tag == 1:
        s, cl = lines()
        c = lines()
        rest = lines()
        return ("token", s, cl, c, rest, next(it))
    rq = lines()
    return ("abandon", rq, lines())


FM_DEFS = """
Definition encl (ls : list str) : list N := N.of_nat (length ls) :: flat_map (fun l => N.of_nat (length l) :: l) ls.
Definition enc (r : fm_result) : list N :=
  match r with
  | FMNone => [0%N]
  | FMToken s cl c rest n => 1%N :: encl [s; cl] ++ encl c ++ encl rest ++ [Z.to_N n]
  | FMAbandon rq rest => 2%N :: encl rq ++ encl rest
  end.
Definition run (allow : bool) (valid : list (list str)) (ls : list str) : list N :=
  enc (header (fun c => existsb (list_eqb str_eqb c) valid) allow ls).
"""


def run(ctx):
    ctx.prove("Props/C20.v", ["Gen/InlineTriggers.v", "Model/InlineDispatch.v", "Proofs/InlineDispatchProofs.v", "Model/FrontMatter.v", "Proofs/FrontMatterProofs.v"])
    model_ok = ctx.build is not None and "Model/InlineDispatch.v" in ctx.build.ok_files and "Gen/InlineTriggers.v" in ctx.build.ok_files
    # ---- (A) the handler table of the implementation under every subset of switches, against the model's table
    tabs = impl.pmap(_tables, list(range(64)), chunksize=4)
    if model_ok:
        exprs = []
        for m in range(64):
            bits = " ".join("true" if m >> i & 1 else "false" for i in range(6))
            exprs.append(f"let t := table regs (mkflags {bits}) in (map (fun c => (c, lookup t c)) (nodup N.eq_dec (map r_char t)), starts t)")
        try:
            res = core.coq_eval(["PV.Base.Str", "PV.Model.InlineDispatch", "PV.Gen.InlineTriggers"], "", exprs, tag="c20t", shard=16)
        except RuntimeError as e:
            res = None
            ctx.broke(f"evaluation of the model table failed: {str(e)[-300:]}")
        if res is not None:
            for m, r in enumerate(res):
                ctx.corr_cases += 1
                pairs_s, starts_s = r.rsplit(", [", 1)
                nums = lambda s: [int(x) for x in re.findall(r"\d+", re.sub(r"%N", "", s))]  # noqa
                entries = re.findall(r"\((\d+)(?:%N)?, Some \[([^\]]*)\]", pairs_s)
                model_tab = sorted((int(c), "".join(chr(int(x)) for x in re.findall(r"\d+", h))) for c, h in entries)
                model_starts = nums("[" + starts_s)
                if model_tab != tabs[m][0] or model_starts != tabs[m][1]:
                    diff = sorted(set(map(tuple, model_tab)) ^ set(map(tuple, tabs[m][0])))
                    ctx.broke(f"model/implementation correspondence (Gen/InlineTriggers.v table) differs with {names_of(m)} enabled: {diff[:4]} starts model={model_starts} impl={tabs[m][1]}")
    ctx.sample({"enabled": names_of(10), "handlers_for": [chr(c) for c, _ in tabs[10][0] if c > 32]})
    # ---- (B) inertness on the implementation: every document under every subset of the six switches
    ext_lines = ["~~a~~", "a ~b~ c", "- [ ] t", "- [x] u", "[ ] v", "www.a.com", "see http://a.b/c d", "x@y.zz", "mailto:x@y.zz", "hello <title> w", "<script>\nx\n</script>",
                 "<!-- pyml disable-next-line md001-->", "<!-- pyml disable md009-->", "<!--- pyml disable-next-line md019-->", "<!--- pyml disable-num-lines 2 md009-->", "---", "a: b", "hm xw ww. htt", "what maxim exhumes",
                 # runs of the extensions' trigger characters that form none of their constructs, followed by a positioned inline element
                 "<div>", "</div>", "if a <b<c then stop", "x <a<b y <c", "<<a <b", "aww *e*", "swwweet `c`", "ewww [l](/u)", "hhttp *e*", "mmm xx `c`", "a ~ b *e*", "wwww ![i](/u) <b>"]
    docs = list(gen.POOL) + list(gen.d_line(gen.V_ALL, 1)) + list(gen.d_line(ext_lines, 2, final_newline=(True,)))
    docs += gen.sample(list(gen.d_line(ext_lines + gen.V_CONT[:8] + gen.V_INLINE[:6], 3, final_newline=(True,))), 2500, 7)[:2500 if ctx.tier == "thorough" else 500]
    docs += gen.sample(list(gen.d_line(gen.V_ALL, 2, final_newline=(True,))), 4000 if ctx.tier == "thorough" else 0, 9)
    corpus = gen.repo_corpus(core.REPO)
    docs += corpus if ctx.tier == "thorough" else gen.sample(corpus, 500, ctx.seed)
    docs = list(gen.uniq(docs))
    if ctx.tier == "quick":
        keep = docs[:len(gen.POOL)]
        docs = keep + core.random.Random(ctx.seed).sample(docs[len(keep):], min(1400, len(docs) - len(keep)))
    chunks = [docs[i:i + 12] for i in range(0, len(docs), 12)]
    digs = [x for ch in impl.pmap(_all_masks, chunks, chunksize=1) for x in ch]
    nviol = 0
    for d, dg in zip(docs, digs):
        tm = trig_mask(d)
        ctx.count(64, "inert/" + ("no-ext-syntax" if tm == 0 else "some-ext-syntax"))
        if len(set(dg)) > 1:
            ctx.seen(["inert", d])
        bad = [m for m in range(64) if dg[m] != dg[m & tm]]
        if not bad:
            continue
        m = min(bad, key=lambda x: (bin(x & ~tm).count("1"), x))
        extra = names_of(m & ~tm)
        a, b = _rep(d, m), _rep(d, m & tm)
        what = _first_diff(a, b)
        nviol += 1
        ctx.violation("inert", {"doc": d}, f"with {names_of(m)} enabled the parse differs from the parse with only the needed {names_of(m & tm)} enabled, though the document has no syntax of {extra}: {what}", group="inert-" + "+".join(extra) + ("-exc" if a[0] != "ok" else ""))
    ctx.unit("inertness", documents=len(docs), switch_subsets=64)
    # ---- (B2) with every switch off the parse is plain CommonMark, also on documents full of extension syntax
    pdocs = list(gen.uniq(list(gen.d_line(ext_lines + ["a", "", "- a", "> b", "# h"], 2)) + list(gen.POOL)))
    preps = impl.pmap(_plain, pdocs, chunksize=32)
    cmres = cm.cm_html_many(pdocs)
    dis = []
    for d, rp, (inf, ch) in zip(pdocs, preps, cmres):
        ctx.count(1, "plain-when-off/" + ("in-F" if inf else "outside-F"))
        if rp[0] != "ok":
            continue  # C01's business
        art = [a for a in ("[front-matter", "[task-list", "[pragma:", "[uri-autolink:www", "[email-autolink:") if any(t.startswith(a) for t in rp[1])]
        art += [a for a in ("<del>", 'type="checkbox"', "&lt;title", "&lt;script") if a in rp[2] and a not in d]
        if art:
            ctx.violation("plain-when-off", {"doc": d}, f"with every extension disabled the parse shows {art}: {rp[2][:120]!r}", group="plain-artifact")
        elif inf and ch is not None and cm.norm_html(rp[2]) != cm.norm_html(ch):
            dis.append((d, rp[2], ch))
        if trig_mask(d):
            ctx.seen(["plain", d])
    for (d, ph, ch), mh in zip(dis, impl.pmap(_mdit, [x[0] for x in dis], chunksize=16)):
        a, b, c = cm.norm_html(ph), cm.norm_html(ch), cm.norm_html(mh)
        if b == c:
            ctx.violation("plain-when-off", {"doc": d}, f"with every extension disabled PyMarkdown renders {a!r}; the spec model and markdown-it both give {b!r}", group="plain-html")
    ctx.unit("plain-when-off", documents=len(pdocs), disagreements_with_spec_model=len(dis))
    # ---- (C) no state from an earlier document on the same tokenizer
    firsts = ["<!-- pyml disable-next-line md001-->\n# a\n", "a\n<!--- pyml disable md009-->\nb\n", "---\na: b\n---\nx\n", "[f]: /u\n\n[f]\n", "- a\n  > b\n```\nc", "~~a~~ www.a.com\n- [ ] x\n", "<title>\n", ""]
    seconds = gen.POOL[:12] + ["[f]\n", "# a\n\n### b\n", "a\n", "---\nc: d\n---\ny\n", "- [x] z\n"]
    jobs = [(a, b, m) for a in firsts for b in seconds for m in (0, 32, 63)]
    for (a, b, m), (after, alone) in zip(jobs, impl.pmap(_sequence, jobs, chunksize=8)):
        ctx.count(1, "sequence")
        if after != alone:
            ctx.violation("sequence", {"first": a, "second": b, "enabled": names_of(m)}, f"the second document parses differently after the first on the same tokenizer: {_first_diff(after, alone)}", group="sequence")
        elif a and b:
            ctx.seen(["seq", a, b, m])
    # ---- (D) front matter: the model's header against the implementation, and the shift law
    fdocs = fm_docs(ctx.tier)
    fjobs = [(d, mk, ab) for d in fdocs for (mk, ab) in ((0, False), (32, False), (62, True))]
    if ctx.tier == "quick":
        fjobs = [j for j in fjobs if j[1:] == (32, False)] + core.random.Random(ctx.seed).sample([j for j in fjobs if j[1:] != (32, False)], 1500)
    ons = impl.pmap(_fm_case, fjobs, chunksize=32)
    model = None
    if ctx.build is not None and "Model/FrontMatter.v" in ctx.build.ok_files:
        exprs = []
        for d, mk, ab in fjobs:
            ls = d.split("\n")
            valid = [ls[1:k] for k in range(1, len(ls) + 1) if yaml_ok(ls[1:k])]
            exprs.append(f"run {'true' if ab else 'false'} {clist((enc_lines(v) for v in valid), '(list (list N))')} {enc_lines(ls)}")
        try:
            model = [decode(core.parse_coq_nat_list(r)) for r in core.coq_eval(["PV.Base.Str", "PV.Model.FrontMatter"], FM_DEFS, exprs, tag="c20f", shard=250)]
        except RuntimeError as e:
            ctx.broke(f"evaluation of Model/FrontMatter.v failed: {str(e)[-300:]}")
    offs = {}
    need = []
    if model is not None:
        for (d, mk, ab), mo in zip(fjobs, model):
            text = d if mo[0] == "none" else "\n".join(mo[4]) if mo[0] == "token" else "\n".join(mo[1] + mo[2])
            need.append((text, mk, ab))
        uniq_need = list(dict.fromkeys(need))
        for k, r in zip(uniq_need, impl.pmap(_fm_off, uniq_need, chunksize=32)):
            offs[k] = r
        for (d, mk, ab), on, mo, nk in zip(fjobs, ons, model, need):
            ctx.count(1, "front-matter/" + mo[0])
            ctx.corr_cases += 1
            inp = {"doc": d, "enabled": names_of(mk | 1), "allow_blank_lines": ab}
            off = offs[nk]
            if mo[0] == "token":
                ctx.seen(["fm", d, mk, ab])
                _, s, cl, c, rest, n = mo
                if on[0] != "ok" or not on[1] or not on[1][0].startswith("[front-matter(1,1):"):
                    ctx.broke(f"model/implementation correspondence (Model/FrontMatter.v header) differs on {inp}: the model recognises a header, the implementation gives {str(on[:2])[:200]}")
                    continue
                head = f"[front-matter(1,1):{s}:{cl}:{c}:"
                if not on[1][0].startswith(head):
                    ctx.broke(f"model/implementation correspondence (Model/FrontMatter.v header) differs on {inp}: token {on[1][0][:120]!r}, model {head!r}")
                    continue
                want = _shift(off[1], n - 1) if rest else []
                if off[0] != "ok" or on[1][1:] != want:
                    ctx.violation("front-matter-shift", inp, f"the tokens after the front-matter token are not the parse of the remaining lines shifted by {n - 1}: {_first_diff(('ok', on[1][1:], ''), ('ok', want, ''))}", group="fm-shift")
                elif rest and on[2] != off[2]:
                    ctx.violation("front-matter-shift", inp, f"the HTML with the header differs from the HTML of the remaining lines: {on[2][:80]!r} vs {off[2][:80]!r}", group="fm-shift-html")
            else:
                if mo[0] == "abandon" and mo[1] + mo[2] != d.split("\n"):
                    ctx.broke(f"Model/FrontMatter.v hands back lines other than the document's on {inp}")
                if on != off:
                    ctx.violation("front-matter-abandon", inp, f"no valid header, but the parse differs from the parse with front matter disabled: {_first_diff(on, off)}", group="fm-abandon-" + ("exc" if on[0] != "ok" else "diff"))
    ctx.unit("front-matter", documents=len(fdocs), cases=len(fjobs))
    ctx.trusted += [
        "translator inline_triggers.py (registrations of inline handlers with their guards, from the AST of the two initialize functions)",
        "correspondence: the handler dictionary and stop-character string of the implementation under each of the 64 switch subsets vs table/lookup/starts of the model (vm_compute)",
        "correspondence: Model/FrontMatter.v header (vm_compute, PyYAML's verdict on each prefix supplied as the yaml_ok oracle) vs the front-matter token, the following tokens and the abandoned re-parse of the implementation",
        "modelled, not verified: what each inline handler does (a parameter of the scan theorem), the block-level hooks of pragmas, task list items and raw-HTML filtering; those are covered by the enumeration (B) only",
        "hand-written reading of 'contains the extension's syntax': first line '---'; '~'; '[ ]','[x]','[X]'; 'www.', 'http://', 'https://', '@'; '<' or '</' + a filtered tag name; '<!--' together with 'pyml'",
    ]
    return ctx.finish(
        level="proof",
        rule="(A) 64 switch subsets; (B) documents x 64 subsets, each compared with the subset restricted to the extensions whose syntax occurs; non-trivial = a document whose parse differs between some two subsets; (C) first x second documents x 3 subsets on one tokenizer; (D) line lists over a 15-line front-matter vocabulary x 3 configurations; quick = seed-selected subsets of (B) and (D); distinct by input",
        assumptions=["markdown-tables and the debug extension stay disabled", "serialised tokens (str of each token) and the HTML of TransformToGfm are the observation"],
        extra_cov={"exhaustive": ctx.tier == "thorough"},
    )


def _plain(doc):
    return _rep(doc, 0)


def _mdit(doc):
    try:
        return impl.markdown_it_html(doc if doc.endswith("\n") else doc + "\n")
    except BaseException as e:  # noqa
        return "EXC:" + type(e).__name__


def _fm_off(job):
    text, mk, ab = job
    return _rep(text, mk & ~1, ab)


def _first_diff(a, b):
    if a[0] != b[0]:
        return f"{a[0]} {str(a[1])[:100]} vs {b[0]} {str(b[1])[:100]}"
    if a[0] != "ok":
        return f"{a[1]} vs {b[1]}"
    for i, (x, y) in enumerate(itertools.zip_longest(a[1], b[1])):
        if x != y:
            return f"token {i}: {x!r} vs {y!r}"
    return f"html {a[2][:100]!r} vs {b[2][:100]!r}"
