"""Generates recording rule plug-ins (files written into a scratch directory and loaded with --add-plugin).
Every callback appends one JSON line to $PV_REC_LOG: {"who": id, "cb": ..., "fix": in_fix_mode, ...}."""
import os

TEMPLATE = '''
import json, os
from pymarkdown.plugin_manager.plugin_details import PluginDetailsV2
from pymarkdown.plugin_manager.rule_plugin import RulePlugin


def _w(rec):
    p = os.environ.get("PV_REC_LOG")
    if p:
        with open(p, "a", encoding="utf-8") as f:
            f.write(json.dumps(rec) + "\\n")


class {cls}(RulePlugin):
    def get_details(self):
        return PluginDetailsV2(plugin_name="{name}", plugin_id="{pid}", plugin_enabled_by_default={default},
                               plugin_description="verification recorder", plugin_version="0.0.1",
                               plugin_interface_version=2, plugin_supports_fix={fix}, plugin_fix_level={level})
{methods}
'''
M = {
    "start": '''
    def starting_new_file(self):
        _w({{"who": "{pid}", "cb": "start"}})
''',
    "token": '''
    def next_token(self, context, token):
        _w({{"who": "{pid}", "cb": "token", "file": context.scan_file, "fix": context.in_fix_mode, "tok": str(token),
            "l": token.line_number, "c": token.column_number}})
''',
    "token-trigger": '''
    def next_token(self, context, token):
        _w({{"who": "{pid}", "cb": "token", "file": context.scan_file, "fix": context.in_fix_mode, "tok": str(token),
            "l": token.line_number, "c": token.column_number}})
        if not context.in_fix_mode and token.line_number > 0 and not getattr(self, "_pv_done", None) == context.scan_file:
            self._pv_done = context.scan_file          # one report per file: the level of this recorder gets its own fix pass
            self.report_next_token_error(context, token)
''',
    "line": '''
    def next_line(self, context, line):
        _w({{"who": "{pid}", "cb": "line", "file": context.scan_file, "fix": context.in_fix_mode, "n": context.line_number, "line": line}})
''',
    "complete": '''
    def completed_file(self, context):
        _w({{"who": "{pid}", "cb": "complete", "file": context.scan_file, "fix": context.in_fix_mode, "n": context.line_number}})
''',
}


def make(d, pid, fix=False, level=1, callbacks=("start", "token", "line", "complete"), default=True, trigger=False):
    """writes <d>/rec_<pid>.py and returns its path"""
    pid = pid.upper()
    # the loader imports by file name and this process may have imported another variant before: one name per variant
    tag = "".join(c[0] for c in callbacks) + ("f" if fix else "n") + str(level) + ("e" if default else "d") + ("t" if trigger else "")
    path = os.path.join(d, f"rec_{pid.lower()}_{tag}.py")
    methods = "".join(M["token-trigger" if trigger and c == "token" else c].format(pid=pid) for c in callbacks)
    open(path, "w").write(TEMPLATE.format(cls="Rec" + pid.capitalize() + tag.capitalize(), name="rec-" + pid.lower(), pid=pid, default=default, fix=fix,
                                          level=level, methods=methods))
    return path
