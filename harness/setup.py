"""MANIFEST.setup_cmd: build the whole Coq development (and the extracted runner) from files on disk."""
import os
import sys

sys.path.insert(0, os.path.dirname(os.path.abspath(__file__)))
import core  # noqa: E402


def main():
    b = core.CoqBuild().run(timeout=3000)
    if b.gen_errors:
        print("translator errors:", b.gen_errors)
    if b.failed_files:
        print("files that did not build:", list(b.failed_files))
        print(b.log[-3000:])
    try:
        import extract
        extract.build()
    except ModuleNotFoundError:
        pass
    print(f"built {len(b.ok_files)} Coq files")
    return 0 if not b.failed_files and not b.gen_errors else 1


if __name__ == "__main__":
    sys.exit(main())
