"""Abstraction of PyMarkdown tokens for the Coq oracles (part of the trusted base)."""


def abstract(tokens):
    """-> list of (shape, cls, ref, name): shape 0 start / 1 end / 2 atom; cls 0 container / 1 leaf / 2 inline / 3 special;
    ref = index in the stream of the start token an end token points to (by object identity), else 0"""
    idx = {id(t): i for i, t in enumerate(tokens)}
    out = []
    for t in tokens:
        if t.is_end_token and hasattr(t, "start_markdown_token"):
            cls = 0 if t.is_container_end_token else 1 if t.is_leaf_end_token else 2
            sm = getattr(t, "start_markdown_token", None)
            out.append((1, cls, idx.get(id(sm), len(tokens)), t.type_name))  # a start token that is not in the stream: a position no token has
        else:
            cls = t._MarkdownToken__token_class.value     # 0 container, 1 leaf, 2 inline, 3 special (the class has no public accessor)
            shape = 0 if (t.requires_end_token and not t.is_new_list_item) else 2
            out.append((shape, cls, 0, t.token_name))
    return out


def wf_line(abs_tokens):
    parts = ["WF"]
    for shape, cls, ref, name in abs_tokens:
        parts.append(f"{shape} {cls} {ref} {len(name)} " + " ".join(str(ord(c)) for c in name))
    return " ".join(parts)


def py_stream_ok(abs_tokens):
    """Python mirror of Model/WF.v stream_ok (used only to explain a rejection: first offending index)"""
    st = []
    i = 0
    n = len(abs_tokens)
    while i < n and abs_tokens[i][1] != 3:
        shape, cls, ref, name = abs_tokens[i]

        def allowed():
            if name == "li":
                return bool(st) and st[-1][0] in ("ulist", "olist")
            if not st:
                return cls in (0, 1)
            pc = st[-1][1]
            return (pc, cls) in ((0, 0), (0, 1), (1, 2), (2, 2))
        if shape == 1:
            if not st or st[-1][0] != name or st[-1][1] != cls or st[-1][2] != ref:
                return i, f"end token '{name}' (refers to #{ref}) does not close the open start {st[-1] if st else None}"
            st.pop()
        else:
            if not allowed():
                return i, f"token '{name}' (class {cls}) not allowed under {st[-1][:2] if st else 'the document'}"
            if shape == 0:
                st.append((name, cls, i))
        i += 1
    if st:
        return i, f"left open at the end: {[s[0] for s in st]}"
    for j in range(i, n):
        if abs_tokens[j][1] != 3:
            return j, f"token '{abs_tokens[j][3]}' after a special token"
    return None
