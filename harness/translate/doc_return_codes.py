"""newdocs/src/user-guide.md (--return-code-scheme table) -> Gen/DocReturnCodes.v."""
import os
import re
from . import TranslateError


def translate(repo):
    txt = open(os.path.join(repo, "newdocs/src/user-guide.md"), encoding="utf-8").read()
    m = re.search(r"\| Category \| `default` \| `minimal` \|\n\| --- \| --- \| --- \|\n((?:\|.*\|\n)+)", txt)
    if not m:
        raise TranslateError("return code table not found in user-guide.md")
    rows = []
    for line in m.group(1).strip().split("\n"):
        cells = [c.strip() for c in line.strip().strip("|").split("|")]
        if len(cells) != 3 or not re.fullmatch(r"`[A-Z_]+`", cells[0]) or not cells[1].isdigit() or not cells[2].isdigit():
            raise TranslateError("bad table row: " + line)
        rows.append((cells[0].strip("`"), int(cells[1]), int(cells[2])))
    out = ["From Coq Require Import ZArith.", "Require Import PV.Gen.ReturnCodes.", "Local Open Scope Z_scope."]
    for j, nm in ((1, "doc_default"), (2, "doc_minimal")):
        out.append(f"Definition {nm} (r : app_result) : option Z :=\n  match r with\n" + "\n".join(
            f"  | {r[0]} => Some {r[j]}" for r in rows) + "\n  | _ => None\n  end."
            if False else
            f"Definition {nm} (r : app_result) : option Z :=\n  match r with\n" + "\n".join(
                f"  | {r[0]} => Some {r[j]}" for r in rows) + "\n  end.")
    out.append("Definition doc (s : scheme) (r : app_result) : option Z :=\n  match s with SchemeDefault => doc_default r | SchemeMinimal => doc_minimal r end.")
    return "\n".join(out) + "\n"
