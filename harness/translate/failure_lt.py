"""plugin_scan_failure.py::__lt__, plugin_scan_context.py::add_triggered_rule/report_on_triggered_rules and
rule_plugin.py::report_next_token_error/report_next_line_error -> Gen/FailureLt.v"""
import ast
import os
from . import TranslateError
from .pyexpr import zexpr

FIELDS = {"line_number": ("f_line", "Z"), "column_number": ("f_col", "Z"), "rule_id": ("f_rid", "S"),
          "scan_file": ("f_file", "S")}


def _find(tree, cls, fn):
    for node in ast.walk(tree):
        if isinstance(node, ast.ClassDef) and node.name == cls:
            for s in node.body:
                if isinstance(s, ast.FunctionDef) and s.name == fn:
                    return s
    raise TranslateError(f"{cls}.{fn} not found")


def _body(fn):
    return [s for s in fn.body if not (isinstance(s, ast.Expr) and isinstance(s.value, ast.Constant))]


def _attr(e, who):
    if isinstance(e, ast.Attribute) and isinstance(e.value, ast.Name) and e.value.id == who and e.attr in FIELDS:
        return e.attr
    raise TranslateError("unexpected operand " + ast.unparse(e))


def _cmp(e, op):
    if not (isinstance(e, ast.Compare) and len(e.ops) == 1 and isinstance(e.ops[0], op)):
        raise TranslateError("unexpected comparison " + ast.unparse(e))
    a, b = _attr(e.left, "self"), _attr(e.comparators[0], "other")
    if a != b:
        raise TranslateError("comparison of different fields " + ast.unparse(e))
    return a


def _ltb(f):
    nm, ty = FIELDS[f]
    return (f"Z.ltb ({nm} a) ({nm} b)" if ty == "Z" else f"str_ltb ({nm} a) ({nm} b)",
            f"Z.eqb ({nm} a) ({nm} b)" if ty == "Z" else f"str_eqb ({nm} a) ({nm} b)")


def translate(repo):
    src = open(os.path.join(repo, "pymarkdown/plugin_manager/plugin_scan_failure.py"), encoding="utf-8").read()
    lt = _find(ast.parse(src), "PluginScanFailure", "__lt__")
    chain = []
    body = _body(lt)
    for s in body[:-1]:
        if not (isinstance(s, ast.If) and not s.orelse and len(s.body) == 1 and isinstance(s.body[0], ast.Return)):
            raise TranslateError("__lt__: unexpected statement " + ast.unparse(s))
        f = _cmp(s.test, ast.NotEq)
        if _cmp(s.body[0].value, ast.Lt) != f:
            raise TranslateError("__lt__: test and return compare different fields")
        chain.append(f)
    if not isinstance(body[-1], ast.Return):
        raise TranslateError("__lt__: last statement is not a return")
    last = _cmp(body[-1].value, ast.Lt)
    expr = _ltb(last)[0]
    for f in reversed(chain):
        l, e = _ltb(f)
        expr = f"if negb ({e}) then {l} else ({expr})"
    keys = chain + [last]
    # the dataclass must be frozen with the expected fields (immutability of reported failures)
    cls = [n for n in ast.walk(ast.parse(src)) if isinstance(n, ast.ClassDef) and n.name == "PluginScanFailure"][0]
    if "frozen=True" not in ast.unparse(cls.decorator_list[0]):
        raise TranslateError("PluginScanFailure is no longer a frozen dataclass")
    for m in ("__eq__", "__gt__", "__le__", "__ge__"):
        if any(isinstance(s, ast.FunctionDef) and s.name == m for s in cls.body):
            raise TranslateError(f"PluginScanFailure defines {m}")
    # ---- collection and printing
    csrc = open(os.path.join(repo, "pymarkdown/plugin_manager/plugin_scan_context.py"), encoding="utf-8").read()
    ctree = ast.parse(csrc)
    rep = ast.unparse(ast.Module(body=_body(_find(ctree, "PluginScanContext", "report_on_triggered_rules")), type_ignores=[]))
    want = ("reported_and_sorted = sorted(self.__reported)\nfor next_entry in reported_and_sorted:\n"
            "    self.owning_manager.log_scan_failure(next_entry)\nself.__reported.clear()")
    if rep != want:
        raise TranslateError("report_on_triggered_rules changed:\n" + rep)
    add = ast.unparse(ast.Module(body=_body(_find(ctree, "PluginScanContext", "add_triggered_rule")), type_ignores=[]))
    want_add = ("if self.in_fix_mode:\n    if does_support_fix:\n        raise BadPluginError(formatted_message=f'Plugin {rule_id}({rule_name}) reported a triggered rule while in fix mode.')\n    return\n"
                "new_entry = PluginScanFailure(scan_file, line_number, column_number, rule_id, rule_name, rule_description, extra_error_information)\n"
                "self.__reported.append(new_entry)")
    if add != want_add:
        raise TranslateError("add_triggered_rule changed:\n" + add)
    # ---- position arithmetic
    rsrc = open(os.path.join(repo, "pymarkdown/plugin_manager/rule_plugin.py"), encoding="utf-8").read()
    rtree = ast.parse(rsrc)
    tok = _find(rtree, "RulePlugin", "report_next_token_error")
    call = [n for n in ast.walk(tok) if isinstance(n, ast.Call) and ast.unparse(n.func) == "context.add_triggered_rule"]
    if len(call) != 1:
        raise TranslateError("report_next_token_error: add_triggered_rule call not found")
    a = [ast.unparse(x) for x in call[0].args]
    if a[0] != "context.scan_file" or a[3] != "plugin_details.plugin_id":
        raise TranslateError("report_next_token_error arguments changed: " + repr(a[:4]))
    env = {"line_number": "tl", "column_number": "tc", "line_number_delta": "dl", "column_number_delta": "dc"}
    tok_line, tok_col = zexpr(call[0].args[1], env), zexpr(call[0].args[2], env)
    pre = ast.unparse(ast.Module(body=_body(tok)[:1], type_ignores=[]))
    want_pre = ("if use_original_position:\n    leaf_token = cast(SetextHeadingMarkdownToken, token)\n    line_number = leaf_token.original_line_number\n"
                "    column_number = leaf_token.original_column_number\nelse:\n    line_number = token.line_number\n    column_number = token.column_number")
    if pre != want_pre:
        raise TranslateError("report_next_token_error position selection changed:\n" + pre)
    ln = _find(rtree, "RulePlugin", "report_next_line_error")
    call = [n for n in ast.walk(ln) if isinstance(n, ast.Call) and ast.unparse(n.func) == "context.add_triggered_rule"]
    a = [ast.unparse(x) for x in call[0].args]
    if a[0] != "context.scan_file" or a[3] != "plugin_details.plugin_id":
        raise TranslateError("report_next_line_error arguments changed: " + repr(a[:4]))
    env2 = {"context.line_number": "cur_line", "column_number": "col", "line_number_delta": "dl"}
    ln_line, ln_col = zexpr(call[0].args[1], env2), zexpr(call[0].args[2], env2)
    out = f"""From Coq Require Import List ZArith Bool.
Require Import PV.Base.Str PV.Base.StrOrder.
Import ListNotations.
Local Open Scope Z_scope.
(* PluginScanFailure (frozen dataclass): the fields that reach the output *)
Record failure : Set := mkF {{ f_file : str; f_line : Z; f_col : Z; f_rid : str; f_extra : str }}.
(* PluginScanFailure.__lt__ : keys compared in this order: {', '.join(keys)} *)
Definition failure_ltb (a b : failure) : bool :=
  {expr}.
Definition lt_key_fields : list nat := [{'; '.join(str(['scan_file','line_number','column_number','rule_id'].index(k)) for k in keys)}]%nat.
(* rule_plugin.py::report_next_token_error : position of a report made relative to a token *)
Definition token_report_pos (tl tc dl dc : Z) : Z * Z :=
  ({tok_line}, {tok_col}).
(* rule_plugin.py::report_next_line_error : position of a report made for the current line *)
Definition line_report_pos (cur_line col dl : Z) : Z * Z := ({ln_line}, {ln_col}).
"""
    return out
