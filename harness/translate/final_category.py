"""main.py::__scan_files_if_no_errors and the did_only_list_files branch of main -> Gen/FinalCategory.v."""
import ast
import os
from . import TranslateError


def _find(tree, name):
    for node in ast.walk(tree):
        if isinstance(node, ast.FunctionDef) and node.name == name:
            return node
    raise TranslateError(name + " not found")


def translate(repo):
    src = open(os.path.join(repo, "pymarkdown/main.py"), encoding="utf-8").read()
    tree = ast.parse(src)
    fn = _find(tree, "__scan_files_if_no_errors")
    body = [s for s in fn.body]
    # expected shape:
    #   scan_result = ApplicationResult.SUCCESS
    #   did_fix_any_files = False
    #   if did_error_scanning_files: <error>; scan_result = ApplicationResult.X
    #   else: ...; (did_fix_any_files, did_fail_any_file) = fsh.process_files_to_scan(...)
    #         if did_fail_any_file: scan_result = A elif did_fix_any_files: scan_result = B elif self.__plugins.number_of_scan_failures: scan_result = C
    #   return scan_result
    def res_of(st):
        if not (isinstance(st, ast.Assign) and ast.unparse(st.targets[0]) == "scan_result"
                and isinstance(st.value, ast.Attribute) and ast.unparse(st.value.value) == "ApplicationResult"):
            raise TranslateError("expected `scan_result = ApplicationResult.X`, got " + ast.unparse(st))
        return st.value.attr

    if len(body) != 4:
        raise TranslateError("unexpected number of statements in __scan_files_if_no_errors")
    init = res_of(body[0])
    if ast.unparse(body[1]) != "did_fix_any_files = False":
        raise TranslateError("unexpected: " + ast.unparse(body[1]))
    top = body[2]
    if not (isinstance(top, ast.If) and ast.unparse(top.test) == "did_error_scanning_files"):
        raise TranslateError("expected `if did_error_scanning_files`")
    err_assign = [s for s in top.body if isinstance(s, ast.Assign)]
    if len(err_assign) != 1 or any(not isinstance(s, (ast.Assign, ast.Expr)) for s in top.body):
        raise TranslateError("unexpected error branch")
    err_res = res_of(err_assign[0])
    chain = [s for s in top.orelse if isinstance(s, ast.If)]
    others = [s for s in top.orelse if not isinstance(s, ast.If)]
    for s in others:
        if not isinstance(s, (ast.Expr, ast.Assign, ast.Assert)):
            raise TranslateError("unexpected statement in scan branch: " + ast.unparse(s)[:80])
        if isinstance(s, ast.Assign) and "scan_result" in ast.unparse(s.targets[0]):
            raise TranslateError("scan_result assigned outside the chain")
    if len(chain) != 1:
        raise TranslateError("expected exactly one if/elif chain")
    conds = []
    node = chain[0]
    names = {"did_fail_any_file": "did_fail", "did_fix_any_files": "did_fix",
             "self.__plugins.number_of_scan_failures": "(negb (N.eqb nfail 0%N))"}
    while True:
        t = ast.unparse(node.test)
        if t not in names:
            raise TranslateError("unknown condition " + t)
        if len(node.body) != 1:
            raise TranslateError("chain body must be one assignment")
        conds.append((names[t], res_of(node.body[0])))
        if not node.orelse:
            break
        if len(node.orelse) == 1 and isinstance(node.orelse[0], ast.If):
            node = node.orelse[0]
        else:
            raise TranslateError("chain has an else branch")
    if ast.unparse(body[3]) != "return scan_result":
        raise TranslateError("expected return scan_result")
    expr = init
    for c, r in reversed(conds):
        expr = f"if {c} then {r} else ({expr})"
    # list-files branch in main
    mainfn = _find(tree, "main")
    txt = ast.unparse(mainfn)
    want = ("if did_only_list_files:\n            if not files_to_scan:\n                scan_result = ApplicationResult.NO_FILES_TO_SCAN\n"
            "            ReturnCodeHelper.exit_application(scan_result)\n        else:\n"
            "            scan_result = self.__scan_files_if_no_errors(args, use_standard_in, files_to_scan, did_error_scanning_files)")
    if want not in txt:
        raise TranslateError("main(): list-files / scan branch has an unexpected shape")
    if "scan_result = ApplicationResult.SUCCESS\n    try:" not in txt:
        raise TranslateError("main(): initial scan_result changed")
    if not txt.rstrip().endswith("ReturnCodeHelper.exit_application(scan_result)"):
        raise TranslateError("main(): does not end with exit_application(scan_result)")
    out = ["From Coq Require Import NArith Bool.", "Require Import PV.Gen.ReturnCodes.",
           "(* __scan_files_if_no_errors: the category a scan/fix run ends in *)",
           "Definition final_category (did_error_scanning_files did_fail did_fix : bool) (nfail : N) : app_result :=",
           f"  if did_error_scanning_files then {err_res} else ({expr}).",
           "(* main(): the --list-files branch *)",
           "Definition list_files_category (no_files : bool) : app_result :=",
           "  if no_files then NO_FILES_TO_SCAN else SUCCESS."]
    return "\n".join(out) + "\n"
