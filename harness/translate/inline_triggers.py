"""pymarkdown/inline/inline_handler_helper.py::initialize + inline/emphasis_helper.py::initialize -> Gen/InlineTriggers.v

The registrations of inline handlers, in source order, each with the extension switch that guards it (or none):

    Definition regs : list reg := [ mkreg None 96 "InlineBacktickHelper.handle_inline_backtick" false ; ... ].

Accepted shapes inside `initialize` (anything else raises TranslateError):
  * assignments / augmented assignments to class attributes whose value is a string expression (constants, f-strings,
    `+`, class attributes of other pymarkdown classes, `X.get_inline_emphasis()`, `ParserHelper.valid_characters_to_escape()`),
    optionally under `if extension_manager.is_<ext>_enabled:`;
  * `register_handlers(<string expression>, <handler>[, is_simple_handler=<bool>])`;
  * `for i in <string expression>: register_handlers(i, ...)`;
  * `if extension_manager.is_<ext>_enabled:` around any of those;
  * `EmphasisHelper.initialize(extension_manager)` (translated recursively), resets of the two handler dictionaries.
A string value is a list of (guard, text) pieces, so a character contributed only under a switch keeps that switch."""
import ast
import glob
import os

from . import TranslateError

FLAGS = {
    "is_front_matter_enabled": "EFrontMatter",
    "is_strike_through_enabled": "EStrike",
    "is_task_list_items_enabled": "ETaskList",
    "is_extended_autolinks_enabled": "EAutolinks",
    "is_disallow_raw_html_enabled": "ERawHtml",
    "is_linter_pragmas_enabled": "EPragmas",
}


class _Classes:
    def __init__(self, repo):
        self.repo = repo
        self.index = {}
        for p in glob.glob(os.path.join(repo, "pymarkdown", "**", "*.py"), recursive=True):
            if "/plugins/" in p:
                continue
            try:
                tree = ast.parse(open(p, encoding="utf-8").read())
            except SyntaxError as e:
                raise TranslateError(f"cannot parse {p}: {e}")
            for n in tree.body:
                if isinstance(n, ast.ClassDef):
                    self.index.setdefault(n.name, n)

    def cls(self, name):
        if name not in self.index:
            raise TranslateError(f"class {name} not found")
        return self.index[name]

    def const(self, cname, attr, depth=0):
        """value of a class-level string constant, as plain text"""
        if depth > 6:
            raise TranslateError("constant resolution too deep")
        c = self.cls(cname)
        for s in c.body:
            if isinstance(s, ast.Assign) and len(s.targets) == 1 and isinstance(s.targets[0], ast.Name) and s.targets[0].id == attr:
                return self.text(s.value, cname, depth + 1)
            if isinstance(s, ast.AnnAssign) and isinstance(s.target, ast.Name) and s.target.id == attr and s.value is not None:
                return self.text(s.value, cname, depth + 1)
        raise TranslateError(f"{cname}.{attr}: no class-level string constant")

    def text(self, e, here, depth=0):
        """an unguarded string expression evaluated from the source"""
        if isinstance(e, ast.Constant) and isinstance(e.value, str):
            return e.value
        if isinstance(e, ast.JoinedStr):
            out = ""
            for v in e.values:
                if isinstance(v, ast.Constant):
                    out += v.value
                elif isinstance(v, ast.FormattedValue) and v.format_spec is None and v.conversion == -1:
                    out += self.text(v.value, here, depth)
                else:
                    raise TranslateError("unsupported f-string part: " + ast.dump(v)[:80])
            return out
        if isinstance(e, ast.BinOp) and isinstance(e.op, ast.Add):
            return self.text(e.left, here, depth) + self.text(e.right, here, depth)
        if isinstance(e, ast.Name):  # inside a class body: a sibling constant
            return self.const(here, e.id, depth)
        if isinstance(e, ast.Attribute) and isinstance(e.value, ast.Name):
            return self.const(e.value.id, e.attr, depth)
        if isinstance(e, ast.Subscript) and isinstance(e.slice, ast.Constant) and isinstance(e.slice.value, int):
            return self.text(e.value, here, depth)[e.slice.value]
        if isinstance(e, ast.Call) and isinstance(e.func, ast.Attribute) and isinstance(e.func.value, ast.Name) and not e.args and not e.keywords:
            fn = self.method(e.func.value.id, e.func.attr)
            body = [s for s in fn.body if not (isinstance(s, ast.Expr) and isinstance(s.value, ast.Constant))]
            if len(body) == 1 and isinstance(body[0], ast.Return) and body[0].value is not None:
                return self.text(body[0].value, e.func.value.id, depth + 1)
            raise TranslateError(f"{e.func.value.id}.{e.func.attr}(): not a single return of a string expression")
        raise TranslateError("unsupported string expression: " + ast.unparse(e)[:80])

    def method(self, cname, name):
        for s in self.cls(cname).body:
            if isinstance(s, ast.FunctionDef) and s.name == name:
                return s
        raise TranslateError(f"{cname}.{name} not found")


def _guard_of(test):
    if isinstance(test, ast.Attribute) and isinstance(test.value, ast.Name) and test.value.id == "extension_manager" and test.attr in FLAGS:
        return FLAGS[test.attr]
    raise TranslateError("unsupported guard: " + ast.unparse(test)[:80])


class _Init:
    """symbolic execution of an `initialize(extension_manager)` body"""

    def __init__(self, classes, cname, env=None):
        self.k, self.cname = classes, cname
        self.env = env if env is not None else {}  # (class, attr) -> list of (guard, text)
        self.regs = []  # (guard, char, handler, simple)

    def pieces(self, e, guard):
        if isinstance(e, ast.JoinedStr):
            out = []
            for v in e.values:
                if isinstance(v, ast.Constant):
                    out.append((guard, v.value))
                elif isinstance(v, ast.FormattedValue) and v.format_spec is None and v.conversion == -1:
                    out += self.pieces(v.value, guard)
                else:
                    raise TranslateError("unsupported f-string part")
            return out
        if isinstance(e, ast.BinOp) and isinstance(e.op, ast.Add):
            return self.pieces(e.left, guard) + self.pieces(e.right, guard)
        if isinstance(e, ast.Attribute) and isinstance(e.value, ast.Name) and (e.value.id, e.attr) in self.env:
            return self._under(guard, self.env[(e.value.id, e.attr)])
        if isinstance(e, ast.Call) and isinstance(e.func, ast.Attribute) and isinstance(e.func.value, ast.Name) and not e.args and not e.keywords:
            fn = self.k.method(e.func.value.id, e.func.attr)
            body = [s for s in fn.body if not (isinstance(s, ast.Expr) and isinstance(s.value, ast.Constant))]
            if len(body) == 1 and isinstance(body[0], ast.Return) and isinstance(body[0].value, ast.Attribute) and isinstance(body[0].value.value, ast.Name):
                key = (body[0].value.value.id, body[0].value.attr)
                if key in self.env:
                    return self._under(guard, self.env[key])
        return [(guard, self.k.text(e, self.cname))]

    @staticmethod
    def _under(guard, ps):
        out = []
        for g, t in ps:
            if guard is None or g is None or g == guard:
                out.append((g if guard is None else guard, t))
            else:
                raise TranslateError("a value guarded by one switch is used under another switch")
        return out

    def target(self, t):
        if isinstance(t, ast.Attribute) and isinstance(t.value, ast.Name):
            return (t.value.id, t.attr)
        raise TranslateError("unsupported assignment target: " + ast.unparse(t)[:60])

    def run(self, body, guard=None, loopvar=None):
        for s in body:
            if isinstance(s, ast.Expr) and isinstance(s.value, ast.Constant):
                continue  # docstring
            if isinstance(s, ast.If):
                if s.orelse:
                    raise TranslateError("else branch in initialize")
                if guard is not None:
                    raise TranslateError("nested guards in initialize")
                self.run(s.body, _guard_of(s.test), loopvar)
                continue
            if isinstance(s, ast.For):
                if s.orelse or not isinstance(s.target, ast.Name) or loopvar is not None:
                    raise TranslateError("unsupported loop in initialize")
                for g, text in self.pieces(s.iter, guard):
                    for ch in text:
                        self.run(s.body, g, (s.target.id, ch))
                continue
            if isinstance(s, ast.Assign) and len(s.targets) == 1:
                key = self.target(s.targets[0])
                if isinstance(s.value, ast.Dict) and not s.value.keys:
                    if self.regs:
                        raise TranslateError("handler dictionary reset after a registration")
                    continue
                self.env[key] = self.pieces(s.value, guard)
                continue
            if isinstance(s, ast.AugAssign) and isinstance(s.op, ast.Add):
                key = self.target(s.target)
                if key not in self.env:
                    raise TranslateError(f"{key} extended before it is set")
                self.env[key] = self.env[key] + self.pieces(s.value, guard)
                continue
            if isinstance(s, ast.Expr) and isinstance(s.value, ast.Call):
                c = s.value
                f = ast.unparse(c.func)
                if f.endswith(".initialize") and len(c.args) == 1 and isinstance(c.args[0], ast.Name) and c.args[0].id == "extension_manager":
                    if guard is not None:
                        raise TranslateError("initialize of a sub-system under a guard")
                    sub_cls = f.split(".")[0]
                    sub = _Init(self.k, sub_cls, self.env)
                    sub.run(self.k.method(sub_cls, "initialize").body)
                    if sub.regs:
                        raise TranslateError("registrations in a sub-system initialize")
                    continue
                if f.endswith("register_handlers"):
                    if len(c.args) != 2:
                        raise TranslateError("register_handlers: expected two positional arguments")
                    simple = False
                    for kw in c.keywords:
                        if kw.arg == "is_simple_handler" and isinstance(kw.value, ast.Constant) and isinstance(kw.value.value, bool):
                            simple = kw.value.value
                        else:
                            raise TranslateError("register_handlers: unsupported keyword")
                    handler = ast.unparse(c.args[1]).replace("InlineHandlerHelper.__", "InlineHandlerHelper.")
                    a = c.args[0]
                    if loopvar is not None and isinstance(a, ast.Name) and a.id == loopvar[0]:
                        self.regs.append((guard, loopvar[1], handler, simple))
                    else:
                        ps = self.pieces(a, guard)
                        text = "".join(t for _, t in ps)
                        gs = {g for g, _ in ps}
                        if len(text) != 1 or len(gs) != 1:
                            raise TranslateError("register_handlers: the character is not a one-character string: " + ast.unparse(a)[:60])
                        self.regs.append((gs.pop(), text, handler, simple))
                    continue
            raise TranslateError("unsupported statement in initialize: " + ast.unparse(s)[:80])


def read_regs(repo):
    k = _Classes(repo)
    init = _Init(k, "InlineHandlerHelper")
    init.run(k.method("InlineHandlerHelper", "initialize").body)
    if len(init.regs) < 10:
        raise TranslateError("too few handler registrations found")
    return init.regs


def _coq_string(s):
    if any(ord(c) > 126 or ord(c) < 32 or c == '"' for c in s):
        raise TranslateError("handler name not printable")
    return '"' + s + '"'


def translate(repo):
    regs = read_regs(repo)
    rows = []
    for g, ch, h, simple in regs:
        rows.append(f"  mkreg {'None' if g is None else '(Some ' + g + ')'} {ord(ch)}%N (lit {_coq_string(h)}) {'true' if simple else 'false'}")
    return (
        "From Coq Require Import List NArith String.\n"
        "Require Import PV.Base.Str PV.Base.StrLit PV.Model.InlineDispatch.\n"
        "Import ListNotations.\nLocal Open Scope string_scope.\n\n"
        "(* inline/inline_handler_helper.py::initialize (with inline/emphasis_helper.py::initialize), in registration order *)\n"
        "Definition regs : list reg := [\n" + ";\n".join(rows) + "\n].\n"
    )
