"""Tiny fail-closed translator for integer/boolean Python expressions over named variables -> Coq (Z / bool)."""
import ast
from . import TranslateError


def zexpr(e, env):
    """env: python source of a name/attribute -> Coq variable (Z typed)."""
    k = ast.unparse(e)
    if k in env:
        return env[k]
    if isinstance(e, ast.Constant) and isinstance(e.value, int) and not isinstance(e.value, bool):
        return f"({e.value})"
    if isinstance(e, ast.BinOp) and isinstance(e.op, (ast.Add, ast.Sub, ast.Mult)):
        op = {ast.Add: "+", ast.Sub: "-", ast.Mult: "*"}[type(e.op)]
        return f"({zexpr(e.left, env)} {op} {zexpr(e.right, env)})"
    if isinstance(e, ast.UnaryOp) and isinstance(e.op, ast.USub):
        return f"(- {zexpr(e.operand, env)})"
    if isinstance(e, ast.IfExp):
        return f"(if {bexpr(e.test, env)} then {zexpr(e.body, env)} else {zexpr(e.orelse, env)})"
    raise TranslateError("unsupported integer expression: " + k)


def bexpr(e, env):
    if isinstance(e, ast.Compare) and len(e.ops) == 1:
        a, b = zexpr(e.left, env), zexpr(e.comparators[0], env)
        op = type(e.ops[0])
        tbl = {ast.Lt: f"({a} <? {b})", ast.LtE: f"({a} <=? {b})", ast.Gt: f"({b} <? {a})", ast.GtE: f"({b} <=? {a})",
               ast.Eq: f"({a} =? {b})", ast.NotEq: f"(negb ({a} =? {b}))"}
        if op in tbl:
            return tbl[op]
    if isinstance(e, ast.BoolOp):
        op = "&&" if isinstance(e.op, ast.And) else "||"
        return "(" + f" {op} ".join(bexpr(v, env) for v in e.values) + ")"
    if isinstance(e, ast.UnaryOp) and isinstance(e.op, ast.Not):
        return f"(negb {bexpr(e.operand, env)})"
    raise TranslateError("unsupported boolean expression: " + ast.unparse(e))
