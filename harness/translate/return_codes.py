"""return_code_helper.py -> Gen/ReturnCodes.v : ApplicationResult enum + the two scheme tables."""
import ast
import os
from . import TranslateError


def translate(repo):
    src = open(os.path.join(repo, "pymarkdown/return_code_helper.py"), encoding="utf-8").read()
    tree = ast.parse(src)
    enum = None
    tables = {}
    for node in tree.body:
        if isinstance(node, ast.ClassDef) and node.name == "ApplicationResult":
            enum = []
            for st in node.body:
                if isinstance(st, ast.Expr) and isinstance(st.value, ast.Constant):
                    continue
                if not (isinstance(st, ast.Assign) and len(st.targets) == 1 and isinstance(st.targets[0], ast.Name)
                        and isinstance(st.value, ast.Constant) and isinstance(st.value.value, int)):
                    raise TranslateError("unexpected statement in ApplicationResult: " + ast.dump(st)[:100])
                enum.append(st.targets[0].id)
        if isinstance(node, ast.ClassDef) and node.name in ("DefaultScheme", "MinimalScheme"):
            fn = [s for s in node.body if isinstance(s, ast.FunctionDef) and s.name == "get_scheme_mapping"]
            if len(fn) != 1:
                raise TranslateError("get_scheme_mapping not found in " + node.name)
            body = [s for s in fn[0].body if not (isinstance(s, ast.Expr) and isinstance(s.value, ast.Constant))]
            if len(body) != 1 or not isinstance(body[0], ast.Return) or not isinstance(body[0].value, ast.Dict):
                raise TranslateError("get_scheme_mapping is not a single `return {..}`")
            d = {}
            for k, v in zip(body[0].value.keys, body[0].value.values):
                if not (isinstance(k, ast.Attribute) and isinstance(k.value, ast.Name) and k.value.id == "ApplicationResult"):
                    raise TranslateError("bad key " + ast.dump(k))
                if not (isinstance(v, ast.Constant) and isinstance(v.value, int) and not isinstance(v.value, bool)):
                    raise TranslateError("bad value " + ast.dump(v))
                if k.attr in d:
                    raise TranslateError("duplicate key " + k.attr)
                d[k.attr] = v.value
            tables[node.name] = d
    if enum is None or set(tables) != {"DefaultScheme", "MinimalScheme"}:
        raise TranslateError("enum or tables not found")
    # apply_scheme must be a plain dictionary lookup
    ok = False
    for node in ast.walk(tree):
        if isinstance(node, ast.FunctionDef) and node.name == "apply_scheme":
            body = [s for s in node.body if not (isinstance(s, ast.Expr) and isinstance(s.value, ast.Constant))]
            if ast.unparse(ast.Module(body=body, type_ignores=[])) != "scheme_mapping = self.get_scheme_mapping()\nreturn scheme_mapping[application_result]":
                raise TranslateError("apply_scheme is not a plain table lookup:\n" + ast.unparse(ast.Module(body=body, type_ignores=[])))
            ok = True
        if isinstance(node, ast.FunctionDef) and node.name == "exit_application":
            txt = ast.unparse(node)
            want = ("scheme_name = ReturnCodeHelper.__helper_name.value or ReturnCodeHelper.__DEFAULT_SCHEME_NAME\n"
                    "    scheme_class = ReturnCodeHelper.__available_schemes[scheme_name]\n"
                    "    return_code = scheme_class.apply_scheme(application_result)\n"
                    "    sys.exit(return_code)")
            if want not in txt:
                raise TranslateError("exit_application has an unexpected body:\n" + txt)
    if not ok:
        raise TranslateError("apply_scheme not found")
    # scheme registry
    reg = None
    for node in ast.walk(tree):
        if isinstance(node, ast.Assign) and any(isinstance(t, ast.Name) and t.id == "__available_schemes" for t in node.targets):
            reg = ast.unparse(node.value)
    if reg != "{__DEFAULT_SCHEME_NAME: DefaultScheme(), __MINIMAL_SCHEME_NAME: MinimalScheme()}":
        raise TranslateError("scheme registry changed: " + str(reg))
    out = ["From Coq Require Import ZArith.", "Local Open Scope Z_scope.",
           "Inductive app_result : Set := " + " | ".join(enum) + ".",
           "Inductive scheme : Set := SchemeDefault | SchemeMinimal."]
    for cls, nm in (("DefaultScheme", "code_default"), ("MinimalScheme", "code_minimal")):
        d = tables[cls]
        # a key missing from the dict is a KeyError in Python: model it as None
        out.append(f"Definition {nm} (r : app_result) : option Z :=\n  match r with\n" + "\n".join(
            f"  | {e} => " + (f"Some {d[e]}" if e in d else "None") for e in enum) + "\n  end.")
    out.append("Definition code (s : scheme) (r : app_result) : option Z :=\n  match s with SchemeDefault => code_default r | SchemeMinimal => code_minimal r end.")
    out.append("Definition all_results : list app_result := (" + " :: ".join(enum) + " :: nil)%list.")
    return "\n".join(out) + "\n"
