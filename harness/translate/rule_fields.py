"""Every rule class of pymarkdown/plugins -> Gen/RuleFields.v : the instance fields a callback writes, and the fields
starting_new_file re-initialises; plus the per-document resets of the plug-in manager and of the tokenizer."""
import ast
import glob
import os
from . import TranslateError

MUT = {"append", "extend", "insert", "pop", "clear", "remove", "add", "update", "discard", "setdefault", "popitem", "sort", "reverse"}
PURE_PREFIX = ("get_", "is_", "in_", "has_", "find", "index", "count", "match", "search", "fullmatch", "sub", "startswith", "endswith", "split", "strip", "lower", "upper", "join", "items", "keys", "values", "copy")


def cstr(s):
    return "(@nil N)" if not s else "[" + ";".join(str(ord(c)) for c in s) + "]%N"


def _selfattr(x):
    return x.attr if isinstance(x, ast.Attribute) and isinstance(x.value, ast.Name) and x.value.id == "self" else None


def analyse_class(cls):
    per = {}
    for fn in [n for n in cls.body if isinstance(n, ast.FunctionDef)]:
        assigned, mutated, called = set(), set(), set()
        for n in ast.walk(fn):
            if isinstance(n, (ast.Assign, ast.AugAssign, ast.AnnAssign)):
                tg = n.targets if isinstance(n, ast.Assign) else [n.target]
                for t in tg:
                    for tt in (t.elts if isinstance(t, ast.Tuple) else [t]):
                        a = _selfattr(tt)
                        if a:
                            assigned.add(a)
                        if isinstance(tt, ast.Subscript):
                            a = _selfattr(tt.value)
                            if a:
                                mutated.add(a)
            if isinstance(n, ast.Call) and isinstance(n.func, ast.Attribute):
                a = _selfattr(n.func.value)
                if a and n.func.attr in MUT:
                    mutated.add(a)
                elif a and not n.func.attr.startswith(PURE_PREFIX):
                    called.add(a)               # a method of a helper object: may change it
            if isinstance(n, ast.Delete):
                for t in n.targets:
                    if isinstance(t, ast.Subscript):
                        a = _selfattr(t.value)
                        if a:
                            mutated.add(a)
        per[fn.name] = (assigned, mutated, called)
    return per


def rule_fields(repo):
    out = []
    for p in sorted(q for q in glob.glob(os.path.join(repo, "pymarkdown/plugins/*.py")) if not q.endswith("__init__.py")):
        tree = ast.parse(open(p, encoding="utf-8").read())
        for cls in [n for n in tree.body if isinstance(n, ast.ClassDef) and any(ast.unparse(b) == "RulePlugin" for b in n.bases)]:
            per = analyse_class(cls)
            snf = per.get("starting_new_file", (set(), set(), set()))
            reset = snf[0] | snf[1] | snf[2]
            written = set()
            for name, (a, m, c) in per.items():
                if name in ("__init__", "initialize_from_config", "starting_new_file", "get_details", "query_config"):
                    continue
                written |= a | m | c
            written.discard("plugin_configuration")
            out.append((os.path.basename(p), cls.name, sorted(written), sorted(reset)))
    if len(out) < 40:
        raise TranslateError("rule classes not found")
    return out


def _fn(tree, cls, name):
    for n in ast.walk(tree):
        if isinstance(n, ast.ClassDef) and n.name == cls:
            for s in n.body:
                if isinstance(s, ast.FunctionDef) and s.name == name:
                    return s
    raise TranslateError(f"{cls}.{name} not found")


def per_document_resets(repo):
    """statements that re-initialise per-document state at the start of every document, found where the code has them"""
    found = []
    pm = ast.parse(open(os.path.join(repo, "pymarkdown/plugin_manager/plugin_manager.py"), encoding="utf-8").read())
    snf = _fn(pm, "PluginManager", "starting_new_file")
    for s in snf.body:                                   # top level of the function only: unconditional
        if isinstance(s, ast.Assign) and len(s.targets) == 1 and _selfattr(s.targets[0]) and isinstance(s.value, (ast.Dict, ast.List)) and not (s.value.keys if isinstance(s.value, ast.Dict) else s.value.elts):
            found.append("PluginManager.starting_new_file:" + _selfattr(s.targets[0]))
    tk = ast.parse(open(os.path.join(repo, "pymarkdown/general/tokenized_markdown.py"), encoding="utf-8").read())
    for fname in ("__parse_blocks_pass", "__transform"):
        fn = _fn(tk, "TokenizedMarkdown", fname)
        # unconditional statements before the first loop of the function
        for s in fn.body:
            if isinstance(s, (ast.While, ast.For)):
                break
            for n in ast.walk(s) if not isinstance(s, (ast.If, ast.Try)) else []:
                if isinstance(n, ast.Assign) and len(n.targets) == 1 and isinstance(n.value, (ast.Dict, ast.List)) and not (n.value.keys if isinstance(n.value, ast.Dict) else n.value.elts):
                    found.append(f"TokenizedMarkdown.{fname}:" + ast.unparse(n.targets[0]))
        for n in ast.walk(fn):
            if isinstance(n, ast.Call) and isinstance(n.func, ast.Attribute) and n.func.attr == "initialize" and isinstance(n.func.value, ast.Name):
                found.append(f"TokenizedMarkdown.{fname}:{n.func.value.id}.initialize()")
    return sorted(set(found))


def translate(repo):
    rf = rule_fields(repo)
    resets = per_document_resets(repo)
    out = ["From Coq Require Import List NArith.", "Require Import PV.Base.Str.", "Import ListNotations.",
           "(* per rule class: (file, class, fields written by next_token / next_line / completed_file and their helpers, fields re-initialised by starting_new_file) *)",
           "Definition rule_fields : list (str * str * list str * list str) := ["]
    out.append(";\n".join(f"  ({cstr(f)}, {cstr(c)}, [{'; '.join(cstr(x) for x in w)}], [{'; '.join(cstr(x) for x in r)}])" for f, c, w, r in rf))
    out.append("].")
    out.append("(* unconditional per-document re-initialisations found in PluginManager.starting_new_file and TokenizedMarkdown.__parse_blocks_pass / __transform *)")
    out.append("Definition per_document_resets : list str := [" + "; ".join(cstr(x) for x in resets) + "].")
    return "\n".join(out) + "\n"
