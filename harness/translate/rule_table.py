"""pymarkdown/plugins/rule_md_*.py -> Gen/RuleTable.v : per rule its id, names, default state, fix support and level,
which callbacks the class body defines, and the configuration items read in initialize_from_config
(name, type, default, validator)."""
import ast
import glob
import os
from . import TranslateError

CB = ["starting_new_file", "next_token", "next_line", "completed_file"]


def cstr(s):
    return "(@nil N)" if not s else "[" + ";".join(str(ord(c)) for c in s) + "]%N"


def _const(cls, e, cname):
    """constant or <Class>.__attr / self.__attr resolved against class-level assignments"""
    if isinstance(e, ast.Constant):
        return e.value
    if isinstance(e, ast.UnaryOp) and isinstance(e.op, ast.USub) and isinstance(e.operand, ast.Constant):
        return -e.operand.value
    if isinstance(e, ast.Attribute) and isinstance(e.value, ast.Name) and e.value.id in (cname, "self", "cls"):
        for s in cls.body:
            if isinstance(s, ast.Assign) and len(s.targets) == 1 and isinstance(s.targets[0], ast.Name) and s.targets[0].id == e.attr:
                return _const(cls, s.value, cname)
    if isinstance(e, ast.BinOp) and isinstance(e.op, ast.Add):
        return _const(cls, e.left, cname) + _const(cls, e.right, cname)
    if isinstance(e, ast.Name):
        for s in cls.body:
            if isinstance(s, ast.Assign) and len(s.targets) == 1 and isinstance(s.targets[0], ast.Name) and s.targets[0].id == e.id:
                return _const(cls, s.value, cname)
        # a local name: resolved when it is assigned exactly once in the class, to something that is itself a constant
        local = [s for s in ast.walk(cls) if isinstance(s, ast.Assign) and len(s.targets) == 1 and isinstance(s.targets[0], ast.Name) and s.targets[0].id == e.id]
        if len(local) == 1 and not (isinstance(local[0].value, ast.Name) and local[0].value.id == e.id):
            return _const(cls, local[0].value, cname)
    if isinstance(e, (ast.List, ast.Tuple)):
        return [_const(cls, x, cname) for x in e.elts]
    raise TranslateError("cannot resolve constant " + ast.unparse(e))


def _validator(cls, cname, fn_expr):
    name = fn_expr.attr if isinstance(fn_expr, ast.Attribute) else None
    fn = next((s for s in cls.body if isinstance(s, ast.FunctionDef) and s.name == name), None)
    if fn is None:
        raise TranslateError("validator not found: " + ast.unparse(fn_expr))
    arg = fn.args.args[-1].arg
    body = [s for s in fn.body if not (isinstance(s, ast.Expr) and isinstance(s.value, ast.Constant))]
    if len(body) == 1 and isinstance(body[0], ast.If) and not body[0].orelse and len(body[0].body) == 1 and isinstance(body[0].body[0], ast.Raise):
        t = body[0].test
        # not lo <= v <= hi
        if isinstance(t, ast.UnaryOp) and isinstance(t.op, ast.Not) and isinstance(t.operand, ast.Compare) and len(t.operand.ops) == 2 \
                and all(isinstance(o, ast.LtE) for o in t.operand.ops) and ast.unparse(t.operand.comparators[0]) == arg:
            return ("range", _const(cls, t.operand.left, cname), _const(cls, t.operand.comparators[1], cname))
        # v < a or v > b
        if isinstance(t, ast.BoolOp) and isinstance(t.op, ast.Or) and len(t.values) == 2:
            a, b = t.values
            if all(isinstance(x, ast.Compare) and len(x.ops) == 1 and ast.unparse(x.left) == arg for x in (a, b)) \
                    and isinstance(a.ops[0], ast.Lt) and isinstance(b.ops[0], ast.Gt):
                return ("range", _const(cls, a.comparators[0], cname), _const(cls, b.comparators[0], cname))
        # v < a
        if isinstance(t, ast.Compare) and len(t.ops) == 1 and isinstance(t.ops[0], ast.Lt) and ast.unparse(t.left) == arg:
            return ("range", _const(cls, t.comparators[0], cname), None)
        # v not in LIST
        if isinstance(t, ast.Compare) and len(t.ops) == 1 and isinstance(t.ops[0], ast.NotIn) and ast.unparse(t.left) == arg:
            lst = _const(cls, t.comparators[0], cname)
            if isinstance(lst, list) and all(isinstance(x, str) for x in lst):
                return ("in", lst)
    return ("opaque",)


def read_rules(repo):
    rules = []
    for p in sorted([q for q in glob.glob(os.path.join(repo, "pymarkdown/plugins/*.py")) if not q.endswith("__init__.py")]):
        tree = ast.parse(open(p, encoding="utf-8").read())
        classes = [n for n in tree.body if isinstance(n, ast.ClassDef) and any(ast.unparse(b) == "RulePlugin" for b in n.bases)]
        if len(classes) != 1:
            raise TranslateError(f"{p}: expected exactly one RulePlugin class")
        cls = classes[0]
        gd = next((s for s in cls.body if isinstance(s, ast.FunctionDef) and s.name == "get_details"), None)
        if gd is None:
            raise TranslateError(f"{p}: get_details not found")
        rets = [n for n in ast.walk(gd) if isinstance(n, ast.Return)]
        if len(rets) != 1 or not isinstance(rets[0].value, ast.Call) or ast.unparse(rets[0].value.func) not in ("PluginDetails", "PluginDetailsV2", "PluginDetailsV3"):
            raise TranslateError(f"{p}: get_details is not a single `return PluginDetails*(...)`")
        call = rets[0].value
        if call.args:
            raise TranslateError(f"{p}: positional arguments in PluginDetails")
        kw = {k.arg: _const(cls, k.value, cls.name) for k in call.keywords}
        r = {"id": kw["plugin_id"].lower(), "names": [n.strip().lower() for n in kw["plugin_name"].split(",")],
             "default": bool(kw["plugin_enabled_by_default"]), "fix": bool(kw.get("plugin_supports_fix", False)),
             "level": int(kw.get("plugin_fix_level", 1)), "version_class": ast.unparse(call.func),
             "cb": [any(isinstance(s, ast.FunctionDef) and s.name == c for s in cls.body) for c in CB], "items": [], "file": os.path.basename(p)}
        parent = {c: a for a in ast.walk(cls) for c in ast.iter_child_nodes(a)}
        for n in ast.walk(cls):
            if isinstance(n, ast.Call) and isinstance(n.func, ast.Attribute) and ast.unparse(n.func.value) == "self.plugin_configuration" \
                    and n.func.attr.startswith("get_") and n.func.attr.endswith("_property"):
                ty = n.func.attr[4:-9]
                if ty not in ("boolean", "integer", "string"):
                    raise TranslateError(f"{p}: unsupported getter {n.func.attr}")
                if len(n.args) != 1:
                    raise TranslateError(f"{p}: getter call shape")
                k = {x.arg: x.value for x in n.keywords}
                extra = set(k) - {"default_value", "valid_value_fn"}
                if extra:
                    raise TranslateError(f"{p}: unsupported getter keywords {extra}")
                item = {"name": _const(cls, n.args[0], cls.name).lower(), "ty": ty, "default": _const(cls, k["default_value"], cls.name) if "default_value" in k else None,
                        "valid": _validator(cls, cls.name, k["valid_value_fn"]) if "valid_value_fn" in k else ("none",)}
                # is the item read on every path?  (the model reads - and validates - every item of an enabled rule)
                a, cond = n, False
                while a in parent and not isinstance(a, ast.FunctionDef):
                    a = parent[a]
                    if isinstance(a, (ast.If, ast.IfExp, ast.BoolOp, ast.While, ast.For, ast.Try, ast.With, ast.comprehension, ast.Lambda)):
                        cond = True
                item["conditional"] = cond
                r["items"].append(item)
        rules.append(r)
    ids = [r["id"] for r in rules]
    if len(set(ids)) != len(ids):
        raise TranslateError("duplicate rule ids")
    return rules


def _val(ty, v):
    if v is None:
        return "VOther"
    if ty == "boolean":
        return f"VBool {'true' if v else 'false'}"
    if ty == "integer":
        return f"VInt ({v})%Z"
    return f"VStr {cstr(v)}"


def _opt(z):
    return "None" if z is None else f"(Some ({z})%Z)"


def translate(repo):
    rules = read_rules(repo)
    out = ["From Coq Require Import List ZArith NArith Bool.", "Require Import PV.Base.Str PV.Base.RuleTypes.", "Import ListNotations."]
    names = []
    for r in rules:
        items = []
        for it in r["items"]:
            v = it["valid"]
            vs = {"none": "VNone", "opaque": "VOpaque"}.get(v[0]) or (f"VRange {_opt(v[1])} {_opt(v[2])}" if v[0] == "range" else "VIn [" + "; ".join(cstr(x) for x in v[1]) + "]")
            ty = {"boolean": "TBool", "integer": "TInt", "string": "TStr"}[it["ty"]]
            items.append(f"mkItem {cstr(it['name'])} {ty} ({_val(it['ty'], it['default'])}) ({vs})")
        b = lambda x: "true" if x else "false"  # noqa
        nm = "rule_" + r["id"]
        names.append(nm)
        out.append(f"(* {r['file']}: {r['id']} {','.join(r['names'])} *)\nDefinition {nm} : rule := mkRule {cstr(r['id'])} [{'; '.join(cstr(n) for n in r['names'])}] {b(r['default'])} {b(r['fix'])} ({r['level']})%Z "
                   f"{' '.join(b(x) for x in r['cb'])}\n  [{'; '.join(items)}].")
    out.append("Definition rules : list rule := [" + "; ".join(names) + "].")
    return "\n".join(out) + "\n"
