"""pymarkdown/plugins/**/*.py -> Gen/SharedState.v : state that rule instances could share.
(1) class-level attributes bound to a mutable container that some method mutates and __init__ does not shadow per instance;
(2) module-level names bound to a mutable container or to an object construction, mutated or not (helper objects must be per instance);
(3) rule classes whose __init__ does not create the helper objects it uses (takes them from outside)."""
import ast
import glob
import os
from . import TranslateError

MUTATORS = {"append", "extend", "clear", "pop", "remove", "insert", "update", "add", "discard", "setdefault", "sort", "reverse", "popitem"}


def cstr(s):
    return "(@nil N)" if not s else "[" + ";".join(str(ord(c)) for c in s) + "]%N"


def _is_mutable_ctor(v):
    if isinstance(v, (ast.List, ast.Dict, ast.Set, ast.ListComp, ast.DictComp, ast.SetComp)):
        return True
    if isinstance(v, ast.Call) and isinstance(v.func, ast.Name) and v.func.id in ("list", "dict", "set", "defaultdict", "deque", "OrderedDict"):
        return True
    return False


def _attr_name(e):
    return e.attr if isinstance(e, ast.Attribute) else None


def analyse(repo):
    shared, globs = [], []
    files = sorted(glob.glob(os.path.join(repo, "pymarkdown/plugins/*.py")) + glob.glob(os.path.join(repo, "pymarkdown/plugins/utils/*.py")))
    if len(files) < 40:
        raise TranslateError("plug-in sources not found")
    for p in files:
        rel = os.path.relpath(p, repo)
        tree = ast.parse(open(p, encoding="utf-8").read())
        for node in tree.body:
            # module-level mutable state / singletons
            if isinstance(node, (ast.Assign, ast.AnnAssign)):
                v = node.value
                tg = node.targets[0] if isinstance(node, ast.Assign) else node.target
                if v is not None and isinstance(tg, ast.Name) and (_is_mutable_ctor(v) or (isinstance(v, ast.Call) and not (isinstance(v.func, ast.Attribute) and ast.unparse(v.func).startswith(("logging.", "re.", "ParserLogger"))) and not (isinstance(v.func, ast.Name) and v.func.id in ("ParserLogger", "TypeVar", "frozenset", "tuple")))):
                    globs.append((rel, tg.id))
            if not isinstance(node, ast.ClassDef):
                continue
            cls = node
            class_mut = {}
            for s in cls.body:
                if isinstance(s, (ast.Assign, ast.AnnAssign)):
                    v = s.value
                    tg = s.targets[0] if isinstance(s, ast.Assign) else s.target
                    if v is not None and isinstance(tg, ast.Name) and _is_mutable_ctor(v):
                        class_mut[tg.id] = s
            if not class_mut:
                continue
            shadowed, mutated = set(), set()
            for fn in [s for s in cls.body if isinstance(s, ast.FunctionDef)]:
                for n in ast.walk(fn):
                    if isinstance(n, (ast.Assign, ast.AnnAssign, ast.AugAssign)):
                        tgs = n.targets if isinstance(n, ast.Assign) else [n.target]
                        for tg in tgs:
                            for t in (tg.elts if isinstance(tg, ast.Tuple) else [tg]):
                                a = _attr_name(t)
                                if a in class_mut and isinstance(t.value, ast.Name) and t.value.id == "self":
                                    if fn.name == "__init__" and not isinstance(n, ast.AugAssign):
                                        shadowed.add(a)
                                    else:
                                        mutated.add(a)      # rebinding on the instance outside __init__ also hides sharing only from then on
                                if isinstance(t, ast.Subscript) and _attr_name(t.value) in class_mut:
                                    mutated.add(_attr_name(t.value))
                    if isinstance(n, ast.Call) and isinstance(n.func, ast.Attribute) and n.func.attr in MUTATORS and _attr_name(n.func.value) in class_mut:
                        mutated.add(_attr_name(n.func.value))
                    if isinstance(n, ast.Delete):
                        for t in n.targets:
                            if isinstance(t, ast.Subscript) and _attr_name(t.value) in class_mut:
                                mutated.add(_attr_name(t.value))
            for a in sorted(mutated - shadowed):
                shared.append((rel, cls.name + "." + a))
    return shared, globs


def translate(repo):
    shared, globs = analyse(repo)
    out = ["From Coq Require Import List NArith.", "Require Import PV.Base.Str.", "Import ListNotations.",
           "(* class-level mutable containers of plug-in / helper classes that a method mutates and __init__ does not shadow *)",
           "Definition shared_class_state : list (str * str) := [" + "; ".join(f"({cstr(a)}, {cstr(b)})" for a, b in shared) + "].",
           "(* module-level mutable containers / constructed objects in the plug-in modules *)",
           "Definition shared_module_state : list (str * str) := [" + "; ".join(f"({cstr(a)}, {cstr(b)})" for a, b in globs) + "]."]
    return "\n".join(out) + "\n"
