"""Maintenance command (NOT a check): triage.py <ID> [--tier thorough]
Runs the check with every violation recorded, groups the violations by signature and rewrites
/verif/findings/<ID>.json.  Descriptions of groups that already exist are kept; new groups get a
placeholder description that must be reviewed by hand (a group is only legitimate when the failure was
reproduced against the real code and is a genuine defect - see DESIGN.md section 5).  Run it only after
reviewing `--dry`."""
import json
import os
import subprocess
import sys
import tempfile

V = os.path.dirname(os.path.dirname(os.path.abspath(__file__)))


def main():
    pid = sys.argv[1].upper()
    tier = "thorough"
    if "--tier" in sys.argv:
        tier = sys.argv[sys.argv.index("--tier") + 1]
    dry = "--dry" in sys.argv
    tmp = tempfile.mktemp(prefix="pv-triage-", suffix=".json")
    env = dict(os.environ, VERIF_TRIAGE=tmp)
    subprocess.run([os.path.join(V, "check"), pid, "--tier", tier], env=env, cwd=V, stdout=subprocess.DEVNULL)
    rows = json.load(open(tmp))
    os.remove(tmp)
    path = os.path.join(V, "findings", pid + ".json")
    old = json.load(open(path)) if os.path.exists(path) else {"findings": []}
    olddesc = {g["id"]: g for g in old["findings"]}
    groups = {}
    for r in rows:
        gid = f"{pid}-{r['group']}"
        g = groups.setdefault(gid, {"property": pid, "id": gid, "unit": r["unit"], "desc": olddesc.get(gid, {}).get("desc", "UNREVIEWED: " + r["what"][:160]),
                                    "example": r["what"][:300], "members": []})
        if g["unit"] != r["unit"]:
            raise SystemExit(f"group {gid} spans two units")
        if r["input"] not in g["members"]:
            g["members"].append(r["input"])
    for gid, g in sorted(groups.items()):
        print(f"{gid}: {len(g['members'])} members; e.g. {json.dumps(g['members'][0])[:150]} :: {g['example'][:200]}")
    if not dry:
        os.makedirs(os.path.dirname(path), exist_ok=True)
        json.dump({"comment": "member lists written by harness/triage.py over the complete thorough space; reviewed by hand; never written by a check",
                   "findings": [groups[k] for k in sorted(groups)]}, open(path, "w"), indent=0, ensure_ascii=True)
        print("wrote", path)


if __name__ == "__main__":
    main()
