#!/bin/sh
# maintenance: try_seed.sh <seed-name> <ID> [tier] - apply /verif/seeded/<seed-name>/patch.diff to /repo, run ./check <ID>, undo.
seed=$1; id=$2; tier=${3:-quick}
cd /repo && git diff --quiet || { echo "/repo is dirty"; exit 2; }
git -C /repo apply /verif/seeded/$seed/patch.diff || exit 2
cd /verif && ./check $id --tier $tier 2>&1 | grep -v "^WARNING" | grep -E "VIOLATION|^\[" | head -8
git -C /repo checkout -- . 
