#!/bin/sh
# maintenance: try_seed.sh <seed-name> <ID> [tier] - apply /verif/seeded/<seed-name>/patch.diff to /repo, run ./check <ID>, undo.
# The evidence file of the clean tree is put back afterwards (evidence must describe a run on /repo as committed).
seed=$1; id=$2; tier=${3:-quick}
cd /repo && git diff --quiet || { echo "/repo is dirty"; exit 2; }
if [ -f /verif/seeded/$seed/patch.rebased.diff ]; then git -C /repo apply /verif/seeded/$seed/patch.rebased.diff || exit 2; else git -C /repo apply /verif/seeded/$seed/patch.diff || exit 2; fi
cp /verif/evidence/$id.json /tmp/evidence-$id.keep 2>/dev/null
cd /verif && ./check $id --tier $tier > /tmp/try_seed_last.log 2>&1
grep -E "^VIOLATION" /tmp/try_seed_last.log | head -6; grep -E "^\[" /tmp/try_seed_last.log | tail -1
git -C /repo checkout -- .
[ -f /tmp/evidence-$id.keep ] && mv /tmp/evidence-$id.keep /verif/evidence/$id.json
rm -rf /verif/evidence/replay/$id-*
