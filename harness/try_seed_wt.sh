#!/bin/sh
# maintenance: try_seed_wt.sh <seed-name> <ID> [tier] - like try_seed.sh, but leaves /repo alone: the patch is applied to a scratch
# worktree and the check runs with VERIF_REPO pointing at it (for use while something else is reading /repo).
seed=$1; id=$2; tier=${3:-quick}
wt=/tmp/wt/ts-$seed-$id
git -C /repo worktree remove --force $wt 2>/dev/null
git -C /repo worktree add -f $wt HEAD >/dev/null 2>&1 || exit 2
p=/verif/seeded/$seed/patch.diff; [ -f /verif/seeded/$seed/patch.rebased.diff ] && p=/verif/seeded/$seed/patch.rebased.diff
git -C $wt apply $p || { git -C /repo worktree remove --force $wt; exit 2; }
cp /verif/evidence/$id.json /tmp/evidence-$id.keep 2>/dev/null
cd /verif && VERIF_REPO=$wt ./check $id --tier $tier > /tmp/try_seed_$seed-$id.log 2>&1
echo "$seed:$id VIOLATION-lines=$(grep -c '^VIOLATION' /tmp/try_seed_$seed-$id.log) $(grep -E '^\[' /tmp/try_seed_$seed-$id.log | tail -1)"
[ -f /tmp/evidence-$id.keep ] && mv /tmp/evidence-$id.keep /verif/evidence/$id.json
rm -rf /verif/evidence/replay/$id-*
git -C /repo worktree remove --force $wt
